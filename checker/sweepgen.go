package main

import (
	"encoding/json"
	"flag"
	"fmt"
	"go/ast"
	"go/parser"
	"go/token"
	"os"
	"path/filepath"
	"sort"
	"strconv"
	"strings"

	"gohbaseverif/props"
)

// sweepgen enumerates small syntactic mutations (condition negation, comparison/logical operator
// swaps, statement deletion, break/continue swap, off-by-one literals, boolean literal flips) of the
// non-test sources of the packages the properties are anchored in, as offset-addressed edits. It is
// a development aid for finding holes in the rules (mutation sweep, see DESIGN.md section 9.5); it
// decides nothing.
func sweepgen(args []string) int {
	fs := flag.NewFlagSet("sweepgen", flag.ExitOnError)
	repo := fs.String("repo", envOr("VERIF_REPO", "/repo"), "")
	out := fs.String("out", "", "output file (edit list)")
	pkgs := fs.String("pkgs", ".,region,hrpc,compression/snappy", "")
	fs.Parse(args)
	var ms []props.Mutant
	for _, pk := range strings.Split(*pkgs, ",") {
		dir := filepath.Join(*repo, pk)
		ents, err := os.ReadDir(dir)
		if err != nil {
			fmt.Println(err)
			return 1
		}
		var files []string
		for _, e := range ents {
			if !e.IsDir() && strings.HasSuffix(e.Name(), ".go") && !strings.HasSuffix(e.Name(), "_test.go") {
				files = append(files, e.Name())
			}
		}
		sort.Strings(files)
		for _, f := range files {
			rel := filepath.Join(pk, f)
			if pk == "." {
				rel = f
			}
			ms = append(ms, mutateFile(*repo, rel)...)
		}
	}
	b, _ := json.MarshalIndent(ms, "", " ")
	if *out == "" {
		os.Stdout.Write(b)
	} else if err := os.WriteFile(*out, b, 0o644); err != nil {
		fmt.Println(err)
		return 1
	}
	fmt.Fprintf(os.Stderr, "%d mutants\n", len(ms))
	return 0
}

func mutateFile(repo, rel string) []props.Mutant {
	path := filepath.Join(repo, rel)
	src, err := os.ReadFile(path)
	if err != nil {
		return nil
	}
	fset := token.NewFileSet()
	f, err := parser.ParseFile(fset, path, src, parser.ParseComments)
	if err != nil {
		return nil
	}
	var out []props.Mutant
	off := func(p token.Pos) int { return fset.Position(p).Offset }
	curFn := ""
	add := func(kind string, start, end int, repl string) {
		line := fset.Position(f.FileStart + token.Pos(start)).Line
		_ = line
		ln := 1 + strings.Count(string(src[:start]), "\n")
		name := fmt.Sprintf("%s:%d:%s:%s", rel, ln, curFn, kind)
		out = append(out, props.Mutant{Name: name, Edits: []props.Edit{{File: rel, Old: string(src[start:end]), New: repl, Start: start, End: end}}})
	}
	text := func(n ast.Node) string { return string(src[off(n.Pos()):off(n.End())]) }
	swap := map[token.Token]string{token.LSS: "<=", token.LEQ: "<", token.GTR: ">=", token.GEQ: ">", token.EQL: "!=", token.NEQ: "==",
		token.LAND: "||", token.LOR: "&&", token.ADD: "-", token.SUB: "+"}
	delStmt := func(s ast.Stmt) {
		switch x := s.(type) {
		case *ast.ExprStmt, *ast.IncDecStmt, *ast.GoStmt, *ast.DeferStmt, *ast.SendStmt:
			add("del-stmt", off(s.Pos()), off(s.End()), "")
		case *ast.AssignStmt:
			if x.Tok != token.DEFINE {
				add("del-assign", off(s.Pos()), off(s.End()), "")
			}
		}
	}
	for _, d := range f.Decls {
		fd, ok := d.(*ast.FuncDecl)
		if !ok || fd.Body == nil {
			continue
		}
		curFn = fd.Name.Name
		if fd.Recv != nil && len(fd.Recv.List) > 0 {
			t := text(fd.Recv.List[0].Type)
			curFn = strings.TrimPrefix(t, "*") + "." + fd.Name.Name
		}
		ast.Inspect(fd.Body, func(n ast.Node) bool {
			switch x := n.(type) {
			case *ast.IfStmt:
				add("negate-if", off(x.Cond.Pos()), off(x.Cond.End()), "!("+text(x.Cond)+")")
			case *ast.ForStmt:
				if x.Cond != nil {
					add("negate-for", off(x.Cond.Pos()), off(x.Cond.End()), "!("+text(x.Cond)+")")
				}
			case *ast.BinaryExpr:
				if r, ok := swap[x.Op]; ok {
					// string concatenation: skip +/-
					if x.Op == token.ADD || x.Op == token.SUB {
						if bl, ok := x.X.(*ast.BasicLit); ok && bl.Kind == token.STRING {
							return true
						}
						if bl, ok := x.Y.(*ast.BasicLit); ok && bl.Kind == token.STRING {
							return true
						}
					}
					add("op-"+x.Op.String()+"-to-"+r, off(x.OpPos), off(x.OpPos)+len(x.Op.String()), r)
				}
				for _, side := range []ast.Expr{x.X, x.Y} {
					if bl, ok := side.(*ast.BasicLit); ok && bl.Kind == token.INT {
						if v, err := strconv.ParseInt(bl.Value, 0, 64); err == nil && v < 1<<20 {
							add("lit-plus-1", off(bl.Pos()), off(bl.End()), strconv.FormatInt(v+1, 10))
							if v > 0 {
								add("lit-minus-1", off(bl.Pos()), off(bl.End()), strconv.FormatInt(v-1, 10))
							}
						}
					}
				}
			case *ast.SliceExpr:
				for _, side := range []ast.Expr{x.Low, x.High} {
					if bl, ok := side.(*ast.BasicLit); ok && bl.Kind == token.INT {
						if v, err := strconv.ParseInt(bl.Value, 0, 64); err == nil {
							add("slice-lit-plus-1", off(bl.Pos()), off(bl.End()), strconv.FormatInt(v+1, 10))
						}
					}
				}
			case *ast.UnaryExpr:
				if x.Op == token.NOT {
					add("drop-not", off(x.Pos()), off(x.Pos())+1, "")
				}
			case *ast.Ident:
				if x.Name == "true" {
					add("true-to-false", off(x.Pos()), off(x.End()), "false")
				} else if x.Name == "false" {
					add("false-to-true", off(x.Pos()), off(x.End()), "true")
				}
			case *ast.BranchStmt:
				if x.Label == nil && x.Tok == token.CONTINUE {
					add("continue-to-break", off(x.Pos()), off(x.End()), "break")
				} else if x.Label == nil && x.Tok == token.BREAK {
					add("break-to-continue", off(x.Pos()), off(x.End()), "continue")
				}
			case *ast.BlockStmt:
				for _, s := range x.List {
					delStmt(s)
				}
			case *ast.CaseClause:
				for _, s := range x.Body {
					delStmt(s)
				}
			case *ast.CommClause:
				for _, s := range x.Body {
					delStmt(s)
				}
			}
			return true
		})
	}
	return out
}
