package kit

import (
	"fmt"
	"go/constant"
	"go/token"
	"go/types"
	"strings"
	"sync"

	"golang.org/x/tools/go/ssa"
)

// WithAnon returns fn followed by all function literals nested in it.
func WithAnon(fn *ssa.Function) []*ssa.Function {
	out := []*ssa.Function{fn}
	for _, a := range fn.AnonFuncs {
		out = append(out, WithAnon(a)...)
	}
	return out
}

// Instrs calls f for every instruction of fn (not of nested literals).
func Instrs(fn *ssa.Function, f func(ssa.Instruction)) {
	for _, b := range fn.Blocks {
		if b == fn.Recover {
			// the synthetic block that returns the named results after a recovered panic
			continue
		}
		for _, in := range b.Instrs {
			f(in)
		}
	}
}

// CalleeName returns the fully qualified name of the function or interface
// method a call resolves to through type information, e.g.
// "(*sync.Mutex).Lock", "bytes.Compare",
// "(github.com/tsuna/gohbase/hrpc.Call).ResultChan". Calls of function values
// yield "" (see CalleeValue). Builtins yield "builtin.<name>".
func CalleeName(c ssa.CallInstruction) string {
	cc := c.Common()
	if cc.IsInvoke() {
		return cc.Method.FullName()
	}
	switch v := cc.Value.(type) {
	case *ssa.Function:
		if v.Object() != nil {
			return oldNameOf(v.Prog, v.Object().(*types.Func).FullName())
		}
		return v.String()
	case *ssa.Builtin:
		return "builtin." + v.Name()
	case *ssa.MakeClosure:
		return v.Fn.String()
	}
	return ""
}

// ShortName strips the module prefix from a qualified name.
func ShortName(s string) string {
	s = strings.ReplaceAll(s, Module+"/", "")
	s = strings.ReplaceAll(s, Module+".", "gohbase.")
	return s
}

// M builds the full name of a module method: M("region","*client","send").
func M(rel, recv, name string) string {
	path := Module
	if rel != "" {
		path += "/" + rel
	}
	if recv == "" {
		return path + "." + name
	}
	if strings.HasPrefix(recv, "*") {
		return "(*" + path + "." + recv[1:] + ")." + name
	}
	return "(" + path + "." + recv + ")." + name
}

// StaticCallee returns the called module function if statically known
// (including immediately invoked closures).
func StaticCallee(c ssa.CallInstruction) *ssa.Function {
	cc := c.Common()
	if cc.IsInvoke() {
		return nil
	}
	switch v := cc.Value.(type) {
	case *ssa.Function:
		return v
	case *ssa.MakeClosure:
		return v.Fn.(*ssa.Function)
	}
	return nil
}

// Calls returns all call instructions (call, go, defer) in fn (not nested literals)
// whose resolved callee name is one of names.
func Calls(fn *ssa.Function, names ...string) []ssa.CallInstruction {
	var out []ssa.CallInstruction
	Instrs(fn, func(in ssa.Instruction) {
		if c, ok := in.(ssa.CallInstruction); ok {
			n := CalleeName(c)
			for _, w := range names {
				if n == w {
					out = append(out, c)
				}
			}
		}
	})
	return out
}

// CallArgs returns the arguments of a call including the receiver first
// (for both invoke-mode and static method calls).
func CallArgs(c ssa.CallInstruction) []ssa.Value {
	cc := c.Common()
	if cc.IsInvoke() {
		return append([]ssa.Value{cc.Value}, cc.Args...)
	}
	return cc.Args
}

// Strip removes value-preserving wrappers.
func Strip(v ssa.Value) ssa.Value {
	for {
		switch x := v.(type) {
		case *ssa.ChangeType:
			v = x.X
		case *ssa.ChangeInterface:
			v = x.X
		case *ssa.MakeInterface:
			v = x.X
		default:
			return v
		}
	}
}

// singleStore returns the only value stored to addr within the function that
// owns addr and its nested literals (through captured variables), or nil.
func singleStore(addr ssa.Value) ssa.Value {
	var fn *ssa.Function
	switch a := addr.(type) {
	case *ssa.Alloc:
		fn = a.Parent()
	default:
		return nil
	}
	var stored ssa.Value
	n := 0
	var visit func(f *ssa.Function, target ssa.Value)
	visit = func(f *ssa.Function, target ssa.Value) {
		Instrs(f, func(in ssa.Instruction) {
			switch s := in.(type) {
			case *ssa.Store:
				if s.Addr == target {
					n++
					stored = s.Val
				}
			case *ssa.MakeClosure:
				for i, b := range s.Bindings {
					if b == target {
						cf := s.Fn.(*ssa.Function)
						visit(cf, cf.FreeVars[i])
					}
				}
			}
		})
	}
	visit(fn, addr)
	if n == 1 {
		return stored
	}
	return nil
}

// singleStoreInstr is singleStore returning the store instruction as well.
func singleStoreInstr(addr ssa.Value) (ssa.Value, *ssa.Store) {
	a, ok := addr.(*ssa.Alloc)
	if !ok {
		return nil, nil
	}
	var the *ssa.Store
	n := 0
	var visit func(f *ssa.Function, target ssa.Value)
	visit = func(f *ssa.Function, target ssa.Value) {
		Instrs(f, func(in ssa.Instruction) {
			switch s := in.(type) {
			case *ssa.Store:
				if s.Addr == target {
					n++
					the = s
				}
			case *ssa.MakeClosure:
				for i, b := range s.Bindings {
					if b == target {
						cf := s.Fn.(*ssa.Function)
						visit(cf, cf.FreeVars[i])
					}
				}
			}
		})
	}
	visit(a.Parent(), a)
	if n == 1 {
		return the.Val, the
	}
	return nil, nil
}

// StoresTo lists all values stored to an Alloc (through closures as well).
func StoresTo(addr *ssa.Alloc) []ssa.Value {
	var out []ssa.Value
	var visit func(f *ssa.Function, target ssa.Value)
	visit = func(f *ssa.Function, target ssa.Value) {
		Instrs(f, func(in ssa.Instruction) {
			switch s := in.(type) {
			case *ssa.Store:
				if s.Addr == target {
					out = append(out, s.Val)
				}
			case *ssa.MakeClosure:
				for i, b := range s.Bindings {
					if b == target {
						cf := s.Fn.(*ssa.Function)
						visit(cf, cf.FreeVars[i])
					}
				}
			}
		})
	}
	visit(addr.Parent(), addr)
	return out
}

// FreeVarBinding maps a FreeVar of a literal to the value bound in the parent.
func FreeVarBinding(fv *ssa.FreeVar) ssa.Value { return freeVarBinding(fv) }

// freeVarBinding maps a FreeVar of a literal to the value bound in the parent.
func freeVarBinding(fv *ssa.FreeVar) ssa.Value {
	fn := fv.Parent()
	par := fn.Parent()
	if par == nil {
		return nil
	}
	idx := -1
	for i, f := range fn.FreeVars {
		if f == fv {
			idx = i
		}
	}
	var out ssa.Value
	Instrs(par, func(in ssa.Instruction) {
		if mc, ok := in.(*ssa.MakeClosure); ok && mc.Fn == fn && idx >= 0 {
			out = mc.Bindings[idx]
		}
	})
	return out
}

// chase resolves v through wrappers, loads of single-store locals (including
// variables captured by closures) and captured variables, stopping at phis.
func chase(v ssa.Value) ssa.Value {
	for i := 0; i < 64; i++ {
		v = Strip(v)
		switch x := v.(type) {
		case *ssa.UnOp:
			if x.Op == token.MUL {
				addr := x.X
				if fv, ok := addr.(*ssa.FreeVar); ok {
					if b := freeVarBinding(fv); b != nil {
						addr = b
					}
				}
				if s, st := singleStoreInstr(addr); s != nil {
					// within one function the store must dominate the load,
					// otherwise the zero value may be observed
					if st.Parent() != x.Parent() || Dominates(st, x) {
						v = s
						continue
					}
				}
			}
			return v
		case *ssa.FreeVar:
			if b := freeVarBinding(x); b != nil {
				v = b
				continue
			}
			return v
		default:
			return v
		}
	}
	return v
}

// Root resolves v through wrappers, loads of single-store locals and phis
// all of whose (transitive) non-phi inputs are one and the same value.
func Root(v ssa.Value) ssa.Value {
	v = chase(v)
	ph, ok := v.(*ssa.Phi)
	if !ok {
		return v
	}
	leaves := PhiLeaves(ph)
	if len(leaves) == 1 {
		return leaves[0]
	}
	return v
}

// PhiLeaves returns the distinct non-phi values flowing into phi (through
// nested phis and single-store locals).
func PhiLeaves(ph *ssa.Phi) []ssa.Value {
	var leaves []ssa.Value
	seenLeaf := map[ssa.Value]bool{}
	seenPhi := map[*ssa.Phi]bool{}
	var dfs func(p *ssa.Phi)
	dfs = func(p *ssa.Phi) {
		if seenPhi[p] {
			return
		}
		seenPhi[p] = true
		for _, e := range p.Edges {
			r := chase(e)
			if q, ok := r.(*ssa.Phi); ok {
				dfs(q)
				continue
			}
			if !seenLeaf[r] {
				seenLeaf[r] = true
				leaves = append(leaves, r)
			}
		}
	}
	dfs(ph)
	return leaves
}

// Same reports whether a and b are provably the same value.
func Same(a, b ssa.Value) bool {
	if Root(a) == Root(b) {
		return true
	}
	// the same value whenever it is not nil: a helper's result on its success return, nil on its error returns
	// (rpc, err := c.takeAnswered(id): rpc is what unregisterRPC returned, or nil together with an error)
	return rootModNil(a) == rootModNil(b)
}

func rootModNil(v ssa.Value) ssa.Value {
	r := Root(v)
	ph, ok := r.(*ssa.Phi)
	if !ok {
		return r
	}
	var one ssa.Value
	for _, l := range PhiLeaves(ph) {
		if IsNilConst(l) {
			continue
		}
		if one != nil && one != l {
			return r
		}
		one = l
	}
	if one == nil {
		return r
	}
	return one
}

// ConstInt returns the integer value of a constant.
func ConstInt(v ssa.Value) (int64, bool) {
	v = Strip(v)
	if cv, ok := v.(*ssa.Convert); ok {
		v = cv.X
	}
	c, ok := v.(*ssa.Const)
	if !ok || c.Value == nil {
		return 0, false
	}
	if c.Value.Kind() != constant.Int {
		return 0, false
	}
	i, ok := constant.Int64Val(c.Value)
	return i, ok
}

// IsNilConst reports whether v is the nil constant.
func IsNilConst(v ssa.Value) bool {
	c, ok := v.(*ssa.Const)
	return ok && c.Value == nil
}

// FieldRead describes v as a load of a struct field: returns the base and field.
func FieldRead(v ssa.Value) (base ssa.Value, f *types.Var) {
	v = Strip(v)
	switch x := v.(type) {
	case *ssa.UnOp:
		if x.Op == token.MUL {
			if fa, ok := x.X.(*ssa.FieldAddr); ok {
				return fa.X, FieldVar(fa.X.Type(), fa.Field)
			}
		}
	case *ssa.Field:
		return x.X, FieldVar(x.X.Type(), x.Field)
	case *ssa.Call:
		if b, f, deref := ProtoGetter(x); f != nil && !deref {
			return b, f
		}
	}
	return nil, nil
}

// ProtoGetter recognises a call of a generated nil-safe getter (*T).GetF() of a protobuf message: a method
// named Get+F on a pointer to a struct with a field F whose body reads that field of its receiver and nothing
// else of it. It returns the receiver, the field, and whether the getter dereferences the field (optional
// scalars: F is *uint32 and GetF returns uint32).
func ProtoGetter(call *ssa.Call) (base ssa.Value, f *types.Var, deref bool) {
	fn := call.Call.StaticCallee()
	if fn == nil || call.Call.IsInvoke() || fn.Signature.Recv() == nil || len(call.Call.Args) != 1 || fn.Signature.Results().Len() != 1 {
		return nil, nil, false
	}
	name := fn.Name()
	if !strings.HasPrefix(name, "Get") || len(fn.Blocks) == 0 {
		return nil, nil, false
	}
	pt, ok := fn.Signature.Recv().Type().Underlying().(*types.Pointer)
	if !ok {
		return nil, nil, false
	}
	st, ok := pt.Elem().Underlying().(*types.Struct)
	if !ok {
		return nil, nil, false
	}
	var fv *types.Var
	for i := 0; i < st.NumFields(); i++ {
		if st.Field(i).Name() == name[3:] {
			fv = st.Field(i)
		}
	}
	if fv == nil {
		return nil, nil, false
	}
	// the body touches no other field of the receiver, calls nothing and stores nothing
	clean := true
	Instrs(fn, func(in ssa.Instruction) {
		switch x := in.(type) {
		case *ssa.FieldAddr:
			if x.X == ssa.Value(fn.Params[0]) && FieldVar(x.X.Type(), x.Field) != fv {
				clean = false
			}
		case *ssa.Call, *ssa.Store, *ssa.Go, *ssa.Defer, *ssa.Send, *ssa.MapUpdate:
			clean = false
		}
	})
	if !clean {
		return nil, nil, false
	}
	res := fn.Signature.Results().At(0).Type()
	switch {
	case types.Identical(res, fv.Type()):
		return call.Call.Args[0], fv, false
	default:
		if p, ok := fv.Type().Underlying().(*types.Pointer); ok && types.Identical(res, p.Elem()) {
			return call.Call.Args[0], fv, true
		}
	}
	return nil, nil, false
}

// FieldVar returns the i-th field of the struct (or pointer to struct) type t.
func FieldVar(t types.Type, i int) *types.Var {
	if p, ok := t.Underlying().(*types.Pointer); ok {
		t = p.Elem()
	}
	st, ok := t.Underlying().(*types.Struct)
	if !ok || i >= st.NumFields() {
		return nil
	}
	return st.Field(i)
}

// Path renders an access path for an address or value, for diagnostics and
// for telling apart lock objects: parameters and captured variables by name,
// fields by name.
func Path(v ssa.Value) string {
	for i := 0; i < 32; i++ {
		v = Strip(v)
		switch x := v.(type) {
		case *ssa.Parameter:
			return x.Name()
		case *ssa.FreeVar:
			return x.Name()
		case *ssa.Global:
			return x.Name()
		case *ssa.Alloc:
			if x.Comment != "" {
				return x.Comment
			}
			return x.Name()
		case *ssa.FieldAddr:
			f := FieldVar(x.X.Type(), x.Field)
			return Path(x.X) + "." + f.Name()
		case *ssa.Field:
			f := FieldVar(x.X.Type(), x.Field)
			return Path(x.X) + "." + f.Name()
		case *ssa.UnOp:
			if x.Op == token.MUL {
				v = x.X
				continue
			}
			return x.Name()
		case *ssa.Call:
			return ShortName(CalleeName(x)) + "()"
		case *ssa.Extract:
			return Path(x.Tuple) + fmt.Sprintf("#%d", x.Index)
		case *ssa.Phi:
			if x.Comment != "" {
				return x.Comment
			}
			return x.Name()
		default:
			return v.Name()
		}
	}
	return v.Name()
}

// ReceiverNamed returns the name of the named type behind t (pointers stripped).
func ReceiverNamed(t types.Type) *types.Named {
	if p, ok := t.(*types.Pointer); ok {
		t = p.Elem()
	}
	n, _ := t.(*types.Named)
	return n
}

// Referrers returns the instructions using v (nil-safe).
func Referrers(v ssa.Value) []ssa.Instruction {
	r := v.Referrers()
	if r == nil {
		return nil
	}
	return *r
}

// ExtractOf returns the Extract instructions of index i of tuple call c.
func ExtractOf(c ssa.Value, i int) ssa.Value {
	for _, r := range Referrers(c) {
		if e, ok := r.(*ssa.Extract); ok && e.Index == i {
			return e
		}
	}
	return nil
}

// Res returns result i of a return instruction, resolved through the result variables go/ssa
// introduces in functions that defer (store, rundefers, load, return): the stored value is returned
// when the store dominates the load.
func Res(r *ssa.Return, i int) ssa.Value {
	v := r.Results[i]
	if u, ok := v.(*ssa.UnOp); ok && u.Op == token.MUL {
		if a, ok := u.X.(*ssa.Alloc); ok && !a.Heap {
			// the value stored last before the load on the straight-line path, if any
			b := u.Block()
			for k := InstrIndex(u) - 1; k >= 0; k-- {
				if st, ok := b.Instrs[k].(*ssa.Store); ok && st.Addr == ssa.Value(a) {
					return st.Val
				}
			}
			// single predecessor chain
			for p := b; len(p.Preds) == 1; {
				p = p.Preds[0]
				for k := len(p.Instrs) - 1; k >= 0; k-- {
					if st, ok := p.Instrs[k].(*ssa.Store); ok && st.Addr == ssa.Value(a) {
						return st.Val
					}
				}
			}
		}
	}
	return v
}

var sentinelCache sync.Map // *ssa.Global -> bool

// NonNil reports values that are certainly not nil: interfaces made from concrete values, fresh
// allocations, closures, results of errors.New / fmt.Errorf, and loads of package-level variables
// that are assigned a non-nil value once, in the package initialiser, and nowhere else (error
// sentinels such as ErrClientClosed, TableNotFound).
func NonNil(v ssa.Value) bool {
	for {
		if ct, ok := v.(*ssa.ChangeType); ok {
			v = ct.X
		} else if ci, ok := v.(*ssa.ChangeInterface); ok {
			v = ci.X
		} else {
			break
		}
	}
	if _, ok := v.(*ssa.MakeInterface); ok {
		return true // an interface holding a concrete value, even a nil pointer, is not nil
	}
	switch x := v.(type) {
	case *ssa.MakeInterface, *ssa.Alloc, *ssa.MakeClosure, *ssa.Function, *ssa.MakeMap, *ssa.MakeChan, *ssa.MakeSlice:
		return true
	case *ssa.Const:
		return !x.IsNil()
	case *ssa.Call:
		n := CalleeName(x)
		return n == "errors.New" || n == "fmt.Errorf"
	case *ssa.UnOp:
		if x.Op != token.MUL {
			return false
		}
		g, ok := x.X.(*ssa.Global)
		if !ok || g.Pkg == nil {
			return false
		}
		if c, ok := sentinelCache.Load(g); ok {
			return c.(bool)
		}
		res := false
		stores, bad := 0, false
		for _, m := range g.Pkg.Members {
			fn, ok := m.(*ssa.Function)
			if !ok {
				continue
			}
			scanGlobalStores(fn, g, &stores, &bad)
		}
		// methods and literals
		for fn := range allFuncsOf(g.Pkg) {
			scanGlobalStores(fn, g, &stores, &bad)
		}
		res = stores > 0 && !bad
		sentinelCache.Store(g, res)
		return res
	}
	return false
}

func scanGlobalStores(fn *ssa.Function, g *ssa.Global, stores *int, bad *bool) {
	seen := map[*ssa.Function]bool{}
	var visit func(f *ssa.Function)
	visit = func(f *ssa.Function) {
		if seen[f] {
			return
		}
		seen[f] = true
		for _, b := range f.Blocks {
			for _, in := range b.Instrs {
				switch x := in.(type) {
				case *ssa.Store:
					if x.Addr == ssa.Value(g) {
						if f.Name() == "init" && f.Parent() == nil && NonNil(x.Val) {
							*stores++
						} else {
							*bad = true
						}
					}
				case *ssa.Call:
					// address taken: anything may write it
					for _, a := range x.Call.Args {
						if a == ssa.Value(g) {
							*bad = true
						}
					}
				}
			}
		}
		for _, a := range f.AnonFuncs {
			visit(a)
		}
	}
	visit(fn)
}

func allFuncsOf(pkg *ssa.Package) map[*ssa.Function]bool {
	out := map[*ssa.Function]bool{}
	for _, m := range pkg.Members {
		if t, ok := m.(*ssa.Type); ok {
			for _, typ := range []types.Type{t.Type(), types.NewPointer(t.Type())} {
				ms := pkg.Prog.MethodSets.MethodSet(typ)
				for i := 0; i < ms.Len(); i++ {
					if fn := pkg.Prog.MethodValue(ms.At(i)); fn != nil && fn.Pkg == pkg {
						out[fn] = true
					}
				}
			}
		}
	}
	return out
}

// ReachingStore returns the value of the store to local a that reaches instruction at on every
// path: the last store before it in its block, or in the chain of unique predecessors. The walk gives
// up at a block with several predecessors and at any call when the local is shared with a closure that is
// not merely deferred (such a closure could write it in between).
func ReachingStore(at ssa.Instruction, a *ssa.Alloc) ssa.Value {
	v := reachingStore(at, a)
	for n := 0; v != nil && n < 4; n++ {
		// "return err" with a named result err: the stored value is itself a load of the local
		u, isLoad := v.(*ssa.UnOp)
		if !isLoad || u.Op != token.MUL {
			break
		}
		a2, isLocal := u.X.(*ssa.Alloc)
		if !isLocal {
			break
		}
		w := reachingStore(u, a2)
		if w == nil {
			break
		}
		v = w
	}
	return v
}

func reachingStore(at ssa.Instruction, a *ssa.Alloc) ssa.Value {
	shared := false
	for _, r := range Referrers(a) {
		switch x := r.(type) {
		case *ssa.Store:
			if x.Addr != ssa.Value(a) {
				shared = true
			}
		case *ssa.UnOp:
		case *ssa.MakeClosure:
			for _, u := range Referrers(x) {
				if _, isDefer := u.(*ssa.Defer); !isDefer {
					shared = true
				}
			}
		case *ssa.DebugRef:
		default:
			shared = true
		}
	}
	b := at.Block()
	i := InstrIndex(at) - 1
	for n := 0; n < 16; n++ {
		for ; i >= 0; i-- {
			switch x := b.Instrs[i].(type) {
			case *ssa.Store:
				if x.Addr == ssa.Value(a) {
					return x.Val
				}
			case ssa.CallInstruction:
				if _, isDefer := x.(*ssa.Defer); !isDefer && shared {
					return nil
				}
			}
		}
		if len(b.Preds) != 1 {
			return nil
		}
		b = b.Preds[0]
		i = len(b.Instrs) - 1
	}
	return nil
}
