package kit

import (
	"go/token"
	"go/types"
	"strings"

	"golang.org/x/tools/go/ssa"
)

// Callees resolves the possible targets of a call instruction among the
// analysed functions: the static callee, a function literal called through a
// local, or for interface calls the call-graph (CHA, or VTA in the thorough
// tier) targets. resolved=false if the callee is a function value that cannot
// be traced (parameter or struct field).
func (p *Prog) Callees(c ssa.CallInstruction) (out []*ssa.Function, resolved bool) {
	cc := c.Common()
	if cc.IsInvoke() {
		caller := p.CG.Nodes[c.Parent()]
		if caller != nil {
			for _, e := range caller.Out {
				if e.Site == c && e.Callee.Func != nil && e.Callee.Func.Blocks != nil && p.IsSubject(e.Callee.Func) {
					out = append(out, e.Callee.Func)
				}
			}
		}
		return out, true
	}
	switch v := cc.Value.(type) {
	case *ssa.Function:
		return []*ssa.Function{v}, true
	case *ssa.Builtin:
		return nil, true
	case *ssa.MakeClosure:
		return []*ssa.Function{v.Fn.(*ssa.Function)}, true
	}
	switch r := Root(cc.Value).(type) {
	case *ssa.MakeClosure:
		return []*ssa.Function{r.Fn.(*ssa.Function)}, true
	case *ssa.Function:
		return []*ssa.Function{r}, true
	}
	return nil, false
}

// Reach is the set of functions reachable from entry points over synchronous
// call edges (call and defer, not go).
type Reach struct {
	Funcs      map[*ssa.Function]bool
	Order      []*ssa.Function
	Via        map[*ssa.Function]ssa.Instruction
	Unresolved []ssa.CallInstruction
}

// SyncReach computes the synchronous call closure of entries. Function
// literals created in a reached function are considered called there unless
// they are only started with go. skip can prune callees (returns true to skip).
func (p *Prog) SyncReach(entries []*ssa.Function, skip func(site ssa.CallInstruction, callee *ssa.Function) bool) *Reach {
	r := &Reach{Funcs: map[*ssa.Function]bool{}, Via: map[*ssa.Function]ssa.Instruction{}}
	var work []*ssa.Function
	add := func(fn *ssa.Function, via ssa.Instruction) {
		if fn == nil || fn.Blocks == nil || r.Funcs[fn] || !p.IsSubject(fn) {
			return
		}
		r.Funcs[fn] = true
		r.Order = append(r.Order, fn)
		r.Via[fn] = via
		work = append(work, fn)
	}
	for _, e := range entries {
		add(e, nil)
	}
	for len(work) > 0 {
		fn := work[0]
		work = work[1:]
		Instrs(fn, func(in ssa.Instruction) {
			switch x := in.(type) {
			case *ssa.Go:
				return
			case ssa.CallInstruction:
				cs, ok := p.Callees(x)
				if !ok {
					r.Unresolved = append(r.Unresolved, x)
				}
				for _, cal := range cs {
					if skip != nil && skip(x, cal) {
						continue
					}
					add(cal, x)
				}
				// literals passed as arguments run inside the callee (once.Do, tree.Put, ...)
				for _, a := range x.Common().Args {
					switch f := Strip(a).(type) {
					case *ssa.MakeClosure:
						add(f.Fn.(*ssa.Function), x)
					case *ssa.Function:
						if f.Parent() != nil {
							add(f, x)
						}
					}
				}
			}
		})
	}
	return r
}

// BlockingOp is a potentially blocking operation.
type BlockingOp struct {
	Instr ssa.Instruction
	Kind  string // select, recv, send, call:<name>
	Fn    *ssa.Function
}

var blockingCalls = map[string]bool{
	"time.Sleep": true, "(*sync.WaitGroup).Wait": true, "(*sync.Cond).Wait": true,
	"(net.Conn).Write": true, "(net.Conn).Read": true, "(*net.Buffers).WriteTo": true,
	"io.ReadFull": true, "(*bufio.Reader).Read": true, "(io.Reader).Read": true, "(io.Writer).Write": true,
	"io.Copy": true, "io.ReadAll": true,
}

// BlockingOps lists the blocking operations of fn: blocking selects, channel
// receives and sends outside a select, range over a channel, and calls that
// sleep, wait or perform network I/O.
func BlockingOps(fn *ssa.Function) []BlockingOp {
	var out []BlockingOp
	Instrs(fn, func(in ssa.Instruction) {
		switch x := in.(type) {
		case *ssa.Select:
			if x.Blocking {
				out = append(out, BlockingOp{x, "select", fn})
			}
		case *ssa.UnOp:
			if x.Op == token.ARROW {
				out = append(out, BlockingOp{x, "recv", fn})
			}
		case *ssa.Send:
			out = append(out, BlockingOp{x, "send", fn})
		case *ssa.Next:
			if rg, ok := x.Iter.(*ssa.Range); ok {
				if _, isChan := rg.X.Type().Underlying().(*types.Chan); isChan {
					out = append(out, BlockingOp{x, "range-chan", fn})
				}
			}
		case ssa.CallInstruction:
			if _, isGo := in.(*ssa.Go); isGo {
				return
			}
			n := CalleeName(x)
			if blockingCalls[n] {
				out = append(out, BlockingOp{x, "call:" + n, fn})
			}
		}
	})
	return out
}

// ImplementsCall reports whether type t (or *t) implements the named module interface.
func (p *Prog) Implements(t types.Type, rel, iface string) bool {
	n := p.Named(rel, iface)
	if n == nil {
		return false
	}
	it, ok := n.Underlying().(*types.Interface)
	if !ok {
		return false
	}
	if types.Implements(t, it) {
		return true
	}
	if _, isPtr := t.(*types.Pointer); !isPtr {
		return types.Implements(types.NewPointer(t), it)
	}
	return false
}

// IsMethodNamed reports whether call c invokes (statically or through an
// interface) a method with the given name on a receiver whose type implements
// module interface rel.iface. Returns the receiver value.
func (p *Prog) IsMethodOn(c ssa.CallInstruction, rel, iface, method string) (ssa.Value, bool) {
	cc := c.Common()
	if cc.IsInvoke() {
		if cc.Method.Name() != method {
			return nil, false
		}
		if p.Implements(cc.Value.Type(), rel, iface) {
			return cc.Value, true
		}
		return nil, false
	}
	fn := StaticCallee(c)
	if fn == nil || fn.Name() != method || fn.Signature.Recv() == nil || len(cc.Args) == 0 {
		return nil, false
	}
	recv := cc.Args[0]
	// promoted method through embedded struct: receiver is &x.base; walk up to the outer object
	base := recv
	for {
		if fa, ok := base.(*ssa.FieldAddr); ok {
			f := FieldVar(fa.X.Type(), fa.Field)
			if f != nil && f.Embedded() {
				base = fa.X
				continue
			}
		}
		break
	}
	if p.Implements(base.Type(), rel, iface) {
		return base, true
	}
	if p.Implements(recv.Type(), rel, iface) {
		return recv, true
	}
	// the method set of the embedded struct alone may not implement the
	// interface; accept embedded base types of module call structs
	if strings.HasSuffix(recv.Type().String(), "/hrpc.base") && iface == "Call" {
		return base, true
	}
	return nil, false
}
