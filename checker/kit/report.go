package kit

import (
	"bufio"
	"encoding/json"
	"fmt"
	"go/token"
	"os"
	"path/filepath"
	"sort"
	"strings"
	"time"

	"golang.org/x/tools/go/ssa"
)

// Verdict of one obligation.
type Verdict string

const (
	Discharged Verdict = "discharged"
	Violated   Verdict = "violated"
	Undecided  Verdict = "undecided"
)

// Obligation is one construct a rule ranges over together with its verdict.
type Obligation struct {
	Rule    string  `json:"rule"`
	Key     string  `json:"key"`
	Pos     string  `json:"pos"`
	Verdict Verdict `json:"verdict"`
	Why     string  `json:"why"`
	Witness string  `json:"witness,omitempty"`
	Known   bool    `json:"known_finding,omitempty"`
}

// Rule describes a rule instance for the evidence file.
type Rule struct {
	ID   string `json:"id"`
	Text string `json:"text"`
	Min  int    `json:"min_instances"`
	N    int    `json:"instances"`
}

// Ctx collects the obligations of one property run.
type Ctx struct {
	// Frozen: StartRule is a no-op (obligations of an embedded property run land in the current rule).
	Frozen  bool
	Prop    string
	P       *Prog
	Obls    []Obligation
	Rules   []*Rule
	rule    *Rule
	keys    map[string]int
	Anchors int
	Tables  []string
	Funcs   map[string]bool
	Assume  []string
	Notes   []string
	// Scratch carries data from a rule set to its thorough-tier extras.
	Scratch map[string]any
}

// NewCtx creates a context for property prop.
func NewCtx(prop string, p *Prog) *Ctx {
	return &Ctx{Prop: prop, P: p, keys: map[string]int{}, Funcs: map[string]bool{}, Scratch: map[string]any{}}
}

// StartRule opens a rule instance; min is the number of obligations confirmed
// by hand on the pinned tree below which the rule is considered vacuous.
func (c *Ctx) StartRule(id, text string, min int) {
	if c.Frozen {
		// the rules of another property are being run as one shared rule of this one
		return
	}
	c.rule = &Rule{ID: c.Prop + "." + id, Text: text, Min: min}
	c.Rules = append(c.Rules, c.rule)
}

func (c *Ctx) add(v Verdict, fnName, kind string, pos token.Pos, why, witness string) {
	line := c.P.Line(pos)
	base := fmt.Sprintf("%s|%s|%s|%s", c.rule.ID, fnName, kind, line)
	n := c.keys[base]
	c.keys[base] = n + 1
	key := fmt.Sprintf("%s|%d", base, n)
	c.rule.N++
	c.Obls = append(c.Obls, Obligation{Rule: c.rule.ID, Key: key, Pos: c.P.Pos(pos), Verdict: v, Why: why, Witness: witness})
}

// OK records a discharged obligation.
func (c *Ctx) OK(fn *ssa.Function, kind string, pos token.Pos, why string) {
	c.add(Discharged, FuncName(fn), kind, pos, why, "")
}

// Bad records a violated obligation.
func (c *Ctx) Bad(fn *ssa.Function, kind string, pos token.Pos, why, witness string) {
	c.add(Violated, FuncName(fn), kind, pos, why, witness)
}

// Unk records an obligation whose construct matches no recognised idiom.
func (c *Ctx) Unk(fn *ssa.Function, kind string, pos token.Pos, why string) {
	c.add(Undecided, FuncName(fn), kind, pos, why, "")
}

// Check records OK or Bad depending on cond.
func (c *Ctx) Check(cond bool, fn *ssa.Function, kind string, pos token.Pos, okWhy, badWhy string) bool {
	if cond {
		c.OK(fn, kind, pos, okWhy)
	} else {
		c.Bad(fn, kind, pos, badWhy, "")
	}
	return cond
}

// Anchor resolves a function anchor; failure is a violation (the code the
// rule was written for is gone and must be re-read).
func (c *Ctx) Anchor(rel, recv, name string) *ssa.Function {
	fn := c.P.Func(rel, recv, name)
	if fn == nil || fn.Blocks == nil {
		// inlined into its only caller? then the caller is read in its place (tables/anchor_hosts.txt)
		if host := c.anchorHost(rel, recv, name); host != nil {
			c.Anchors++
			c.Funcs[FuncName(host)] = true
			return host
		}
		if c.rule == nil {
			c.StartRule("anchors", "anchors resolve", 0)
		}
		c.add(Undecided, rel+"."+recv+"."+name, "unresolved-anchor", token.NoPos,
			fmt.Sprintf("anchor function %s.%s.%s not found: the rule must be re-read against the new code", rel, recv, name), "")
		return nil
	}
	c.Anchors++
	c.Funcs[FuncName(fn)] = true
	return fn
}

// Table records a reasoned table entry used by this run.
func (c *Ctx) Table(entry string) { c.Tables = append(c.Tables, entry) }

// Assumption records an assumption for the evidence.
func (c *Ctx) Assumption(s string) { c.Assume = append(c.Assume, s) }

// BlockPath renders a witness path.
func (c *Ctx) BlockPath(e *Exit) string {
	if e == nil {
		return ""
	}
	var parts []string
	last := ""
	for _, b := range e.Path {
		var pos token.Pos
		for _, in := range b.Instrs {
			if in.Pos().IsValid() {
				pos = in.Pos()
				break
			}
		}
		s := c.P.Pos(pos)
		if s != last && s != "-" {
			parts = append(parts, s)
			last = s
		}
	}
	end := "exit"
	if e.Instr != nil {
		end = c.P.Pos(e.Instr.Pos())
		if _, ok := e.Instr.(*ssa.Panic); ok {
			end += " (panic)"
		} else if _, ok := e.Instr.(*ssa.Return); ok {
			end += " (return)"
		}
	}
	if len(parts) > 12 {
		parts = append(parts[:6], append([]string{"..."}, parts[len(parts)-5:]...)...)
	}
	return strings.Join(parts, " -> ") + " => " + end
}

// ---------------------------------------------------------------------------

// Finding is an entry of known_findings.jsonl.
type Finding struct {
	Property  string `json:"property"`
	Rule      string `json:"rule"`
	Construct string `json:"construct"`
	What      string `json:"what"`
	Status    string `json:"status"` // known | fixed
	Commit    string `json:"commit,omitempty"`
}

// LoadFindings reads the known-findings file (never written at run time).
// Format, one entry per line:
//
//	fixed: property=<id> <commit> <what failed>
//	known: property=<id> construct=<rule|func|kind|line|ordinal> :: <what fails>
//
// Only "known" entries suppress anything, and only the exact construct they name.
func LoadFindings(path string) ([]Finding, error) {
	f, err := os.Open(path)
	if err != nil {
		if os.IsNotExist(err) {
			return nil, nil
		}
		return nil, err
	}
	defer f.Close()
	var out []Finding
	sc := bufio.NewScanner(f)
	sc.Buffer(make([]byte, 1<<20), 1<<20)
	n := 0
	for sc.Scan() {
		n++
		line := strings.TrimSpace(sc.Text())
		if line == "" || strings.HasPrefix(line, "#") {
			continue
		}
		switch {
		case strings.HasPrefix(line, "fixed: property="):
			rest := strings.TrimPrefix(line, "fixed: property=")
			parts := strings.SplitN(rest, " ", 3)
			if len(parts) < 3 {
				return nil, fmt.Errorf("%s:%d: malformed fixed entry", path, n)
			}
			out = append(out, Finding{Property: parts[0], Commit: parts[1], What: parts[2], Status: "fixed"})
		case strings.HasPrefix(line, "known: property="):
			rest := strings.TrimPrefix(line, "known: property=")
			i := strings.Index(rest, " construct=")
			j := strings.Index(rest, " :: ")
			if i < 0 || j < i {
				return nil, fmt.Errorf("%s:%d: malformed known entry", path, n)
			}
			out = append(out, Finding{Property: rest[:i], Construct: rest[i+len(" construct=") : j], What: rest[j+4:], Status: "known"})
		default:
			return nil, fmt.Errorf("%s:%d: unrecognised entry", path, n)
		}
	}
	return out, sc.Err()
}

// Result is the outcome of Finish.
type Result struct {
	Violations int
	Known      int
	Lines      []string
}

// Finish matches obligations against known findings, writes reports and the
// evidence file, and returns the lines to print.
func (c *Ctx) Finish(verifDir, tier string, seed int64, started time.Time, findings []Finding, extra map[string]any) Result {
	var res Result
	// vacuity: a rule that saw fewer instances than confirmed by hand fails.
	for _, r := range c.Rules {
		if r.N < r.Min {
			c.rule = r
			c.add(Undecided, "-", "vacuous-rule", token.NoPos,
				fmt.Sprintf("rule ranged over %d constructs, at least %d were confirmed on the pinned tree: the rule no longer sees the code it was written for", r.N, r.Min), "")
		}
	}
	repDir := filepath.Join(verifDir, "reports", c.Prop)
	os.RemoveAll(repDir)
	os.MkdirAll(repDir, 0o755)
	os.MkdirAll(filepath.Join(verifDir, "evidence"), 0o755)

	known := map[string]Finding{}
	for _, f := range findings {
		if f.Property == c.Prop && f.Status == "known" {
			known[f.Construct] = f
		}
	}
	nDis, nVio, nUnd := 0, 0, 0
	n := 0
	for i := range c.Obls {
		o := &c.Obls[i]
		switch o.Verdict {
		case Discharged:
			nDis++
			continue
		case Violated:
			nVio++
		case Undecided:
			nUnd++
		}
		// strip ordinal for matching known findings by rule+construct
		if f, ok := known[o.Key]; ok {
			o.Known = true
			res.Known++
			res.Lines = append(res.Lines, fmt.Sprintf("KNOWN-FINDING: property=%s %s [%s at %s]", c.Prop, f.What, o.Rule, o.Pos))
			continue
		}
		n++
		path := filepath.Join(repDir, fmt.Sprintf("%03d.json", n))
		b, _ := json.MarshalIndent(map[string]any{
			"property": c.Prop, "rule": o.Rule, "construct": o.Key, "position": o.Pos,
			"verdict": o.Verdict, "explanation": o.Why, "witness": o.Witness,
			"rule_text": c.ruleText(o.Rule),
			"replay":    fmt.Sprintf("bin/gohbase-verif explain reports/%s/%03d.json", c.Prop, n),
		}, "", " ")
		os.WriteFile(path, b, 0o644)
		res.Violations++
		res.Lines = append(res.Lines, fmt.Sprintf("%s: %s %s: %s%s", o.Pos, o.Rule, o.Verdict, o.Why, witnessSuffix(o.Witness)))
		res.Lines = append(res.Lines, fmt.Sprintf("VIOLATION property=%s replay=reports/%s/%03d.json", c.Prop, c.Prop, n))
	}

	// samples: a spread of actual obligations
	var samples []any
	perRule := map[string]int{}
	for _, o := range c.Obls {
		if perRule[o.Rule] >= 3 {
			continue
		}
		perRule[o.Rule]++
		samples = append(samples, o)
	}
	for _, o := range c.Obls {
		if o.Verdict != Discharged && len(samples) < 80 {
			samples = append(samples, o)
		}
	}
	var fns []string
	for f := range c.Funcs {
		fns = append(fns, f)
	}
	sort.Strings(fns)
	var pkgs []string
	for _, pk := range c.P.Pkgs {
		pkgs = append(pkgs, pk.PkgPath)
	}
	cov := map[string]any{
		"explanation":            extra["explanation"],
		"obligations":            len(c.Obls),
		"discharged":             nDis + res.Known,
		"violated":               nVio,
		"undecided":              nUnd,
		"known_findings_matched": res.Known,
		"rules":                  c.Rules,
		"anchors_resolved":       c.Anchors,
		"functions_analysed":     fns,
		"functions_in_program":   len(c.P.Funcs),
		"packages":               pkgs,
		"config":                 c.P.Config,
		"call_graph":             c.P.CGKind,
		"tables":                 c.Tables,
		"samples":                samples,
		"exhaustive":             true,
		"checker_cmd":            fmt.Sprintf("bin/gohbase-verif check %s --tier %s", c.Prop, tier),
		"trusted_base":           []string{"go/types", "golang.org/x/tools/go/ssa v0.29.0", "the reasoned tables printed under coverage.tables"},
	}
	for k, v := range extra {
		if k != "explanation" {
			cov[k] = v
		}
	}
	ev := map[string]any{
		"property_id": c.Prop,
		"tier":        tier,
		"seed":        seed,
		"level":       "other",
		"coverage":    cov,
		"assumptions": append([]string{
			"go/types and go/ssa (x/tools v0.29.0) represent the program faithfully; configuration linux/amd64 without build tags, non-test files",
			"lock objects are identified by mutex field (one object of each guarded type per function)",
			"test override hooks (establishRegionOverride, sleepAndIncreaseBackoffOverride) are nil in production",
		}, c.Assume...),
		"wall_s":     time.Since(started).Seconds(),
		"violations": res.Violations,
	}
	b, _ := json.MarshalIndent(ev, "", " ")
	os.WriteFile(filepath.Join(verifDir, "evidence", c.Prop+".json"), b, 0o644)
	return res
}

func witnessSuffix(w string) string {
	if w == "" {
		return ""
	}
	return " [witness: " + w + "]"
}

func (c *Ctx) ruleText(id string) string {
	for _, r := range c.Rules {
		if r.ID == id {
			return r.Text
		}
	}
	return ""
}

// VerifRoot is the directory of the verification machinery (tables/, mutants/, ...), set by main.
var VerifRoot = "/verif"

// VerifDir returns the directory that holds the frozen tables.
func (c *Ctx) VerifDir() string { return VerifRoot }

// anchorHost looks a missing anchor up in tables/anchor_hosts.txt.
func (c *Ctx) anchorHost(rel, recv, name string) *ssa.Function {
	b, err := os.ReadFile(filepath.Join(VerifRoot, "tables", "anchor_hosts.txt"))
	if err != nil {
		return nil
	}
	for _, line := range strings.Split(string(b), "\n") {
		line = strings.TrimSpace(line)
		if line == "" || strings.HasPrefix(line, "#") {
			continue
		}
		parts := strings.Split(line, "=>")
		if len(parts) != 2 {
			continue
		}
		l, r := strings.Fields(parts[0]), strings.Fields(parts[1])
		if len(l) != 3 || len(r) != 2 {
			continue
		}
		dash := func(x string) string {
			if x == "-" {
				return ""
			}
			return x
		}
		if dash(l[0]) != rel || dash(l[1]) != recv || l[2] != name {
			continue
		}
		host := c.P.Func(rel, dash(r[0]), r[1])
		if host != nil && host.Blocks != nil {
			c.Table(fmt.Sprintf("anchor %s.%s.%s no longer exists: read in %s, the function it was inlined into (tables/anchor_hosts.txt)", rel, recv, name, FuncName(host)))
			return host
		}
	}
	return nil
}
