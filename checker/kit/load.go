// Package kit holds the analysis infrastructure shared by all rules:
// loading /repo into typed syntax + SSA, anchors, CFG queries, lock sets,
// value provenance and the obligation/evidence model.
package kit

import (
	"fmt"
	"go/ast"
	"go/token"
	"go/types"
	"os"
	"path/filepath"
	"sort"
	"strings"
	"sync"

	"golang.org/x/tools/go/callgraph"
	"golang.org/x/tools/go/callgraph/cha"
	"golang.org/x/tools/go/callgraph/vta"
	"golang.org/x/tools/go/packages"
	"golang.org/x/tools/go/ssa"
	"golang.org/x/tools/go/ssa/ssautil"
)

// Module is the import path of the analysed module.
const Module = "github.com/tsuna/gohbase"

// Prog is the resolved program: typed syntax, SSA and a call graph for the
// module packages of the repository under analysis.
type Prog struct {
	Dir    string
	Fset   *token.FileSet
	Pkgs   []*packages.Package
	ByPath map[string]*packages.Package
	SSA    *ssa.Program
	SSAPkg map[string]*ssa.Package
	// Funcs lists every module function with a body (methods, package
	// functions, function literals), test files excluded, generated pb excluded.
	Funcs []*ssa.Function
	// All lists the same including pb (used only for call graph construction).
	All map[*ssa.Function]bool

	// Normalized: number of call sites of unknown functions expanded before analysis.
	Normalized int
	// Renamed: known function key -> key of the function that took its place (one name lost, one gained on the
	// same receiver or in the same package).
	Renamed map[string]string

	CG      *callgraph.Graph
	CGKind  string
	Config  string
	srcOnce map[string][]string
}

// DefaultKnown is the known-function table used when LoadOptions.Known is nil (set by main from
// tables/known_funcs.txt).
var DefaultKnown map[string]bool

// DefaultSigs: key -> signature of the known functions (tables/known_sigs.txt).
var DefaultSigs map[string]string

// ReadSigs reads a signature table (key TAB signature per line, # comments).
func ReadSigs(path string) map[string]string {
	b, err := os.ReadFile(path)
	if err != nil {
		return nil
	}
	out := map[string]string{}
	for _, l := range strings.Split(string(b), "\n") {
		if l == "" || strings.HasPrefix(l, "#") {
			continue
		}
		if i := strings.Index(l, "\t"); i > 0 {
			out[l[:i]] = l[i+1:]
		}
	}
	return out
}

// renamedByProg: *ssa.Program -> map[new key]old key, for CalleeName / FuncName (several programs are analysed in
// one process by the batteries).
var renamedByProg sync.Map

// KnownFullName is the full name CalleeName reports for calls of fn (the name on the pinned tree when fn was merely
// renamed).
func KnownFullName(fn *ssa.Function) string {
	full := fn.String()
	if fn.Object() != nil {
		if f, ok := fn.Object().(*types.Func); ok {
			full = f.FullName()
		}
	}
	return oldNameOf(fn.Prog, full)
}

// KnownName is fn.Name(), or the name the function had on the pinned tree when it was merely renamed.
func KnownName(fn *ssa.Function) string {
	if fn == nil {
		return ""
	}
	full := fn.String()
	if fn.Object() != nil {
		if f, ok := fn.Object().(*types.Func); ok {
			full = f.FullName()
		}
	}
	old := oldNameOf(fn.Prog, full)
	if i := strings.LastIndex(old, "."); i >= 0 && old != full {
		return old[i+1:]
	}
	return fn.Name()
}

// oldNameOf maps the full name of a function that took the place of a known one back to the known name.
func oldNameOf(prog *ssa.Program, name string) string {
	if prog == nil {
		return name
	}
	if m, ok := renamedByProg.Load(prog); ok {
		if old, ok := m.(map[string]string)[name]; ok {
			return old
		}
	}
	return name
}

// ReadKnown reads a known-function table (one key per line, # comments).
func ReadKnown(path string) map[string]bool {
	b, err := os.ReadFile(path)
	if err != nil {
		return nil
	}
	out := map[string]bool{}
	for _, l := range strings.Split(string(b), "\n") {
		l = strings.TrimSpace(l)
		if l != "" && !strings.HasPrefix(l, "#") {
			out[l] = true
		}
	}
	return out
}

// LoadOptions configures Load.
type LoadOptions struct {
	Dir     string
	Overlay map[string][]byte
	// Known: keys of the functions the rules were confirmed against (tables/known_funcs.txt). When
	// set, call sites of functions outside this table are expanded before analysis (normalize.go).
	Known map[string]bool
	Env   []string // extra env (e.g. GOARCH=386)
	VTA   bool
}

// Load loads ./... of the module at dir. Any load or type error is fatal for
// the caller: a check must not pass on a tree it could not analyse.
func Load(o LoadOptions) (*Prog, error) {
	env := append(os.Environ(),
		"GOFLAGS=-mod=mod", "GOPROXY=off", "GOSUMDB=off", "GOTOOLCHAIN=local", "GOWORK=off")
	env = append(env, o.Env...)
	loadWith := func(ov map[string][]byte) (*token.FileSet, []*packages.Package, error) {
		fset := token.NewFileSet()
		cfg := &packages.Config{
			Mode:    packages.LoadSyntax,
			Dir:     o.Dir,
			Fset:    fset,
			Env:     env,
			Tests:   false,
			Overlay: ov,
		}
		pkgs, err := packages.Load(cfg, "./...")
		if err != nil {
			return nil, nil, fmt.Errorf("packages.Load: %v", err)
		}
		if len(pkgs) == 0 {
			return nil, nil, fmt.Errorf("packages.Load: zero packages loaded from %s", o.Dir)
		}
		var errs []string
		packages.Visit(pkgs, nil, func(p *packages.Package) {
			for _, e := range p.Errors {
				errs = append(errs, e.Error())
			}
		})
		if len(errs) > 0 {
			return nil, nil, fmt.Errorf("load/type errors: %s", strings.Join(errs, "; "))
		}
		return fset, pkgs, nil
	}
	fset, pkgs, err := loadWith(o.Overlay)
	if err != nil {
		return nil, err
	}
	normalized := 0
	if o.Known == nil {
		o.Known = DefaultKnown
	}
	renamed := map[string]string{}
	if len(o.Known) > 0 {
		// a function that was merely renamed: its receiver (or package) lost exactly one known name and gained
		// exactly one new one. The new name is read as the old one (anchors resolve through Prog.Renamed) and is
		// not expanded into its callers.
		have := map[string]bool{}
		for _, k := range KnownFuncs(pkgs) {
			have[k] = true
		}
		owner := func(k string) string {
			if i := strings.LastIndex(k, "."); i >= 0 {
				return k[:i]
			}
			return k
		}
		lost, gained := map[string][]string{}, map[string][]string{}
		for k := range o.Known {
			if !have[k] && strings.HasPrefix(strings.TrimLeft(k, "(*"), Module) && !strings.Contains(k, Module+"/pb.") {
				lost[owner(k)] = append(lost[owner(k)], k)
			}
		}
		for k := range have {
			if !o.Known[k] {
				gained[owner(k)] = append(gained[owner(k)], k)
			}
		}
		var nowSigs map[string]string
		for ow, l := range lost {
			g := gained[ow]
			if len(l) == 1 && len(g) == 1 {
				renamed[l[0]] = g[0]
				continue
			}
			// several at once: pair those whose signature is unique on both sides
			if len(g) == 0 || DefaultSigs == nil {
				continue
			}
			if nowSigs == nil {
				nowSigs = FuncSigs(pkgs)
			}
			bySigL, bySigG := map[string][]string{}, map[string][]string{}
			for _, k := range l {
				bySigL[DefaultSigs[k]] = append(bySigL[DefaultSigs[k]], k)
			}
			for _, k := range g {
				bySigG[nowSigs[k]] = append(bySigG[nowSigs[k]], k)
			}
			for sig, ls := range bySigL {
				if gs := bySigG[sig]; sig != "" && len(ls) == 1 && len(gs) == 1 {
					renamed[ls[0]] = gs[0]
				}
			}
		}
		if len(renamed) > 0 {
			k2 := map[string]bool{}
			for k := range o.Known {
				k2[k] = true
			}
			for _, g := range renamed {
				k2[g] = true
			}
			o.Known = k2
		}
		// only when the tree has functions outside the table
		unknown := false
		for _, k := range KnownFuncs(pkgs) {
			if !o.Known[k] {
				unknown = true
			}
		}
		if unknown {
			ov, n := Normalize(o.Known, o.Overlay, loadWith)
			if n > 0 {
				if f2, p2, err2 := loadWith(ov); err2 == nil {
					fset, pkgs, normalized = f2, p2, n
				}
			}
		}
	}
	p := &Prog{Dir: o.Dir, Fset: fset, Pkgs: pkgs, Normalized: normalized, Renamed: renamed, ByPath: map[string]*packages.Package{},
		SSAPkg: map[string]*ssa.Package{}, All: map[*ssa.Function]bool{}, srcOnce: map[string][]string{}}
	for _, pk := range pkgs {
		p.ByPath[pk.PkgPath] = pk
	}
	if p.ByPath[Module] == nil || p.ByPath[Module+"/region"] == nil || p.ByPath[Module+"/hrpc"] == nil {
		return nil, fmt.Errorf("anchor packages missing: loaded %d packages from %s", len(pkgs), o.Dir)
	}
	prog, spkgs := ssautil.Packages(pkgs, ssa.InstantiateGenerics)
	for i, sp := range spkgs {
		if sp == nil {
			return nil, fmt.Errorf("no SSA for package %s", pkgs[i].PkgPath)
		}
		p.SSAPkg[pkgs[i].PkgPath] = sp
	}
	prog.Build()
	p.SSA = prog
	if os.Getenv("VERIF_DEBUG_RENAMED") != "" {
		for o, n := range renamed {
			fmt.Fprintln(os.Stderr, "renamed", o, "->", n)
		}
	}
	if len(renamed) > 0 {
		back := map[string]string{}
		for o, n := range renamed {
			back[n] = o
		}
		renamedByProg.Store(prog, back)
	}
	for fn := range ssautil.AllFunctions(prog) {
		if fn.Pkg == nil || fn.Blocks == nil {
			continue
		}
		path := fn.Pkg.Pkg.Path()
		if !strings.HasPrefix(path, Module) {
			continue
		}
		p.All[fn] = true
		if path == Module+"/pb" || strings.HasPrefix(path, Module+"/test") {
			continue
		}
		if fn.Synthetic != "" {
			continue
		}
		p.Funcs = append(p.Funcs, fn)
	}
	sort.Slice(p.Funcs, func(i, j int) bool { return p.Funcs[i].String() < p.Funcs[j].String() })
	if o.VTA {
		p.CG = vta.CallGraph(ssautil.AllFunctions(prog), cha.CallGraph(prog))
		p.CGKind = "vta"
	} else {
		p.CG = cha.CallGraph(prog)
		p.CGKind = "cha"
	}
	p.Config = "linux/amd64 notags"
	for _, e := range o.Env {
		p.Config += " " + e
	}
	return p, nil
}

// Pos renders a position relative to the repository root.
func (p *Prog) Pos(pos token.Pos) string {
	if !pos.IsValid() {
		return "-"
	}
	pp := p.Fset.Position(pos)
	rel, err := filepath.Rel(p.Dir, pp.Filename)
	if err != nil {
		rel = pp.Filename
	}
	return fmt.Sprintf("%s:%d", rel, pp.Line)
}

// Line returns the trimmed source line at pos (used for construct keys and
// diagnostics only, never for a verdict).
func (p *Prog) Line(pos token.Pos) string {
	if !pos.IsValid() {
		return ""
	}
	pp := p.Fset.Position(pos)
	lines, ok := p.srcOnce[pp.Filename]
	if !ok {
		b, err := os.ReadFile(pp.Filename)
		if err == nil {
			lines = strings.Split(string(b), "\n")
		}
		p.srcOnce[pp.Filename] = lines
	}
	if pp.Line-1 < len(lines) && pp.Line >= 1 {
		s := strings.TrimSpace(lines[pp.Line-1])
		if len(s) > 90 {
			s = s[:90]
		}
		return s
	}
	return ""
}

// Pkg returns the types.Package for a module-relative path ("" = root).
func (p *Prog) Pkg(rel string) *types.Package {
	path := Module
	if rel != "" {
		path += "/" + rel
	}
	if pk := p.ByPath[path]; pk != nil {
		return pk.Types
	}
	return nil
}

// PkgSyntax returns the parsed files of a module package.
func (p *Prog) PkgSyntax(rel string) (*packages.Package, []*ast.File) {
	path := Module
	if rel != "" {
		path += "/" + rel
	}
	pk := p.ByPath[path]
	if pk == nil {
		return nil, nil
	}
	return pk, pk.Syntax
}

// Func looks up a package-level function or a method by package-relative
// path, receiver type name ("" for functions) and name.
func (p *Prog) Func(rel, recv, name string) *ssa.Function {
	if fn := p.funcByName(rel, recv, name); fn != nil {
		return fn
	}
	// renamed?
	path := Module
	if rel != "" {
		path += "/" + rel
	}
	var keys []string
	if recv == "" {
		keys = []string{path + "." + name}
	} else {
		keys = []string{"(*" + path + "." + recv + ")." + name, "(" + path + "." + recv + ")." + name}
	}
	for _, k := range keys {
		if nk, ok := p.Renamed[k]; ok {
			if i := strings.LastIndex(nk, "."); i >= 0 {
				return p.funcByName(rel, recv, nk[i+1:])
			}
		}
	}
	return nil
}

func (p *Prog) funcByName(rel, recv, name string) *ssa.Function {
	tp := p.Pkg(rel)
	if tp == nil {
		return nil
	}
	sp := p.SSA.Package(tp)
	if sp == nil {
		return nil
	}
	if recv == "" {
		return sp.Func(name)
	}
	obj := tp.Scope().Lookup(recv)
	if obj == nil {
		return nil
	}
	named, ok := obj.Type().(*types.Named)
	if !ok {
		return nil
	}
	for _, t := range []types.Type{types.NewPointer(named), named} {
		ms := p.SSA.MethodSets.MethodSet(t)
		for i := 0; i < ms.Len(); i++ {
			sel := ms.At(i)
			if sel.Obj().Name() == name && sel.Obj().Pkg() == tp {
				// only methods declared on this type (not promoted), with the
				// receiver kind they were declared with (no synthetic wrapper)
				if len(sel.Index()) == 1 {
					if sig, ok := sel.Obj().Type().(*types.Signature); ok && sig.Recv() != nil && !types.Identical(sig.Recv().Type(), t) {
						continue
					}
					return p.SSA.MethodValue(sel)
				}
			}
		}
	}
	return nil
}

// Named returns the named type rel.name.
func (p *Prog) Named(rel, name string) *types.Named {
	tp := p.Pkg(rel)
	if tp == nil {
		return nil
	}
	obj := tp.Scope().Lookup(name)
	if obj == nil {
		return nil
	}
	n, _ := obj.Type().(*types.Named)
	return n
}

// Field returns the field object rel.typ.field.
func (p *Prog) Field(rel, typ, field string) *types.Var {
	n := p.Named(rel, typ)
	if n == nil {
		return nil
	}
	st, ok := n.Underlying().(*types.Struct)
	if !ok {
		return nil
	}
	for i := 0; i < st.NumFields(); i++ {
		if st.Field(i).Name() == field {
			return st.Field(i)
		}
	}
	// renamed? the struct has lost exactly this known field and gained exactly one field of the same type
	key := n.Obj().Pkg().Path() + "." + n.Obj().Name()
	known := DefaultFields[key]
	if wantT, ok := known[field]; ok {
		have := map[string]bool{}
		for i := 0; i < st.NumFields(); i++ {
			have[st.Field(i).Name()] = true
		}
		// pair the lost and the gained fields of the struct by type, where the type is unique on both sides
		lostByT := map[string][]string{}
		for f, t := range known {
			if !have[f] {
				lostByT[t] = append(lostByT[t], f)
			}
		}
		gainedByT := map[string][]*types.Var{}
		for i := 0; i < st.NumFields(); i++ {
			if _, wasKnown := known[st.Field(i).Name()]; !wasKnown {
				t := types.TypeString(st.Field(i).Type(), nil)
				gainedByT[t] = append(gainedByT[t], st.Field(i))
			}
		}
		if l, g := lostByT[wantT], gainedByT[wantT]; len(l) == 1 && l[0] == field && len(g) == 1 {
			return g[0]
		}
	}
	return nil
}

// DefaultFields: struct (pkgpath.Type) -> field -> type string, of the tree the rules were confirmed against
// (tables/known_fields.txt).
var DefaultFields map[string]map[string]string

// ReadFields reads tables/known_fields.txt (struct TAB field TAB type per line).
func ReadFields(path string) map[string]map[string]string {
	b, err := os.ReadFile(path)
	if err != nil {
		return nil
	}
	out := map[string]map[string]string{}
	for _, l := range strings.Split(string(b), "\n") {
		if l == "" || strings.HasPrefix(l, "#") {
			continue
		}
		parts := strings.SplitN(l, "\t", 3)
		if len(parts) != 3 {
			continue
		}
		if out[parts[0]] == nil {
			out[parts[0]] = map[string]string{}
		}
		out[parts[0]][parts[1]] = parts[2]
	}
	return out
}

// StructFields lists struct TAB field TAB type for every struct type declared in the module packages (pb excluded).
func StructFields(pkgs []*packages.Package) []string {
	var out []string
	for _, pk := range pkgs {
		if !strings.HasPrefix(pk.PkgPath, Module) || strings.HasSuffix(pk.PkgPath, "/pb") {
			continue
		}
		sc := pk.Types.Scope()
		for _, name := range sc.Names() {
			tn, ok := sc.Lookup(name).(*types.TypeName)
			if !ok {
				continue
			}
			st, ok := tn.Type().Underlying().(*types.Struct)
			if !ok {
				continue
			}
			for i := 0; i < st.NumFields(); i++ {
				out = append(out, pk.PkgPath+"."+name+"\t"+st.Field(i).Name()+"\t"+types.TypeString(st.Field(i).Type(), nil))
			}
		}
	}
	// package-level variables, as fields of the pseudo-struct <pkgpath>.<globals>
	for _, pk := range pkgs {
		if !strings.HasPrefix(pk.PkgPath, Module) || strings.HasSuffix(pk.PkgPath, "/pb") {
			continue
		}
		sc := pk.Types.Scope()
		for _, name := range sc.Names() {
			if v, ok := sc.Lookup(name).(*types.Var); ok {
				out = append(out, pk.PkgPath+".<globals>\t"+name+"\t"+types.TypeString(v.Type(), nil))
			}
			if k, ok := sc.Lookup(name).(*types.Const); ok {
				out = append(out, pk.PkgPath+".<consts>\t"+name+"\t"+types.TypeString(k.Type(), nil))
			}
		}
	}
	sort.Strings(out)
	return out
}

// Const returns the package-level constant rel.name, or the constant that took its name's place (the package lost
// this known constant and gained exactly one of the same type).
func (p *Prog) Const(rel, name string) *types.Const {
	tp := p.Pkg(rel)
	if tp == nil {
		return nil
	}
	if k, ok := tp.Scope().Lookup(name).(*types.Const); ok {
		return k
	}
	known := DefaultFields[tp.Path()+".<consts>"]
	wantT, ok := known[name]
	if !ok {
		return nil
	}
	lost := 0
	for n, t := range known {
		if t == wantT {
			if _, still := tp.Scope().Lookup(n).(*types.Const); !still {
				lost++
			}
		}
	}
	var gained []*types.Const
	for _, n := range tp.Scope().Names() {
		if k, isK := tp.Scope().Lookup(n).(*types.Const); isK {
			if _, wasKnown := known[n]; !wasKnown && types.TypeString(k.Type(), nil) == wantT {
				gained = append(gained, k)
			}
		}
	}
	if lost == 1 && len(gained) == 1 {
		return gained[0]
	}
	return nil
}

// Global returns the package-level variable rel.name.
func (p *Prog) Global(rel, name string) *ssa.Global {
	tp := p.Pkg(rel)
	if tp == nil {
		return nil
	}
	sp := p.SSA.Package(tp)
	if sp == nil {
		return nil
	}
	g, _ := sp.Members[name].(*ssa.Global)
	if g != nil {
		return g
	}
	// renamed? the package lost this known variable and gained exactly one of the same type (known globals are
	// kept in tables/known_fields.txt under the pseudo-struct "<pkgpath>.<globals>")
	known := DefaultFields[tp.Path()+".<globals>"]
	wantT, ok := known[name]
	if !ok {
		return nil
	}
	lost := 0
	for n, t := range known {
		if t != wantT {
			continue
		}
		if _, still := sp.Members[n].(*ssa.Global); !still {
			lost++
		}
	}
	var gained []*ssa.Global
	for n, m := range sp.Members {
		gl, isG := m.(*ssa.Global)
		if !isG || gl.Object() == nil {
			continue
		}
		if _, wasKnown := known[n]; wasKnown {
			continue
		}
		if v, isVar := gl.Object().(*types.Var); isVar && types.TypeString(v.Type(), nil) == wantT {
			gained = append(gained, gl)
		}
	}
	if lost == 1 && len(gained) == 1 {
		return gained[0]
	}
	return nil
}

// FuncName renders a function name relative to the module.
func FuncName(fn *ssa.Function) string {
	if fn == nil {
		return "<nil>"
	}
	s := oldNameOf(fn.Prog, fn.String())
	s = strings.ReplaceAll(s, Module+"/", "")
	s = strings.ReplaceAll(s, Module+".", "gohbase.")
	s = strings.ReplaceAll(s, Module, "gohbase")
	return s
}

// InModuleNonTest reports whether fn is one of the analysed functions.
func (p *Prog) IsSubject(fn *ssa.Function) bool {
	for fn.Parent() != nil {
		fn = fn.Parent()
	}
	if fn.Pkg == nil {
		return false
	}
	path := fn.Pkg.Pkg.Path()
	return strings.HasPrefix(path, Module) && path != Module+"/pb" && !strings.HasPrefix(path, Module+"/test")
}
