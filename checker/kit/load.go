// Package kit holds the analysis infrastructure shared by all rules:
// loading /repo into typed syntax + SSA, anchors, CFG queries, lock sets,
// value provenance and the obligation/evidence model.
package kit

import (
	"fmt"
	"go/ast"
	"go/token"
	"go/types"
	"os"
	"path/filepath"
	"sort"
	"strings"

	"golang.org/x/tools/go/callgraph"
	"golang.org/x/tools/go/callgraph/cha"
	"golang.org/x/tools/go/callgraph/vta"
	"golang.org/x/tools/go/packages"
	"golang.org/x/tools/go/ssa"
	"golang.org/x/tools/go/ssa/ssautil"
)

// Module is the import path of the analysed module.
const Module = "github.com/tsuna/gohbase"

// Prog is the resolved program: typed syntax, SSA and a call graph for the
// module packages of the repository under analysis.
type Prog struct {
	Dir    string
	Fset   *token.FileSet
	Pkgs   []*packages.Package
	ByPath map[string]*packages.Package
	SSA    *ssa.Program
	SSAPkg map[string]*ssa.Package
	// Funcs lists every module function with a body (methods, package
	// functions, function literals), test files excluded, generated pb excluded.
	Funcs []*ssa.Function
	// All lists the same including pb (used only for call graph construction).
	All map[*ssa.Function]bool

	// Normalized: number of call sites of unknown functions expanded before analysis.
	Normalized int

	CG      *callgraph.Graph
	CGKind  string
	Config  string
	srcOnce map[string][]string
}

// DefaultKnown is the known-function table used when LoadOptions.Known is nil (set by main from
// tables/known_funcs.txt).
var DefaultKnown map[string]bool

// ReadKnown reads a known-function table (one key per line, # comments).
func ReadKnown(path string) map[string]bool {
	b, err := os.ReadFile(path)
	if err != nil {
		return nil
	}
	out := map[string]bool{}
	for _, l := range strings.Split(string(b), "\n") {
		l = strings.TrimSpace(l)
		if l != "" && !strings.HasPrefix(l, "#") {
			out[l] = true
		}
	}
	return out
}

// LoadOptions configures Load.
type LoadOptions struct {
	Dir     string
	Overlay map[string][]byte
	// Known: keys of the functions the rules were confirmed against (tables/known_funcs.txt). When
	// set, call sites of functions outside this table are expanded before analysis (normalize.go).
	Known map[string]bool
	Env   []string // extra env (e.g. GOARCH=386)
	VTA   bool
}

// Load loads ./... of the module at dir. Any load or type error is fatal for
// the caller: a check must not pass on a tree it could not analyse.
func Load(o LoadOptions) (*Prog, error) {
	env := append(os.Environ(),
		"GOFLAGS=-mod=mod", "GOPROXY=off", "GOSUMDB=off", "GOTOOLCHAIN=local", "GOWORK=off")
	env = append(env, o.Env...)
	loadWith := func(ov map[string][]byte) (*token.FileSet, []*packages.Package, error) {
		fset := token.NewFileSet()
		cfg := &packages.Config{
			Mode:    packages.LoadSyntax,
			Dir:     o.Dir,
			Fset:    fset,
			Env:     env,
			Tests:   false,
			Overlay: ov,
		}
		pkgs, err := packages.Load(cfg, "./...")
		if err != nil {
			return nil, nil, fmt.Errorf("packages.Load: %v", err)
		}
		if len(pkgs) == 0 {
			return nil, nil, fmt.Errorf("packages.Load: zero packages loaded from %s", o.Dir)
		}
		var errs []string
		packages.Visit(pkgs, nil, func(p *packages.Package) {
			for _, e := range p.Errors {
				errs = append(errs, e.Error())
			}
		})
		if len(errs) > 0 {
			return nil, nil, fmt.Errorf("load/type errors: %s", strings.Join(errs, "; "))
		}
		return fset, pkgs, nil
	}
	fset, pkgs, err := loadWith(o.Overlay)
	if err != nil {
		return nil, err
	}
	normalized := 0
	if o.Known == nil {
		o.Known = DefaultKnown
	}
	if len(o.Known) > 0 {
		// only when the tree has functions outside the table
		unknown := false
		for _, k := range KnownFuncs(pkgs) {
			if !o.Known[k] {
				unknown = true
			}
		}
		if unknown {
			ov, n := Normalize(o.Known, o.Overlay, loadWith)
			if n > 0 {
				if f2, p2, err2 := loadWith(ov); err2 == nil {
					fset, pkgs, normalized = f2, p2, n
				}
			}
		}
	}
	p := &Prog{Dir: o.Dir, Fset: fset, Pkgs: pkgs, Normalized: normalized, ByPath: map[string]*packages.Package{},
		SSAPkg: map[string]*ssa.Package{}, All: map[*ssa.Function]bool{}, srcOnce: map[string][]string{}}
	for _, pk := range pkgs {
		p.ByPath[pk.PkgPath] = pk
	}
	if p.ByPath[Module] == nil || p.ByPath[Module+"/region"] == nil || p.ByPath[Module+"/hrpc"] == nil {
		return nil, fmt.Errorf("anchor packages missing: loaded %d packages from %s", len(pkgs), o.Dir)
	}
	prog, spkgs := ssautil.Packages(pkgs, ssa.InstantiateGenerics)
	for i, sp := range spkgs {
		if sp == nil {
			return nil, fmt.Errorf("no SSA for package %s", pkgs[i].PkgPath)
		}
		p.SSAPkg[pkgs[i].PkgPath] = sp
	}
	prog.Build()
	p.SSA = prog
	for fn := range ssautil.AllFunctions(prog) {
		if fn.Pkg == nil || fn.Blocks == nil {
			continue
		}
		path := fn.Pkg.Pkg.Path()
		if !strings.HasPrefix(path, Module) {
			continue
		}
		p.All[fn] = true
		if path == Module+"/pb" || strings.HasPrefix(path, Module+"/test") {
			continue
		}
		if fn.Synthetic != "" {
			continue
		}
		p.Funcs = append(p.Funcs, fn)
	}
	sort.Slice(p.Funcs, func(i, j int) bool { return p.Funcs[i].String() < p.Funcs[j].String() })
	if o.VTA {
		p.CG = vta.CallGraph(ssautil.AllFunctions(prog), cha.CallGraph(prog))
		p.CGKind = "vta"
	} else {
		p.CG = cha.CallGraph(prog)
		p.CGKind = "cha"
	}
	p.Config = "linux/amd64 notags"
	for _, e := range o.Env {
		p.Config += " " + e
	}
	return p, nil
}

// Pos renders a position relative to the repository root.
func (p *Prog) Pos(pos token.Pos) string {
	if !pos.IsValid() {
		return "-"
	}
	pp := p.Fset.Position(pos)
	rel, err := filepath.Rel(p.Dir, pp.Filename)
	if err != nil {
		rel = pp.Filename
	}
	return fmt.Sprintf("%s:%d", rel, pp.Line)
}

// Line returns the trimmed source line at pos (used for construct keys and
// diagnostics only, never for a verdict).
func (p *Prog) Line(pos token.Pos) string {
	if !pos.IsValid() {
		return ""
	}
	pp := p.Fset.Position(pos)
	lines, ok := p.srcOnce[pp.Filename]
	if !ok {
		b, err := os.ReadFile(pp.Filename)
		if err == nil {
			lines = strings.Split(string(b), "\n")
		}
		p.srcOnce[pp.Filename] = lines
	}
	if pp.Line-1 < len(lines) && pp.Line >= 1 {
		s := strings.TrimSpace(lines[pp.Line-1])
		if len(s) > 90 {
			s = s[:90]
		}
		return s
	}
	return ""
}

// Pkg returns the types.Package for a module-relative path ("" = root).
func (p *Prog) Pkg(rel string) *types.Package {
	path := Module
	if rel != "" {
		path += "/" + rel
	}
	if pk := p.ByPath[path]; pk != nil {
		return pk.Types
	}
	return nil
}

// PkgSyntax returns the parsed files of a module package.
func (p *Prog) PkgSyntax(rel string) (*packages.Package, []*ast.File) {
	path := Module
	if rel != "" {
		path += "/" + rel
	}
	pk := p.ByPath[path]
	if pk == nil {
		return nil, nil
	}
	return pk, pk.Syntax
}

// Func looks up a package-level function or a method by package-relative
// path, receiver type name ("" for functions) and name.
func (p *Prog) Func(rel, recv, name string) *ssa.Function {
	tp := p.Pkg(rel)
	if tp == nil {
		return nil
	}
	sp := p.SSA.Package(tp)
	if sp == nil {
		return nil
	}
	if recv == "" {
		return sp.Func(name)
	}
	obj := tp.Scope().Lookup(recv)
	if obj == nil {
		return nil
	}
	named, ok := obj.Type().(*types.Named)
	if !ok {
		return nil
	}
	for _, t := range []types.Type{types.NewPointer(named), named} {
		ms := p.SSA.MethodSets.MethodSet(t)
		for i := 0; i < ms.Len(); i++ {
			sel := ms.At(i)
			if sel.Obj().Name() == name && sel.Obj().Pkg() == tp {
				// only methods declared on this type (not promoted), with the
				// receiver kind they were declared with (no synthetic wrapper)
				if len(sel.Index()) == 1 {
					if sig, ok := sel.Obj().Type().(*types.Signature); ok && sig.Recv() != nil && !types.Identical(sig.Recv().Type(), t) {
						continue
					}
					return p.SSA.MethodValue(sel)
				}
			}
		}
	}
	return nil
}

// Named returns the named type rel.name.
func (p *Prog) Named(rel, name string) *types.Named {
	tp := p.Pkg(rel)
	if tp == nil {
		return nil
	}
	obj := tp.Scope().Lookup(name)
	if obj == nil {
		return nil
	}
	n, _ := obj.Type().(*types.Named)
	return n
}

// Field returns the field object rel.typ.field.
func (p *Prog) Field(rel, typ, field string) *types.Var {
	n := p.Named(rel, typ)
	if n == nil {
		return nil
	}
	st, ok := n.Underlying().(*types.Struct)
	if !ok {
		return nil
	}
	for i := 0; i < st.NumFields(); i++ {
		if st.Field(i).Name() == field {
			return st.Field(i)
		}
	}
	return nil
}

// Global returns the package-level variable rel.name.
func (p *Prog) Global(rel, name string) *ssa.Global {
	tp := p.Pkg(rel)
	if tp == nil {
		return nil
	}
	sp := p.SSA.Package(tp)
	if sp == nil {
		return nil
	}
	g, _ := sp.Members[name].(*ssa.Global)
	return g
}

// FuncName renders a function name relative to the module.
func FuncName(fn *ssa.Function) string {
	if fn == nil {
		return "<nil>"
	}
	s := fn.String()
	s = strings.ReplaceAll(s, Module+"/", "")
	s = strings.ReplaceAll(s, Module+".", "gohbase.")
	s = strings.ReplaceAll(s, Module, "gohbase")
	return s
}

// InModuleNonTest reports whether fn is one of the analysed functions.
func (p *Prog) IsSubject(fn *ssa.Function) bool {
	for fn.Parent() != nil {
		fn = fn.Parent()
	}
	if fn.Pkg == nil {
		return false
	}
	path := fn.Pkg.Pkg.Path()
	return strings.HasPrefix(path, Module) && path != Module+"/pb" && !strings.HasPrefix(path, Module+"/test")
}
