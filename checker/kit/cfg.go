package kit

import (
	"fmt"
	"go/token"
	"go/types"
	"os"
	"sort"
	"strings"

	"golang.org/x/tools/go/ssa"
)

// InstrIndex returns the index of in within its block.
func InstrIndex(in ssa.Instruction) int {
	for i, x := range in.Block().Instrs {
		if x == in {
			return i
		}
	}
	return -1
}

// Dominates reports whether instruction a dominates instruction b
// (a executes before b on every path from the entry to b).
func Dominates(a, b ssa.Instruction) bool {
	if a.Parent() != b.Parent() {
		return false
	}
	if a.Block() == b.Block() {
		return InstrIndex(a) < InstrIndex(b)
	}
	return a.Block().Dominates(b.Block())
}

// EdgeDominates reports whether every path from the entry to block b passes
// through the CFG edge from→to.
func EdgeDominates(from, to, b *ssa.BasicBlock) bool {
	if !to.Dominates(b) {
		return false
	}
	for _, p := range to.Preds {
		if p == from {
			continue
		}
		if !to.Dominates(p) {
			return false
		}
	}
	// to must be a successor of from
	for _, s := range from.Succs {
		if s == to {
			return true
		}
	}
	return false
}

// Fact is a branch condition known to hold (Pol=true) or not hold at a point.
type Fact struct {
	Cond ssa.Value
	Pol  bool
	If   *ssa.If
}

// FactsAt returns the branch conditions that are decided on every path from
// the function entry to block b (walk of the dominator chain).
func FactsAt(b *ssa.BasicBlock) []Fact { return expandFacts(factsAt(b), 0) }

func factsAt(b *ssa.BasicBlock) []Fact {
	var out []Fact
	// every dominator block ending in If whose one edge dominates b
	for d := b.Idom(); d != nil; d = d.Idom() {
		if len(d.Instrs) == 0 {
			continue
		}
		iff, ok := d.Instrs[len(d.Instrs)-1].(*ssa.If)
		if !ok {
			continue
		}
		t, f := d.Succs[0], d.Succs[1]
		if t != f {
			if EdgeDominates(d, t, b) {
				out = append(out, Fact{iff.Cond, true, iff})
			} else if EdgeDominates(d, f, b) {
				out = append(out, Fact{iff.Cond, false, iff})
			}
		}
	}
	return out
}

// Exit describes how a path search ended.
type Exit struct {
	Instr ssa.Instruction // *ssa.Return or *ssa.Panic
	Path  []*ssa.BasicBlock
}

// PathQuery configures PathToExit.
type PathQuery struct {
	// Stop reports instructions that end a path harmlessly (the obligation is
	// met on this path).
	Stop func(ssa.Instruction) bool
	// SkipEdge reports CFG edges that must not be followed (paths through
	// them are exempt).
	SkipEdge func(from, to *ssa.BasicBlock) bool
	// IgnorePanics exempts paths ending in an explicit panic.
	IgnorePanics bool
	// Target, if non-nil, replaces "function exit" as the thing searched for.
	Target func(ssa.Instruction) bool
	// Known: branch conditions already decided where the search starts (e.g. EdgeFacts of the edge
	// it starts from); a later branch on the same condition value follows the decided side only.
	Known []Fact
	// TargetPath is Target with the block path that led to the instruction.
	TargetPath func(ssa.Instruction, []*ssa.BasicBlock) bool
}

// PathFrom searches for a path starting right after instruction `from` that
// reaches a function exit (or q.Target) without passing a q.Stop instruction.
// It returns the first such exit with the block path, or nil.
func PathFrom(from ssa.Instruction, q PathQuery) *Exit {
	start := from.Block()
	idx := InstrIndex(from) + 1
	return pathSearch(start, idx, q)
}

// Precedes reports whether every feasible path from the function entry to b passes a: a dominates
// b, or the only paths around a are ruled out by jump threading (the error return of an expanded helper
// that the caller's "if err != nil { return }" takes out).
func Precedes(a, b ssa.Instruction) bool {
	if Dominates(a, b) {
		return true
	}
	if a.Parent() != b.Parent() || len(a.Parent().Blocks) == 0 {
		return false
	}
	return pathSearch(a.Parent().Blocks[0], 0, PathQuery{
		Stop:   func(in ssa.Instruction) bool { return in == a },
		Target: func(in ssa.Instruction) bool { return in == b },
	}) == nil
}

// PathFromEntry is PathFrom starting at the function entry.
func PathFromEntry(fn *ssa.Function, q PathQuery) *Exit {
	if len(fn.Blocks) == 0 {
		return nil
	}
	return pathSearch(fn.Blocks[0], 0, q)
}

// PathFromBlock starts at the beginning of block b.
func PathFromBlock(b *ssa.BasicBlock, q PathQuery) *Exit {
	return pathSearch(b, 0, q)
}

func pathSearch(start *ssa.BasicBlock, idx int, q PathQuery) *Exit {
	type item struct {
		b, pred *ssa.BasicBlock
		i       int
		path    []*ssa.BasicBlock
		known   map[ssa.Value]bool // branch conditions decided earlier on this path
		assumed map[ssa.Value]bool // conditions the query assumes and that have not been computed on this path yet
	}
	type key struct {
		b, pred *ssa.BasicBlock
		sig     string
	}
	sigOf := func(m map[ssa.Value]bool) string {
		if len(m) == 0 {
			return ""
		}
		var xs []string
		for v, b := range m {
			xs = append(xs, fmt.Sprintf("%p=%v", v, b))
		}
		sort.Strings(xs)
		return strings.Join(xs, ",")
	}
	init := map[ssa.Value]bool{}
	// what is known where the search starts: the conditions that dominate the start block, then the query's own
	for _, f := range FactsAt(start) {
		c, pol := normBool(f.Cond, f.Pol)
		if _, isConst := c.(*ssa.Const); !isConst {
			init[c] = pol
		}
	}
	assumed := map[ssa.Value]bool{}
	for _, f := range q.Known {
		c, pol := normBool(f.Cond, f.Pol)
		init[c] = pol
		// an assumption about a condition computed at or after the start: it speaks of the first evaluation
		// (one computed in the start block itself is evaluated by the first pass over that block, without entering it)
		if in, ok := c.(ssa.Instruction); ok && in.Block() != nil && in.Block() != start && !in.Block().Dominates(start) {
			assumed[c] = true
		}
	}
	seen := map[key]bool{}
	work := []item{{start, nil, idx, []*ssa.BasicBlock{start}, init, assumed}}
	first := true
	steps := 0
	for len(work) > 0 {
		it := work[0]
		work = work[1:]
		steps++
		if steps > 40000 {
			// give up path sensitivity: report what an insensitive search would (conservative)
			return pathSearchInsensitive(start, idx, q)
		}
		if !first || it.i == 0 {
			k := key{it.b, it.pred, sigOf(it.known)}
			if !threadable(it.b) {
				k.pred = nil
			}
			if seen[k] {
				continue
			}
			seen[k] = true
		}
		first = false
		stopped := false
		for k := it.i; k < len(it.b.Instrs); k++ {
			in := it.b.Instrs[k]
			if q.Stop != nil && q.Stop(in) {
				stopped = true
				break
			}
			if q.TargetPath != nil {
				if q.TargetPath(in, it.path) {
					return &Exit{in, it.path}
				}
				continue
			}
			if q.Target != nil {
				if q.Target(in) {
					return &Exit{in, it.path}
				}
				continue
			}
			switch in.(type) {
			case *ssa.Return:
				return &Exit{in, it.path}
			case *ssa.Panic:
				if !q.IgnorePanics {
					return &Exit{in, it.path}
				}
			}
		}
		if stopped {
			continue
		}
		succs := it.b.Succs
		var cond ssa.Value
		condPol := true
		if len(succs) == 2 && len(it.b.Instrs) > 0 {
			if iff, ok := it.b.Instrs[len(it.b.Instrs)-1].(*ssa.If); ok {
				cond, condPol = normBool(iff.Cond, true)
				decided, val := false, false
				if it.pred != nil {
					if v, ok := decideOnEntry(it.b, it.pred, it.known); ok {
						decided, val = true, v
					}
				}
				if !decided {
					// the same condition value was branched on earlier on this path, or the condition is a flag
					// (boolean phi) all of whose inputs are decided by what is known on this path
					if v, ok := evalUnder(cond, it.known, 0); ok {
						decided, val = true, v == condPol
					}
				}
				if decided {
					if val {
						succs = succs[:1]
					} else {
						succs = succs[1:]
					}
				}
			}
		}
		for _, s := range succs {
			if q.SkipEdge != nil && q.SkipEdge(it.b, s) {
				continue
			}
			known := it.known
			if cond != nil && it.b.Succs[0] != it.b.Succs[1] {
				if _, isConst := cond.(*ssa.Const); !isConst {
					known = map[ssa.Value]bool{}
					for k, v := range it.known {
						known[k] = v
					}
					// taking Succs[0] means the If condition was true
					known[cond] = (s == it.b.Succs[0]) == condPol
				}
			}
			// entering the block that computes a condition computes it anew (next round of a loop): what was
			// known about the old value says nothing about the new one
			stale := false
			for k := range known {
				if in, ok := k.(ssa.Instruction); ok && in.Block() == s {
					stale = true
				}
			}
			assume := it.assumed
			if stale {
				fresh := map[ssa.Value]bool{}
				var left map[ssa.Value]bool
				for k, v := range known {
					if in, ok := k.(ssa.Instruction); ok && in.Block() == s {
						if assume[k] {
							// the first evaluation of an assumed condition: this is the one the assumption is about
							if left == nil {
								left = map[ssa.Value]bool{}
								for a := range assume {
									left[a] = true
								}
							}
							delete(left, k)
							fresh[k] = v
						}
						continue
					}
					fresh[k] = v
				}
				known = fresh
				if left != nil {
					assume = left
				}
			}
			np := append(append([]*ssa.BasicBlock{}, it.path...), s)
			work = append(work, item{s, it.b, 0, np, known, assume})
		}
	}
	return nil
}

// pathSearchInsensitive is the plain reachability search (no memory of earlier branches).
func pathSearchInsensitive(start *ssa.BasicBlock, idx int, q PathQuery) *Exit {
	type item struct {
		b    *ssa.BasicBlock
		i    int
		path []*ssa.BasicBlock
	}
	seen := map[*ssa.BasicBlock]bool{}
	work := []item{{start, idx, []*ssa.BasicBlock{start}}}
	first := true
	for len(work) > 0 {
		it := work[0]
		work = work[1:]
		if !first || it.i == 0 {
			if seen[it.b] {
				continue
			}
			seen[it.b] = true
		}
		first = false
		stopped := false
		for k := it.i; k < len(it.b.Instrs); k++ {
			in := it.b.Instrs[k]
			if q.Stop != nil && q.Stop(in) {
				stopped = true
				break
			}
			if q.TargetPath != nil {
				if q.TargetPath(in, it.path) {
					return &Exit{in, it.path}
				}
				continue
			}
			if q.Target != nil {
				if q.Target(in) {
					return &Exit{in, it.path}
				}
				continue
			}
			switch in.(type) {
			case *ssa.Return:
				return &Exit{in, it.path}
			case *ssa.Panic:
				if !q.IgnorePanics {
					return &Exit{in, it.path}
				}
			}
		}
		if stopped {
			continue
		}
		for _, s := range it.b.Succs {
			if q.SkipEdge != nil && q.SkipEdge(it.b, s) {
				continue
			}
			np := append(append([]*ssa.BasicBlock{}, it.path...), s)
			work = append(work, item{s, 0, np})
		}
	}
	return nil
}

// threadable: the block ends in a branch on one of its own phis.
func threadable(b *ssa.BasicBlock) bool {
	if len(b.Instrs) == 0 {
		return false
	}
	iff, ok := b.Instrs[len(b.Instrs)-1].(*ssa.If)
	if !ok {
		return false
	}
	c, _ := normBool(iff.Cond, true)
	if ph, ok := c.(*ssa.Phi); ok && ph.Block() == b {
		return true
	}
	if bo, ok := c.(*ssa.BinOp); ok {
		for _, side := range []ssa.Value{bo.X, bo.Y} {
			if ph, ok := side.(*ssa.Phi); ok && ph.Block() == b {
				return true
			}
		}
	}
	return false
}

// DecideOnEntry evaluates the branch condition of block b for control entering it from pred, when
// the condition only depends on phis of b whose input from pred is a constant or a value known to be
// non-nil (jump threading: a helper's `return err` followed by the caller's `if err != nil`).
func DecideOnEntry(b, pred *ssa.BasicBlock) (bool, bool) {
	return decideOnEntry(b, pred, nil)
}

// decideOnEntry is DecideOnEntry with the conditions decided earlier on the path: the input from pred may
// also be a value whose nil test was branched on before (`if err == nil { err = f() }; if err != nil`).
func decideOnEntry(b, pred *ssa.BasicBlock, known map[ssa.Value]bool) (bool, bool) {
	if len(b.Instrs) == 0 {
		return false, false
	}
	iff, ok := b.Instrs[len(b.Instrs)-1].(*ssa.If)
	if !ok {
		return false, false
	}
	// only phis, the comparison and the If may precede: nothing that could change what is tested
	pi := -1
	for i, p := range b.Preds {
		if p == pred {
			pi = i
		}
	}
	if pi < 0 {
		return false, false
	}
	in := func(v ssa.Value) (ssa.Value, bool) {
		if ph, ok := v.(*ssa.Phi); ok && ph.Block() == b {
			return ph.Edges[pi], true
		}
		// a local kept in memory (a named result a deferred literal reads) that was just assigned a phi of this
		// block: rpc, err := helper() with err the named result
		if u, ok := v.(*ssa.UnOp); ok && u.Op == token.MUL && u.Block() == b {
			if a, ok := u.X.(*ssa.Alloc); ok {
				if w := ReachingStore(u, a); w != nil {
					if ph, ok := w.(*ssa.Phi); ok && ph.Block() == b {
						return ph.Edges[pi], true
					}
				}
			}
		}
		return v, false
	}
	c, pol := normBool(iff.Cond, true)
	if v, isPhi := in(c); isPhi {
		if k, ok := boolConst(v); ok {
			return k == pol, true
		}
		if known != nil {
			// the input over this edge is itself a condition decided earlier on the path
			if val, ok := evalUnder(v, known, 0); ok {
				return val == pol, true
			}
		}
		return false, false
	}
	bo, ok := c.(*ssa.BinOp)
	if !ok || (bo.Op != token.EQL && bo.Op != token.NEQ) {
		return false, false
	}
	x, xp := in(bo.X)
	y, yp := in(bo.Y)
	if !xp && !yp {
		return false, false
	}
	// X ==/!= nil
	var other ssa.Value
	switch {
	case IsNilConst(y):
		other = x
	case IsNilConst(x):
		other = y
	default:
		return false, false
	}
	var isNil bool
	switch {
	case IsNilConst(other):
		isNil = true
	case NonNil(other):
		isNil = false
	default:
		found := false
		for kc, v := range known {
			cmp, ok := CanonCmp(kc, v)
			if !ok || (cmp.Op != token.EQL && cmp.Op != token.NEQ) {
				continue
			}
			if (cmp.X == other && IsNilConst(cmp.Y)) || (cmp.Y == other && IsNilConst(cmp.X)) {
				found, isNil = true, cmp.Op == token.EQL
			}
		}
		if !found {
			return false, false
		}
	}
	res := isNil == (bo.Op == token.EQL)
	return res == pol, true
}

// ResolveAlong resolves v through the phis of the blocks on path (the value each phi has when its
// block is entered from the preceding block of the path), from the end of the path backwards.
func ResolveAlong(v ssa.Value, path []*ssa.BasicBlock) ssa.Value {
	for n := 0; n < 32; n++ {
		ph, ok := v.(*ssa.Phi)
		if !ok {
			return v
		}
		// last occurrence of the phi's block on the path
		at := -1
		for i := len(path) - 1; i >= 1; i-- {
			if path[i] == ph.Block() {
				at = i
				break
			}
		}
		if at < 1 {
			return v
		}
		pi := -1
		for i, p := range ph.Block().Preds {
			if p == path[at-1] {
				pi = i
			}
		}
		if pi < 0 {
			return v
		}
		v = ph.Edges[pi]
		path = path[:at]
	}
	return v
}

// Reaches reports whether instruction b can execute after instruction a
// (some CFG path leads from a to b).
func Reaches(a, b ssa.Instruction) bool {
	if a.Parent() != b.Parent() {
		return false
	}
	// plain CFG reachability (an over-approximation; also keeps SameCond, which the path-sensitive
	// search uses, from recursing)
	e := pathSearchInsensitive(a.Block(), InstrIndex(a)+1, PathQuery{Target: func(in ssa.Instruction) bool { return in == b }})
	return e != nil
}

// MayReach is Reaches with memory of the branches taken (paths that a flag or a helper's result rules out
// do not count).
func MayReach(a, b ssa.Instruction) bool {
	if a.Parent() != b.Parent() {
		return false
	}
	return PathFrom(a, PathQuery{Target: func(in ssa.Instruction) bool { return in == b }}) != nil
}

// Cmp is a canonical comparison: X Op Y where Op ∈ {<,<=,>,>=,==,!=}.
// Bytes marks comparisons expressed through bytes.Compare / bytes.Equal.
type Cmp struct {
	Op    token.Token
	X, Y  ssa.Value
	Bytes bool
}

func negate(op token.Token) token.Token {
	switch op {
	case token.LSS:
		return token.GEQ
	case token.LEQ:
		return token.GTR
	case token.GTR:
		return token.LEQ
	case token.GEQ:
		return token.LSS
	case token.EQL:
		return token.NEQ
	case token.NEQ:
		return token.EQL
	}
	return token.ILLEGAL
}

func swap(op token.Token) token.Token {
	switch op {
	case token.LSS:
		return token.GTR
	case token.LEQ:
		return token.GEQ
	case token.GTR:
		return token.LSS
	case token.GEQ:
		return token.LEQ
	}
	return op
}

// CanonCmp brings a boolean SSA value with polarity into canonical form.
// It understands !x, x OP y, bytes.Compare(a,b) OP 0 (either operand order),
// bytes.Equal(a,b). ok=false if the condition is not a comparison.
func CanonCmp(cond ssa.Value, pol bool) (Cmp, bool) {
	cond, pol = normBool(cond, pol)
	switch c := cond.(type) {
	case *ssa.BinOp:
		op := c.Op
		switch op {
		case token.LSS, token.LEQ, token.GTR, token.GEQ, token.EQL, token.NEQ:
		default:
			return Cmp{}, false
		}
		x, y := c.X, c.Y
		// bytes.Compare(a,b) OP 0
		if call, ok := x.(*ssa.Call); ok && CalleeName(call) == "bytes.Compare" {
			if k, ok := ConstInt(y); ok && k == 0 {
				r := Cmp{op, call.Call.Args[0], call.Call.Args[1], true}
				if !pol {
					r.Op = negate(r.Op)
				}
				return r, true
			}
		}
		if call, ok := y.(*ssa.Call); ok && CalleeName(call) == "bytes.Compare" {
			if k, ok := ConstInt(x); ok && k == 0 {
				r := Cmp{swap(op), call.Call.Args[0], call.Call.Args[1], true}
				if !pol {
					r.Op = negate(r.Op)
				}
				return r, true
			}
		}
		// string(a) OP string(b) with a, b []byte: the byte-wise comparison bytes.Compare(a, b) OP 0 makes
		if cx, ok := x.(*ssa.Convert); ok {
			if cy, ok := y.(*ssa.Convert); ok && isByteSlice(cx.X.Type()) && isByteSlice(cy.X.Type()) {
				r := Cmp{op, cx.X, cy.X, true}
				if !pol {
					r.Op = negate(r.Op)
				}
				return r, true
			}
		}
		// a constant on the left ('0' <= id) goes to the right
		if _, xc := x.(*ssa.Const); xc {
			if _, yc := y.(*ssa.Const); !yc {
				x, y, op = y, x, swap(op)
			}
		}
		r := Cmp{op, x, y, false}
		if !pol {
			r.Op = negate(r.Op)
		}
		return r, true
	case *ssa.Call:
		if CalleeName(c) == "bytes.Equal" {
			r := Cmp{token.EQL, c.Call.Args[0], c.Call.Args[1], true}
			if !pol {
				r.Op = token.NEQ
			}
			return r, true
		}
	}
	return Cmp{}, false
}

func isByteSlice(t types.Type) bool {
	sl, ok := t.Underlying().(*types.Slice)
	if !ok {
		return false
	}
	b, ok := sl.Elem().Underlying().(*types.Basic)
	return ok && b.Kind() == types.Uint8
}

// LenOf returns x if v is len(x).
func LenOf(v ssa.Value) ssa.Value {
	v = Strip(v)
	if c, ok := v.(*ssa.Call); ok {
		if b, ok := c.Call.Value.(*ssa.Builtin); ok && b.Name() == "len" {
			return c.Call.Args[0]
		}
	}
	return nil
}

// IsErrorType reports whether t is the predeclared error interface.
func IsErrorType(t types.Type) bool {
	return types.Identical(t, types.Universe.Lookup("error").Type())
}

// SuccOnTrue / SuccOnFalse return the successors of the block ending in iff.
func SuccOnTrue(iff *ssa.If) *ssa.BasicBlock  { return iff.Block().Succs[0] }
func SuccOnFalse(iff *ssa.If) *ssa.BasicBlock { return iff.Block().Succs[1] }

// EdgeFacts returns the facts that hold when control flows over the CFG
// edge from→to: the facts at from plus the branch taken.
func EdgeFacts(from, to *ssa.BasicBlock) []Fact { return expandFacts(edgeFacts(from, to), 0) }

func edgeFacts(from, to *ssa.BasicBlock) []Fact {
	out := factsAt(from)
	if len(from.Instrs) > 0 {
		if iff, ok := from.Instrs[len(from.Instrs)-1].(*ssa.If); ok && from.Succs[0] != from.Succs[1] {
			if from.Succs[0] == to {
				out = append(out, Fact{iff.Cond, true, iff})
			} else if from.Succs[1] == to {
				out = append(out, Fact{iff.Cond, false, iff})
			}
		}
	}
	return out
}

// FindCycle searches fn's CFG for a cycle that avoids the removed blocks and
// edges. It returns the blocks of one such cycle or nil.
func FindCycle(fn *ssa.Function, removedBlock func(*ssa.BasicBlock) bool, removedEdge func(from, to *ssa.BasicBlock) bool) []*ssa.BasicBlock {
	const (
		white = 0
		grey  = 1
		black = 2
	)
	color := map[*ssa.BasicBlock]int{}
	var stack []*ssa.BasicBlock
	var cycle []*ssa.BasicBlock
	var dfs func(b *ssa.BasicBlock) bool
	dfs = func(b *ssa.BasicBlock) bool {
		color[b] = grey
		stack = append(stack, b)
		for _, s := range b.Succs {
			if removedBlock != nil && removedBlock(s) {
				continue
			}
			if removedEdge != nil && removedEdge(b, s) {
				continue
			}
			switch color[s] {
			case grey:
				for i, x := range stack {
					if x == s {
						cycle = append([]*ssa.BasicBlock{}, stack[i:]...)
						return true
					}
				}
			case white:
				if dfs(s) {
					return true
				}
			}
		}
		stack = stack[:len(stack)-1]
		color[b] = black
		return false
	}
	for _, b := range fn.Blocks {
		if removedBlock != nil && removedBlock(b) {
			continue
		}
		if color[b] == white {
			if dfs(b) {
				return cycle
			}
		}
	}
	return nil
}

// BoundedLoopEdge reports whether the edge from→to enters the body of a loop
// whose trip count is fixed before entry: a range loop (next over map/string
// or index below len) or a counted loop "i < N" with i incremented by a
// positive constant on every way around and N invariant.
func BoundedLoopEdge(from, to *ssa.BasicBlock) bool {
	if len(from.Instrs) == 0 {
		return false
	}
	iff, ok := from.Instrs[len(from.Instrs)-1].(*ssa.If)
	if !ok || from.Succs[0] != to {
		return false
	}
	// range over map/string: cond = extract #0 of next
	if ex, ok := iff.Cond.(*ssa.Extract); ok && ex.Index == 0 {
		if _, ok := ex.Tuple.(*ssa.Next); ok {
			return true
		}
	}
	// i < N
	if bo, ok := iff.Cond.(*ssa.BinOp); ok && (bo.Op == token.LSS || bo.Op == token.LEQ) {
		if isCounter(bo.X, from) && invariantIn(bo.Y, from) {
			return true
		}
	}
	// i > N with i decremented
	if bo, ok := iff.Cond.(*ssa.BinOp); ok && (bo.Op == token.GTR || bo.Op == token.GEQ) {
		if isDownCounter(bo.X, from) && invariantIn(bo.Y, from) {
			return true
		}
	}
	return false
}

// isDownCounter: v is phi(c0, phi-k) with k>0 constant.
func isDownCounter(v ssa.Value, at *ssa.BasicBlock) bool {
	ph, ok := Strip(v).(*ssa.Phi)
	if !ok {
		return false
	}
	n := 0
	for _, e := range ph.Edges {
		if bo, ok := e.(*ssa.BinOp); ok && bo.Op == token.SUB && bo.X == ssa.Value(ph) {
			if k, okk := ConstInt(bo.Y); okk && k > 0 {
				n++
				continue
			}
		}
		if !invariantIn(e, at) {
			return false
		}
	}
	return n >= 1
}

// isCounter: v is phi(c0, phi+k) or (phi+k) with k>0 constant.
func isCounter(v ssa.Value, at *ssa.BasicBlock) bool {
	v = Strip(v)
	if cv, ok := v.(*ssa.Convert); ok {
		v = cv.X
	}
	inc := func(x ssa.Value, ph *ssa.Phi) bool {
		bo, ok := x.(*ssa.BinOp)
		if !ok || bo.Op != token.ADD {
			return false
		}
		k, okk := ConstInt(bo.Y)
		return okk && k > 0 && bo.X == ssa.Value(ph)
	}
	if ph, ok := v.(*ssa.Phi); ok {
		n := 0
		for _, e := range ph.Edges {
			if inc(e, ph) {
				n++
			} else if _, isC := e.(*ssa.Const); !isC {
				if !invariantIn(e, at) {
					return false
				}
			}
		}
		return n >= 1
	}
	if bo, ok := v.(*ssa.BinOp); ok && bo.Op == token.ADD {
		if ph, ok := bo.X.(*ssa.Phi); ok {
			if k, okk := ConstInt(bo.Y); okk && k > 0 {
				for _, e := range ph.Edges {
					if e == ssa.Value(bo) {
						return true
					}
				}
			}
		}
	}
	return false
}

// invariantIn: v is a constant, parameter, or defined in a block that strictly
// dominates at (so it does not change while the loop at `at` runs), or is
// len() of such a value.
func invariantIn(v ssa.Value, at *ssa.BasicBlock) bool {
	v = Strip(v)
	switch x := v.(type) {
	case *ssa.Const, *ssa.Parameter, *ssa.FreeVar:
		return true
	case *ssa.Convert:
		return invariantIn(x.X, at)
	case *ssa.Call:
		// len/cap of a slice value that is itself fixed (slice headers are values: the length of an
		// SSA slice value cannot change)
		if b, ok := x.Call.Value.(*ssa.Builtin); ok && (b.Name() == "len" || b.Name() == "cap") && len(x.Call.Args) == 1 {
			if _, isSlice := x.Call.Args[0].Type().Underlying().(*types.Slice); isSlice {
				return invariantIn(x.Call.Args[0], at)
			}
			if _, isStr := x.Call.Args[0].Type().Underlying().(*types.Basic); isStr {
				return invariantIn(x.Call.Args[0], at)
			}
		}
		b := x.Block()
		return b != at && b.Dominates(at)
	case *ssa.BinOp:
		if x.Block() == at || !x.Block().Dominates(at) {
			return invariantIn(x.X, at) && invariantIn(x.Y, at)
		}
		return true
	case *ssa.Phi:
		if x.Block() != at {
			return x.Block().Dominates(at)
		}
		// a phi of the loop header that only merges values fixed before the loop (or itself)
		for _, ed := range x.Edges {
			if ed == ssa.Value(x) {
				continue
			}
			switch y := ed.(type) {
			case *ssa.Const, *ssa.Parameter:
			case ssa.Instruction:
				if y.Block() == at || !y.Block().Dominates(at) {
					return false
				}
			default:
				return false
			}
		}
		return true
	case *ssa.UnOp:
		// a field of an object that is itself fixed, when this function never assigns that field (len(row.Cells)
		// re-read in the loop condition)
		if x.Op == token.MUL {
			if fa, ok := x.X.(*ssa.FieldAddr); ok && invariantIn(fa.X, at) {
				fv := FieldVar(fa.X.Type(), fa.Field)
				stored := false
				for _, f := range WithAnon(outermost(x.Parent())) {
					Instrs(f, func(in ssa.Instruction) {
						if st, ok := in.(*ssa.Store); ok {
							if sfa, ok := st.Addr.(*ssa.FieldAddr); ok && FieldVar(sfa.X.Type(), sfa.Field) == fv {
								stored = true
							}
						}
					})
				}
				if !stored {
					return true
				}
			}
		}
		b := x.Block()
		return b != at && b.Dominates(at)
	case ssa.Instruction:
		b := x.Block()
		return b != at && b.Dominates(at)
	}
	return false
}

func outermost(fn *ssa.Function) *ssa.Function {
	for fn.Parent() != nil {
		fn = fn.Parent()
	}
	return fn
}

// boolConst returns the value of a boolean constant.
func boolConst(v ssa.Value) (val, ok bool) {
	k, isC := v.(*ssa.Const)
	if !isC || k.Value == nil {
		return false, false
	}
	if b, isB := k.Type().Underlying().(*types.Basic); !isB || b.Info()&types.IsBoolean == 0 {
		return false, false
	}
	return k.Value.ExactString() == "true", true
}

// NormBool is normBool for rule code.
func NormBool(cond ssa.Value, pol bool) (ssa.Value, bool) { return normBool(cond, pol) }

// BoolConst is boolConst for rule code.
func BoolConst(v ssa.Value) (val, ok bool) { return boolConst(v) }

// normBool strips the wrappers go/ssa puts around conditions that were evaluated as values:
// !x, true == x, x == true, x != false ... (tagless switch cases are lowered to `true == cond`).
func normBool(cond ssa.Value, pol bool) (ssa.Value, bool) {
	for i := 0; i < 8; i++ {
		switch c := cond.(type) {
		case *ssa.UnOp:
			if c.Op == token.NOT {
				cond, pol = c.X, !pol
				continue
			}
		case *ssa.BinOp:
			if c.Op == token.EQL || c.Op == token.NEQ {
				if k, ok := boolConst(c.X); ok {
					cond = c.Y
					if k != (c.Op == token.EQL) {
						pol = !pol
					}
					continue
				}
				if k, ok := boolConst(c.Y); ok {
					cond = c.X
					if k != (c.Op == token.EQL) {
						pol = !pol
					}
					continue
				}
			}
		}
		break
	}
	return cond, pol
}

// expandFacts normalises facts and decomposes facts about short-circuit expressions that were
// evaluated as values (a boolean phi whose other inputs are the constants the short-circuit yields):
// if only one input of the phi can have the known value, control came over that edge, so the branch
// conditions of that edge hold and the input itself has the value.
func expandFacts(in []Fact, depth int) []Fact {
	var out []Fact
	for _, f := range in {
		c, pol := normBool(f.Cond, f.Pol)
		out = append(out, Fact{c, pol, f.If})
		if depth <= 4 {
			out = append(out, nilPhiFacts(c, pol, depth)...)
		}
		ph, ok := c.(*ssa.Phi)
		if !ok || depth > 4 {
			continue
		}
		if b, isB := ph.Type().Underlying().(*types.Basic); !isB || b.Info()&types.IsBoolean == 0 {
			continue
		}
		feasible := -1
		n := 0
		for i, e := range ph.Edges {
			if k, isC := boolConst(e); isC && k != pol {
				continue
			}
			// an input edge whose own branch conditions contradict what is known is not taken either
			contra := false
			for _, ef := range edgeFacts(ph.Block().Preds[i], ph.Block()) {
				ec, ep := normBool(ef.Cond, ef.Pol)
				for _, g := range in {
					gc, gp := normBool(g.Cond, g.Pol)
					if gp != ep && SameCond(gc, ec) {
						contra = true
					}
				}
			}
			if contra {
				continue
			}
			feasible = i
			n++
		}
		if n != 1 {
			continue
		}
		pred := ph.Block().Preds[feasible]
		sub := edgeFacts(pred, ph.Block())
		if _, isC := boolConst(ph.Edges[feasible]); !isC {
			sub = append(sub, Fact{ph.Edges[feasible], pol, f.If})
		}
		out = append(out, expandFacts(sub, depth+1)...)
	}
	return out
}

// chaseLoad is chase that also forwards a load of a local with several stores (a named result, a variable
// assigned by an expanded helper) to the store that reaches it on every path.
func chaseLoad(v ssa.Value) ssa.Value {
	for n := 0; n < 4; n++ {
		v = chase(v)
		u, ok := v.(*ssa.UnOp)
		if !ok || u.Op != token.MUL {
			return v
		}
		a, ok := u.X.(*ssa.Alloc)
		if !ok {
			return v
		}
		w := ReachingStore(u, a)
		if w == nil {
			return v
		}
		v = w
	}
	return v
}

// nilPhiFacts: the fact is a nil test of a phi (the error an expanded helper returned). If only one
// input of the phi can have the known nil-ness, control came over that edge and the branch conditions of
// that edge hold (the success return of the helper: everything it checked before).
func nilPhiFacts(c ssa.Value, pol bool, depth int) []Fact {
	cmp, ok := CanonCmp(c, pol)
	if !ok || (cmp.Op != token.EQL && cmp.Op != token.NEQ) {
		return nil
	}
	var q ssa.Value
	switch {
	case IsNilConst(cmp.Y):
		q = cmp.X
	case IsNilConst(cmp.X):
		q = cmp.Y
	default:
		return nil
	}
	ph, ok := chaseLoad(q).(*ssa.Phi)
	if os.Getenv("VERIF_DEBUG_FACTS") != "" {
		fmt.Fprintf(os.Stderr, "nilPhiFacts %s in %s: q=%s chase=%s (%T)\n", c, q.Parent(), q, chaseLoad(q), chaseLoad(q))
	}
	if !ok {
		return nil
	}
	feasible, n := -1, 0
	for i, e := range ph.Edges {
		if cmp.Op == token.EQL && NonNil(e) {
			continue
		}
		if cmp.Op == token.NEQ && IsNilConst(e) {
			continue
		}
		feasible = i
		n++
	}
	if n != 1 {
		return nil
	}
	return expandFacts(edgeFacts(ph.Block().Preds[feasible], ph.Block()), depth+1)
}

// FeasibleEdges returns the indices of the inputs of phi that are consistent with facts: an input
// edge is ruled out when a sibling phi of the same block, known (by a fact) to be nil / not nil,
// would receive a non-nil / nil value over that edge. This is how the values a helper returned
// together are correlated after its call site was expanded: `chunk, rest, err := ...` followed by
// `if err != nil { return }` leaves only the success return's chunk and rest.
func FeasibleEdges(ph *ssa.Phi, facts []Fact) []int {
	var out []int
	for i := range ph.Edges {
		ok := true
		for _, f := range facts {
			cmp, isCmp := CanonCmp(f.Cond, f.Pol)
			if !isCmp || (cmp.Op != token.EQL && cmp.Op != token.NEQ) {
				continue
			}
			var q ssa.Value
			switch {
			case IsNilConst(cmp.Y):
				q = cmp.X
			case IsNilConst(cmp.X):
				q = cmp.Y
			default:
				continue
			}
			sib, isPhi := chaseLoad(q).(*ssa.Phi)
			if os.Getenv("VERIF_DEBUG_FACTS") != "" {
				fmt.Fprintf(os.Stderr, "FE %s: fact %s pol %v: q=%s chase=%s isPhi=%v\n", ph.Name(), f.Cond, f.Pol, q, chaseLoad(q), isPhi)
			}
			if !isPhi || sib.Block() != ph.Block() || i >= len(sib.Edges) {
				continue
			}
			in := sib.Edges[i]
			if os.Getenv("VERIF_DEBUG_FACTS") != "" {
				fmt.Fprintf(os.Stderr, "FE2 %s edge %d: in=%s (%T) op=%s nonnil=%v sameblock=%v\n", ph.Name(), i, in, in, cmp.Op, NonNil(in), sib.Block() == ph.Block())
			}
			if cmp.Op == token.EQL && NonNil(in) {
				ok = false
			}
			if cmp.Op == token.NEQ && IsNilConst(in) {
				ok = false
			}
		}
		if ok {
			out = append(out, i)
		}
	}
	return out
}

// RootAt is Root with the facts that hold at block at: a phi whose inputs are all but one ruled out
// by those facts (FeasibleEdges) is replaced by the remaining input.
func RootAt(v ssa.Value, at *ssa.BasicBlock) ssa.Value {
	for n := 0; n < 8; n++ {
		v = Root(v)
		ph, ok := v.(*ssa.Phi)
		if !ok || at == nil || !ph.Block().Dominates(at) {
			return v
		}
		idx := FeasibleEdges(ph, FactsAt(at))
		if os.Getenv("VERIF_DEBUG_FACTS") != "" {
			fmt.Fprintf(os.Stderr, "RootAt %s %s at %d: feasible %v of %d; facts %d\n", ph.Name(), ph.Comment, at.Index, idx, len(ph.Edges), len(FactsAt(at)))
		}
		if len(idx) != 1 {
			return v
		}
		v = ph.Edges[idx[0]]
	}
	return v
}

// OnAllWays reports whether want holds for the facts of every way control can reach block b: either
// for the facts that dominate b, or - case split - for every feasible input edge of a boolean phi
// that is known true/false at b (a flag a helper computed from several tests), or for every
// predecessor edge of b (recursively, not following back edges).
func OnAllWays(b *ssa.BasicBlock, want func([]Fact) bool, depth int) bool {
	facts := FactsAt(b)
	if want(facts) {
		return true
	}
	if depth > 6 {
		return false
	}
	for _, f := range facts {
		ph, ok := f.Cond.(*ssa.Phi)
		if !ok {
			continue
		}
		if bt, isB := ph.Type().Underlying().(*types.Basic); !isB || bt.Info()&types.IsBoolean == 0 {
			continue
		}
		n, all := 0, true
		for i, e := range ph.Edges {
			if k, isC := boolConst(e); isC && k != f.Pol {
				continue
			}
			n++
			pred := ph.Block().Preds[i]
			sub := EdgeFacts(pred, ph.Block())
			if _, isC := boolConst(e); !isC {
				sub = append(sub, expandFacts([]Fact{{e, f.Pol, f.If}}, 0)...)
			}
			if !want(append(append([]Fact{}, facts...), sub...)) && !onAllWaysEdge(pred, ph.Block(), want, depth+1) {
				all = false
			}
		}
		if n > 0 && all {
			return true
		}
	}
	// the same for a value of an enumeration a helper computed: `switch classify(x) { case A:` - split over the
	// inputs of the phi that are the constant A (or not constant at all)
	for _, f := range facts {
		bo, ok := f.Cond.(*ssa.BinOp)
		if !ok || bo.Op != token.EQL || !f.Pol {
			continue
		}
		ph, isPhi := bo.X.(*ssa.Phi)
		k, isK := bo.Y.(*ssa.Const)
		if !isPhi || !isK || k.Value == nil {
			continue
		}
		n, all := 0, true
		for i, e := range ph.Edges {
			if ek, isC := e.(*ssa.Const); isC {
				if ek.Value == nil || ek.Value.ExactString() != k.Value.ExactString() {
					continue
				}
			}
			n++
			pred := ph.Block().Preds[i]
			if ph.Block().Dominates(pred) {
				all = false
				break
			}
			if !want(append(append([]Fact{}, facts...), EdgeFacts(pred, ph.Block())...)) && !onAllWaysEdge(pred, ph.Block(), want, depth+1) {
				all = false
			}
		}
		if n > 0 && all {
			return true
		}
	}
	if len(b.Preds) == 0 {
		return false
	}
	for _, p := range b.Preds {
		if b.Dominates(p) {
			return false // loop head: give up
		}
		if !onAllWaysEdge(p, b, want, depth+1) {
			return false
		}
	}
	return true
}

func onAllWaysEdge(from, to *ssa.BasicBlock, want func([]Fact) bool, depth int) bool {
	if want(EdgeFacts(from, to)) {
		return true
	}
	// the edge adds nothing decisive: look at the ways into from
	if len(from.Succs) == 1 {
		return OnAllWays(from, want, depth)
	}
	return false
}

// IfBranches returns the normalised condition of a branch (wrappers such as !x and true == x
// removed) and the successors taken when that condition is true / false.
func IfBranches(iff *ssa.If) (cond ssa.Value, onTrue, onFalse *ssa.BasicBlock) {
	c, pol := normBool(iff.Cond, true)
	t, f := iff.Block().Succs[0], iff.Block().Succs[1]
	if !pol {
		t, f = f, t
	}
	return c, t, f
}

// ResolveLeaf resolves v through phis using the input choices of path (see props.valueLeaves): the
// value a sibling result has when a given leaf was selected. Phis whose block has a chosen phi use
// the same input index.
func ResolveLeaf(v ssa.Value, path map[*ssa.Phi]int) ssa.Value {
	for n := 0; n < 16; n++ {
		ph, ok := Strip(v).(*ssa.Phi)
		if !ok {
			return Strip(v)
		}
		idx, found := -1, false
		if i, ok := path[ph]; ok {
			idx, found = i, true
		} else {
			for q, i := range path {
				if q.Block() == ph.Block() {
					idx, found = i, true
				}
			}
		}
		if !found || idx >= len(ph.Edges) {
			return ph
		}
		v = ph.Edges[idx]
	}
	return v
}

// SameCond reports whether two branch conditions are the same value, or two loads of the same local
// variable (one that go/ssa kept in memory because a closure captures it) with nothing in between
// that can write it: no store to it and no call of a closure that captures it on any path from the
// first load to the second.
func SameCond(a, b ssa.Value) bool {
	if a == b {
		return true
	}
	// the same comparison of the same operands (res.Error != nil tested in a helper and again by its caller)
	if ba, ok := a.(*ssa.BinOp); ok {
		if bb, ok := b.(*ssa.BinOp); ok && ba.Op == bb.Op {
			return sameOperand(ba.X, bb.X) && sameOperand(ba.Y, bb.Y)
		}
		return false
	}
	return sameLoad(a, b)
}

func sameOperand(x, y ssa.Value) bool {
	if x == y {
		return true
	}
	if cx, ok := x.(*ssa.Const); ok {
		if cy, ok := y.(*ssa.Const); ok {
			return types.Identical(cx.Type(), cy.Type()) && (cx.Value == nil && cy.Value == nil || cx.Value != nil && cy.Value != nil && cx.Value.ExactString() == cy.Value.ExactString())
		}
		return false
	}
	return sameLoad(x, y)
}

// sameLoad: two loads of the same local variable, or of the same field of the same local struct, with nothing in
// between that can write it.
func sameLoad(a, b ssa.Value) bool {
	la, ok1 := a.(*ssa.UnOp)
	lb, ok2 := b.(*ssa.UnOp)
	if !ok1 || !ok2 || la.Op != token.MUL || lb.Op != token.MUL || la.Parent() != lb.Parent() {
		return false
	}
	var al *ssa.Alloc
	field := -1
	if la.X == lb.X {
		al, _ = la.X.(*ssa.Alloc)
	}
	if al == nil {
		fa, ok1 := la.X.(*ssa.FieldAddr)
		fb, ok2 := lb.X.(*ssa.FieldAddr)
		if !ok1 || !ok2 || fa.Field != fb.Field || fa.X != fb.X {
			return false
		}
		al, _ = fa.X.(*ssa.Alloc)
		field = fa.Field
	}
	if al == nil {
		return false
	}
	first, second := ssa.Instruction(la), ssa.Instruction(lb)
	if Dominates(second, first) && !Dominates(first, second) {
		first, second = second, first
	}
	if !Reaches(first, second) {
		first, second = second, first
		if !Reaches(first, second) {
			return false
		}
	}
	// closures capturing the variable
	capt := map[ssa.Value]bool{}
	for _, r := range Referrers(al) {
		if mc, ok := r.(*ssa.MakeClosure); ok {
			capt[mc] = true
		}
	}
	bad := false
	Instrs(la.Parent(), func(in ssa.Instruction) {
		if bad {
			return
		}
		writes := false
		switch x := in.(type) {
		case *ssa.Store:
			writes = x.Addr == ssa.Value(al)
			if sfa, ok := x.Addr.(*ssa.FieldAddr); ok && sfa.X == ssa.Value(al) && (field < 0 || sfa.Field == field) {
				writes = true
			}
		case ssa.CallInstruction:
			cc := x.Common()
			if capt[cc.Value] {
				writes = true
			}
			for _, arg := range cc.Args {
				if arg == ssa.Value(al) || capt[arg] {
					writes = true
				}
				if afa, ok := arg.(*ssa.FieldAddr); ok && afa.X == ssa.Value(al) {
					writes = true
				}
			}
		}
		if !writes {
			return
		}
		if Dominates(first, second) {
			// every way to the second load passes the first: only a write after the last visit of the
			// first load counts (a write further round the enclosing loop is followed by the first load again)
			avoidFirst := PathQuery{Stop: func(x ssa.Instruction) bool { return x == first }}
			q1, q2 := avoidFirst, avoidFirst
			q1.Target = func(x ssa.Instruction) bool { return x == in }
			q2.Target = func(x ssa.Instruction) bool { return x == second }
			if pathSearchInsensitive(first.Block(), InstrIndex(first)+1, q1) != nil && pathSearchInsensitive(in.Block(), InstrIndex(in)+1, q2) != nil {
				bad = true
			}
			return
		}
		if Reaches(first, in) && Reaches(in, second) {
			bad = true
		}
	})
	return !bad
}

// evalUnder evaluates a branch condition under the conditions decided earlier on a path: a constant, a
// condition that was branched on before (SameCond), a negation, or a boolean phi all of whose inputs evaluate
// to the same value (a flag computed from earlier tests, e.g. x := !a && !b tested later).
func evalUnder(cond ssa.Value, known map[ssa.Value]bool, depth int) (bool, bool) {
	c, pol := normBool(cond, true)
	if k, isC := boolConst(c); isC {
		return k == pol, true
	}
	for kc, v := range known {
		if SameCond(kc, c) {
			return v == pol, true
		}
	}
	if depth > 3 {
		return false, false
	}
	ph, ok := c.(*ssa.Phi)
	if !ok {
		return false, false
	}
	if b, isB := ph.Type().Underlying().(*types.Basic); !isB || b.Info()&types.IsBoolean == 0 {
		return false, false
	}
	have, val := false, false
	for i, e := range ph.Edges {
		// an input edge whose own branch conditions contradict what is known is not taken
		contra := false
		for _, ef := range edgeFacts(ph.Block().Preds[i], ph.Block()) {
			if v, ok := evalUnder(ef.Cond, known, depth+1); ok && v != ef.Pol {
				contra = true
			}
		}
		if contra {
			continue
		}
		v, ok := evalUnder(e, known, depth+1)
		if !ok {
			return false, false
		}
		if have && v != val {
			return false, false
		}
		have, val = true, v
	}
	if !have {
		return false, false
	}
	return val == pol, true
}

// FindCycleSensitive is FindCycle with memory of the branches taken (pathSearch): it returns a cycle through
// a loop header of fn that avoids the removed blocks and edges and is not ruled out by conditions that are
// tested twice on the way (flags). nil if there is none.
func FindCycleSensitive(fn *ssa.Function, removedBlock func(*ssa.BasicBlock) bool, removedEdge func(from, to *ssa.BasicBlock) bool) []*ssa.BasicBlock {
	for _, h := range fn.Blocks {
		isHeader := false
		for _, p := range h.Preds {
			if h.Dominates(p) {
				isHeader = true
			}
		}
		if !isHeader || (removedBlock != nil && removedBlock(h)) || len(h.Instrs) == 0 {
			continue
		}
		for _, s := range h.Succs {
			if (removedEdge != nil && removedEdge(h, s)) || (removedBlock != nil && removedBlock(s)) {
				continue
			}
			if s == h {
				return []*ssa.BasicBlock{h}
			}
			first := h.Instrs[0]
			e := pathSearch(s, 0, PathQuery{
				Known: EdgeFacts(h, s),
				TargetPath: func(in ssa.Instruction, path []*ssa.BasicBlock) bool {
					if in != first {
						return false
					}
					// a cycle must be repeatable: coming back into the header over this edge, the header's own
					// branch (if the edge decides it: a "first round" flag that the back edge sets) must lead to s again
					if len(path) >= 2 && len(h.Succs) == 2 {
						if v, decided := DecideOnEntry(h, path[len(path)-2]); decided {
							next := h.Succs[1]
							if v {
								next = h.Succs[0]
							}
							if next != s {
								return false
							}
						}
					}
					return true
				},
				SkipEdge: func(from, to *ssa.BasicBlock) bool {
					return (removedEdge != nil && removedEdge(from, to)) || (removedBlock != nil && removedBlock(to) && to != h)
				},
			})
			if e != nil {
				return append([]*ssa.BasicBlock{h}, e.Path...)
			}
		}
	}
	return nil
}
