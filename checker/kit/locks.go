package kit

import (
	"go/types"
	"sort"
	"strings"

	"golang.org/x/tools/go/ssa"
)

// LockKey identifies a held mutex: the mutex field plus the access path of
// the object that holds it. R marks a read lock.
type LockKey struct {
	Field *types.Var
	Base  string
	R     bool
}

func (k LockKey) String() string {
	s := k.Base + "." + k.Field.Name()
	if k.R {
		s += "(R)"
	}
	return s
}

// LockSet is a set of held locks.
type LockSet map[LockKey]bool

func (s LockSet) clone() LockSet {
	o := LockSet{}
	for k := range s {
		o[k] = true
	}
	return o
}

func (s LockSet) String() string {
	var xs []string
	for k := range s {
		xs = append(xs, k.String())
	}
	sort.Strings(xs)
	return "{" + strings.Join(xs, ",") + "}"
}

// HoldsField reports whether a lock on mutex field f is held; write=true
// requires the exclusive lock.
func (s LockSet) HoldsField(f *types.Var, write bool) bool {
	for k := range s {
		if k.Field == f && (!k.R || !write) {
			return true
		}
	}
	return false
}

func intersect(a, b LockSet) LockSet {
	o := LockSet{}
	for k := range a {
		if b[k] {
			o[k] = true
		}
	}
	return o
}

// lockOp classifies a call as a mutex operation on a struct field.
func lockOp(c ssa.CallInstruction) (key LockKey, op string, ok bool) {
	name := CalleeName(c)
	switch name {
	case "(*sync.Mutex).Lock", "(*sync.RWMutex).Lock":
		op = "lock"
	case "(*sync.Mutex).Unlock", "(*sync.RWMutex).Unlock":
		op = "unlock"
	case "(*sync.RWMutex).RLock":
		op = "rlock"
	case "(*sync.RWMutex).RUnlock":
		op = "runlock"
	default:
		return
	}
	args := c.Common().Args
	if len(args) == 0 {
		return
	}
	fa, isFA := args[0].(*ssa.FieldAddr)
	if !isFA {
		return
	}
	f := FieldVar(fa.X.Type(), fa.Field)
	key = LockKey{Field: f, Base: Path(fa.X), R: op == "rlock" || op == "runlock"}
	return key, op, true
}

// Locks is the result of the lock-set analysis of one function.
type Locks struct {
	fn *ssa.Function
	in map[*ssa.BasicBlock]LockSet
}

// AnalyzeLocks computes, for every block of fn, the set of mutexes that are
// held on every path from the entry (must-analysis; meet = intersection).
// entry is the set inherited from the caller (for closures and summarised
// helpers). A deferred Unlock keeps the lock held until the function exits.
func AnalyzeLocks(fn *ssa.Function, entry LockSet) *Locks {
	l := &Locks{fn: fn, in: map[*ssa.BasicBlock]LockSet{}}
	if len(fn.Blocks) == 0 {
		return l
	}
	if entry == nil {
		entry = LockSet{}
	}
	l.in[fn.Blocks[0]] = entry.clone()
	work := []*ssa.BasicBlock{fn.Blocks[0]}
	for len(work) > 0 {
		b := work[0]
		work = work[1:]
		out := l.transfer(b, len(b.Instrs))
		for _, s := range b.Succs {
			old, seen := l.in[s]
			var nw LockSet
			if !seen {
				nw = out.clone()
			} else {
				nw = intersect(old, out)
			}
			if !seen || len(nw) != len(old) {
				l.in[s] = nw
				work = append(work, s)
			}
		}
	}
	return l
}

func (l *Locks) transfer(b *ssa.BasicBlock, upto int) LockSet {
	cur := l.in[b].clone()
	for i := 0; i < upto && i < len(b.Instrs); i++ {
		c, ok := b.Instrs[i].(*ssa.Call)
		if !ok {
			continue
		}
		k, op, ok := lockOp(c)
		if !ok {
			continue
		}
		switch op {
		case "lock", "rlock":
			cur[k] = true
		case "unlock", "runlock":
			delete(cur, k)
		}
	}
	return cur
}

// At returns the locks held immediately before instruction in.
func (l *Locks) At(in ssa.Instruction) LockSet {
	b := in.Block()
	if _, ok := l.in[b]; !ok {
		return LockSet{} // unreachable block
	}
	return l.transfer(b, InstrIndex(in))
}

// LockOp classifies a call as a mutex operation on a struct field (exported form of lockOp).
func LockOp(c ssa.CallInstruction) (key LockKey, op string, ok bool) { return lockOp(c) }
