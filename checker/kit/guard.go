package kit

import (
	"go/token"
	"go/types"
	"strings"

	"golang.org/x/tools/go/ssa"
)

// LockEnv answers "which mutexes are held at this instruction", taking into
// account locks inherited from all callers (summary: a helper that touches a
// guarded field without locking moves the obligation to its call sites) and
// from the creation site of function literals that run synchronously.
type LockEnv struct {
	P     *Prog
	locks map[*ssa.Function]*Locks
	entry map[*ssa.Function]LockSet
	busy  map[*ssa.Function]bool
}

// NewLockEnv creates an empty environment.
func NewLockEnv(p *Prog) *LockEnv {
	return &LockEnv{P: p, locks: map[*ssa.Function]*Locks{}, entry: map[*ssa.Function]LockSet{}, busy: map[*ssa.Function]bool{}}
}

// closureSite finds the MakeClosure creating fn in its parent and how the
// closure is used: "go", "defer", "sync" (called or passed to a call that runs
// it before returning) or "escape".
func closureSite(fn *ssa.Function) (mc *ssa.MakeClosure, site ssa.Instruction, mode string) {
	par := fn.Parent()
	if par == nil {
		return nil, nil, ""
	}
	Instrs(par, func(in ssa.Instruction) {
		if m, ok := in.(*ssa.MakeClosure); ok && m.Fn == fn {
			mc = m
		}
	})
	if mc == nil {
		// literal without free variables: referenced as *ssa.Function operand
		var user ssa.Instruction
		Instrs(par, func(in ssa.Instruction) {
			for _, op := range in.Operands(nil) {
				if *op == ssa.Value(fn) {
					user = in
				}
			}
		})
		if user == nil {
			return nil, nil, "escape"
		}
		return nil, user, useMode(user, fn)
	}
	refs := Referrers(mc)
	// look through value-preserving conversions of the function value
	for i := 0; i < len(refs); i++ {
		if ct, ok := refs[i].(*ssa.ChangeType); ok {
			refs = append(append(append([]ssa.Instruction{}, refs[:i]...), refs[i+1:]...), Referrers(ct)...)
			i--
		}
	}
	if len(refs) == 0 {
		return mc, mc, "escape"
	}
	// a closure bound to a local variable and called later: every use decides
	mode = ""
	for _, r := range refs {
		m := useMode(r, mc)
		if st, ok := r.(*ssa.Store); ok {
			// stored into a local (e.g. flush := func...) – follow loads
			if a, ok := st.Addr.(*ssa.Alloc); ok {
				m = "sync-local"
				_ = a
			}
		}
		if mode == "" || m == "escape" || m == "go" {
			mode = m
			site = r
		}
	}
	return mc, site, mode
}

func useMode(user ssa.Instruction, v ssa.Value) string {
	switch u := user.(type) {
	case *ssa.Go:
		return "go"
	case *ssa.Defer:
		return "defer"
	case *ssa.Call:
		return "sync"
	case *ssa.Store:
		_ = u
		return "escape"
	}
	return "escape"
}

// Entry returns the set of locks held on entry to fn on every call path.
func (e *LockEnv) Entry(fn *ssa.Function) LockSet {
	if s, ok := e.entry[fn]; ok {
		return s
	}
	if e.busy[fn] {
		return nil // recursion: optimistic top, resolved by intersection
	}
	e.busy[fn] = true
	defer delete(e.busy, fn)

	var result LockSet
	have := false
	meet := func(s LockSet) {
		if s == nil {
			return
		}
		if !have {
			result = s.clone()
			have = true
		} else {
			result = intersect(result, s)
		}
	}
	if fn.Parent() != nil {
		_, site, mode := closureSite(fn)
		switch mode {
		case "sync", "defer":
			meet(e.At(site))
		case "sync-local":
			// called through a local variable: intersect over all calls of function values in parent
			par := fn.Parent()
			found := false
			for _, f := range WithAnon(par) {
				Instrs(f, func(in ssa.Instruction) {
					if c, ok := in.(ssa.CallInstruction); ok && !c.Common().IsInvoke() {
						if r := Root(c.Common().Value); r != nil {
							if mc, ok := r.(*ssa.MakeClosure); ok && mc.Fn == fn {
								if _, isGo := in.(*ssa.Go); isGo {
									meet(LockSet{})
								} else {
									meet(e.At(in))
								}
								found = true
							}
						}
					}
				})
			}
			if !found {
				meet(LockSet{})
			}
		default:
			meet(LockSet{})
		}
	} else {
		node := e.P.CG.Nodes[fn]
		n := 0
		if node != nil {
			for _, in := range node.In {
				if in.Site == nil || !e.P.IsSubject(in.Caller.Func) {
					continue
				}
				n++
				if _, isGo := in.Site.(*ssa.Go); isGo {
					meet(LockSet{})
					continue
				}
				meet(e.At(in.Site))
			}
		}
		if n == 0 {
			meet(LockSet{})
		}
	}
	if result == nil {
		result = LockSet{}
	}
	e.entry[fn] = result
	return result
}

// At returns the locks held immediately before instruction in.
func (e *LockEnv) At(in ssa.Instruction) LockSet {
	fn := in.Parent()
	l, ok := e.locks[fn]
	if !ok {
		l = AnalyzeLocks(fn, e.Entry(fn))
		e.locks[fn] = l
	}
	return l.At(in)
}

// Access is one access to a struct field.
type Access struct {
	Instr ssa.Instruction
	Fn    *ssa.Function
	Write bool
	Kind  string
}

// writerMethods lists methods through which the content of a guarded
// container is mutated (b.Tree).
var writerMethods = map[string]bool{"Put": true, "Delete": true, "Set": true, "Clear": true, "Close": false}

// FieldAccesses enumerates every access to field f in the analysed functions.
// A read whose loaded value flows into a map update, delete or a mutating
// method of the container counts as a write.
func (p *Prog) FieldAccesses(f *types.Var) []Access {
	var out []Access
	for _, fn := range p.Funcs {
		Instrs(fn, func(in ssa.Instruction) {
			fa, ok := in.(*ssa.FieldAddr)
			if !ok || FieldVar(fa.X.Type(), fa.Field) != f {
				if fl, ok := in.(*ssa.Field); ok && FieldVar(fl.X.Type(), fl.Field) == f {
					out = append(out, Access{in, fn, false, "read"})
				}
				return
			}
			for _, r := range Referrers(fa) {
				switch u := r.(type) {
				case *ssa.Store:
					if u.Addr == fa {
						out = append(out, Access{u, fn, true, "store"})
					} else {
						out = append(out, Access{u, fn, true, "address-escapes"})
					}
				case *ssa.UnOp:
					if u.Op != token.MUL {
						continue
					}
					w := false
					kind := "read"
					for _, rr := range Referrers(u) {
						switch x := rr.(type) {
						case *ssa.MapUpdate:
							if x.Map == u {
								w, kind = true, "map-update"
							}
						case ssa.CallInstruction:
							n := CalleeName(x)
							if n == "builtin.delete" {
								w, kind = true, "map-delete"
							}
							if callee := StaticCallee(x); callee != nil &&
								len(x.Common().Args) > 0 && x.Common().Args[0] == ssa.Value(u) {
								mn := callee.Name()
								if i := strings.IndexByte(mn, '['); i >= 0 {
									mn = mn[:i]
								}
								if writerMethods[mn] {
									w, kind = true, "container-"+mn
								}
							}
						case *ssa.Lookup:
							// nested map: m[k][k2] = v / delete(m[k], k2)
							if x.X == ssa.Value(u) {
								vals := []ssa.Value{x}
								if x.CommaOk {
									vals = nil
									for _, r3 := range Referrers(x) {
										if ex, ok := r3.(*ssa.Extract); ok && ex.Index == 0 {
											vals = append(vals, ex)
										}
									}
								}
								for _, v := range vals {
									if mutatesMap(v) {
										w, kind = true, "nested-map-update"
									}
								}
							}
						case *ssa.Range:
							// for k, inner := range m { inner[x] = ... }
							for _, r3 := range Referrers(x) {
								if nx, ok := r3.(*ssa.Next); ok {
									for _, r4 := range Referrers(nx) {
										if ex, ok := r4.(*ssa.Extract); ok && ex.Index == 2 && mutatesMap(ex) {
											w, kind = true, "nested-map-update"
										}
									}
								}
							}
						}
					}
					out = append(out, Access{u, fn, w, kind})
				case ssa.CallInstruction:
					// address passed to a call (e.g. atomic.AddUint32(&c.id, 1))
					out = append(out, Access{u, fn, true, "address-to-" + ShortName(CalleeName(u))})
				default:
					out = append(out, Access{r, fn, true, "address-escapes"})
				}
			}
		})
	}
	return out
}

// mutatesMap: map value v is the target of a map update or delete.
func mutatesMap(v ssa.Value) bool {
	if _, ok := v.Type().Underlying().(*types.Map); !ok {
		return false
	}
	for _, r := range Referrers(v) {
		switch x := r.(type) {
		case *ssa.MapUpdate:
			if x.Map == v {
				return true
			}
		case ssa.CallInstruction:
			if CalleeName(x) == "builtin.delete" && x.Common().Args[0] == v {
				return true
			}
		}
	}
	return false
}

// FreshObject reports whether the base object of the field access was
// allocated in the same function (constructor: not yet shared).
func FreshObject(in ssa.Instruction) bool {
	var base ssa.Value
	switch x := in.(type) {
	case *ssa.Store:
		if fa, ok := x.Addr.(*ssa.FieldAddr); ok {
			base = fa.X
		}
	case *ssa.UnOp:
		if fa, ok := x.X.(*ssa.FieldAddr); ok {
			base = fa.X
		}
	}
	for base != nil {
		switch b := base.(type) {
		case *ssa.Alloc:
			return true
		case *ssa.FieldAddr:
			base = b.X
		default:
			return false
		}
	}
	return false
}
