package kit

import (
	"bytes"
	"fmt"
	"go/ast"
	"go/token"
	"go/types"
	"os"
	"sort"
	"strings"

	"golang.org/x/tools/go/packages"
)

// Normalisation: the rules name the functions of the tree they were confirmed on (the table
// tables/known_funcs.txt). A function that is not in that table was introduced later - typically a
// few statements moved out of a known function by a refactoring. Such functions are treated as part
// of their callers: before the SSA is built, their call sites (in the statement forms below) are
// expanded in an overlay of the caller's source, with //line directives keeping every position on
// the original file and line. Nothing is normalised on a tree whose functions are all known.
//
// Supported call sites (callee in the same package, no defer/recover/labels/variadics/type
// parameters, not recursive):
//   f(a)                       as a statement
//   x, y := f(a) / x, y = f(a)
//   return f(a)
//   if x := f(a); cond { ... }   and   if f(a) { ... } / if !f(a) { ... }
// Anything else is left alone (the rules then see a call of an unknown function).

// FuncKey is the table key of a function declaration.
func FuncKey(obj *types.Func) string { return obj.FullName() }

// FuncSigs maps the key of every function declaration of the module packages to its signature, written without
// parameter names (tests excluded).
func FuncSigs(pkgs []*packages.Package) map[string]string {
	out := map[string]string{}
	for _, pk := range pkgs {
		if !strings.HasPrefix(pk.PkgPath, Module) {
			continue
		}
		for _, f := range pk.Syntax {
			for _, d := range f.Decls {
				if fd, ok := d.(*ast.FuncDecl); ok {
					if obj, ok := pk.TypesInfo.Defs[fd.Name].(*types.Func); ok {
						sig := obj.Type().(*types.Signature)
						var ps, rs []string
						for i := 0; i < sig.Params().Len(); i++ {
							ps = append(ps, types.TypeString(sig.Params().At(i).Type(), nil))
						}
						for i := 0; i < sig.Results().Len(); i++ {
							rs = append(rs, types.TypeString(sig.Results().At(i).Type(), nil))
						}
						v := ""
						if sig.Variadic() {
							v = "..."
						}
						out[FuncKey(obj)] = "(" + strings.Join(ps, ",") + v + ")(" + strings.Join(rs, ",") + ")"
					}
				}
			}
		}
	}
	return out
}

// KnownFuncs lists the keys of all function declarations of the module packages (tests excluded).
func KnownFuncs(pkgs []*packages.Package) []string {
	var out []string
	for _, pk := range pkgs {
		if !strings.HasPrefix(pk.PkgPath, Module) {
			continue
		}
		for _, f := range pk.Syntax {
			for _, d := range f.Decls {
				if fd, ok := d.(*ast.FuncDecl); ok {
					if obj, ok := pk.TypesInfo.Defs[fd.Name].(*types.Func); ok {
						out = append(out, FuncKey(obj))
					}
				}
			}
		}
	}
	sort.Strings(out)
	return out
}

type inlCallee struct {
	fd   *ast.FuncDecl
	obj  *types.Func
	file *ast.File
	src  []byte
	path string
}

type inlSite struct {
	stmt   ast.Stmt
	call   *ast.CallExpr
	callee *inlCallee
	kind   string // expr | assign | return | ifinit | ifcond | ifnotcond
}

// normalizeOnce computes an overlay that expands call sites of unknown functions. It returns the
// number of expanded sites.
func normalizeOnce(fset *token.FileSet, pkgs []*packages.Package, known map[string]bool, overlay map[string][]byte, counter *int) (map[string][]byte, int) {
	out := map[string][]byte{}
	total := 0
	readSrc := func(path string) []byte {
		if b, ok := overlay[path]; ok {
			return b
		}
		b, err := os.ReadFile(path)
		if err != nil {
			return nil
		}
		return b
	}
	for _, pk := range pkgs {
		if !strings.HasPrefix(pk.PkgPath, Module) || pk.PkgPath == Module+"/pb" || strings.HasPrefix(pk.PkgPath, Module+"/test") {
			continue
		}
		info := pk.TypesInfo
		// eligible unknown functions of this package
		callees := map[*types.Func]*inlCallee{}
		for i, f := range pk.Syntax {
			path := pk.CompiledGoFiles[i]
			for _, d := range f.Decls {
				fd, ok := d.(*ast.FuncDecl)
				if !ok || fd.Body == nil {
					continue
				}
				obj, ok := info.Defs[fd.Name].(*types.Func)
				if !ok || known[FuncKey(obj)] {
					continue
				}
				if !inlinable(fd, obj, info) {
					if os.Getenv("VERIF_DEBUG_NORM") != "" {
						fmt.Fprintf(os.Stderr, "normalize: %s is not expandable\n", obj.FullName())
					}
					continue
				}
				src := readSrc(path)
				if src == nil {
					continue
				}
				callees[obj] = &inlCallee{fd: fd, obj: obj, file: f, src: src, path: path}
			}
		}
		if len(callees) == 0 {
			continue
		}
		for i, f := range pk.Syntax {
			path := pk.CompiledGoFiles[i]
			src := readSrc(path)
			if src == nil {
				continue
			}
			var sites []inlSite
			for _, d := range f.Decls {
				fd, ok := d.(*ast.FuncDecl)
				if !ok || fd.Body == nil {
					continue
				}
				self, _ := info.Defs[fd.Name].(*types.Func)
				// statements that are the init/post/comm part of another statement cannot be expanded in place
				part := map[ast.Stmt]bool{}
				elseIfs := map[*ast.IfStmt]bool{}
				ast.Inspect(fd.Body, func(n ast.Node) bool {
					switch x := n.(type) {
					case *ast.IfStmt:
						if x.Init != nil {
							part[x.Init] = true
						}
						// an "else if" cannot be wrapped in a block of its own
						if e, ok := x.Else.(*ast.IfStmt); ok {
							part[e] = true
							elseIfs[e] = true
						}
					case *ast.ForStmt:
						if x.Init != nil {
							part[x.Init] = true
						}
						if x.Post != nil {
							part[x.Post] = true
						}
					case *ast.SwitchStmt:
						if x.Init != nil {
							part[x.Init] = true
						}
					case *ast.TypeSwitchStmt:
						if x.Init != nil {
							part[x.Init] = true
						}
						part[x.Assign] = true
					case *ast.CommClause:
						if x.Comm != nil {
							part[x.Comm] = true
						}
					case *ast.LabeledStmt:
						part[x.Stmt] = true
					}
					return true
				})
				ast.Inspect(fd.Body, func(n ast.Node) bool {
					st, ok := n.(ast.Stmt)
					if !ok {
						return true
					}
					if part[st] {
						// an "else if" whose condition (or init) calls a candidate: it is given a block of its own
						// first - else { if ... } - and expanded as an ordinary if in the next round
						if eif, isIf := st.(*ast.IfStmt); isIf && elseIfs[eif] {
							call, _ := siteOf(st, func(ce *ast.CallExpr) bool {
								o := calleeOf(info, ce)
								return o != nil && callees[o] != nil && o != self
							})
							if call != nil {
								if cal := callees[calleeOf(info, call)]; cal != nil {
									sites = append(sites, inlSite{stmt: st, call: call, callee: cal, kind: "elseif"})
								}
							}
						}
						return true
					}
					call, kind := siteOf(st, func(ce *ast.CallExpr) bool {
						o := calleeOf(info, ce)
						return o != nil && callees[o] != nil && o != self
					})
					if call == nil {
						return true
					}
					obj := calleeOf(info, call)
					cal := callees[obj]
					if cal == nil || obj == self {
						return true
					}
					if !siteOK(pk, f, st, call, cal) {
						if os.Getenv("VERIF_DEBUG_NORM") != "" {
							fmt.Fprintf(os.Stderr, "normalize: site of %s at %s rejected (name capture)\n", cal.obj.Name(), fset.Position(st.Pos()))
						}
						return true
					}
					sites = append(sites, inlSite{stmt: st, call: call, callee: cal, kind: kind})
					return true
				})
			}
			if len(sites) == 0 {
				continue
			}
			// innermost/later first; drop sites overlapping an already chosen one
			sort.Slice(sites, func(a, b int) bool { return sites[a].stmt.Pos() > sites[b].stmt.Pos() })
			var chosen []inlSite
			for _, s := range sites {
				overlap := false
				for _, c := range chosen {
					if s.stmt.Pos() < c.stmt.End() && c.stmt.Pos() < s.stmt.End() {
						overlap = true
					}
				}
				if !overlap {
					chosen = append(chosen, s)
				}
			}
			tf := fset.File(f.Pos())
			type edit struct {
				a, b int
				txt  string
			}
			var edits []edit
			for _, s := range chosen {
				if s.kind == "retsplit" {
					rs := s.stmt.(*ast.ReturnStmt)
					be := ast.Unparen(rs.Results[0]).(*ast.BinaryExpr)
					a, b := tf.Offset(rs.Pos()), tf.Offset(rs.End())
					x := string(src[tf.Offset(be.X.Pos()):tf.Offset(be.X.End())])
					y := string(src[tf.Offset(be.Y.Pos()):tf.Offset(be.Y.End())])
					var txt string
					if be.Op == token.LOR {
						txt = "if " + x + " { return true }; return " + y
					} else {
						txt = "if !(" + x + ") { return false }; return " + y
					}
					edits = append(edits, edit{a, b, txt})
					total++
					continue
				}
				if s.kind == "ifsplit" {
					is := s.stmt.(*ast.IfStmt)
					a, b := tf.Offset(is.Pos()), tf.Offset(is.End())
					ia, ib := tf.Offset(is.Init.Pos()), tf.Offset(is.Init.End())
					ca := tf.Offset(is.Cond.Pos())
					txt := "{ " + string(src[ia:ib]) + "; if " + string(src[ca:b]) + " }"
					edits = append(edits, edit{a, b, txt})
					total++
					continue
				}
				if s.kind == "elseif" {
					a, b := tf.Offset(s.stmt.Pos()), tf.Offset(s.stmt.End())
					edits = append(edits, edit{b, b, " }"})
					edits = append(edits, edit{a, a, "{ "})
					total++
					continue
				}
				if s.kind == "forcond" {
					fs := s.stmt.(*ast.ForStmt)
					a, b := tf.Offset(fs.Cond.Pos()), tf.Offset(fs.Cond.End())
					at := tf.Offset(fs.Body.Lbrace) + 1
					edits = append(edits, edit{at, at, " if !(" + string(src[a:b]) + ") { break }; "})
					edits = append(edits, edit{a, b, ""})
					total++
					continue
				}
				*counter++
				body := enclosingBody(f, s.stmt.Pos())
				if body == nil {
					continue
				}
				txt, hoist, ok := expandSite(fset, pk, tf, src, s, *counter, body)
				if !ok {
					if os.Getenv("VERIF_DEBUG_NORM") != "" {
						fmt.Fprintf(os.Stderr, "normalize: site of %s at %s could not be expanded\n", s.callee.obj.Name(), fset.Position(s.stmt.Pos()))
					}
					continue
				}
				edits = append(edits, edit{tf.Offset(s.stmt.Pos()), tf.Offset(s.stmt.End()), txt})
				if hoist != "" {
					at := tf.Offset(body.Lbrace) + 1
					edits = append(edits, edit{at, at, hoist})
				}
				total++
			}
			sort.SliceStable(edits, func(i, j int) bool { return edits[i].a > edits[j].a })
			buf := append([]byte{}, src...)
			for _, e := range edits {
				buf = append(append(append([]byte{}, buf[:e.a]...), e.txt...), buf[e.b:]...)
			}
			if !bytes.Equal(buf, src) {
				out[path] = buf
			}
		}
	}
	return out, total
}

func inlinable(fd *ast.FuncDecl, obj *types.Func, info *types.Info) bool {
	sig := obj.Type().(*types.Signature)
	if sig.Variadic() || sig.TypeParams() != nil || sig.RecvTypeParams() != nil {
		return false
	}
	ok := true
	ast.Inspect(fd.Body, func(n ast.Node) bool {
		switch x := n.(type) {
		case *ast.FuncLit:
			return false
		case *ast.LabeledStmt:
			// labels of earlier expansions are unique by construction
			if !strings.HasPrefix(x.Label.Name, "L_inl") {
				ok = false
			}
		case *ast.DeferStmt:
			top := false
			for _, st := range fd.Body.List {
				if st == ast.Stmt(x) {
					top = true
				}
			}
			if !top {
				ok = false
			}
			if len(x.Call.Args) != 0 {
				// arguments are evaluated where the defer statement stands: supported for a plain function
				// (defer freeBuffer(buf)), whose arguments are kept in temporaries
				switch f := x.Call.Fun.(type) {
				case *ast.Ident:
				case *ast.SelectorExpr:
					id, isId := f.X.(*ast.Ident)
					if !isId {
						ok = false
					} else if _, isPkg := info.Uses[id].(*types.PkgName); !isPkg {
						ok = false
					}
				default:
					ok = false
				}
				if x.Call.Ellipsis.IsValid() {
					ok = false
				}
			}
		case *ast.BranchStmt:
			if x.Tok == token.GOTO {
				ok = false
			}
		case *ast.CallExpr:
			if id, isId := x.Fun.(*ast.Ident); isId && id.Name == "recover" {
				ok = false
			}
			if calleeOf(info, x) == obj {
				ok = false // recursive
			}
		}
		return ok
	})
	// defers inside function literals are fine, but a literal that returns needs no rewriting either
	return ok
}

func calleeOf(info *types.Info, call *ast.CallExpr) *types.Func {
	switch f := ast.Unparen(call.Fun).(type) {
	case *ast.Ident:
		fn, _ := info.Uses[f].(*types.Func)
		return fn
	case *ast.SelectorExpr:
		if sel := info.Selections[f]; sel != nil && sel.Kind() == types.MethodVal {
			fn, _ := sel.Obj().(*types.Func)
			// only concrete receivers (no interface dispatch, no embedding promotion through pointers we cannot spell)
			if _, isIface := sel.Recv().Underlying().(*types.Interface); isIface {
				return nil
			}
			if len(sel.Index()) != 1 {
				return nil
			}
			return fn
		}
	}
	return nil
}

// siteOf finds, in a statement of a supported kind, the call that is evaluated first and
// unconditionally (lexically first call/receive of the statement's own expressions, not under the
// right operand of && or ||, not inside a function literal). Hoisting that call in front of the
// statement is an evaluation order the language permits: the order of variable reads relative to
// function calls within one statement is unspecified, only calls among themselves are ordered.
func siteOf(st ast.Stmt, isCand func(*ast.CallExpr) bool) (*ast.CallExpr, string) {
	var exprs []ast.Expr
	kind := ""
	switch s := st.(type) {
	case *ast.ExprStmt:
		exprs, kind = []ast.Expr{s.X}, "expr"
	case *ast.AssignStmt:
		if s.Tok != token.ASSIGN && s.Tok != token.DEFINE {
			// x += f(): x is read before f is called? unspecified as well, but keep it simple
			return nil, ""
		}
		// index/selector expressions on the left are evaluated before the right-hand side calls
		for _, l := range s.Lhs {
			if !pureOperand(l) {
				return nil, ""
			}
		}
		exprs, kind = s.Rhs, "assign"
	case *ast.ReturnStmt:
		exprs, kind = s.Results, "return"
	case *ast.DeclStmt:
		gd, ok := s.Decl.(*ast.GenDecl)
		if !ok || gd.Tok != token.VAR || len(gd.Specs) != 1 {
			return nil, ""
		}
		vs := gd.Specs[0].(*ast.ValueSpec)
		exprs, kind = vs.Values, "decl"
	case *ast.IfStmt:
		if s.Init != nil {
			as, ok := s.Init.(*ast.AssignStmt)
			if !ok || (as.Tok != token.DEFINE && as.Tok != token.ASSIGN) {
				return nil, ""
			}
			for _, l := range as.Lhs {
				if !pureOperand(l) {
					return nil, ""
				}
			}
			exprs, kind = as.Rhs, "ifinit"
		} else {
			exprs, kind = []ast.Expr{s.Cond}, "ifcond"
		}
	case *ast.SwitchStmt:
		// switch f(x) { ... } / switch v := f(x); v { ... }: the tag (or the init) is evaluated first, once
		if s.Init != nil {
			as, ok := s.Init.(*ast.AssignStmt)
			if !ok || (as.Tok != token.DEFINE && as.Tok != token.ASSIGN) {
				return nil, ""
			}
			for _, l := range as.Lhs {
				if !pureOperand(l) {
					return nil, ""
				}
			}
			exprs, kind = as.Rhs, "switchinit"
		} else if s.Tag != nil {
			exprs, kind = []ast.Expr{s.Tag}, "switchtag"
		} else {
			return nil, ""
		}
	case *ast.ForStmt:
		// for f(x) { ... }: the condition is evaluated before every iteration; the site is rewritten to
		// for { if !(f(x)) { break }; ... } (same order of evaluation, `continue` still re-evaluates it) and the
		// call is expanded in the next round as the condition of that if
		if s.Cond == nil {
			return nil, ""
		}
		exprs, kind = []ast.Expr{s.Cond}, "forcond"
	case *ast.SendStmt:
		if !pureOperand(s.Chan) {
			return nil, ""
		}
		exprs, kind = []ast.Expr{s.Value}, "send"
	default:
		return nil, ""
	}
	stmtKind := kind
	first, kind := firstCandidate(exprs, kind, isCand)
	if first == nil {
		kind = stmtKind
		// if x := g(); f(x) { ... } with a candidate only in the condition: the statement is first rewritten to
		// { x := g(); if f(x) { ... } } (same order of evaluation, same scope for the bodies)
		if s, ok := st.(*ast.IfStmt); ok && s.Init != nil && kind == "ifinit" {
			if c, _ := firstCandidate([]ast.Expr{s.Cond}, "ifsplit", isCand); c != nil {
				return c, "ifsplit"
			}
		}
		// return a || f(x)  ->  if a { return true }; return f(x)      (and the dual for &&)
		if s, ok := st.(*ast.ReturnStmt); ok && len(s.Results) == 1 {
			if be, ok := ast.Unparen(s.Results[0]).(*ast.BinaryExpr); ok && (be.Op == token.LOR || be.Op == token.LAND) {
				if c, _ := firstCandidate([]ast.Expr{be.Y}, "retsplit", isCand); c != nil {
					return c, "retsplit"
				}
			}
		}
		return nil, ""
	}
	return first, kind
}

// firstCandidate: the lexically first call of exprs that is evaluated unconditionally, if it is a candidate.
func firstCandidate(exprs []ast.Expr, kind string, isCand func(*ast.CallExpr) bool) (*ast.CallExpr, string) {
	var first *ast.CallExpr
	stop := false
	var visit func(e ast.Expr, cond bool)
	visit = func(e ast.Expr, cond bool) {
		if e == nil || stop {
			return
		}
		switch x := e.(type) {
		case *ast.FuncLit:
			return
		case *ast.BinaryExpr:
			visit(x.X, cond)
			visit(x.Y, cond || x.Op == token.LAND || x.Op == token.LOR)
		case *ast.CallExpr:
			if tv := x.Fun; tv != nil {
				if _, isConv := ast.Unparen(tv).(*ast.ArrayType); isConv {
					for _, a := range x.Args {
						visit(a, cond)
					}
					return
				}
			}
			// operands of the call are evaluated first; for a candidate they are evaluated, in the
			// same order, by the expansion itself
			before := stop
			visit(x.Fun, cond)
			for _, a := range x.Args {
				visit(a, cond)
			}
			if first == nil && !cond && !before && isCand(x) {
				first = x
			}
			stop = true // nothing after the first call can be hoisted over it
		case *ast.UnaryExpr:
			if x.Op == token.ARROW {
				visit(x.X, cond)
				stop = true
				return
			}
			visit(x.X, cond)
		case *ast.ParenExpr:
			visit(x.X, cond)
		case *ast.SelectorExpr:
			visit(x.X, cond)
		case *ast.IndexExpr:
			visit(x.X, cond)
			visit(x.Index, cond)
		case *ast.SliceExpr:
			visit(x.X, cond)
			visit(x.Low, cond)
			visit(x.High, cond)
			visit(x.Max, cond)
		case *ast.StarExpr:
			visit(x.X, cond)
		case *ast.TypeAssertExpr:
			visit(x.X, cond)
		case *ast.KeyValueExpr:
			visit(x.Key, cond)
			visit(x.Value, cond)
		case *ast.CompositeLit:
			for _, el := range x.Elts {
				visit(el, cond)
			}
		}
	}
	for _, e := range exprs {
		visit(e, false)
	}
	if first == nil {
		return nil, ""
	}
	return first, kind
}

// pureOperand: an expression without calls, receives or function literals.
func pureOperand(e ast.Expr) bool {
	ok := true
	ast.Inspect(e, func(n ast.Node) bool {
		switch x := n.(type) {
		case *ast.CallExpr, *ast.FuncLit:
			ok = false
		case *ast.UnaryExpr:
			if x.Op == token.ARROW {
				ok = false
			}
		}
		return ok
	})
	return ok
}

// siteOK checks the name-capture conditions: package-level names and imports the callee's body uses
// must mean the same thing at the call site.
func siteOK(pk *packages.Package, callerFile *ast.File, st ast.Stmt, call *ast.CallExpr, cal *inlCallee) bool {
	info := pk.TypesInfo
	if len(call.Args) != cal.obj.Type().(*types.Signature).Params().Len() {
		return false // f(g()) with a multi-value g
	}
	if call.Ellipsis.IsValid() {
		return false
	}
	scope := pk.Types.Scope().Innermost(st.Pos())
	ok := true
	ast.Inspect(cal.fd.Body, func(n ast.Node) bool {
		id, isId := n.(*ast.Ident)
		if !isId {
			return true
		}
		obj := info.Uses[id]
		if obj == nil {
			return true
		}
		switch o := obj.(type) {
		case *types.PkgName:
			// the caller's file must import the same package under the same name, unshadowed
			if scope != nil {
				if _, found := scope.LookupParent(id.Name, st.Pos()); found != nil {
					if pn, isPn := found.(*types.PkgName); !isPn || pn.Imported() != o.Imported() {
						ok = false
					}
				} else {
					ok = false
				}
			}
		default:
			if obj.Parent() == pk.Types.Scope() || obj.Parent() == types.Universe {
				if scope != nil {
					if _, found := scope.LookupParent(id.Name, st.Pos()); found != obj {
						ok = false
					}
				}
			}
		}
		return ok
	})
	return ok
}

func nodeText(tf *token.File, src []byte, n ast.Node) string {
	return string(src[tf.Offset(n.Pos()):tf.Offset(n.End())])
}

// enclosingBody returns the body of the innermost function (declaration or literal) containing pos.
func enclosingBody(f *ast.File, pos token.Pos) *ast.BlockStmt {
	var best *ast.BlockStmt
	ast.Inspect(f, func(n ast.Node) bool {
		if n == nil || pos < n.Pos() || pos >= n.End() {
			return n == ast.Node(f)
		}
		switch x := n.(type) {
		case *ast.FuncDecl:
			if x.Body != nil && pos >= x.Body.Pos() && pos < x.Body.End() {
				best = x.Body
			}
		case *ast.FuncLit:
			if pos >= x.Body.Pos() && pos < x.Body.End() {
				best = x.Body
			}
		}
		return true
	})
	return best
}

// typeTextOK: the identifiers of a type expression written in the callee mean the same at pos.
func typeTextOK(pk *packages.Package, typ ast.Expr, pos token.Pos) bool {
	scope := pk.Types.Scope().Innermost(pos)
	if scope == nil {
		return false
	}
	ok := true
	ast.Inspect(typ, func(n ast.Node) bool {
		if sel, isSel := n.(*ast.SelectorExpr); isSel {
			// pkg.Name: only the package name is looked up in scope
			if x, isId := sel.X.(*ast.Ident); isId {
				if pn, isPn := pk.TypesInfo.Uses[x].(*types.PkgName); isPn {
					_, found := scope.LookupParent(x.Name, pos)
					if fp, isFp := found.(*types.PkgName); !isFp || fp.Imported() != pn.Imported() {
						ok = false
					}
					return false
				}
			}
			return true
		}
		id, isId := n.(*ast.Ident)
		if !isId {
			return true
		}
		obj := pk.TypesInfo.Uses[id]
		if obj == nil {
			return true // field names of struct types etc.
		}
		_, found := scope.LookupParent(id.Name, pos)
		if found == nil {
			ok = false
			return false
		}
		if pn, isPn := obj.(*types.PkgName); isPn {
			fp, isFp := found.(*types.PkgName)
			if !isFp || fp.Imported() != pn.Imported() {
				ok = false
			}
			return false // do not descend into the selector's Sel
		}
		if found != obj {
			ok = false
		}
		return ok
	})
	return ok
}

// expandSite produces the replacement text for the statement of site s and the declarations to put
// at the start of the enclosing function body.
func expandSite(fset *token.FileSet, pk *packages.Package, tf *token.File, src []byte, s inlSite, n int, encl *ast.BlockStmt) (string, string, bool) {
	info := pk.TypesInfo
	cal := s.callee
	ctf := fset.File(cal.fd.Pos())
	if ctf == nil {
		return "", "", false
	}
	ctext := func(x ast.Node) string { return string(cal.src[ctf.Offset(x.Pos()):ctf.Offset(x.End())]) }
	sig := cal.obj.Type().(*types.Signature)
	sfx := fmt.Sprintf("_inl%d", n)
	label := "L" + sfx
	hoistPos := encl.Lbrace + 1
	// result temporaries (declared at the start of the enclosing function: type names written in the
	// callee are least likely to be shadowed there)
	var rnames, znames, named []string
	var hoist strings.Builder
	if cal.fd.Type.Results != nil {
		k := 0
		for _, fld := range cal.fd.Type.Results.List {
			cnt := len(fld.Names)
			if cnt == 0 {
				cnt = 1
			}
			if !typeTextOK(pk, fld.Type, hoistPos) {
				return "", "", false
			}
			for j := 0; j < cnt; j++ {
				rn, zn := fmt.Sprintf("r%d%s", k, sfx), fmt.Sprintf("z%d%s", k, sfx)
				rnames = append(rnames, rn)
				znames = append(znames, zn)
				fmt.Fprintf(&hoist, "var %s, %s %s; _, _ = %s, %s; ", rn, zn, ctext(fld.Type), rn, zn)
				if len(fld.Names) > 0 {
					named = append(named, fld.Names[j].Name)
				}
				k++
			}
		}
	}
	if len(rnames) != sig.Results().Len() {
		return "", "", false
	}
	// body with returns rewritten and top-level defers turned into calls before the returns that
	// follow them (the expansion is analysed, never run: behaviour under a panic is not preserved)
	body := cal.fd.Body
	bstart, bend := ctf.Offset(body.Lbrace)+1, ctf.Offset(body.Rbrace)
	btxt := append([]byte{}, cal.src[bstart:bend]...)
	type rep struct {
		a, b int
		txt  string
	}
	var reps []rep
	var defers []*ast.DeferStmt
	deferText := map[*ast.DeferStmt]string{}
	for di, st := range body.List {
		if d, ok := st.(*ast.DeferStmt); ok {
			defers = append(defers, d)
			at := ""
			call := ctext(d.Call)
			if len(d.Call.Args) != 0 {
				// keep the arguments as they are where the defer statement stands
				var tmps, vals []string
				for ai, a := range d.Call.Args {
					tmps = append(tmps, fmt.Sprintf("d%d_%d%s", di, ai, sfx))
					vals = append(vals, ctext(a))
				}
				at = strings.Join(tmps, ", ") + " := " + strings.Join(vals, ", ") + "; _ = " + tmps[0]
				for _, t := range tmps[1:] {
					at += "; _ = " + t
				}
				call = ctext(d.Call.Fun) + "(" + strings.Join(tmps, ", ") + ")"
			}
			deferText[d] = call
			reps = append(reps, rep{ctf.Offset(d.Pos()) - bstart, ctf.Offset(d.End()) - bstart, at})
		}
	}
	deferredAt := func(pos token.Pos) string {
		var sb strings.Builder
		for i := len(defers) - 1; i >= 0; i-- {
			if defers[i].End() <= pos {
				sb.WriteString(deferText[defers[i]] + "; ")
			}
		}
		return sb.String()
	}
	var rets []*ast.ReturnStmt
	ast.Inspect(body, func(x ast.Node) bool {
		switch r := x.(type) {
		case *ast.FuncLit:
			return false
		case *ast.ReturnStmt:
			rets = append(rets, r)
		}
		return true
	})
	for _, r := range rets {
		var txt string
		switch {
		case len(rnames) == 0:
			txt = deferredAt(r.Pos()) + "break " + label
		case len(r.Results) == 0:
			if len(named) != len(rnames) {
				return "", "", false
			}
			txt = strings.Join(rnames, ", ") + " = " + strings.Join(named, ", ") + "; " + deferredAt(r.Pos()) + "break " + label
		default:
			var es []string
			for _, e := range r.Results {
				es = append(es, ctext(e))
			}
			txt = strings.Join(rnames, ", ") + " = " + strings.Join(es, ", ") + "; " + deferredAt(r.Pos()) + "break " + label
		}
		reps = append(reps, rep{ctf.Offset(r.Pos()) - bstart, ctf.Offset(r.End()) - bstart, txt})
	}
	sort.Slice(reps, func(i, j int) bool { return reps[i].a > reps[j].a })
	for _, r := range reps {
		btxt = append(append(append([]byte{}, btxt[:r.a]...), r.txt...), btxt[r.b:]...)
	}
	callerFile := fset.Position(s.stmt.Pos()).Filename
	callLine := fset.Position(s.stmt.Pos()).Line
	calleeFile := fset.Position(body.Lbrace).Filename
	bodyLine := fset.Position(body.Lbrace).Line
	var sb strings.Builder
	line := func(file string, l int) { fmt.Fprintf(&sb, "\n//line %s:%d\n", file, l) }
	wrap := true
	if as, ok := s.stmt.(*ast.AssignStmt); ok && as.Tok == token.DEFINE {
		wrap = false
	}
	if _, ok := s.stmt.(*ast.DeclStmt); ok {
		wrap = false
	}
	if wrap {
		sb.WriteString("{")
	}
	sb.WriteString("{ ")
	// receiver and arguments, in evaluation order
	type bind struct{ name, tmp string }
	var binds []bind
	line(callerFile, callLine)
	evalInto := func(tmp string, arg ast.Expr, ptype types.Type, ptext ast.Expr) bool {
		tv, ok := info.Types[arg]
		if ok && tv.Type != nil && tv.Value == nil && types.Identical(tv.Type, ptype) {
			if b, isB := tv.Type.(*types.Basic); !isB || b.Info()&types.IsUntyped == 0 {
				fmt.Fprintf(&sb, "%s := %s; ", tmp, nodeText(tf, src, arg))
				return true
			}
		}
		if !typeTextOK(pk, ptext, s.stmt.Pos()) {
			return false
		}
		fmt.Fprintf(&sb, "var %s %s = %s; ", tmp, ctext(ptext), nodeText(tf, src, arg))
		return true
	}
	if cal.fd.Recv != nil && len(cal.fd.Recv.List) == 1 {
		sel, ok := ast.Unparen(s.call.Fun).(*ast.SelectorExpr)
		if !ok {
			return "", "", false
		}
		fld := cal.fd.Recv.List[0]
		// the receiver expression has the declared receiver type, or the compiler takes its address /
		// dereferences it implicitly
		tv, ok := info.Types[sel.X]
		if !ok {
			return "", "", false
		}
		rexpr := nodeText(tf, src, sel.X)
		switch {
		case types.Identical(tv.Type, sig.Recv().Type()):
		case types.Identical(types.NewPointer(tv.Type), sig.Recv().Type()) && tv.Addressable():
			rexpr = "&(" + rexpr + ")"
		default:
			if pt, isPtr := tv.Type.Underlying().(*types.Pointer); isPtr && types.Identical(pt.Elem(), sig.Recv().Type()) {
				rexpr = "*(" + rexpr + ")"
			} else {
				return "", "", false
			}
		}
		tmp := "a_recv" + sfx
		fmt.Fprintf(&sb, "%s := %s; _ = %s; ", tmp, rexpr, tmp)
		if len(fld.Names) == 1 && fld.Names[0].Name != "_" {
			binds = append(binds, bind{fld.Names[0].Name, tmp})
		}
	}
	ai := 0
	for _, fld := range cal.fd.Type.Params.List {
		cnt := len(fld.Names)
		if cnt == 0 {
			cnt = 1
		}
		for j := 0; j < cnt; j++ {
			if ai >= len(s.call.Args) {
				return "", "", false
			}
			tmp := fmt.Sprintf("a%d%s", ai, sfx)
			if !evalInto(tmp, s.call.Args[ai], sig.Params().At(ai).Type(), fld.Type) {
				return "", "", false
			}
			fmt.Fprintf(&sb, "_ = %s; ", tmp)
			if len(fld.Names) > 0 && fld.Names[j].Name != "_" {
				binds = append(binds, bind{fld.Names[j].Name, tmp})
			}
			ai++
		}
	}
	if len(rets) > 0 {
		fmt.Fprintf(&sb, "%s: ", label)
	}
	sb.WriteString("switch { default: ")
	for _, b := range binds {
		fmt.Fprintf(&sb, "%s := %s; _ = %s; ", b.name, b.tmp, b.name)
	}
	if len(named) == len(rnames) {
		for i, nm := range named {
			if nm != "_" {
				fmt.Fprintf(&sb, "%s := %s; _ = %s; ", nm, znames[i], nm)
			}
		}
	}
	line(calleeFile, bodyLine)
	sb.Write(btxt)
	// falling off the end of a function without results
	sb.WriteString("\n" + deferredAt(body.Rbrace) + "}}")
	line(callerFile, callLine)
	// the original statement with the call replaced by the result temporaries
	stmtStart, stmtEnd := tf.Offset(s.stmt.Pos()), tf.Offset(s.stmt.End())
	callStart, callEnd := tf.Offset(s.call.Pos()), tf.Offset(s.call.End())
	res := strings.Join(rnames, ", ")
	if len(rnames) != 1 {
		// a multi-value (or no-value) call is only legal as the whole right-hand side / result list / statement
		whole := false
		switch x := s.stmt.(type) {
		case *ast.ExprStmt:
			whole = ast.Unparen(x.X) == ast.Expr(s.call)
		case *ast.AssignStmt:
			whole = len(x.Rhs) == 1 && ast.Unparen(x.Rhs[0]) == ast.Expr(s.call)
		case *ast.ReturnStmt:
			whole = len(x.Results) == 1 && ast.Unparen(x.Results[0]) == ast.Expr(s.call)
		case *ast.IfStmt:
			if as, ok := x.Init.(*ast.AssignStmt); ok {
				whole = len(as.Rhs) == 1 && ast.Unparen(as.Rhs[0]) == ast.Expr(s.call)
			}
		case *ast.SwitchStmt:
			if as, ok := x.Init.(*ast.AssignStmt); ok {
				whole = len(as.Rhs) == 1 && ast.Unparen(as.Rhs[0]) == ast.Expr(s.call)
			}
		case *ast.DeclStmt:
			vs := x.Decl.(*ast.GenDecl).Specs[0].(*ast.ValueSpec)
			whole = len(vs.Values) == 1 && ast.Unparen(vs.Values[0]) == ast.Expr(s.call)
		}
		if !whole {
			return "", "", false
		}
	}
	if es, ok := s.stmt.(*ast.ExprStmt); ok && ast.Unparen(es.X) == ast.Expr(s.call) {
		// a call statement: nothing is left of it
	} else {
		sb.Write(src[stmtStart:callStart])
		sb.WriteString(res)
		sb.Write(src[callEnd:stmtEnd])
	}
	if wrap {
		sb.WriteString("}")
	}
	// resynchronise the line numbering for what follows the statement
	endLine := fset.Position(s.stmt.End()).Line
	fmt.Fprintf(&sb, "\n//line %s:%d\n", callerFile, endLine)
	return sb.String(), hoist.String(), true
}

// Normalize expands call sites of functions that are not in the known table, repeatedly (helpers of
// helpers), and returns the overlay to analyse. load must load and type-check with a given overlay.
func Normalize(known map[string]bool, base map[string][]byte, load func(ov map[string][]byte) (*token.FileSet, []*packages.Package, error)) (map[string][]byte, int) {
	if len(known) == 0 {
		return base, 0
	}
	cur := map[string][]byte{}
	for k, v := range base {
		cur[k] = v
	}
	total, counter := 0, 0
	for round := 0; round < 4; round++ {
		fset, pkgs, err := load(cur)
		if err != nil {
			break
		}
		ov, n := normalizeOnce(fset, pkgs, known, cur, &counter)
		if os.Getenv("VERIF_DEBUG_NORM") != "" {
			fmt.Fprintf(os.Stderr, "normalize round %d: %d sites\n", round, n)
			for k, v := range ov {
				os.WriteFile("/tmp/norm_"+strings.ReplaceAll(k, "/", "_"), v, 0o644)
			}
		}
		if n == 0 {
			break
		}
		next := map[string][]byte{}
		for k, v := range cur {
			next[k] = v
		}
		for k, v := range ov {
			next[k] = v
		}
		// the expanded program must still type-check, otherwise keep what we had
		if _, _, err := load(next); err != nil {
			if os.Getenv("VERIF_DEBUG_NORM") != "" {
				fmt.Fprintf(os.Stderr, "normalize: expanded program does not type-check: %v\n", err)
			}
			break
		}
		cur = next
		total += n
	}
	if total > 0 {
		// unknown functions that are no longer referenced are dropped (they are part of their callers now)
		if fset, pkgs, err := load(cur); err == nil {
			next := map[string][]byte{}
			for k, v := range cur {
				next[k] = v
			}
			changed := false
			for _, pk := range pkgs {
				if !strings.HasPrefix(pk.PkgPath, Module) {
					continue
				}
				used := map[types.Object]bool{}
				for _, q := range pkgs {
					for _, o := range q.TypesInfo.Uses {
						used[o] = true
					}
				}
				for i, f := range pk.Syntax {
					path := pk.CompiledGoFiles[i]
					src, ok := next[path]
					if !ok {
						b, err := os.ReadFile(path)
						if err != nil {
							continue
						}
						src = b
					}
					tf := fset.File(f.Pos())
					buf := append([]byte{}, src...)
					var decls []*ast.FuncDecl
					for _, d := range f.Decls {
						if fd, ok := d.(*ast.FuncDecl); ok {
							if obj, ok := pk.TypesInfo.Defs[fd.Name].(*types.Func); ok && !known[FuncKey(obj)] && !used[obj] && !obj.Exported() {
								decls = append(decls, fd)
							}
						}
					}
					for _, fd := range decls {
						a, b := tf.Offset(fd.Pos()), tf.Offset(fd.End())
						for k := a; k < b; k++ {
							if buf[k] != '\n' {
								buf[k] = ' '
							}
						}
						changed = true
					}
					if len(decls) > 0 {
						next[path] = buf
					}
				}
			}
			if changed {
				if _, _, err := load(next); err == nil {
					cur = next
				}
			}
		}
	}
	return cur, total
}
