package props

import (
	"go/token"
	"go/types"
	"strings"

	"golang.org/x/tools/go/ssa"

	"gohbaseverif/kit"
)

func init() {
	register("C03", &Property{
		Title: "A failing connection completes every outstanding request exactly once",
		Explanation: "Ownership discipline, checked on every path of the resolved program: " +
			"(R1) the failure transition (close(done), conn.Close, drain of the sent table) happens only inside the literal passed to failOnce.Do; " +
			"(R2) whoever removes a call from the sent table (unregisterRPC) completes that call on every path to every exit (directly, by a registered deferred completion, or by handing the error back to a caller that completes it), except on the call's own Context().Done() edge; the swap-drain loop of failSentRPCs completes every element; " +
			"(R3) every caller of trySend completes the same call on the non-nil edge, and trySend returns non-nil only where it unregistered the call; " +
			"(R4) the set of completion sites (sends on ResultChan(), calls of returnResult/returnResults) is frozen and each is of a checked class (after-unregister, swap-drain, never-registered); " +
			"(R5) QueueRPC/QueueBatch refuse with ErrClientClosed (a ServerError) on the closed done channel; " +
			"(R6) every reader error before a call was claimed is a ServerError, the reader loop fails the connection on it, and every early exit of the dial literal goes through fail; " +
			"(R7) in send, registration follows serialisation and precedes the write." +
			" Added after the seeded-change rounds: (R3) the error trySend hands back is delivered to the call unchanged (no wrapping: consumers classify by dynamic type); (R5) the queue channel between callers and the writer goroutine is unbuffered wherever a client is built; (R6) every error send returns after it attempted a write is a ServerError, and the in-flight counter and read deadline are only touched in inFlightUp/inFlightDown with inFlightM held (shared with C18.R1).",
		Residue:   "exact-once under all interleavings of fail with a concurrent sender (relies on sync.Once and the map swap, pinned structurally by R1/R2/R4); partial writes inside the kernel",
		Technique: "must-pass-through path search on the SSA CFG, who-may-call tables, once/defer idioms",
		Run:       runC03,
	})
}

// lastStoreBefore returns the value stored to addr by the last store in the
// block of in that precedes in.
func lastStoreBefore(in ssa.Instruction, addr ssa.Value) ssa.Value {
	b := in.Block()
	for i := kit.InstrIndex(in) - 1; i >= 0; i-- {
		if st, ok := b.Instrs[i].(*ssa.Store); ok && st.Addr == addr {
			return st.Val
		}
	}
	return nil
}

// returnedError returns the error value a Return yields (resolving the named
// result variable through the store that precedes the return in its block).
func returnedError(r *ssa.Return) ssa.Value {
	if len(r.Results) == 0 {
		return nil
	}
	v := kit.Res(r, len(r.Results)-1)
	if !kit.IsErrorType(v.Type()) {
		return nil
	}
	if u, ok := v.(*ssa.UnOp); ok && u.Op == token.MUL {
		if a, ok := u.X.(*ssa.Alloc); ok {
			if s := kit.ReachingStore(r, a); s != nil {
				return s
			}
		}
	}
	return v
}

func isServerErrorValue(p *kit.Prog, v ssa.Value) bool {
	se := p.Named("region", "ServerError")
	if se == nil || v == nil {
		return false
	}
	if mi, ok := v.(*ssa.MakeInterface); ok {
		return types.Identical(mi.X.Type(), se)
	}
	return false
}

// isServerErrorAt: the error value v, as it can be at block at (phi inputs that the facts there rule
// out are ignored, e.g. the nil a helper returns on success when the caller is on its err != nil
// branch), is a ServerError in every remaining case.
func isServerErrorAt(p *kit.Prog, v ssa.Value, at *ssa.BasicBlock) bool {
	if isServerErrorValue(p, v) {
		return true
	}
	if _, isMI := v.(*ssa.MakeInterface); isMI {
		return false
	}
	if r := kit.RootAt(v, at); r != v {
		if _, stillPhi := r.(*ssa.Phi); !stillPhi {
			// resolved to a single value: judge the unstripped definition if there is one
			return isServerErrorValue(p, r) || isServerErrorValue(p, v)
		}
		v = r
	}
	ph, ok := v.(*ssa.Phi)
	if !ok {
		return isServerErrorValue(p, v)
	}
	idx := kit.FeasibleEdges(ph, kit.FactsAt(at))
	if len(idx) == 0 {
		return false
	}
	// a fact "this very phi is not nil" also rules out its nil inputs
	notNil := false
	for _, f := range kit.FactsAt(at) {
		if cmp, ok := kit.CanonCmp(f.Cond, f.Pol); ok && cmp.Op == token.NEQ && kit.IsNilConst(cmp.Y) {
			x := cmp.X
			if u, isLoad := x.(*ssa.UnOp); isLoad && u.Op == token.MUL {
				if a, isLocal := u.X.(*ssa.Alloc); isLocal {
					if sv := kit.ReachingStore(u, a); sv != nil {
						x = sv
					}
				}
			}
			if kit.Root(x) == ssa.Value(ph) {
				notNil = true
			}
		}
	}
	n := 0
	for _, i := range idx {
		e := ph.Edges[i]
		if notNil && kit.IsNilConst(kit.Root(e)) {
			continue
		}
		n++
		if !isServerErrorAt(p, e, ph.Block().Preds[i]) {
			return false
		}
	}
	return n > 0
}

// completes reports whether instruction in completes call value v:
// returnResult(v,...), a deferred literal that does so, or x.returnResults(...)
// on v itself.
func completes(in ssa.Instruction, v ssa.Value) bool {
	c, ok := in.(ssa.CallInstruction)
	if !ok {
		return false
	}
	if _, isGo := in.(*ssa.Go); isGo {
		return false
	}
	n := kit.CalleeName(c)
	if n == kit.M("region", "", "returnResult") {
		return kit.Same(c.Common().Args[0], v)
	}
	if n == kit.M("region", "*multi", "returnResults") {
		return kit.Same(c.Common().Args[0], v)
	}
	// deferred literal
	if d, ok := in.(*ssa.Defer); ok {
		if lit := kit.StaticCallee(d); lit != nil && lit.Parent() != nil {
			found := false
			kit.Instrs(lit, func(x ssa.Instruction) {
				if cc, ok := x.(*ssa.Call); ok && kit.CalleeName(cc) == kit.M("region", "", "returnResult") && kit.Same(cc.Call.Args[0], v) {
					found = true
				}
			})
			return found
		}
	}
	return false
}

func runC03(c *kit.Ctx) {
	p := c.P
	fail := c.Anchor("region", "client", "fail")
	failSent := c.Anchor("region", "client", "failSentRPCs")
	recv := c.Anchor("region", "client", "receive")
	recvLoop := c.Anchor("region", "client", "receiveRPCs")
	trySend := c.Anchor("region", "client", "trySend")
	send := c.Anchor("region", "client", "send")
	qrpc := c.Anchor("region", "client", "QueueRPC")
	qbatch := c.Anchor("region", "client", "QueueBatch")
	proc := c.Anchor("region", "client", "processRPCs")
	dial := c.Anchor("region", "client", "Dial")
	retRes := c.Anchor("region", "", "returnResult")
	retMulti := c.Anchor("region", "multi", "returnResults")
	if fail == nil || failSent == nil || recv == nil || recvLoop == nil || trySend == nil || send == nil || qrpc == nil || qbatch == nil || proc == nil || dial == nil || retRes == nil || retMulti == nil {
		return
	}
	doneF := p.Field("region", "client", "done")
	connF := p.Field("region", "client", "conn")
	sentF := p.Field("region", "client", "sent")
	failOnce := p.Field("region", "client", "failOnce")
	dialOnce := p.Field("region", "client", "dialOnce")
	errClosed := p.Global("region", "ErrClientClosed")
	if doneF == nil || connF == nil || sentF == nil || failOnce == nil || dialOnce == nil || errClosed == nil {
		c.StartRule("anchors", "field anchors resolve", 0)
		c.Unk(fail, "unresolved-anchor", token.NoPos, "fields done/conn/sent/failOnce/dialOnce of region.client or ErrClientClosed missing")
		return
	}
	unregName := kit.M("region", "*client", "unregisterRPC")
	trySendName := kit.M("region", "*client", "trySend")

	// ---- R1 ---------------------------------------------------------------
	c.StartRule("R1", "single failure transition under failOnce", 4)
	noBlockingWhileLocked(c, true, [3]string{"region", "client", "fail"})
	deferredCallsSeeTheCurrentValue(c)
	claimedCallIsCompletedOnce(c)
	sendFailsOnlyRegisteredCalls(c)
	noRecursiveLocking(c)
	connectionClosedWhicheverComesFirst(c)
	failureTransition(c)

	// ---- R2 ---------------------------------------------------------------
	c.StartRule("R2", "whoever removes a call from the sent table completes it on every path", 3)
	clearedCallSlotsAreSkipped(c)
	multiHasNoContextOfItsOwn(c)
	handback := map[*ssa.Function]bool{trySend: true}
	for _, s := range callersOf(p, unregName) {
		fn := s.Parent()
		v := s.Value()
		if v == nil {
			c.Bad(fn, "unregister-result-dropped", s.Pos(), "result of unregisterRPC discarded: the call is removed from the sent table and nobody can complete it", "")
			continue
		}
		e := kit.PathFrom(s, kit.PathQuery{
			Stop: func(in ssa.Instruction) bool {
				if completes(in, v) {
					return true
				}
				if r, ok := in.(*ssa.Return); ok && handback[fn] {
					ev := returnedError(r)
					return ev != nil && !kit.IsNilConst(kit.Root(ev))
				}
				return false
			},
			SkipEdge: func(from, to *ssa.BasicBlock) bool {
				for _, f := range kit.EdgeFacts(from, to) {
					cmp, ok := kit.CanonCmp(f.Cond, f.Pol)
					if !ok {
						continue
					}
					// nil edge: nothing was removed
					if cmp.Op == token.EQL && kit.IsNilConst(cmp.Y) && kit.Same(cmp.X, v) && f.If.Block() != nil && kit.Dominates(s.(ssa.Instruction), f.If) {
						return true
					}
					// the call's own context ended
					if cmp.Op == token.EQL {
						if ex, ok := cmp.X.(*ssa.Extract); ok {
							if sel, ok := ex.Tuple.(*ssa.Select); ok && ex.Index == 0 {
								idx, _ := kit.ConstInt(cmp.Y)
								if int(idx) < len(sel.States) {
									if d, ok := sel.States[idx].Chan.(*ssa.Call); ok && kit.CalleeName(d) == ctxDone {
										if cc, ok := d.Call.Value.(*ssa.Call); ok && kit.CalleeName(cc) == hrpcCall+"Context" && kit.Same(cc.Call.Value, v) {
											return true
										}
									}
								}
							}
						}
					}
				}
				return false
			},
			IgnorePanics: true,
		})
		if e == nil {
			c.OK(fn, "owner-completes", s.Pos(), "every path from unregisterRPC (non-nil result) to an exit completes the call, hands its error back, or is the call's own Done() edge")
		} else {
			c.Bad(fn, "owner-completes", s.Pos(), "a call removed from the sent table can reach an exit without being completed: it is neither in the table (fail cannot find it) nor answered - its caller waits forever", c.BlockPath(e))
		}
	}
	// swap-drain
	{
		var oldMap ssa.Value
		swapped := false
		kit.Instrs(failSent, func(in ssa.Instruction) {
			if st, ok := in.(*ssa.Store); ok {
				if fa, ok := st.Addr.(*ssa.FieldAddr); ok && kit.FieldVar(fa.X.Type(), fa.Field) == sentF {
					if _, isMk := st.Val.(*ssa.MakeMap); isMk {
						swapped = true
					}
				}
			}
		})
		drained := false
		kit.Instrs(failSent, func(in ssa.Instruction) {
			nx, ok := in.(*ssa.Next)
			if !ok {
				return
			}
			rg, ok := nx.Iter.(*ssa.Range)
			if !ok || !isLoadOfField(rg.X, sentF) {
				return
			}
			oldMap = rg.X
			// every iteration completes the element
			val := kit.ExtractOf(nx, 2)
			body := nx.Block().Succs[0]
			e := kit.PathFromBlock(body, kit.PathQuery{
				Target: func(x ssa.Instruction) bool { return x == ssa.Instruction(nx) },
				Stop:   func(x ssa.Instruction) bool { return val != nil && completes(x, val) },
			})
			drained = e == nil && val != nil
		})
		_ = oldMap
		le := kit.NewLockEnv(p)
		_ = le
		c.Check(swapped && drained, failSent, "swap-drain", failSent.Pos(), "the sent table is swapped for a fresh map and every element of the old one is completed",
			"failSentRPCs no longer swaps the table and completes every element of the old one")
	}

	// ---- R3 ---------------------------------------------------------------
	c.StartRule("R3", "errors handed back by trySend are delivered to the same call", 3)
	for _, s := range callersOf(p, trySendName) {
		fn := s.Parent()
		arg := s.Common().Args[1]
		res := s.Value()
		if res == nil {
			c.Bad(fn, "trySend-result-dropped", s.Pos(), "the error returned by trySend is ignored: the call it unregistered is never completed", "")
			continue
		}
		e := kit.PathFrom(s, kit.PathQuery{
			Stop: func(in ssa.Instruction) bool {
				cc, ok := in.(*ssa.Call)
				if !ok {
					return false
				}
				n := kit.CalleeName(cc)
				if n == kit.M("region", "", "returnResult") || n == kit.M("region", "*multi", "returnResults") {
					return kit.Same(cc.Call.Args[0], arg) || sameVarNoStoreBetween(cc.Call.Args[0], arg, s.(ssa.Instruction), cc)
				}
				return false
			},
			SkipEdge: func(from, to *ssa.BasicBlock) bool {
				for _, f := range kit.EdgeFacts(from, to) {
					if cmp, ok := kit.CanonCmp(f.Cond, f.Pol); ok && cmp.Op == token.EQL && kit.IsNilConst(cmp.Y) && kit.Same(cmp.X, res) {
						return true
					}
				}
				return false
			},
		})
		c.Check(e == nil, fn, "handback-delivered", s.Pos(), "on the non-nil edge the same call is completed with the error", "a non-nil error from trySend can reach an exit without completing the call: "+c.BlockPath(e))
	}
	handbackErrorUnchanged(c)
	failedSendClaimsItsCall(c)
	// trySend returns non-nil only where it unregistered
	kit.Instrs(trySend, func(in ssa.Instruction) {
		r, ok := in.(*ssa.Return)
		if !ok {
			return
		}
		ev := returnedError(r)
		if ev == nil || kit.IsNilConst(kit.Root(ev)) {
			return
		}
		good := false
		for _, f := range kit.FactsAt(r.Block()) {
			if cmp, ok := kit.CanonCmp(f.Cond, f.Pol); ok && cmp.Op == token.NEQ && kit.IsNilConst(cmp.Y) {
				if call, ok := kit.Root(cmp.X).(*ssa.Call); ok && kit.CalleeName(call) == unregName {
					good = true
				}
			}
		}
		c.Check(good, trySend, "handback-only-when-owner", r.Pos(), "non-nil return only on the edge where unregisterRPC returned the call", "trySend can return an error for a call it does not own: the call would be completed twice")
	})

	// ---- R4 ---------------------------------------------------------------
	c.StartRule("R4", "completion sites are frozen and classified", 9)
	allowedSend := map[*ssa.Function]string{retRes: "returnResult", retMulti: "multi.returnResults", qbatch: "QueueBatch (closed connection)"}
	for _, fn := range p.Funcs {
		kit.Instrs(fn, func(in ssa.Instruction) {
			s, ok := in.(*ssa.Send)
			if !ok {
				return
			}
			call, ok := s.Chan.(*ssa.Call)
			if !ok {
				return
			}
			if _, isRC := p.IsMethodOn(call, "hrpc", "Call", "ResultChan"); !isRC {
				return
			}
			_, good := allowedSend[fn]
			if !good && fn == qrpc {
				// QueueRPC doing for one call what QueueBatch does for a batch: in the arm that found the connection
				// closed, which excludes the arm that hands the call over, and with nothing sent before
				doneF := p.Field("region", "client", "done")
				for _, st := range selectArmsAt(s.Block()) {
					if st.Dir == types.RecvOnly && doneF != nil && isLoadOfField(st.Chan, doneF) {
						good = true
					}
				}
				for _, t := range kit.Calls(qrpc, trySendName) {
					if kit.Reaches(t.(ssa.Instruction), s) {
						good = false
					}
				}
			}
			c.Check(good, fn, "result-send", s.Pos(), "send on a result channel in "+allowedSend[fn], "a new place delivers results to callers: it is outside the ownership discipline (possible double completion)")
		})
	}
	for _, name := range []string{kit.M("region", "", "returnResult"), kit.M("region", "*multi", "returnResults")} {
		for _, s := range callersOf(p, name) {
			fn := s.Parent()
			named := enclosingNamed(fn)
			switch {
			case named == recv:
				c.OK(fn, "completion-site", s.Pos(), "class after-unregister (checked by R2)")
			case named == failSent:
				c.OK(fn, "completion-site", s.Pos(), "class swap-drain (checked by R2)")
			case named == retRes:
				c.OK(fn, "completion-site", s.Pos(), "returnResult forwarding to multi.returnResults")
			case named == qrpc:
				// either handback (R3) or never-registered (done case)
				hb := false
				for _, f := range kit.FactsAt(s.Block()) {
					if cmp, ok := kit.CanonCmp(f.Cond, f.Pol); ok && cmp.Op == token.NEQ && kit.IsNilConst(cmp.Y) {
						if call, ok := kit.Root(cmp.X).(*ssa.Call); ok && kit.CalleeName(call) == trySendName {
							hb = true
						}
					}
				}
				if hb {
					c.OK(fn, "completion-site", s.Pos(), "class handback (checked by R3)")
				} else {
					sent := false
					for _, t := range kit.Calls(qrpc, trySendName) {
						if kit.Reaches(t.(ssa.Instruction), s.(ssa.Instruction)) {
							sent = true
						}
					}
					c.Check(!sent, fn, "completion-site", s.Pos(), "class never-registered: no trySend can precede it", "completion of a call that may already have been handed to trySend")
				}
			case named == proc:
				if _, isDefer := s.(*ssa.Defer); isDefer || fn != proc && isDeferredLiteral(fn) {
					// drain of the unflushed multi: flush must replace m after every trySend
					c.Check(flushReplacesMulti(p, proc, trySendName), fn, "completion-site", s.Pos(), "class never-registered: the pending multi is replaced after every flush", "the deferred drain may complete a multi that was already handed to trySend")
				} else {
					c.OK(fn, "completion-site", s.Pos(), "class handback (checked by R3)")
				}
			default:
				c.Unk(fn, "completion-site", s.Pos(), "new completion site "+kit.FuncName(fn)+": not in the frozen set (QueueRPC, flush literal, deferred drain of processRPCs, failSentRPCs, receive)")
			}
		}
	}

	// ---- R5 ---------------------------------------------------------------
	c.StartRule("R5", "queueing refuses with a connection-level error once the connection is dead", 3)
	if t, ok := errClosed.Type().(*types.Pointer); ok {
		c.Check(types.Identical(t.Elem(), p.Named("region", "ServerError")), qrpc, "closed-error-class", errClosed.Pos(), "ErrClientClosed is a ServerError", "ErrClientClosed is no longer of the connection-level error class: refused calls would not be retried elsewhere")
	}
	for _, fn := range []*ssa.Function{qrpc, qbatch} {
		found := false
		kit.Instrs(fn, func(in ssa.Instruction) {
			sel, ok := in.(*ssa.Select)
			if !ok {
				return
			}
			for i, st := range sel.States {
				if !isLoadOfField(st.Chan, doneF) || st.Dir != types.RecvOnly {
					continue
				}
				// body of that case: block(s) on the edge index == i
				for _, r := range kit.Referrers(kit.ExtractOf(sel, 0)) {
					bo, ok := r.(*ssa.BinOp)
					if !ok {
						continue
					}
					if k, ok := kit.ConstInt(bo.Y); !ok || int(k) != i {
						continue
					}
					for _, rr := range kit.Referrers(bo) {
						iff, ok := rr.(*ssa.If)
						if !ok {
							continue
						}
						body := kit.SuccOnTrue(iff)
						// the body must deliver ErrClientClosed
						delivered := false
						seen := map[*ssa.BasicBlock]bool{}
						var walk func(b *ssa.BasicBlock)
						walk = func(b *ssa.BasicBlock) {
							if seen[b] || !body.Dominates(b) {
								return
							}
							seen[b] = true
							for _, x := range b.Instrs {
								switch y := x.(type) {
								case *ssa.Call:
									if kit.CalleeName(y) == kit.M("region", "", "returnResult") && usesGlobal(y.Call.Args[2], errClosed) {
										delivered = true
									}
								case *ssa.Send:
									delivered = delivered || sendsErrClosed(y, errClosed)
								}
							}
							for _, s := range b.Succs {
								walk(s)
							}
						}
						walk(body)
						if delivered {
							found = true
						}
					}
				}
			}
		})
		c.Check(found, fn, "refuse-when-closed", fn.Pos(), "select has a <-c.done case that completes the calls with ErrClientClosed", "no <-c.done case completing the calls with ErrClientClosed: calls queued on a dead connection are stranded")
	}

	unbufferedHandoff(c)
	closedErrorOnlyWhenClosed(c)

	// ---- R6 ---------------------------------------------------------------
	c.StartRule("R6", "reader errors are connection failures", 6)
	everyWriteErrorIsReported(c)
	readerEndsOnlyWhenTheConnectionFailed(c)
	exceptionTableOracle(c)
	readerErrorsAreFatal(c, recv)
	headerExceptionIsClassified(c)
	fatalExceptionAlwaysFailsTheConnection(c)
	decodeErrorsKeepTheConnection(c)
	// direct completions in receive (outside the deferred one) happen on connection failures:
	// they and the error returned with them must be of the connection-level class
	for _, call := range kit.Calls(recv, kit.M("region", "", "returnResult")) {
		ev := call.Common().Args[2]
		good := isServerErrorValue(p, ev)
		// the function must then return a ServerError as well (so that the reader loop fails the client)
		if good {
			e := kit.PathFrom(call, kit.PathQuery{TargetPath: func(x ssa.Instruction, path []*ssa.BasicBlock) bool {
				r, ok := x.(*ssa.Return)
				if !ok {
					return false
				}
				rv := returnedError(r)
				if rv != nil {
					rv = kit.ResolveAlong(rv, path)
				}
				return !isServerErrorValue(p, rv)
			}})
			good = e == nil
		}
		c.Check(good, recv, "failure-completion-class", call.Pos(), "a call completed on a connection failure gets a ServerError, and receive returns one", "a call is completed on a connection failure with an error that is not of the connection-level class (it will not be retried elsewhere), or receive does not report the failure as a ServerError")
	}
	// receiveRPCs fails the client on ServerError and stops
	{
		good := false
		se := p.Named("region", "ServerError")
		for _, s := range kit.Calls(recvLoop, kit.M("region", "*client", "fail")) {
			if _, ok := typeAssertEdge(s.Block(), se); ok {
				e := kit.PathFrom(s, kit.PathQuery{Target: func(in ssa.Instruction) bool {
					cc, ok := in.(*ssa.Call)
					return ok && kit.CalleeName(cc) == kit.M("region", "*client", "receive")
				}})
				good = e == nil
			}
		}
		c.Check(good, recvLoop, "reader-fails-client", recvLoop.Pos(), "on a ServerError the reader loop calls fail and stops reading", "the reader loop does not fail the client (or keeps reading) after a ServerError")
	}
	if dlit, _ := onceLiteral(dial, dialOnce); dlit != nil {
		e := kit.PathFromEntry(dlit, kit.PathQuery{Stop: func(in ssa.Instruction) bool {
			if cc, ok := in.(*ssa.Call); ok && kit.CalleeName(cc) == kit.M("region", "*client", "fail") {
				return true
			}
			if g, ok := in.(*ssa.Go); ok && kit.CalleeName(g) == kit.M("region", "*client", "receiveRPCs") {
				return true
			}
			// an exit in the arm that saw c.done closed: the client has failed already (only fail closes done)
			if kit.InstrIndex(in) == 0 || in == in.Block().Instrs[len(in.Block().Instrs)-1] {
				for _, st := range selectArmsAt(in.Block()) {
					if st.Dir == types.RecvOnly && isLoadOfField(st.Chan, doneF) {
						return true
					}
				}
			}
			return false
		}})
		c.Check(e == nil, dlit, "dial-exits-fail", dlit.Pos(), "every exit of the dial literal either started the reader or called fail", "the dial literal can return without starting the reader and without failing the client: Dial reports success on a dead connection: "+c.BlockPath(e))
	}

	writeErrorIsFatal(c, send)
	lockPairing(c, "/gohbase/region")
	counterAndDeadlineUnderOneLock(c, kit.NewLockEnv(p))

	// ---- R7 ---------------------------------------------------------------
	c.StartRule("R7", "registration after serialisation, before the write", 3)
	regs := kit.Calls(send, kit.M("region", "*client", "registerRPC"))
	if len(regs) != 1 {
		c.Bad(send, "register", send.Pos(), "send must register the call exactly once", "")
	} else {
		reg := regs[0].(ssa.Instruction)
		e := kit.PathFromEntry(send, kit.PathQuery{
			Target: func(in ssa.Instruction) bool { return in == reg },
			Stop: func(in ssa.Instruction) bool {
				cc, ok := in.(*ssa.Call)
				if !ok {
					return false
				}
				n := kit.CalleeName(cc)
				return n == hrpcCall+"ToProto" || strings.HasSuffix(n, "canSerializeCellBlocks).SerializeCellBlocks")
			},
		})
		c.Check(e == nil, send, "register-after-serialise", reg.Pos(), "every path to registerRPC serialised the request first", "the call is registered before it is serialised: a failure in between completes a call whose contents may be re-used")
		for _, w := range connWrites(p, send) {
			c.Check(kit.Dominates(reg, w.(ssa.Instruction)), send, "register-before-write", w.Pos(), "registerRPC dominates the write", "the request can be written before the call is in the sent table: its response would be unexpected")
		}
	}

	// ---- R8 ---------------------------------------------------------------
	if !c.Frozen {
		embed(c, "R8", "a silent server is a failing connection too: the read deadline is armed while anything is outstanding, so that the outstanding requests are failed by the read timeout (the rules of C18, run as one rule here)", 40, runC18)
	}
}

func isDeferredLiteral(fn *ssa.Function) bool {
	par := fn.Parent()
	if par == nil {
		return false
	}
	found := false
	kit.Instrs(par, func(in ssa.Instruction) {
		if d, ok := in.(*ssa.Defer); ok && kit.StaticCallee(d) == fn {
			found = true
		}
	})
	return found
}

// flushReplacesMulti: in every literal of proc that calls trySend(m), each
// path from that call to the literal's exit stores a fresh newMulti() into m.
func flushReplacesMulti(p *kit.Prog, proc *ssa.Function, trySendName string) bool {
	ok := false
	for _, lit := range kit.WithAnon(proc) {
		for _, s := range kit.Calls(lit, trySendName) {
			arg := kit.Strip(s.Common().Args[1])
			l, isLoad := arg.(*ssa.UnOp)
			if !isLoad {
				// the batch went through a local of an expanded helper (m = c.flushMulti(m, reason))
				l, isLoad = kit.Root(arg).(*ssa.UnOp)
			}
			if pa, isParam := kit.Root(arg).(*ssa.Parameter); isParam && lit != proc {
				// the literal takes the batch as a parameter and returns the next one: m = flush(m, reason)
				idx := -1
				for i, q := range lit.Params {
					if q == pa {
						idx = i
					}
				}
				fresh := true
				kit.Instrs(lit, func(in ssa.Instruction) {
					if r, isRet := in.(*ssa.Return); isRet {
						call, isCall := kit.Root(kit.Res(r, 0)).(*ssa.Call)
						if len(r.Results) != 1 || !isCall || kit.CalleeName(call) != kit.M("region", "", "newMulti") {
							fresh = false
						}
					}
				})
				if idx < 0 || !fresh {
					return false
				}
				sites := 0
				good := true
				kit.Instrs(proc, func(in ssa.Instruction) {
					call, isCall := in.(*ssa.Call)
					if !isCall {
						return
					}
					mc, isMC := kit.Root(call.Call.Value).(*ssa.MakeClosure)
					if !isMC || mc.Fn != ssa.Value(lit) || idx >= len(call.Call.Args) {
						return
					}
					sites++
					ld, isLd := kit.Root(call.Call.Args[idx]).(*ssa.UnOp)
					if !isLd {
						good = false
						return
					}
					e := kit.PathFrom(call, kit.PathQuery{Stop: func(x ssa.Instruction) bool {
						st, isSt := x.(*ssa.Store)
						return isSt && st.Addr == ld.X && kit.Root(st.Val) == ssa.Value(call)
					}})
					if e != nil {
						good = false
					}
				})
				if sites == 0 || !good {
					return false
				}
				ok = true
				continue
			}
			if !isLoad {
				return false
			}
			e := kit.PathFrom(s, kit.PathQuery{Stop: func(in ssa.Instruction) bool {
				st, isSt := in.(*ssa.Store)
				if !isSt || st.Addr != l.X {
					return false
				}
				call, isCall := kit.Root(st.Val).(*ssa.Call)
				return isCall && kit.CalleeName(call) == kit.M("region", "", "newMulti")
			}})
			if e != nil {
				return false
			}
			ok = true
		}
	}
	return ok
}

// sameVarNoStoreBetween: a and b are loads of the same variable and no store
// to it lies between instructions from and to (same function).
func sameVarNoStoreBetween(a, b ssa.Value, from, to ssa.Instruction) bool {
	la, ok1 := kit.Strip(a).(*ssa.UnOp)
	lb, ok2 := kit.Strip(b).(*ssa.UnOp)
	if !ok1 || !ok2 || la.Op != token.MUL || lb.Op != token.MUL || la.X != lb.X {
		return false
	}
	clean := true
	kit.Instrs(from.Parent(), func(in ssa.Instruction) {
		st, ok := in.(*ssa.Store)
		if !ok || st.Addr != la.X {
			return
		}
		e := kit.PathFrom(from, kit.PathQuery{
			Target: func(x ssa.Instruction) bool { return x == ssa.Instruction(st) },
			Stop:   func(x ssa.Instruction) bool { return x == to },
		})
		if e != nil && kit.Reaches(st, to) {
			clean = false
		}
	})
	return clean
}

func usesGlobal(v ssa.Value, g *ssa.Global) bool {
	v = kit.Strip(v)
	if isGlobalLoad(v, g) {
		return true
	}
	if mi, ok := v.(*ssa.MakeInterface); ok {
		return isGlobalLoad(mi.X, g)
	}
	return false
}

// sendsErrClosed: the sent RPCResult carries ErrClientClosed.
func sendsErrClosed(s *ssa.Send, g *ssa.Global) bool {
	// value is a load of a local struct whose Error field was stored from the global
	x := kit.Strip(s.X)
	if u, ok := x.(*ssa.UnOp); ok {
		if a, ok := u.X.(*ssa.Alloc); ok {
			found := false
			kit.Instrs(a.Parent(), func(in ssa.Instruction) {
				if st, ok := in.(*ssa.Store); ok {
					if fa, ok := st.Addr.(*ssa.FieldAddr); ok && fa.X == ssa.Value(a) && usesGlobal(st.Val, g) {
						found = true
					}
				}
			})
			return found
		}
	}
	return false
}

// readerErrorsAreFatal: every return of receive that is reached before a call
// was claimed from the sent table yields a ServerError (shared by C03.R6 and C18.R6).
func readerErrorsAreFatal(c *kit.Ctx, recv *ssa.Function) {
	p := c.P
	unregName := kit.M("region", "*client", "unregisterRPC")
	var unreg ssa.CallInstruction
	for _, s := range kit.Calls(recv, unregName) {
		unreg = s
	}
	if unreg == nil {
		c.Unk(recv, "unregister", recv.Pos(), "receive no longer calls unregisterRPC")
		return
	}
	kit.Instrs(recv, func(in ssa.Instruction) {
		r, ok := in.(*ssa.Return)
		if !ok {
			return
		}
		// returns reachable after a successful claim are the call's business
		claimed := false
		for _, f := range kit.FactsAt(r.Block()) {
			if cmp, ok := kit.CanonCmp(f.Cond, f.Pol); ok && cmp.Op == token.NEQ && kit.IsNilConst(cmp.Y) && kit.Same(cmp.X, unreg.Value()) {
				claimed = true
			}
		}
		if claimed || r.Block().Comment == "recover" {
			return
		}
		ev := returnedError(r)
		good := isServerErrorAt(p, ev, r.Block())
		c.Check(good, recv, "pre-claim-error", r.Pos(), "error before a call was claimed (read error, timeout, undecodable header, unknown id) is a ServerError: it fails the connection", "the reader returns a non-connection-level error (or nil) before any call was claimed: a read timeout or a broken stream does not fail the connection")
	})
}

// writeErrorIsFatal: a failed (possibly partial) write leaves the stream unusable: every error send
// returns after it attempted a write is a ServerError. Shared by C03.R6 and C05.R6.
func writeErrorIsFatal(c *kit.Ctx, send *ssa.Function) {
	p := c.P
	writes := connWrites(p, send)
	good := len(writes) > 0
	if good {
		kit.Instrs(send, func(in ssa.Instruction) {
			r, ok := in.(*ssa.Return)
			if !ok {
				return
			}
			ev := returnedError(r)
			if ev == nil || kit.IsNilConst(kit.Root(ev)) {
				return
			}
			afterWrite := false
			for _, w := range writes {
				if kit.Reaches(w.(ssa.Instruction), r) {
					afterWrite = true
				}
			}
			if afterWrite && !isServerErrorValue(p, ev) {
				good = false
			}
		})
	}
	c.Check(good, send, "write-error-is-fatal", send.Pos(), "every error send returns after it attempted a write is a ServerError (the connection is failed)", "send can report a failed - possibly partial - write with an error that does not fail the connection: later frames are written after a torn one and the stream stays out of sync")
}

// failureTransition: the once-guarded failure transition of a connection: signal, close the socket,
// then drain the sent table. Shared by C03.R1 and C09.R5.
func failureTransition(c *kit.Ctx) {
	p := c.P
	fail := p.Func("region", "client", "fail")
	doneF, connF, failOnce := p.Field("region", "client", "done"), p.Field("region", "client", "conn"), p.Field("region", "client", "failOnce")
	if fail == nil || doneF == nil || connF == nil || failOnce == nil {
		c.Unk(nil, "failure-transition", token.NoPos, "region.client.fail or its fields done/conn/failOnce not found")
		return
	}
	lit, _ := onceLiteral(fail, failOnce)
	if lit == nil {
		c.Bad(fail, "fail-once", fail.Pos(), "fail no longer runs its body under failOnce.Do: the failure transition can run twice", "")
	} else {
		c.Funcs[kit.FuncName(lit)] = true
		for _, fn := range p.Funcs {
			if enclosingNamed(fn).Pkg == nil || enclosingNamed(fn).Pkg.Pkg.Path() != kit.Module+"/region" {
				continue
			}
			for _, call := range kit.Calls(fn, "builtin.close") {
				if isLoadOfField(call.Common().Args[0], doneF) {
					c.Check(fn == lit, fn, "close-done", call.Pos(), "close(c.done) inside failOnce.Do", "close(c.done) outside failOnce.Do: a second close panics, or the signal is given without failing the sent calls")
				}
			}
		}
		hasClose, hasDrain := false, false
		var closeDone, connClose, drain ssa.Instruction
		kit.Instrs(lit, func(in ssa.Instruction) {
			if call, ok := in.(*ssa.Call); ok {
				if kit.CalleeName(call) == "(net.Conn).Close" && isLoadOfField(call.Call.Value, connF) {
					hasClose = true
					connClose = call
				}
				if kit.CalleeName(call) == kit.M("region", "*client", "failSentRPCs") {
					hasDrain = true
					drain = call
				}
				if kit.CalleeName(call) == "builtin.close" && isLoadOfField(call.Call.Args[0], doneF) {
					closeDone = call
				}
			}
		})
		// order: signal, close the connection, then drain. A sender that registers a call after
		// the drain must find the connection closed (its write fails and it completes the call
		// itself); draining first leaves a window in which a call is written to a live socket
		// of a dead client and is never completed.
		okOrder := closeDone != nil && connClose != nil && drain != nil &&
			closeDone.Block().Dominates(connClose.Block()) && (closeDone.Block() != connClose.Block() || kit.InstrIndex(closeDone) < kit.InstrIndex(connClose)) &&
			!kit.Reaches(drain, connClose) && kit.Reaches(connClose, drain)
		if okOrder {
			// no path from the literal's entry reaches the drain without having passed the close (or conn == nil)
			e := kit.PathFromEntry(lit, kit.PathQuery{
				Target: func(x ssa.Instruction) bool { return x == drain },
				Stop:   func(x ssa.Instruction) bool { return x == connClose },
				SkipEdge: func(from, to *ssa.BasicBlock) bool {
					for _, f := range kit.EdgeFacts(from, to) {
						if cmp, ok := kit.CanonCmp(f.Cond, f.Pol); ok && cmp.Op == token.EQL && kit.IsNilConst(cmp.Y) && isLoadOfField(cmp.X, connF) {
							return true
						}
					}
					return false
				},
			})
			okOrder = e == nil
		}
		c.Check(okOrder, lit, "transition-order", lit.Pos(), "close(done), then conn.Close(), then the drain of the sent table", "the failure transition drains the sent table before the connection is closed (or signals after closing): a call registered in between is written to a live socket of a dead client and never completed")
		c.Check(hasClose, lit, "conn-close", lit.Pos(), "the transition closes the connection", "the failure transition no longer closes the connection")
		c.Check(hasDrain, lit, "drain", lit.Pos(), "the transition drains the sent table", "the failure transition no longer fails the sent calls")
		if drain != nil {
			e := mustPass(lit, func(x ssa.Instruction) bool { return x == drain }, nil)
			c.Check(e == nil, lit, "drain-on-every-path", lit.Pos(), "every path through the transition reaches the drain", "the failure transition can return without failing the sent calls (e.g. when closing the socket reports an error): failOnce makes that permanent, the requests in flight are never completed: "+c.BlockPath(e))
		}
		for _, s := range callersOf(p, kit.M("region", "*client", "failSentRPCs")) {
			c.Check(s.Parent() == lit, s.Parent(), "caller-of-failSentRPCs", s.Pos(), "called from the once-guarded transition only", "failSentRPCs called outside the once-guarded transition")
		}
	}
}
