package props

import (
	"encoding/json"
	"fmt"
	"os"
	"os/exec"
	"path/filepath"
	"strings"
	"sync"

	"gohbaseverif/kit"
)

// Mutant is a source edit applied through packages.Config.Overlay: it must
// still type-check and must turn the verdict of its property to violated or
// undecided. Mutants are evidence of sensitivity only; they are never part of
// the verdict on the real tree.
type Mutant struct {
	Name   string `json:"name"`
	File   string `json:"file"`
	Old    string `json:"old"`
	New    string `json:"new"`
	Expect string `json:"expect,omitempty"` // rule id expected to fire (prefix)
	Note   string `json:"note,omitempty"`
	// Edits: further (or, with File empty, all) replacements; used for multi-hunk changes
	// such as the seeded regressions kept under /verif/seeded.
	Edits []Edit `json:"edits,omitempty"`
}

// Edit is one text replacement in one file.
type Edit struct {
	File string `json:"file"`
	Old  string `json:"old"`
	New  string `json:"new"`
	// Start/End: byte offsets of Old in the file (End > 0: offset-addressed edit, used by the
	// mutation sweep; the text at the offsets must equal Old).
	Start int `json:"start,omitempty"`
	End   int `json:"end,omitempty"`
}

// overlay builds the overlay of a mutant; msg is non-empty when it does not apply.
func (m Mutant) overlay(repo string) (map[string][]byte, string) {
	edits := m.Edits
	if m.File != "" {
		edits = append([]Edit{{File: m.File, Old: m.Old, New: m.New}}, edits...)
	}
	out := map[string][]byte{}
	for _, e := range edits {
		path := filepath.Join(repo, e.File)
		src, ok := out[path]
		if !ok {
			b, err := os.ReadFile(path)
			if err != nil {
				if os.IsNotExist(err) && e.Old == "" && e.End == 0 {
					// a file the change adds (code moved into a new file of the package)
					out[path] = []byte(e.New)
					continue
				}
				return nil, err.Error()
			}
			src = b
		}
		if e.End > 0 {
			if e.End > len(src) || string(src[e.Start:e.End]) != e.Old {
				return nil, fmt.Sprintf("offset edit does not match %s", e.File)
			}
			out[path] = []byte(string(src[:e.Start]) + e.New + string(src[e.End:]))
			continue
		}
		if n := strings.Count(string(src), e.Old); n != 1 {
			return nil, fmt.Sprintf("anchor text occurs %d times in %s", n, e.File)
		}
		out[path] = []byte(strings.Replace(string(src), e.Old, e.New, 1))
	}
	if len(out) == 0 {
		return nil, "mutant has no edits"
	}
	return out, ""
}

// LoadMutants reads mutants/<id>.json.
func LoadMutants(verif, id string) ([]Mutant, error) {
	b, err := os.ReadFile(filepath.Join(verif, "mutants", id+".json"))
	if err != nil {
		if os.IsNotExist(err) {
			return nil, nil
		}
		return nil, err
	}
	var ms []Mutant
	if err := json.Unmarshal(b, &ms); err != nil {
		return nil, fmt.Errorf("mutants/%s.json: %v", id, err)
	}
	return ms, nil
}

// MutantResult is the outcome of one mutant.
type MutantResult struct {
	Name    string   `json:"name"`
	Status  string   `json:"status"` // killed | survived | skipped | broken
	Detail  string   `json:"detail,omitempty"`
	Reports []string `json:"reports,omitempty"`
}

// RunMutant applies m to repo through an overlay and runs property id.
func RunMutant(repo, id string, m Mutant) MutantResult {
	ov, msg := m.overlay(repo)
	if msg != "" {
		return MutantResult{Name: m.Name, Status: "skipped", Detail: msg}
	}
	prog, err := kit.Load(kit.LoadOptions{Dir: repo, Overlay: ov})
	if err != nil {
		return MutantResult{Name: m.Name, Status: "broken", Detail: "mutant does not type-check: " + err.Error()}
	}
	ctx := kit.NewCtx(id, prog)
	res := MutantResult{Name: m.Name}
	func() {
		defer func() {
			if r := recover(); r != nil {
				res.Reports = append(res.Reports, fmt.Sprintf("checker panic: %v", r))
			}
		}()
		Registry[id].Run(ctx)
	}()
	for _, r := range ctx.Rules {
		if r.N < r.Min {
			res.Reports = append(res.Reports, fmt.Sprintf("%s vacuous (%d < %d)", r.ID, r.N, r.Min))
		}
	}
	for _, o := range ctx.Obls {
		if o.Verdict != kit.Discharged {
			res.Reports = append(res.Reports, fmt.Sprintf("%s %s %s: %s", o.Rule, o.Verdict, o.Pos, o.Why))
		}
	}
	res.Status = "survived"
	return res
}

// RunMutantAll applies m once and runs every property in ids on the mutated
// program; returns the non-discharged reports per property, or a status if the
// mutant could not be applied / does not type-check.
func RunMutantAll(repo string, ids []string, m Mutant) (map[string][]string, string) {
	ov, msg := m.overlay(repo)
	if msg != "" {
		return nil, "skipped: " + msg
	}
	prog, err := kit.Load(kit.LoadOptions{Dir: repo, Overlay: ov})
	if err != nil {
		return nil, "broken: " + err.Error()
	}
	out := map[string][]string{}
	for _, id := range ids {
		ctx := kit.NewCtx(id, prog)
		func() {
			defer func() {
				if r := recover(); r != nil {
					out[id] = append(out[id], fmt.Sprintf("%s checker panic: %v", id, r))
				}
			}()
			Registry[id].Run(ctx)
		}()
		for _, r := range ctx.Rules {
			if r.N < r.Min {
				out[id] = append(out[id], fmt.Sprintf("%s vacuous (%d < %d)", r.ID, r.N, r.Min))
			}
		}
		for _, o := range ctx.Obls {
			if o.Verdict != kit.Discharged {
				out[id] = append(out[id], fmt.Sprintf("%s %s %s: %s", o.Rule, o.Verdict, o.Pos, o.Why))
			}
		}
	}
	return out, ""
}

// RunMutants runs all mutants of id in sub-processes (one load each, at most
// par at a time) and returns the results. base are the reports already present
// on the unmutated tree (known findings): a mutant is killed only by a new report.
func RunMutants(exe, repo, verif, id string, par int, baseline map[string]bool) []MutantResult {
	ms, err := LoadMutants(verif, id)
	if err != nil {
		return []MutantResult{{Name: "load", Status: "broken", Detail: err.Error()}}
	}
	out := make([]MutantResult, len(ms))
	sem := make(chan struct{}, par)
	var wg sync.WaitGroup
	for i := range ms {
		wg.Add(1)
		go func(i int) {
			defer wg.Done()
			sem <- struct{}{}
			defer func() { <-sem }()
			cmd := exec.Command(exe, "mutant1", id, fmt.Sprint(i), "--repo", repo, "--verif", verif)
			b, err := cmd.Output()
			var r MutantResult
			if jerr := json.Unmarshal(b, &r); jerr != nil {
				r = MutantResult{Name: ms[i].Name, Status: "broken", Detail: fmt.Sprintf("sub-process: %v %v %s", err, jerr, string(b))}
			}
			if r.Status == "survived" {
				var fresh []string
				for _, rep := range r.Reports {
					if !baseline[stripPos(rep)] {
						fresh = append(fresh, rep)
					}
				}
				r.Reports = fresh
				if len(fresh) > 0 {
					r.Status = "killed"
					if ms[i].Expect != "" {
						hit := false
						for _, rep := range fresh {
							if strings.HasPrefix(rep, ms[i].Expect) {
								hit = true
							}
						}
						if !hit {
							r.Detail = "killed, but not by the expected rule " + ms[i].Expect
						}
					}
				}
			}
			out[i] = r
		}(i)
	}
	wg.Wait()
	return out
}

// stripPos removes the position from a report line so that reports can be
// compared between the real tree and a mutant (line numbers may shift).
func stripPos(rep string) string {
	parts := strings.SplitN(rep, " ", 4)
	if len(parts) == 4 {
		return parts[0] + " " + parts[1] + " " + parts[3]
	}
	return rep
}

// BaselineReports returns the non-discharged reports of ctx in stripPos form.
func BaselineReports(ctx *kit.Ctx) map[string]bool {
	m := map[string]bool{}
	for _, o := range ctx.Obls {
		if o.Verdict != kit.Discharged {
			m[stripPos(fmt.Sprintf("%s %s %s: %s", o.Rule, o.Verdict, o.Pos, o.Why))] = true
		}
	}
	return m
}
