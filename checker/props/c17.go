package props

import (
	"fmt"
	"go/constant"
	"go/token"
	"go/types"
	"strings"

	"golang.org/x/tools/go/ssa"

	"gohbaseverif/bounds"
	"gohbaseverif/kit"
)

func init() {
	register("C17", &Property{
		Title: "Retries back off and never become a hot loop",
		Explanation: "(R1) the back-off function's constants and shape equal the stated schedule: first call yields 16 ms, then x2 below 5 s, +5 s below 30 s, constant afterwards, every return classified; " +
			"(R2) its blocking select has exactly the two cases time.After(backoff) and ctx.Done(), the latter returning ctx.Err(); " +
			"(R3) in every retry loop (SendRPC, SendBatch, lookupRegion, lookupAllRegions, establishRegion, checkProcedureWithBackoff) every CFG cycle contains a call of the back-off function, or is a bounded range/counted loop, or is bounded by a retry counter tested as 'counter > K' (K<=1) and incremented on every such pass, or is a tabled NotServingRegionError-only cycle whose structural precondition (the failed region was marked unavailable so the next attempt blocks on its availability channel) is re-checked; " +
			"(R4) at every back-off call inside a loop the duration argument is the loop-carried result of the back-off calls (so the schedule advances) starting from backoffStart/zero, and the error result leaves the loop." +
			" Added after the seeded-change rounds: (R3) the tabled NotServingRegionError cycle has a second precondition - every successful return of getRegionAndClientForRPC passed reg.AvailabilityChan(); the per-round 'retry later seen' flag returned by waitForCompletion only goes from false to true; the ServerError cap of SendBatch examines the retry list as the round's wait left it; (R4) a constant enters the loop-carried back-off only from outside the loop (no reset inside).",
		Residue:   "measured gaps between attempts (real time); fairness of time.After",
		Technique: "SSA pattern rules on the back-off function + CFG cycle search with wait blocks removed (loop-wait analysis)",
		Run:       runC17,
	})
}

const sleepName = kit.Module + ".sleepAndIncreaseBackoff"

func durConst(v ssa.Value) (int64, bool) {
	c, ok := v.(*ssa.Const)
	if !ok || c.Value == nil || c.Value.Kind() != constant.Int {
		return 0, false
	}
	return constant.Int64Val(c.Value)
}

func runC17(c *kit.Ctx) {
	p := c.P
	sl := c.Anchor("", "", "sleepAndIncreaseBackoff")
	if sl == nil {
		return
	}
	const ms, sec = int64(1e6), int64(1e9)

	// ---- R1 schedule --------------------------------------------------------
	c.StartRule("R1", "back-off schedule: 16ms, x2 below 5s, +5s below 30s, then constant", 7)
	if k := p.Const("", "backoffStart"); k != nil {
		v, _ := constant.Int64Val(k.Val())
		c.Check(v == 16*ms, sl, "backoffStart", k.Pos(), "backoffStart = 16ms", fmt.Sprintf("backoffStart is %dns, the stated schedule starts at 16ms", v))
	} else {
		c.Unk(sl, "backoffStart", token.NoPos, "constant backoffStart not found")
	}
	var ctxP, boP *ssa.Parameter
	for _, pa := range sl.Params {
		if pa.Type().String() == "context.Context" {
			ctxP = pa
		} else if pa.Type().String() == "time.Duration" {
			boP = pa
		}
	}
	if ctxP == nil || boP == nil {
		c.Unk(sl, "signature", sl.Pos(), "sleepAndIncreaseBackoff(ctx, backoff) signature changed")
		return
	}
	override := p.Global("", "sleepAndIncreaseBackoffOverride")
	// facts about the backoff parameter at a block: returns a description
	type bfacts struct {
		zero             *bool
		lt5, lt30        *bool
		override, waited bool
		doneCase         bool
		other            []string
	}
	var sel *ssa.Select
	kit.Instrs(sl, func(in ssa.Instruction) {
		if s, ok := in.(*ssa.Select); ok {
			sel = s
		}
	})
	factsOf := func(fs []kit.Fact) bfacts {
		var r bfacts
		for _, f := range fs {
			cmp, ok := kit.CanonCmp(f.Cond, f.Pol)
			if !ok {
				r.other = append(r.other, f.Cond.String())
				continue
			}
			t, fl := true, false
			switch {
			case override != nil && (isGlobalLoad(cmp.X, override) || isGlobalLoad(cmp.Y, override)):
				if cmp.Op == token.NEQ {
					r.override = true
				}
			case cmp.X == ssa.Value(boP):
				k, okk := durConst(cmp.Y)
				if !okk {
					r.other = append(r.other, f.Cond.String())
					continue
				}
				switch {
				case k == 0 && cmp.Op == token.EQL:
					r.zero = &t
				case k == 0 && cmp.Op == token.NEQ:
					r.zero = &fl
				case k == 5*sec && cmp.Op == token.LSS:
					r.lt5 = &t
				case k == 5*sec && cmp.Op == token.GEQ:
					r.lt5 = &fl
				case k == 30*sec && cmp.Op == token.LSS:
					r.lt30 = &t
				case k == 30*sec && cmp.Op == token.GEQ:
					r.lt30 = &fl
				default:
					r.other = append(r.other, fmt.Sprintf("backoff %s %d", cmp.Op, k))
				}
			default:
				// select index tests
				if ex, ok := cmp.X.(*ssa.Extract); ok && sel != nil && ex.Tuple == ssa.Value(sel) && ex.Index == 0 {
					idx, _ := kit.ConstInt(cmp.Y)
					if cmp.Op == token.EQL && int(idx) < len(sel.States) {
						ch := sel.States[idx].Chan
						if _, isTimer := timerChan(ch, sel); isTimer {
							r.waited = true
						} else if call, ok := ch.(*ssa.Call); ok && kit.CalleeName(call) == ctxDone {
							r.doneCase = true
						}
					}
					continue
				}
				r.other = append(r.other, f.Cond.String())
			}
		}
		return r
	}
	eng17 := bounds.New(p)
	isTrue := func(b *bool) bool { return b != nil && *b }
	isFalse := func(b *bool) bool { return b != nil && !*b }
	kit.Instrs(sl, func(in ssa.Instruction) {
		r, ok := in.(*ssa.Return)
		if !ok {
			return
		}
		// one verdict per value that can be returned here, with the conditions under which it is
		// (the returned duration may be merged from several places, e.g. a helper's returns)
		for _, lf := range valueLeaves(kit.Res(r, 0), r.Block()) {
			f := factsOf(lf.facts)
			v := lf.val
			// what one comparison says about the other: not below 30s is not below 5s, below 5s is below 30s
			tr, fl := true, false
			if isFalse(f.lt30) && f.lt5 == nil {
				f.lt5 = &fl
			}
			if isTrue(f.lt5) && f.lt30 == nil {
				f.lt30 = &tr
			}
			lin := eng17.Lin(v)
			bo1 := bounds.Var(bounds.Sym{K: ssa.Value(boP)})
			errNil := kit.IsNilConst(kit.ResolveLeaf(kit.Res(r, 1), lf.path))
			// x*k or k*x, x+k or k+x
			binop := func(op token.Token) (int64, bool) {
				bo, isBo := v.(*ssa.BinOp)
				if !isBo || bo.Op != op {
					return 0, false
				}
				if bo.X == ssa.Value(boP) {
					k, ok := durConst(bo.Y)
					return k, ok
				}
				if bo.Y == ssa.Value(boP) {
					k, ok := durConst(bo.X)
					return k, ok
				}
				return 0, false
			}
			switch {
			case f.override:
				c.OK(sl, "return", r.Pos(), "test override branch (tabled: nil in production)")
			case isTrue(f.zero):
				k, okk := durConst(v)
				c.Check(okk && k == 16*ms && errNil, sl, "return", r.Pos(), "backoff == 0: returns 16ms without waiting", "backoff == 0 edge does not return (16ms, nil)")
			case f.doneCase:
				call, isCall := kit.ResolveLeaf(kit.Res(r, 1), lf.path).(*ssa.Call)
				c.Check(isCall && kit.CalleeName(call) == ctxErr && call.Call.Value == ssa.Value(ctxP), sl, "return", r.Pos(),
					"cancelled: returns ctx.Err()", "the Done() case does not return the context's error")
			case f.waited && isTrue(f.lt5):
				k, isBo := binop(token.MUL)
				if !isBo && isZeroLin(lin.Sub(bo1.Scale(2))) {
					k, isBo = 2, true // written as backoff + backoff
				}
				c.Check(isBo && k == 2 && errNil, sl, "return", r.Pos(), "backoff < 5s: returns backoff*2", "backoff < 5s edge does not return backoff*2")
			case f.waited && isFalse(f.lt5) && isTrue(f.lt30):
				k, isBo := binop(token.ADD)
				if !isBo && isZeroLin(lin.Sub(bo1).Sub(bounds.Const(5*sec))) {
					k, isBo = 5*sec, true
				}
				c.Check(isBo && k == 5*sec && errNil, sl, "return", r.Pos(), "5s <= backoff < 30s: returns backoff+5s", "5s<=backoff<30s edge does not return backoff+5s")
			case f.waited && isFalse(f.lt5) && isFalse(f.lt30):
				c.Check((v == ssa.Value(boP) || isZeroLin(lin.Sub(bo1))) && errNil, sl, "return", r.Pos(), "backoff >= 30s: returns backoff unchanged", "backoff >= 30s edge does not return backoff unchanged")
			default:
				c.Unk(sl, "return", r.Pos(), "return under conditions that match no case of the stated schedule: "+strings.Join(f.other, "; "))
			}
		}
	})

	// ---- R2 the wait ----------------------------------------------------------
	c.StartRule("R2", "the wait is real and ends early only by cancellation", 3)
	if sel == nil {
		c.Bad(sl, "select", sl.Pos(), "sleepAndIncreaseBackoff contains no select: nothing waits", "")
	} else {
		c.Check(sel.Blocking, sl, "select-blocking", sel.Pos(), "blocking select", "the select has a default case: it does not wait")
		var after, done bool
		for _, st := range sel.States {
			if st.Dir != types.RecvOnly {
				continue
			}
			if d, isTimer := timerChan(st.Chan, sel); isTimer {
				after = d == ssa.Value(boP)
			} else if call, ok := st.Chan.(*ssa.Call); ok && kit.CalleeName(call) == ctxDone {
				done = call.Call.Value == ssa.Value(ctxP)
			}
		}
		c.Check(after && done && len(sel.States) == 2, sl, "select-cases", sel.Pos(), "cases are exactly <-time.After(backoff) and <-ctx.Done()",
			"the select cases are not exactly {<-time.After(backoff), <-ctx.Done()}")
		zeroGuard := false
		for _, f := range kit.FactsAt(sel.Block()) {
			if cmp, ok := kit.CanonCmp(f.Cond, f.Pol); ok && cmp.X == ssa.Value(boP) && cmp.Op == token.NEQ {
				zeroGuard = true
			}
		}
		c.Check(zeroGuard, sl, "select-reached", sel.Pos(), "every non-zero back-off reaches the select", "the select is not reached for every non-zero back-off")
	}

	// ---- R3 no waitless cycle -------------------------------------------------
	c.StartRule("R3", "every cycle of every retry loop waits, is bounded, or is a tabled NotServingRegionError cycle", 6)
	retryLoopsWait(c)
	exceptionTableOracle(c)
	failedDialDeclaresTheConnectionDead(c)
	probeClassifiesOutcome(c)
	regionExceptionUnchanged(c)
	classificationGoesByClassName(c)
	oneEstablisherPerOutage(c)
	noWaitlessRecursion(c)
	zkSessionIsClosed(c)

	// (removed after fix 6dc62ae: "the retry list must not be emptied between the round's wait and the ServerError
	// test". Since that repair every round that needs no back-off is capped by one of two counters with the same
	// bound, whatever the test sees, so emptying the list early no longer makes the loop hot: the rule had become a
	// false alarm, and the seeded change it was written for - C17-A - was retired as no longer a regression.)

	// the batch's "some call was told to retry later" flag is sticky within a round: once a call of
	// the round has set it, later results of the round cannot clear it
	if wfc := c.Anchor("", "client", "waitForCompletion"); wfc != nil {
		kit.Instrs(wfc, func(in ssa.Instruction) {
			r, ok := in.(*ssa.Return)
			if !ok || len(r.Results) < 2 {
				return
			}
			set := map[ssa.Value]bool{}
			var collect func(v ssa.Value)
			collect = func(v ssa.Value) {
				v = kit.Strip(v)
				if ph, ok := v.(*ssa.Phi); ok && !set[ph] {
					set[ph] = true
					for _, e := range ph.Edges {
						collect(e)
					}
				}
			}
			collect(kit.Res(r, 1))
			why := ""
			if len(set) == 0 {
				if k, ok := kit.Strip(kit.Res(r, 1)).(*ssa.Const); !ok || k.Value == nil {
					why = "the flag is not a loop-carried boolean (" + kit.Res(r, 1).String() + ")"
				}
			}
			for v := range set {
				ph := v.(*ssa.Phi)
				for i, e := range ph.Edges {
					e = kit.Strip(e)
					if set[e] {
						continue
					}
					pred := ph.Block().Preds[i]
					if k, ok := e.(*ssa.Const); ok && k.Value != nil {
						if k.Value.ExactString() == "true" {
							continue
						}
						last := pred.Instrs[len(pred.Instrs)-1]
						if !kit.Reaches(last, last) {
							continue // initial value
						}
					}
					cleared := true
					for _, f := range kit.FactsAt(pred) {
						if !f.Pol && set[kit.Strip(f.Cond)] {
							cleared = false // assigned only where the flag was still false
						}
					}
					if cleared {
						why = "assigned from " + e.String() + " at " + p.Pos(firstPos(pred)) + " whatever its previous value"
					}
				}
			}
			c.Check(why == "", wfc, "backoff-flag-sticky", r.Pos(), "the flag only ever goes from false to true during a round", "the flag that makes SendBatch wait before the next round can be cleared by a later result of the same round ("+why+"): a round with a retry-later answer followed by a connection-level or NotServingRegion answer is resent without any wait and the schedule never grows")
		})
	}

	// ---- R4 threading ---------------------------------------------------------
	firstWaitPrecedesTheFirstRetry(c)

	c.StartRule("R4", "the loop threads the returned back-off and leaves on its error", 8)
	lookupContexts(c)
	for _, fn := range p.Funcs {
		for _, call := range kit.Calls(fn, sleepName) {
			c.Funcs[kit.FuncName(fn)] = true
			arg := call.Common().Args[1]
			okArg := false
			why := ""
			switch a := kit.Strip(arg).(type) {
			case *ssa.Phi:
				okArg = true
				own := false
				for _, leaf := range kit.PhiLeaves(a) {
					if k, isC := durConst(leaf); isC && (k == 0 || k == 16*ms) {
						continue
					}
					if ex, isEx := leaf.(*ssa.Extract); isEx && ex.Index == 0 {
						if cl, isCall := ex.Tuple.(*ssa.Call); isCall && kit.CalleeName(cl) == sleepName {
							if cl == call.(*ssa.Call) {
								own = true
							}
							continue
						}
					}
					okArg = false
					why = "the duration comes from " + leaf.String()
				}
				// a constant may only enter from outside the loop: a reset inside the loop restarts
				// the schedule (and 0 means "do not wait at all")
				{
					seenPhi := map[*ssa.Phi]bool{}
					var walk func(ph *ssa.Phi)
					walk = func(ph *ssa.Phi) {
						if seenPhi[ph] {
							return
						}
						seenPhi[ph] = true
						for i, e := range ph.Edges {
							e = kit.Strip(e)
							if inner, ok := e.(*ssa.Phi); ok {
								walk(inner)
								continue
							}
							if _, isC := durConst(e); isC {
								pred := ph.Block().Preds[i]
								if len(pred.Instrs) > 0 && kit.Reaches(call.(ssa.Instruction), pred.Instrs[len(pred.Instrs)-1]) {
									okArg = false
									why = "the back-off is reset to a constant inside the retry loop (" + p.Pos(firstPos(pred)) + "): the schedule restarts, and a reset to 0 makes the next wait return at once"
								}
							}
						}
					}
					walk(a)
				}
				if okArg && !own {
					okArg = false
					why = "the loop does not feed this call's result into its next duration"
				}
			default:
				// not in a loop: constant start is fine if the call cannot repeat
				if !kit.Reaches(call, call) {
					if _, isC := durConst(kit.Strip(arg)); isC {
						okArg = true
					}
				}
				why = "duration argument is not loop-carried"
			}
			c.Check(okArg, fn, "backoff-threaded", call.Pos(), "duration is the loop-carried result of the back-off calls starting at backoffStart/0", "schedule does not advance: "+why)
			// error result leaves the loop
			errV := kit.ExtractOf(call.Value(), 1)
			left := false
			if errV != nil {
				for _, r := range kit.Referrers(errV) {
					bo, isBo := r.(*ssa.BinOp)
					if !isBo {
						continue
					}
					cmp, isCmp := kit.CanonCmp(bo, true)
					if !isCmp || !kit.IsNilConst(cmp.Y) {
						continue
					}
					for _, rr := range kit.Referrers(bo) {
						if iff, isIf := rr.(*ssa.If); isIf {
							exitB := kit.SuccOnTrue(iff)
							if cmp.Op == token.EQL {
								exitB = kit.SuccOnFalse(iff)
							}
							e := kit.PathFromBlock(exitB, kit.PathQuery{Target: func(in ssa.Instruction) bool { return in == call.(ssa.Instruction) }})
							left = e == nil
						}
					}
				}
				// spilled err (stored to a captured variable): accept a load-compare as well
				if !left {
					left = errLeavesLoopViaStore(errV, call)
				}
			}
			c.Check(left, fn, "backoff-error-exits", call.Pos(), "a failed wait (cancellation) leaves the loop", "the error of the back-off wait is ignored or the loop continues after cancellation")
		}
	}

	// ---- R5 ---------------------------------------------------------------
	if !c.Frozen {
		embed(c, "R5", "the retry decision of a batch reads the results of the very calls it retries: result slots are read and written by the original position of the call (the positional rules of C07, run as one rule here)", 20, runC07)
	}
}

func dedup(xs []string) []string {
	var out []string
	for i, x := range xs {
		if i == 0 || xs[i-1] != x {
			out = append(out, x)
		}
	}
	return out
}

// counterIncrement returns the instruction phi+1 when v is a loop counter
// phi(0, ..., phi+1, ...), else nil.
func counterIncrement(v ssa.Value) ssa.Instruction {
	v = kit.Strip(v)
	// spilled counter: load of an alloc; find store of load+1
	if u, ok := v.(*ssa.UnOp); ok && u.Op == token.MUL {
		if a, ok := u.X.(*ssa.Alloc); ok {
			for _, st := range kit.StoresTo(a) {
				if bo, ok := st.(*ssa.BinOp); ok && bo.Op == token.ADD {
					if k, okk := kit.ConstInt(bo.Y); okk && k == 1 {
						if l, ok := bo.X.(*ssa.UnOp); ok && l.X == ssa.Value(a) {
							return bo
						}
					}
				}
			}
		}
		return nil
	}
	ph, ok := v.(*ssa.Phi)
	if !ok {
		return nil
	}
	var inc ssa.Instruction
	var visit func(p *ssa.Phi, seen map[*ssa.Phi]bool)
	visit = func(p *ssa.Phi, seen map[*ssa.Phi]bool) {
		if seen[p] {
			return
		}
		seen[p] = true
		for _, e := range p.Edges {
			switch x := e.(type) {
			case *ssa.BinOp:
				if x.Op == token.ADD {
					if k, okk := kit.ConstInt(x.Y); okk && k == 1 {
						if x.X == ssa.Value(ph) {
							inc = x
						} else if q, ok := x.X.(*ssa.Phi); ok && seen[q] {
							inc = x
						}
					}
				}
			case *ssa.Phi:
				visit(x, seen)
			}
		}
	}
	visit(ph, map[*ssa.Phi]bool{})
	return inc
}

// nsreOnlyRound: in SendBatch the round is retried without waiting only when
// needBackoff is false and hasServerError(...) is false, i.e. every retried
// call failed with NotServingRegionError.
func nsreOnlyRound(fn *ssa.Function, facts []kit.Fact) bool {
	// the "some retried call needs a back-off" flag is the condition of the
	// branch whose true edge leads straight to the back-off wait
	for _, f := range facts {
		if f.Pol || f.If == nil {
			continue
		}
		if _, isCall := f.Cond.(*ssa.Call); isCall {
			continue
		}
		t := kit.SuccOnTrue(f.If)
		for _, call := range kit.Calls(fn, sleepName) {
			if t == call.Block() || t.Dominates(call.Block()) {
				return true
			}
		}
	}
	return false
}

// errLeavesLoopViaStore handles `backoff, err = sleep(...)` where err is a
// variable captured by a closure (stored, then re-loaded for the nil test).
func errLeavesLoopViaStore(errV ssa.Value, call ssa.CallInstruction) bool {
	for _, r := range kit.Referrers(errV) {
		st, ok := r.(*ssa.Store)
		if !ok {
			continue
		}
		// find a load of the same address after the store in the same block chain, compared with nil
		b := st.Block()
		for i := kit.InstrIndex(st) + 1; i < len(b.Instrs); i++ {
			if iff, ok := b.Instrs[i].(*ssa.If); ok {
				cmp, isCmp := kit.CanonCmp(iff.Cond, true)
				if !isCmp || !kit.IsNilConst(cmp.Y) {
					return false
				}
				l, isLoad := cmp.X.(*ssa.UnOp)
				if !isLoad || l.X != st.Addr {
					return false
				}
				exitB := kit.SuccOnTrue(iff)
				if cmp.Op == token.EQL {
					exitB = kit.SuccOnFalse(iff)
				}
				e := kit.PathFromBlock(exitB, kit.PathQuery{Target: func(in ssa.Instruction) bool { return in == call.(ssa.Instruction) }})
				return e == nil
			}
		}
	}
	return false
}

// retryLoopsWait: every cycle of every retry loop passes the back-off wait (which watches the caller's
// context), is counter-bounded, or is the tabled NotServingRegionError cycle. Shared by C17.R3 and
// C13.R7 (a retry cycle without the wait also never observes cancellation).
func retryLoopsWait(c *kit.Ctx) {
	p := c.P
	sleepName := kit.M("", "", "sleepAndIncreaseBackoff")
	nsre := p.Named("region", "NotServingRegionError")
	// precondition of the table entry
	hre := c.Anchor("", "client", "handleResultError")
	preOK := false
	if hre != nil && nsre != nil {
		if e, found := afterClassAlways(hre, nsre, func(x ssa.Instruction) bool {
			call, ok := x.(*ssa.Call)
			return ok && kit.CalleeName(call) == hrpcRI+"MarkUnavailable"
		}, nil); found && e == nil {
			preOK = true
		}
		c.Check(preOK, hre, "nsre-precondition", hre.Pos(), "NotServingRegionError case marks the region unavailable", "handleResultError no longer marks the region unavailable on NotServingRegionError: the tabled waitless cycle would spin")
	}
	// second half of the precondition: locating the region always consults its availability channel
	// before a connection is handed out (also when the region still has its old connection)
	if gr := c.Anchor("", "client", "getRegionAndClientForRPC"); gr != nil {
		starts := kit.Calls(gr, kit.M("", "*client", "getRegionForRpc"))
		if len(starts) == 0 {
			c.Unk(gr, "nsre-precondition-wait", gr.Pos(), "getRegionAndClientForRPC no longer resolves the region through getRegionForRpc")
		}
		for _, s := range starts {
			e := kit.PathFrom(s.(ssa.Instruction), kit.PathQuery{
				Target: func(in ssa.Instruction) bool {
					r, ok := in.(*ssa.Return)
					if !ok {
						return false
					}
					ev := returnedError(r)
					return ev != nil && kit.IsNilConst(kit.Root(ev))
				},
				Stop: func(in ssa.Instruction) bool {
					call, ok := in.(*ssa.Call)
					return ok && kit.CalleeName(call) == hrpcRI+"AvailabilityChan"
				},
				IgnorePanics: true,
			})
			if e != nil {
				preOK = false
			}
			c.Check(e == nil, gr, "nsre-precondition-wait", s.Pos(), "every successful return passed reg.AvailabilityChan()", "a connection can be handed out for a region without consulting its availability channel: a region marked unavailable after NotServingRegionError that still has its old connection is used at once, and the tabled waitless NotServingRegionError cycle becomes a hot loop: "+c.BlockPath(e))
		}
	}
	loops := []struct{ rel, recv, name string }{
		{"", "client", "SendRPC"}, {"", "client", "SendBatch"}, {"", "client", "lookupRegion"},
		{"", "client", "lookupAllRegions"}, {"", "client", "establishRegion"}, {"", "client", "checkProcedureWithBackoff"},
	}
	for _, l := range loops {
		fn := c.Anchor(l.rel, l.recv, l.name)
		if fn == nil {
			continue
		}
		waitBlocks := map[*ssa.BasicBlock]bool{}
		for _, call := range kit.Calls(fn, sleepName) {
			waitBlocks[call.Block()] = true
		}
		if len(waitBlocks) == 0 {
			c.Bad(fn, "no-backoff-call", fn.Pos(), "retry loop function contains no call of sleepAndIncreaseBackoff", "")
			continue
		}
		tabledUsed := 0
		counterUsed := 0
		removedEdge := func(from, to *ssa.BasicBlock) bool {
			if kit.BoundedLoopEdge(from, to) {
				return true
			}
			facts := kit.EdgeFacts(from, to)
			// (b) there is no tabled exception any more: the NotServingRegionError-only cycles of SendRPC and SendBatch
			// used to be exempt on the argument that the region's establisher backs off. That argument was wrong
			// (the establisher's first attempt is immediate, and a region can pass its probe while it refuses the
			// request: fix 6dc62ae); those cycles are now bounded by a counter like the ServerError ones.
			_ = facts
			// (a) counter-bounded: this edge is the false edge of "counter > K"
			if len(from.Instrs) > 0 {
				if iff, ok := from.Instrs[len(from.Instrs)-1].(*ssa.If); ok && from.Succs[1] == to && from.Succs[0] != to {
					if cmp, ok := kit.CanonCmp(iff.Cond, true); ok && (cmp.Op == token.GTR || cmp.Op == token.GEQ) && !cmp.Bytes {
						if k, okk := kit.ConstInt(cmp.Y); okk && (cmp.Op == token.GTR && k <= 1 || cmp.Op == token.GEQ && k <= 2) {
							if inc := counterIncrement(cmp.X); inc != nil && waitBlocks[from.Succs[0]] && counterNeverReset(cmp.X, inc) {
								// every way from this edge back to the test passes the increment
								e := kit.PathFromBlock(to, kit.PathQuery{
									Known:  kit.EdgeFacts(from, to),
									Target: func(in ssa.Instruction) bool { return in == ssa.Instruction(iff) },
									Stop:   func(in ssa.Instruction) bool { return in == inc },
								})
								if e == nil {
									counterUsed++
									return true
								}
							}
						}
					}
				}
			}
			// (a') the same through a flag: this edge is the false edge of "if flag" whose true edge leads to the
			// wait, and every value the flag can have is true or "counter > K" for a counter of this kind
			if flagEdgeIsCounterBounded(from, to, waitBlocks) {
				counterUsed++
				return true
			}
			return false
		}
		cyc := kit.FindCycle(fn, func(b *ssa.BasicBlock) bool { return waitBlocks[b] }, removedEdge)
		if cyc != nil {
			// the graph search has no memory of the branches taken: confirm with the path-sensitive search (a
			// cycle that needs a flag to be true at one test and false at the next is not a cycle)
			cyc = kit.FindCycleSensitive(fn, func(b *ssa.BasicBlock) bool { return waitBlocks[b] }, removedEdge)
		}
		if cyc != nil {
			var parts []string
			for _, b := range cyc {
				parts = append(parts, p.Pos(firstPos(b)))
			}
			c.Bad(fn, "waitless-cycle", firstPos(cyc[len(cyc)-1]), "retry loop has a cycle with neither a back-off wait nor a bounded retry counter: attempts against a failing cluster are not separated by waits",
				"cycle through "+strings.Join(dedup(parts), " -> "))
		} else {
			c.OK(fn, "waitless-cycle", fn.Pos(), fmt.Sprintf("no waitless cycle (%d wait blocks removed, %d counter-bounded edges, %d tabled NSRE edges)", len(waitBlocks), counterUsed, tabledUsed))
		}
	}
}

// counterNeverReset: the retry counter v (incremented by inc) is not set back inside the loop: every
// other assignment to it happens where the increment cannot have run yet. A counter that is reset
// whenever, say, the connection object changed never reaches its bound.
func counterNeverReset(v ssa.Value, inc ssa.Instruction) bool {
	v = kit.Strip(v)
	if u, ok := v.(*ssa.UnOp); ok && u.Op == token.MUL {
		if a, ok := u.X.(*ssa.Alloc); ok {
			good := true
			kit.Instrs(a.Parent(), func(in ssa.Instruction) {
				st, ok := in.(*ssa.Store)
				if !ok || st.Addr != ssa.Value(a) || st.Val == inc.(ssa.Value) {
					return
				}
				if kit.Reaches(inc, st) {
					good = false
				}
			})
			return good
		}
		return false
	}
	ph, ok := v.(*ssa.Phi)
	if !ok {
		return false
	}
	good := true
	seen := map[*ssa.Phi]bool{}
	var visit func(p *ssa.Phi)
	visit = func(p *ssa.Phi) {
		if seen[p] {
			return
		}
		seen[p] = true
		for i, e := range p.Edges {
			switch x := e.(type) {
			case *ssa.Phi:
				visit(x)
			case *ssa.Const:
				pred := p.Block().Preds[i]
				if len(pred.Instrs) > 0 && kit.Reaches(inc, pred.Instrs[len(pred.Instrs)-1]) {
					good = false // a constant assigned after the counter has been incremented
				}
			default:
				if e != inc.(ssa.Value) {
					good = false
				}
			}
		}
	}
	visit(ph)
	return good
}

// timerChan recognises the channel of a one-shot timer that is running when `at` executes and returns its
// duration: time.After(d), or the C field of a time.NewTimer(d) whose only other uses are Stop calls that
// cannot run before `at` (a stopped or reset timer would not measure d).
func timerChan(ch ssa.Value, at ssa.Instruction) (ssa.Value, bool) {
	if call, ok := ch.(*ssa.Call); ok && kit.CalleeName(call) == "time.After" {
		return call.Call.Args[0], true
	}
	l, ok := ch.(*ssa.UnOp)
	if !ok || l.Op != token.MUL {
		return nil, false
	}
	fa, ok := l.X.(*ssa.FieldAddr)
	if !ok {
		return nil, false
	}
	if f := kit.FieldVar(fa.X.Type(), fa.Field); f == nil || f.Name() != "C" {
		return nil, false
	}
	mk, ok := fa.X.(*ssa.Call)
	if !ok || kit.CalleeName(mk) != "time.NewTimer" {
		return nil, false
	}
	for _, ref := range *mk.Referrers() {
		switch r := ref.(type) {
		case *ssa.FieldAddr:
			if f := kit.FieldVar(r.X.Type(), r.Field); f == nil || f.Name() != "C" {
				return nil, false
			}
		case *ssa.Call:
			if kit.CalleeName(r) != "(*time.Timer).Stop" || r.Call.Args[0] != ssa.Value(mk) {
				return nil, false
			}
			if kit.PathFrom(r, kit.PathQuery{Target: func(in ssa.Instruction) bool { return in == at }}) != nil {
				return nil, false
			}
		case *ssa.Defer:
			if kit.CalleeName(r) != "(*time.Timer).Stop" {
				return nil, false
			}
		case *ssa.DebugRef:
		default:
			return nil, false
		}
	}
	return mk.Call.Args[0], true
}

// flagEdgeIsCounterBounded: from ends in "if flag" (or "if !flag"), to is its flag-is-false successor, the other
// successor is a block that waits, and the flag is a phi each of whose inputs is the constant true or a
// comparison counter > K (K <= 1) of a counter that is incremented by one around every evaluation of the
// comparison and never reset: control can take this edge at most K+1 times per counter.
func flagEdgeIsCounterBounded(from, to *ssa.BasicBlock, waitBlocks map[*ssa.BasicBlock]bool) bool {
	if len(from.Instrs) == 0 || len(from.Succs) != 2 || from.Succs[0] == from.Succs[1] {
		return false
	}
	iff, ok := from.Instrs[len(from.Instrs)-1].(*ssa.If)
	if !ok {
		return false
	}
	cond, pol := kit.NormBool(iff.Cond, true)
	ph, ok := cond.(*ssa.Phi)
	if !ok {
		return false
	}
	onTrue, onFalse := from.Succs[0], from.Succs[1]
	if !pol {
		onTrue, onFalse = onFalse, onTrue
	}
	if to != onFalse || !waitBlocks[onTrue] {
		return false
	}
	n := 0
	for _, e := range ph.Edges {
		if k, isC := kit.BoolConst(e); isC {
			if !k {
				return false
			}
			continue
		}
		cmp, ok := kit.CanonCmp(e, true)
		if !ok || (cmp.Op != token.GTR && cmp.Op != token.GEQ) || cmp.Bytes {
			return false
		}
		if k, okk := kit.ConstInt(cmp.Y); !okk || (cmp.Op == token.GTR && k > 1) || (cmp.Op == token.GEQ && k > 2) {
			return false
		}
		cmpI, ok := e.(ssa.Instruction)
		if !ok {
			return false
		}
		counter := cmp.X
		var inc ssa.Instruction
		if bo, isBo := counter.(*ssa.BinOp); isBo && bo.Op == token.ADD {
			// compared after the increment: every evaluation sees a value that was just incremented
			if one, okk := kit.ConstInt(bo.Y); okk && one == 1 && counterIncrement(bo.X) == ssa.Instruction(bo) {
				inc, counter = bo, bo.X
			}
		}
		if inc == nil {
			inc = counterIncrement(counter)
			if inc == nil {
				return false
			}
			// compared before the increment: no way from the comparison to the flag test around the increment
			if kit.PathFrom(cmpI, kit.PathQuery{
				Target: func(in ssa.Instruction) bool { return in == ssa.Instruction(iff) },
				Stop:   func(in ssa.Instruction) bool { return in == inc },
			}) != nil {
				return false
			}
		}
		if !counterNeverReset(counter, inc) {
			return false
		}
		n++
	}
	return n > 0
}
