package props

import (
	"go/ast"
	"go/token"
	"go/types"
	"strings"

	"golang.org/x/tools/go/ssa"

	"gohbaseverif/bounds"
	"gohbaseverif/kit"
)

// Rules added after the seventh round of independently seeded changes.

// successFlagLoweredOnlyWithAnError: waitForCompletion reports "not everything went well" (its last result) only on
// ways on which a result with an error was recorded: either the result just received carries one (res.Error != nil)
// or an error was stored into a slot. Lowering the flag for another reason (the batch context was done when the
// select looked, although every result then turns out to be there and fine) makes SendBatch return false with
// no error in any result. C07.R4.
func successFlagLoweredOnlyWithAnError(c *kit.Ctx) {
	wfc := c.Anchor("", "client", "waitForCompletion")
	if wfc == nil {
		return
	}
	p := c.P
	sig := wfc.Signature.Results()
	k := sig.Len() - 1
	if k < 0 {
		return
	}
	if b, ok := sig.At(k).Type().Underlying().(*types.Basic); !ok || b.Kind() != types.Bool {
		c.Unk(wfc, "flag-lowered-with-error", wfc.Pos(), "the last result of waitForCompletion is no longer the success flag")
		return
	}
	errF := p.Field("hrpc", "RPCResult", "Error")
	var resParam *ssa.Parameter
	for _, pa := range wfc.Params {
		if isResultSlice(p, pa.Type()) {
			resParam = pa
		}
	}
	if errF == nil || resParam == nil {
		c.Unk(wfc, "flag-lowered-with-error", wfc.Pos(), "hrpc.RPCResult.Error / the result slice parameter not found")
		return
	}
	// blocks that record an error in a slot: results[i].Error = <error>, or results[i] = res under res.Error != nil
	storesError := map[*ssa.BasicBlock]bool{}
	kit.Instrs(wfc, func(in ssa.Instruction) {
		st, ok := in.(*ssa.Store)
		if !ok {
			return
		}
		if fa, ok := st.Addr.(*ssa.FieldAddr); ok && kit.FieldVar(fa.X.Type(), fa.Field) == errF && !kit.IsNilConst(st.Val) {
			if ia, ok := fa.X.(*ssa.IndexAddr); ok && kit.Root(ia.X) == ssa.Value(resParam) {
				storesError[st.Block()] = true
			}
		}
	})
	hasError := func(facts []kit.Fact) bool {
		for _, f := range facts {
			if cmp, ok := kit.CanonCmp(f.Cond, f.Pol); ok && cmp.Op == token.NEQ && kit.IsNilConst(cmp.Y) && isLoadOfField(cmp.X, errF) {
				return true
			}
		}
		return false
	}
	// the web of the returned flag
	web := map[ssa.Value]bool{}
	var grow func(v ssa.Value)
	grow = func(v ssa.Value) {
		if web[v] {
			return
		}
		web[v] = true
		if ph, ok := v.(*ssa.Phi); ok {
			for _, e := range ph.Edges {
				grow(e)
			}
		}
	}
	kit.Instrs(wfc, func(in ssa.Instruction) {
		if r, ok := in.(*ssa.Return); ok && k < len(r.Results) {
			grow(kit.Res(r, k))
		}
	})
	n := 0
	for v := range web {
		ph, ok := v.(*ssa.Phi)
		if !ok {
			continue
		}
		for i, e := range ph.Edges {
			if val, isC := kit.BoolConst(e); !isC || val {
				continue
			}
			pred := ph.Block().Preds[i]
			n++
			// an error was stored in pred or in a block that dominates it since the flag was last true, or the
			// result received carries one
			good := false
			for b := pred; b != nil; b = b.Idom() {
				if storesError[b] {
					good = true
					break
				}
				if len(b.Preds) > 1 {
					break // a merge: what happened before it is not this way's own
				}
			}
			if !good {
				good = kit.OnAllWays(pred, hasError, 0) || hasError(kit.EdgeFacts(pred, ph.Block()))
			}
			c.Check(good, wfc, "flag-lowered-with-error", firstPos(pred), "the success flag is lowered where a result with an error was recorded",
				"waitForCompletion lowers its success flag on a way on which no result with an error was recorded (e.g. because the batch context was done when it looked, although the remaining results are then read and may all be fine): SendBatch returns false although every result has a nil error")
		}
	}
	if n == 0 {
		c.Unk(wfc, "flag-lowered-with-error", wfc.Pos(), "no place found where waitForCompletion lowers its success flag")
	}
}

// deferredCallsSeeTheCurrentValue: a deferred call that is meant to clean up "whatever is current when the function
// ends" must read the variable when it runs. `defer x.m()` evaluates x when the defer statement executes; if x is
// assigned again afterwards (the batcher replaces its batch after every flush) the deferred call works on the first
// value - the calls collected in the last batch are never answered. C03.R1, C09.R1.
func deferredCallsSeeTheCurrentValue(c *kit.Ctx) {
	p := c.P
	n := 0
	for _, fn := range p.Funcs {
		if !p.IsSubject(fn) || fn.Pkg == nil || fn.Parent() != nil {
			continue
		}
		kit.Instrs(fn, func(in ssa.Instruction) {
			d, ok := in.(*ssa.Defer)
			if !ok {
				return
			}
			n++
			if _, isClosure := d.Call.Value.(*ssa.MakeClosure); isClosure {
				c.OK(fn, "deferred-sees-current", d.Pos(), "a closure: variables are read when it runs")
				return
			}
			operands := append([]ssa.Value{}, d.Call.Args...)
			if d.Call.IsInvoke() {
				operands = append(operands, d.Call.Value)
			}
			var stale ssa.Value
			for _, a := range operands {
				a = kit.Strip(a)
				// a load of a local that is stored to again after the defer statement (here or in a closure)
				if l, ok := a.(*ssa.UnOp); ok && l.Op == token.MUL {
					if al, ok := l.X.(*ssa.Alloc); ok {
						for _, f := range kit.WithAnon(fn) {
							kit.Instrs(f, func(x ssa.Instruction) {
								st, ok := x.(*ssa.Store)
								if !ok {
									return
								}
								addr := st.Addr
								if fv, ok := addr.(*ssa.FreeVar); ok {
									if b := kit.FreeVarBinding(fv); b != nil {
										addr = b
									}
								}
								if addr != ssa.Value(al) {
									return
								}
								if f != fn || kit.Reaches(d, st) {
									stale = a
								}
							})
						}
					}
				}
				// a value that a later phi of the same variable replaces (the variable the defer statement names, where
				// that can be read off the syntax: the same value may also be the start of another variable - the
				// parameter of an expanded helper that walks through the buffer)
				names := deferOperandNames(p, fn, d)
				for _, r := range kit.Referrers(a) {
					if ph, ok := r.(*ssa.Phi); ok && len(ph.Block().Instrs) > 0 && kit.Reaches(d, ph.Block().Instrs[0]) && ph.Comment != "" {
						if len(names) > 0 && !names[ph.Comment] {
							continue
						}
						for _, e := range ph.Edges {
							if e != a && e != ssa.Value(ph) {
								stale = a
							}
						}
					}
				}
			}
			c.Check(stale == nil, fn, "deferred-sees-current", d.Pos(), "the operands of the deferred call are not assigned again after the defer statement", "the deferred call is bound to the value a variable has when the defer statement runs, and the variable is assigned again afterwards: at exit the call works on the old value (the batcher would fail its first, long flushed batch and leave the calls of the current one unanswered)")
		})
	}
	if n == 0 {
		c.Unk(nil, "deferred-sees-current", token.NoPos, "no defer statement found in the module")
	}
}

// callsDroppedOnlyWhenTheirContextIsDone: multi.toProto drops a call from the request (clears its slot) only where
// the call's own context is done - on every way to the clearing store. That is the one condition under which the
// callers (waitForCompletion, sendBlocking) stop waiting for a result; a call dropped for another reason (its region
// was marked dead meanwhile) gets neither a response nor an error. C07.R5, C13.R2.
func callsDroppedOnlyWhenTheirContextIsDone(c *kit.Ctx) {
	callsF := c.P.Field("region", "multi", "calls")
	mtp := c.Anchor("region", "multi", "toProto")
	if callsF == nil || mtp == nil {
		return
	}
	ownCtxDone := func(facts []kit.Fact) bool {
		for _, f := range facts {
			if done, ok := callContextFact(f); ok && done {
				return true
			}
		}
		return false
	}
	n := 0
	kit.Instrs(mtp, func(in ssa.Instruction) {
		st, ok := in.(*ssa.Store)
		if !ok || !kit.IsNilConst(kit.Root(st.Val)) {
			return
		}
		ia, ok := st.Addr.(*ssa.IndexAddr)
		if !ok || !isLoadOfField(ia.X, callsF) && !isLoadOfField(kit.Root(ia.X), callsF) {
			return
		}
		n++
		c.Check(kit.OnAllWays(st.Block(), ownCtxDone, 0), mtp, "dropped-only-when-own-context-done", st.Pos(), "a call is dropped from the request only where its own context is done", "toProto can drop a call from the request for a reason other than the call's own context being done (e.g. its region was marked dead): nobody waiting for that call watches that condition - the call gets no response, no error and no retry until its context or the batch context ends")
	})
	if n == 0 {
		c.Unk(mtp, "dropped-only-when-own-context-done", mtp.Pos(), "toProto no longer clears the slot of a call it does not send")
	}
}

// batchHandedOverWhole: region.client.QueueBatch either hands the batch it was given to the batcher as it is, or -
// when the connection is closed - answers every call of it. A batch cut into pieces (or filtered) is partly
// handed over and partly refused, and the calls of the pieces that were not reached get nothing. C07.R5, C03.R3.
func batchHandedOverWhole(c *kit.Ctx) {
	qb := c.Anchor("region", "client", "QueueBatch")
	if qb == nil {
		return
	}
	var batch *ssa.Parameter
	for _, pa := range qb.Params {
		if sl, ok := pa.Type().Underlying().(*types.Slice); ok && sl.Elem().String() == kit.Module+"/hrpc.Call" {
			batch = pa
		}
	}
	if batch == nil {
		c.Unk(qb, "batch-handed-over-whole", qb.Pos(), "QueueBatch no longer takes a slice of calls")
		return
	}
	rpcsF := c.P.Field("region", "client", "rpcs")
	n := 0
	kit.Instrs(qb, func(in ssa.Instruction) {
		switch x := in.(type) {
		case *ssa.Select:
			for _, st := range x.States {
				if st.Dir == types.SendOnly && rpcsF != nil && isLoadOfField(st.Chan, rpcsF) {
					n++
					c.Check(kit.Root(st.Send) == ssa.Value(batch), qb, "batch-handed-over-whole", x.Pos(), "the batch is handed to the batcher as it was given", "QueueBatch hands the batcher something other than the batch it was given (a piece, a filtered copy): the calls left out are neither sent nor answered, and a caller that waits for them by position waits for the wrong ones")
				}
			}
		case *ssa.Send:
			if rpcsF != nil && isLoadOfField(x.Chan, rpcsF) {
				n++
				c.Check(kit.Root(x.X) == ssa.Value(batch), qb, "batch-handed-over-whole", x.Pos(), "the batch is handed to the batcher as it was given", "QueueBatch hands the batcher something other than the batch it was given")
			}
		case *ssa.IndexAddr:
			// the refusal loop: ranges over the batch itself
			if _, isR := rangeOfIndex(x.Index); isR {
				if sl, ok := x.X.Type().Underlying().(*types.Slice); ok && sl.Elem().String() == kit.Module+"/hrpc.Call" {
					n++
					c.Check(kit.Root(x.X) == ssa.Value(batch), qb, "batch-refused-whole", x.Pos(), "the refusal answers every call of the batch that was given", "when the connection is closed QueueBatch answers only a part of the batch it was given (the piece in hand): the other calls get no result and are not retried - they end with the batch context's error")
				}
			}
		}
	})
	if n < 2 {
		c.Unk(qb, "batch-handed-over-whole", qb.Pos(), "QueueBatch no longer hands the batch to the batcher channel and answers it when the connection is closed")
	}
}

// locksTakenOnReceiver: the mutex fields of its receiver that method g locks (read or write), itself or through
// methods it calls on the same receiver (two levels).
func locksTakenOnReceiver(g *ssa.Function, depth int) map[*types.Var]bool {
	out := map[*types.Var]bool{}
	if g == nil || len(g.Blocks) == 0 || len(g.Params) == 0 || g.Signature.Recv() == nil {
		return out
	}
	recv := ssa.Value(g.Params[0])
	kit.Instrs(g, func(in ssa.Instruction) {
		ci, ok := in.(ssa.CallInstruction)
		if !ok {
			return
		}
		if _, isGo := in.(*ssa.Go); isGo {
			return
		}
		if key, op, ok := kit.LockOp(ci); ok && (op == "lock" || op == "rlock") {
			if fa, ok := ci.Common().Args[0].(*ssa.FieldAddr); ok && kit.Root(fa.X) == recv {
				out[key.Field] = true
			}
			return
		}
		// handing the receiver to the logger runs its MarshalJSON / String / LogValue (whichever the handler uses)
		if strings.HasPrefix(kit.CalleeName(ci), "(*log/slog.Logger).") && depth < 2 {
			for _, a := range ci.Common().Args {
				for _, el := range append(elemsOfVariadic(a), a) {
					mi, ok := el.(*ssa.MakeInterface)
					if !ok || kit.Root(mi.X) != recv {
						continue
					}
					ms := g.Prog.MethodSets.MethodSet(mi.X.Type())
					for i := 0; i < ms.Len(); i++ {
						switch ms.At(i).Obj().Name() {
						case "MarshalJSON", "String", "LogValue", "MarshalText":
							if h := g.Prog.MethodValue(ms.At(i)); h != nil {
								for f := range locksTakenOnReceiver(h, depth+1) {
									out[f] = true
								}
							}
						}
					}
				}
			}
			return
		}
		if depth < 2 {
			if h := ci.Common().StaticCallee(); h != nil && h.Signature.Recv() != nil && len(ci.Common().Args) > 0 && kit.Root(ci.Common().Args[0]) == recv {
				for f := range locksTakenOnReceiver(h, depth+1) {
					out[f] = true
				}
			}
		}
	})
	return out
}

// noRecursiveLocking: no method is called on an object while a mutex of that object is held that the method takes
// again. sync.Mutex and the write side of sync.RWMutex deadlock at once; a recursive read lock deadlocks as soon as
// a writer asks for the lock between the two acquisitions - after that every access to the object blocks in the
// mutex, outside any select, and no context is honoured. C13.R8, C09.R1.
func noRecursiveLocking(c *kit.Ctx) {
	p := c.P
	n := 0
	for _, fn := range p.Funcs {
		if !p.IsSubject(fn) || fn.Pkg == nil || len(fn.Blocks) == 0 {
			continue
		}
		// only functions that lock something themselves
		locksSomething := false
		kit.Instrs(fn, func(in ssa.Instruction) {
			if ci, ok := in.(ssa.CallInstruction); ok {
				if _, op, ok := kit.LockOp(ci); ok && (op == "lock" || op == "rlock") {
					locksSomething = true
				}
			}
		})
		if !locksSomething {
			continue
		}
		le := kit.AnalyzeLocks(fn, nil)
		kit.Instrs(fn, func(in ssa.Instruction) {
			ci, ok := in.(*ssa.Call)
			if !ok {
				return
			}
			held := le.At(ci)
			if len(held) == 0 {
				return
			}
			var base string
			taken := map[*types.Var]bool{}
			if strings.HasPrefix(kit.CalleeName(ci), "(*log/slog.Logger).") {
				// an object handed to the logger while one of its mutexes is held
				for _, a := range ci.Call.Args {
					for _, el := range append(elemsOfVariadic(a), a) {
						mi, ok := el.(*ssa.MakeInterface)
						if !ok {
							continue
						}
						ms := fn.Prog.MethodSets.MethodSet(mi.X.Type())
						for i := 0; i < ms.Len(); i++ {
							switch ms.At(i).Obj().Name() {
							case "MarshalJSON", "String", "LogValue", "MarshalText":
								if h := fn.Prog.MethodValue(ms.At(i)); h != nil {
									for f := range locksTakenOnReceiver(h, 1) {
										taken[f] = true
										base = kit.Path(mi.X)
									}
								}
							}
						}
					}
				}
			} else {
				g := ci.Call.StaticCallee()
				if g == nil || g.Signature.Recv() == nil || len(ci.Call.Args) == 0 {
					return
				}
				base = kit.Path(ci.Call.Args[0])
				taken = locksTakenOnReceiver(g, 0)
			}
			if len(taken) == 0 {
				return
			}
			n++
			var again *types.Var
			for k := range held {
				if k.Base == base && taken[k.Field] {
					again = k.Field
				}
			}
			c.Check(again == nil, fn, "no-recursive-lock", ci.Pos(), "the callee takes no mutex of its receiver that is held here", "a method is called while a mutex of its receiver is held that the method locks again: recursive locking deadlocks (for a read lock: as soon as a writer asks for the lock in between) and every later access to the object blocks in the mutex whatever the caller's context says")
		})
	}
	if n == 0 {
		c.OK(nil, "no-recursive-lock", token.NoPos, "no call of a locking method on an object whose mutex is held")
	}
}

// oneShotScansCloseTheirScanner: a scanner that is read once and then dropped (the region lookup in hbase:meta)
// leaves the region scanner it opened on the server open unless the scan asked the server to close it after the
// first response (hrpc.CloseScanner()) or the scanner is closed on every way out. A scanner whose Next runs in a
// loop is read until it reports an error or io.EOF, which closes it (C14.R1-R3). C14.R5.
func oneShotScansCloseTheirScanner(c *kit.Ctx) {
	p := c.P
	scanName := kit.M("", "*client", "Scan")
	n := 0
	for _, fn := range p.Funcs {
		if !p.IsSubject(fn) || fn.Pkg == nil || fn.Pkg.Pkg.Path() != kit.Module {
			continue
		}
		for _, sc := range kit.Calls(fn, scanName) {
			sv := sc.Value()
			if sv == nil {
				continue
			}
			var nexts, closes []*ssa.Call
			kit.Instrs(fn, func(in ssa.Instruction) {
				call, ok := in.(*ssa.Call)
				if !ok || !call.Call.IsInvoke() || kit.Root(call.Call.Value) != ssa.Value(sv) {
					return
				}
				switch call.Call.Method.Name() {
				case "Next":
					nexts = append(nexts, call)
				case "Close":
					closes = append(closes, call)
				}
			})
			if len(nexts) == 0 {
				continue // handed to somebody else
			}
			looped := false
			for _, nx := range nexts {
				if kit.Reaches(nx, nx) {
					looped = true
				}
			}
			if looped {
				// read in a loop: the function leaves only after Next reported an error or io.EOF (which closes the
				// scanner), or after closing it - not from the middle of the scan with the region scanner still open
				for _, nx := range nexts {
					errV := kit.ExtractOf(nx, 1)
					if errV == nil {
						continue
					}
					n++
					e := kit.PathFrom(nx, kit.PathQuery{
						Stop: func(x ssa.Instruction) bool {
							if x == ssa.Instruction(nx) {
								return true
							}
							for _, cl := range closes {
								if x == ssa.Instruction(cl) {
									return true
								}
							}
							return false
						},
						SkipEdge: func(from, to *ssa.BasicBlock) bool {
							for _, f := range kit.EdgeFacts(from, to) {
								cmp, ok := kit.CanonCmp(f.Cond, f.Pol)
								if !ok {
									continue
								}
								if kit.Root(cmp.X) != errV && kit.Root(cmp.Y) != errV {
									continue
								}
								if cmp.Op == token.NEQ && (kit.IsNilConst(cmp.Y) || kit.IsNilConst(cmp.X)) {
									return true // Next failed: the scanner has closed itself
								}
								if cmp.Op == token.EQL && !kit.IsNilConst(cmp.Y) && !kit.IsNilConst(cmp.X) {
									return true // err == io.EOF
								}
							}
							return false
						},
						IgnorePanics: true,
					})
					c.Check(e == nil, fn, "looped-scan-is-read-to-the-end", nx.Pos(), "the function returns only after Next reported an error/io.EOF or after Close", "a scan that is read in a loop can be abandoned in the middle (a return while Next was still delivering rows) without closing the scanner: the region scanner and its lease stay open on the server, once per retry: "+c.BlockPath(e))
				}
				continue
			}
			n++
			// the options of the scan
			asksServer := false
			if ex, ok := kit.Root(sc.Common().Args[1]).(*ssa.Extract); ok {
				if mk, ok := ex.Tuple.(*ssa.Call); ok {
					for _, a := range mk.Call.Args {
						for _, el := range elemsOfVariadic(a) {
							if oc, ok := kit.Root(el).(*ssa.Call); ok && kit.CalleeName(oc) == kit.M("hrpc", "", "CloseScanner") {
								asksServer = true
							}
						}
					}
				}
			}
			closedHere := len(closes) > 0
			if closedHere {
				for _, nx := range nexts {
					e := kit.PathFrom(nx, kit.PathQuery{Stop: func(x ssa.Instruction) bool {
						for _, cl := range closes {
							if x == ssa.Instruction(cl) {
								return true
							}
						}
						return false
					}, IgnorePanics: true})
					if e != nil {
						closedHere = false
					}
				}
			}
			c.Check(asksServer || closedHere, fn, "one-shot-scan-closes", sc.Pos(), "the scan carries hrpc.CloseScanner() (or the scanner is closed on every way out)", "a scanner is read once and dropped, its scan does not ask the server to close the region scanner after the first response and nothing closes it: every such lookup leaves a region scanner and its lease open on the server until the lease expires")
		}
	}
	if n == 0 {
		c.Unk(nil, "one-shot-scan-closes", token.NoPos, "no scanner that is read once was found (metaLookup used to be one)")
	}
}

// claimedCallIsCompletedOnce: in receive a claimed call is completed either by the deferred delivery or by an
// explicit one, never by both: no way leads from the registration of the deferred delivery to an explicit
// returnResult for the claimed call, nor from an explicit one to the registration. The second delivery blocks
// the reader on the call's result channel (capacity one): receive never returns, the connection is never failed
// and no read timeout can fire. C03.R3, C02.R3.
func claimedCallIsCompletedOnce(c *kit.Ctx) {
	recv := c.Anchor("region", "client", "receive")
	if recv == nil {
		return
	}
	rr := kit.M("region", "", "returnResult")
	var deferred []ssa.Instruction
	var explicit []ssa.Instruction
	kit.Instrs(recv, func(in ssa.Instruction) {
		switch x := in.(type) {
		case *ssa.Defer:
			if kit.CalleeName(x) == rr {
				deferred = append(deferred, x)
			}
			if mc, ok := x.Call.Value.(*ssa.MakeClosure); ok {
				if len(kit.Calls(mc.Fn.(*ssa.Function), rr)) > 0 {
					deferred = append(deferred, x)
				}
			}
		case *ssa.Call:
			if kit.CalleeName(x) == rr {
				explicit = append(explicit, x)
			}
		}
	})
	if len(deferred) == 0 {
		c.Unk(recv, "claimed-call-completed-once", recv.Pos(), "receive no longer registers a deferred delivery of the result")
		return
	}
	for _, d := range deferred {
		good := true
		for _, x := range explicit {
			if kit.MayReach(d, x) || kit.MayReach(x, d) {
				good = false
			}
		}
		c.Check(good, recv, "claimed-call-completed-once", d.Pos(), "no way passes both the registration of the deferred delivery and an explicit returnResult", "a claimed call can be completed twice (the deferred delivery is registered on a way that also delivers explicitly): the second send blocks the reader on the call's result channel - receive never returns its error, the connection is never failed, and with the reader gone no read timeout fires either")
	}
}

// lookupAttemptsHaveTheirOwnTimeout: the retry loops of lookupRegion / lookupAllRegions bound every attempt by
// regionLookupTimeout with a context made for that attempt. A timeout context made once, outside the loop, is a
// budget for all attempts together: once it has run out every later lookup fails at once while the back-off keeps
// sleeping on the caller's live context - the loop never succeeds again although the cluster has recovered. C04.R3.
func lookupAttemptsHaveTheirOwnTimeout(c *kit.Ctx) {
	n := 0
	for _, nm := range []string{"lookupRegion", "lookupAllRegions"} {
		fn := c.Anchor("", "client", nm)
		if fn == nil {
			continue
		}
		for _, call := range kit.Calls(fn, "context.WithTimeout", "context.WithDeadline") {
			n++
			in := call.(ssa.Instruction)
			c.Check(kit.Reaches(in, in), fn, "attempt-has-own-timeout", call.Pos(), "the timeout context is made inside the retry loop, once per attempt", "the lookup timeout is a context made once for all attempts: after it has expired every further attempt fails immediately and the loop, which backs off on the caller's context, retries for ever without any chance of success")
		}
	}
	if n == 0 {
		c.Unk(nil, "attempt-has-own-timeout", token.NoPos, "lookupRegion / lookupAllRegions no longer bound their attempts with a timeout context")
	}
}

// failedLookupResultsAreNotUsed: in establishRegion the region and address lookupRegion returned are used (as a
// receiver or an argument) only where its error is known to be nil: on the error branches they are nil - a call on
// them panics in the establisher goroutine, which nobody recovers, before the original region is released. C09.R6.
func failedLookupResultsAreNotUsed(c *kit.Ctx) {
	est := c.Anchor("", "client", "establishRegion")
	if est == nil {
		return
	}
	n := 0
	for _, lk := range kit.Calls(est, kit.M("", "*client", "lookupRegion")) {
		lv := lk.Value()
		if lv == nil {
			continue
		}
		errV := kit.ExtractOf(lv, 2)
		regV := kit.ExtractOf(lv, 0)
		if errV == nil || regV == nil {
			continue
		}
		errNil := func(facts []kit.Fact) bool {
			for _, f := range facts {
				cmp, ok := kit.CanonCmp(f.Cond, f.Pol)
				if !ok || cmp.Op != token.EQL {
					continue
				}
				if (kit.Root(cmp.X) == errV && kit.IsNilConst(cmp.Y)) || (kit.Root(cmp.Y) == errV && kit.IsNilConst(cmp.X)) {
					return true
				}
			}
			return false
		}
		for _, r := range kit.Referrers(regV) {
			ci, ok := r.(ssa.CallInstruction)
			if !ok {
				continue
			}
			n++
			in := r.(ssa.Instruction)
			c.Check(kit.OnAllWays(in.Block(), errNil, 0), est, "lookup-result-used-only-on-success", in.Pos(), "the looked-up region is used only where the lookup's error is nil", "the region a failed lookup returned (nil) is used in "+kit.ShortName(kit.CalleeName(ci))+": the establisher goroutine panics, nothing recovers it, and the region it was re-establishing is never released")
		}
	}
	if n == 0 {
		c.Unk(est, "lookup-result-used-only-on-success", est.Pos(), "establishRegion no longer uses the region lookupRegion returns")
	}
}

// callContextFact: the fact says whether the context of a call (hrpc.Call.Context()) is done - in either spelling:
// c.Context().Err() != nil, or the arm / the default of a non-blocking select on <-c.Context().Done().
func callContextFact(f kit.Fact) (done bool, ok bool) {
	isCallCtx := func(v ssa.Value) bool {
		cx, ok := kit.Root(v).(*ssa.Call)
		return ok && kit.CalleeName(cx) == hrpcCall+"Context"
	}
	if cmp, isCmp := kit.CanonCmp(f.Cond, f.Pol); isCmp && (cmp.Op == token.NEQ || cmp.Op == token.EQL) && kit.IsNilConst(cmp.Y) {
		if e, isCall := kit.Root(cmp.X).(*ssa.Call); isCall && e.Call.IsInvoke() && e.Call.Method.Name() == "Err" && isCallCtx(e.Call.Value) {
			return cmp.Op == token.NEQ, true
		}
	}
	if bo, isBo := f.Cond.(*ssa.BinOp); isBo && bo.Op == token.EQL {
		if ex, isEx := bo.X.(*ssa.Extract); isEx && ex.Index == 0 {
			if sel, isSel := ex.Tuple.(*ssa.Select); isSel {
				if k, isK := kit.ConstInt(bo.Y); isK && int(k) < len(sel.States) && k >= 0 {
					st := sel.States[k]
					if dc, isCall := kit.Root(st.Chan).(*ssa.Call); isCall && st.Dir == types.RecvOnly && dc.Call.IsInvoke() && dc.Call.Method.Name() == "Done" && isCallCtx(dc.Call.Value) {
						if f.Pol {
							return true, true
						}
						if !sel.Blocking && len(sel.States) == 1 {
							return false, true // the default of `select { case <-ctx.Done(): default: }`
						}
					}
				}
			}
		}
	}
	return false, false
}

// buffersAreFreedAfterTheWrite: in send a buffer goes back to the pool only when the function is done with it: a
// freeBuffer call is deferred, or no write on the connection can follow it. A buffer that is freed first (a helper
// that compresses, defers the free and returns the buffer) is handed to the next sender while this frame is still
// to be written: one request goes out with another request's bytes. C05.R6, C10, C15.R2.
func buffersAreFreedAfterTheWrite(c *kit.Ctx) {
	send := c.Anchor("region", "client", "send")
	if send == nil {
		return
	}
	writes := connWrites(c.P, send)
	free := kit.M("region", "", "freeBuffer")
	n := 0
	kit.Instrs(send, func(in ssa.Instruction) {
		switch x := in.(type) {
		case *ssa.Defer:
			if kit.CalleeName(x) == free {
				n++
				c.OK(send, "freed-after-write", x.Pos(), "deferred: runs when send returns")
			}
		case *ssa.Call:
			if kit.CalleeName(x) != free {
				return
			}
			n++
			good := true
			for _, w := range writes {
				if kit.MayReach(x, w.(ssa.Instruction)) {
					good = false
				}
			}
			c.Check(good, send, "freed-after-write", x.Pos(), "no write on the connection can follow this freeBuffer", "a buffer is given back to the pool before the frame it is part of has been written: the next request that takes it from the pool overwrites the cellblocks of this one - the server receives (and applies) another request's cells")
		}
	})
	if n == 0 {
		c.OK(send, "freed-after-write", send.Pos(), "send frees no pooled buffer")
	}
	pooledObjectsAreReturnedOnce(c)
	returnedBuffersAreNotFreed(c)
}

// requestsAreMarshalledWithRequiredFields: no proto.MarshalOptions value of the module sets AllowPartial: with it a
// request with an unset required field (a Get without a row, a mutation without a row) is written to the server
// instead of failing in the client - the bytes on the wire no longer encode an operation HBase accepts, and the
// whole multi-request it is part of is rejected. C05.R1.
func requestsAreMarshalledWithRequiredFields(c *kit.Ctx) {
	p := c.P
	n := 0
	check := func(fn *ssa.Function) {
		kit.Instrs(fn, func(in ssa.Instruction) {
			st, ok := in.(*ssa.Store)
			if !ok {
				return
			}
			fa, ok := st.Addr.(*ssa.FieldAddr)
			if !ok {
				return
			}
			pt, ok := fa.X.Type().Underlying().(*types.Pointer)
			if !ok || !strings.HasSuffix(pt.Elem().String(), "protobuf/proto.MarshalOptions") {
				return
			}
			fv := kit.FieldVar(fa.X.Type(), fa.Field)
			n++
			if fv.Name() != "AllowPartial" {
				c.OK(fn, "marshal-checks-required-fields", st.Pos(), "MarshalOptions."+fv.Name()+" set")
				return
			}
			val, isC := kit.BoolConst(st.Val)
			c.Check(isC && !val, fn, "marshal-checks-required-fields", st.Pos(), "AllowPartial is not set", "requests are marshalled with AllowPartial: a request with an unset required field is written to the server instead of failing in the client")
		})
	}
	for _, fn := range p.Funcs {
		if fn.Pkg != nil && strings.HasPrefix(fn.Pkg.Pkg.Path(), kit.Module) && !strings.HasSuffix(fn.Pkg.Pkg.Path(), "/pb") && len(fn.Blocks) > 0 {
			check(fn)
		}
	}
	// package initialisers (a package-level options value)
	for _, pk := range p.SSA.AllPackages() {
		if pk.Pkg != nil && strings.HasPrefix(pk.Pkg.Path(), kit.Module) && !strings.HasSuffix(pk.Pkg.Path(), "/pb") {
			if init := pk.Func("init"); init != nil && len(init.Blocks) > 0 {
				check(init)
			}
		}
	}
	if n == 0 {
		c.Unk(nil, "marshal-checks-required-fields", token.NoPos, "no proto.MarshalOptions value is built in the module any more")
	}
}

// renewerNeverEndsTheScan: the lease renewer runs on a goroutine of its own; only the goroutine that calls Next may
// end the scan. A renewer that closes the scanner (because a renewal failed) makes the next Next hand out the
// buffered rows and then answer io.EOF: the rest of the region and all later regions are never read, and no error is
// reported. C06.R2, C14.R5.
func renewerNeverEndsTheScan(c *kit.Ctx) {
	rl := c.Anchor("", "scanner", "renewLoop")
	if rl == nil {
		return
	}
	p := c.P
	closedF := p.Field("", "scanner", "closed")
	// what the renewer does to *this* scanner: renewLoop, its literals, and the scanner methods they call directly
	// (the request it sends goes through the client, which has scanners of its own for hbase:meta)
	var order []*ssa.Function
	seen := map[*ssa.Function]bool{}
	var visit func(fn *ssa.Function, depth int)
	visit = func(fn *ssa.Function, depth int) {
		if fn == nil || seen[fn] || len(fn.Blocks) == 0 || depth > 4 {
			return
		}
		seen[fn] = true
		order = append(order, fn)
		for _, lit := range fn.AnonFuncs {
			visit(lit, depth+1)
		}
		kit.Instrs(fn, func(in ssa.Instruction) {
			ci, ok := in.(ssa.CallInstruction)
			if !ok {
				return
			}
			if g := ci.Common().StaticCallee(); g != nil && g.Signature.Recv() != nil && strings.HasSuffix(g.Signature.Recv().Type().String(), "gohbase.scanner") {
				visit(g, depth+1)
			}
		})
	}
	visit(rl, 0)
	n := 0
	for _, fn := range order {
		if fn.Pkg == nil && fn.Parent() == nil {
			continue
		}
		nm := kit.FuncName(fn)
		n++
		if strings.HasSuffix(nm, "scanner).Close") || strings.HasSuffix(nm, "scanner).closeRegionScanner") {
			c.Bad(fn, "renewer-never-ends-the-scan", fn.Pos(), "the lease renewer can close the scanner (reaches "+kit.ShortName(nm)+"): after a failed renewal the scan ends with a clean io.EOF once the buffered rows are handed out - the remaining rows are silently missing", "")
			continue
		}
		bad := false
		kit.Instrs(fn, func(in ssa.Instruction) {
			if st, ok := in.(*ssa.Store); ok {
				if fa, ok := st.Addr.(*ssa.FieldAddr); ok && closedF != nil && kit.FieldVar(fa.X.Type(), fa.Field) == closedF {
					bad = true
				}
			}
		})
		c.Check(!bad, fn, "renewer-never-ends-the-scan", fn.Pos(), "on the renewer's goroutine: does not touch the scanner's closed flag", "the lease renewer sets the scanner's closed flag from its own goroutine: the scan ends early and silently")
	}
	if n == 0 {
		c.Unk(rl, "renewer-never-ends-the-scan", rl.Pos(), "nothing reachable from renewLoop")
	}
}

// compareIsFieldWise: region.Compare, the order of the region tree, compares names field by field (table, start key,
// id): it never compares the rest of two names as one byte string. Bytewise, a start-key byte below ',' or two ids
// of different digit counts order names differently from (start key, id): the tree is then not sorted by start key
// and the overlap search and the lookup start from the wrong neighbour. C08.R4, C01.R5.
func compareIsFieldWise(c *kit.Ctx) {
	cmpFn := c.Anchor("region", "", "Compare")
	if cmpFn == nil || len(cmpFn.Params) < 2 {
		return
	}
	a, b := ssa.Value(cmpFn.Params[0]), ssa.Value(cmpFn.Params[1])
	openTail := func(v ssa.Value, of ssa.Value) bool {
		v = kit.Strip(v)
		if cv, ok := v.(*ssa.Convert); ok {
			v = kit.Strip(cv.X)
		}
		if v == of {
			return true // the whole name
		}
		sl, ok := v.(*ssa.Slice)
		return ok && sl.High == nil && kit.Root(sl.X) == of
	}
	n := 0
	kit.Instrs(cmpFn, func(in ssa.Instruction) {
		var x, y ssa.Value
		switch v := in.(type) {
		case *ssa.Call:
			nm := kit.CalleeName(v)
			if nm != "bytes.Compare" && nm != "bytes.Equal" && nm != "strings.Compare" {
				return
			}
			x, y = v.Call.Args[0], v.Call.Args[1]
		case *ssa.BinOp:
			if _, isStr := v.X.Type().Underlying().(*types.Basic); !isStr || v.X.Type().Underlying().(*types.Basic).Kind() != types.String {
				return
			}
			x, y = v.X, v.Y
		default:
			return
		}
		n++
		bad := (openTail(x, a) && openTail(y, b)) || (openTail(x, b) && openTail(y, a))
		c.Check(!bad, cmpFn, "compare-field-wise", in.Pos(), "compares one field of the two names", "region.Compare compares the rest of two region names as one byte string: a start-key byte below ',' or ids with different digit counts are then ordered differently from (start key, id) - the region tree is no longer sorted by start key, overlapping regions are not found and keys are looked up next to the wrong region")
	})
	if n == 0 {
		c.OK(cmpFn, "compare-field-wise", cmpFn.Pos(), "Compare walks the names byte by byte between the commas: no bulk comparison")
	}
}

// searchKeyKeepsTheWholeKey: createRegionSearchKey puts the whole row key into the search key, cut only where the
// search key would exceed what HBase accepts as a row of hbase:meta (MaxInt16 - len(table) - 3). Any shorter cut
// makes the search start left of every region whose start key shares the prefix: the lookup lands on the wrong
// region and the overlap search misses regions. C01.R4, C08.R4.
func searchKeyKeepsTheWholeKey(c *kit.Ctx) {
	csk := c.Anchor("", "", "createRegionSearchKey")
	if csk == nil {
		return
	}
	tableP, keyP := paramOfType(csk, "[]byte", 0), paramOfType(csk, "[]byte", 1)
	if tableP == nil || keyP == nil {
		c.Unk(csk, "search-key-keeps-the-key", csk.Pos(), "createRegionSearchKey no longer takes (table, key)")
		return
	}
	eng := bounds.New(c.P)
	okLeaf := func(v ssa.Value) bool {
		l := eng.Lin(v)
		if isZeroLin(l) || isZeroLin(l.Sub(eng.LenOf(keyP))) {
			return true
		}
		// MaxInt16 - len(table) - 3
		want := bounds.Const(32767 - 3).Sub(eng.LenOf(tableP))
		return isZeroLin(l.Sub(want))
	}
	var leaves func(v ssa.Value, depth int, out *[]ssa.Value, seen map[ssa.Value]bool)
	leaves = func(v ssa.Value, depth int, out *[]ssa.Value, seen map[ssa.Value]bool) {
		v = kit.Strip(v)
		if seen[v] || depth > 8 {
			return
		}
		seen[v] = true
		switch x := v.(type) {
		case *ssa.Phi:
			for _, e := range x.Edges {
				leaves(e, depth+1, out, seen)
			}
			return
		case *ssa.Call:
			if b, ok := x.Call.Value.(*ssa.Builtin); ok && (b.Name() == "min" || b.Name() == "max") {
				for _, a := range x.Call.Args {
					leaves(a, depth+1, out, seen)
				}
				return
			}
		}
		*out = append(*out, v)
	}
	n := 0
	kit.Instrs(csk, func(in ssa.Instruction) {
		sl, ok := in.(*ssa.Slice)
		if !ok || kit.Root(sl.X) != ssa.Value(keyP) || sl.High == nil {
			return
		}
		n++
		var ls []ssa.Value
		leaves(sl.High, 0, &ls, map[ssa.Value]bool{})
		good := len(ls) > 0
		for _, l := range ls {
			if !okLeaf(l) {
				good = false
			}
		}
		c.Check(good, csk, "search-key-keeps-the-key", sl.Pos(), "the key is cut only at len(key) or at MaxInt16 - len(table) - 3", "the row key is cut shorter than HBase's limit on a meta row before it goes into the search key: for start keys longer than the cut the search starts left of the right region - a neighbouring region is returned for the key and overlapping regions are not found")
	})
	if n == 0 {
		// the parameter itself resliced (key = key[:room]) or used whole
		c.OK(csk, "search-key-keeps-the-key", csk.Pos(), "no cut of the key with a computed bound")
	}
}

// cellListRejectsOnlyWhatACellRejects: deserializeCellBlocks fails only with the error cellFromCellBlock returned for
// one of the cells: it has no acceptance test of its own (a "plausibility" bound on the cell count is a second
// definition of the smallest cell, and when it is wrong, well-formed cellblocks of small cells are refused - as a
// retryable error, so the call is sent again). C10.R3.
func cellListRejectsOnlyWhatACellRejects(c *kit.Ctx) {
	d := c.Anchor("hrpc", "", "deserializeCellBlocks")
	if d == nil {
		return
	}
	one := kit.M("hrpc", "", "cellFromCellBlock")
	n := 0
	kit.Instrs(d, func(in ssa.Instruction) {
		r, ok := in.(*ssa.Return)
		if !ok {
			return
		}
		ev := returnedError(r)
		if ev == nil {
			return
		}
		for _, lf := range valueLeaves(ev, r.Block()) {
			if kit.IsNilConst(kit.Root(lf.val)) {
				continue
			}
			n++
			good := false
			if ex, ok := kit.Root(lf.val).(*ssa.Extract); ok {
				if call, ok := ex.Tuple.(*ssa.Call); ok && kit.CalleeName(call) == one {
					good = true
				}
			}
			c.Check(good, d, "cell-list-rejects-only-cells", r.Pos(), "the error is the one cellFromCellBlock returned", "deserializeCellBlocks rejects a cellblock for a reason of its own (not the error of decoding one of its cells): a second, independent idea of what a valid cell is - where it is stricter than the decoder, cellblocks the client itself writes are refused")
		}
	})
	if n == 0 {
		c.Unk(d, "cell-list-rejects-only-cells", d.Pos(), "deserializeCellBlocks no longer returns errors")
	}
}

// mutationConstructorsAcceptEveryLegalSize: a length test in a mutation constructor may reject only what the
// KeyValue length fields cannot hold: rows longer than 65535 bytes, families longer than 255. A test that also
// rejects a legal length (>= instead of >) makes the largest legal row or family unusable in both encodings. C10.R4.
func mutationConstructorsAcceptEveryLegalSize(c *kit.Ctx) {
	p := c.P
	n := 0
	for _, fn := range p.Funcs {
		if fn.Pkg == nil || fn.Pkg.Pkg.Path() != kit.Module+"/hrpc" || len(fn.Blocks) == 0 || !p.IsSubject(fn) {
			continue
		}
		nm := fn.Name()
		if nm != "baseMutate" && !strings.HasPrefix(nm, "New") {
			continue
		}
		kit.Instrs(fn, func(in ssa.Instruction) {
			iff, ok := in.(*ssa.If)
			if !ok {
				return
			}
			for _, pol := range []bool{true, false} {
				cmp, ok := kit.CanonCmp(iff.Cond, pol)
				if !ok || cmp.Bytes {
					continue
				}
				subj := kit.LenOf(cmp.X)
				k, isK := kit.ConstInt(cmp.Y)
				if subj == nil || !isK || k <= 1 {
					continue
				}
				// which field: a []byte parameter is the row (65535), a string (map key) a family (255)
				var legalMax int64
				switch t := subj.Type().Underlying().(type) {
				case *types.Slice:
					legalMax = 65535
				case *types.Basic:
					if t.Kind() == types.String {
						legalMax = 255
					}
				}
				if legalMax == 0 {
					continue
				}
				// is this polarity's edge a rejecting one (every way on returns an error)?
				edge := kit.SuccOnTrue(iff)
				if !pol {
					edge = kit.SuccOnFalse(iff)
				}
				rej := kit.PathFrom(iff, kit.PathQuery{
					SkipEdge: func(from, to *ssa.BasicBlock) bool { return from == iff.Block() && to != edge },
					Target: func(x ssa.Instruction) bool {
						r, ok := x.(*ssa.Return)
						if !ok {
							return false
						}
						ev := returnedError(r)
						return ev == nil || kit.IsNilConst(kit.Root(ev))
					},
				}) == nil
				if !rej {
					continue
				}
				n++
				// does the rejected set contain a legal length?
				bad := false
				switch cmp.Op {
				case token.GTR:
					bad = k < legalMax
				case token.GEQ:
					bad = k <= legalMax
				case token.LSS, token.LEQ, token.EQL, token.NEQ:
					bad = true
				}
				c.Check(!bad, fn, "constructor-accepts-legal-sizes", iff.Pos(), "rejects only lengths the KeyValue fields cannot hold", "a mutation constructor rejects a row or family of a legal length (an off-by-one against the 2-byte row / 1-byte family length field): that mutation cannot be expressed in either encoding")
			}
		})
	}
	if n == 0 {
		c.OK(nil, "constructor-accepts-legal-sizes", token.NoPos, "the mutation constructors reject nothing by length")
	}
}

// failedDialDeclaresTheConnectionDead: in establishRegion an attempt whose Dial failed ends in clientDown (the
// connection is purged, the address cleared, the loop backs off) on every way - except where the error is exactly
// context.Canceled (the region died while dialling). Returning on any other condition (the dial context's own
// timeout) leaves a live region without a connection and without a back-off: the next request starts a new
// establisher whose first attempt is immediate, for ever. C17.R3, C04.R4.
func failedDialDeclaresTheConnectionDead(c *kit.Ctx) {
	est := c.Anchor("", "client", "establishRegion")
	if est == nil {
		return
	}
	dials := kit.Calls(est, hrpcRC+"Dial")
	if len(dials) == 0 {
		c.Unk(est, "failed-dial-is-purged", est.Pos(), "establishRegion no longer dials")
		return
	}
	isCanceled := func(v ssa.Value) bool {
		u, ok := kit.Strip(v).(*ssa.UnOp)
		if !ok || u.Op != token.MUL {
			return false
		}
		g, ok := u.X.(*ssa.Global)
		return ok && g.Name() == "Canceled" && g.Pkg != nil && g.Pkg.Pkg.Path() == "context"
	}
	for _, d := range dials {
		errV := d.Value()
		if errV == nil {
			continue
		}
		e := kit.PathFrom(d.(ssa.Instruction), kit.PathQuery{
			Stop: func(x ssa.Instruction) bool {
				cc, ok := x.(*ssa.Call)
				return ok && kit.CalleeName(cc) == kit.M("", "*client", "clientDown")
			},
			SkipEdge: func(from, to *ssa.BasicBlock) bool {
				for _, f := range kit.EdgeFacts(from, to) {
					cmp, ok := kit.CanonCmp(f.Cond, f.Pol)
					if !ok || cmp.Op != token.EQL {
						continue
					}
					if kit.Root(cmp.X) != errV && kit.Root(cmp.Y) != errV {
						continue
					}
					if kit.IsNilConst(cmp.X) || kit.IsNilConst(cmp.Y) {
						return true // the dial succeeded
					}
					if isCanceled(cmp.X) || isCanceled(cmp.Y) {
						return true // the region died while dialling
					}
				}
				return false
			},
			Target:       func(x ssa.Instruction) bool { _, isRet := x.(*ssa.Return); return isRet },
			IgnorePanics: true,
		})
		c.Check(e == nil, est, "failed-dial-is-purged", d.Pos(), "after a failed Dial every way out passes clientDown, except for context.Canceled", "establishRegion can return after a failed Dial without declaring the connection dead, for a reason other than the region's death (context.Canceled): the region stays alive, without a connection and without a back-off - every request starts a new establisher that dials at once: "+c.BlockPath(e))
	}
}

// addressesAreUsedAsRegistered: the address of a regionserver is an opaque key: the connection cache compares
// addresses exactly, and the address of hbase:meta's own server comes from ZooKeeper in the spelling the server
// registered with. ParseRegionInfo therefore returns the bytes of the info:server cell as they are; any
// normalisation (lower case, trimmed domain) gives one server two keys - and two connections. C20.R1.
func addressesAreUsedAsRegistered(c *kit.Ctx) {
	pri := c.Anchor("region", "", "ParseRegionInfo")
	if pri == nil {
		return
	}
	k := -1
	for i := 0; i < pri.Signature.Results().Len(); i++ {
		if bt, ok := pri.Signature.Results().At(i).Type().Underlying().(*types.Basic); ok && bt.Kind() == types.String {
			k = i
		}
	}
	if k < 0 {
		c.Unk(pri, "address-as-registered", pri.Pos(), "ParseRegionInfo no longer returns the address as a string")
		return
	}
	n := 0
	kit.Instrs(pri, func(in ssa.Instruction) {
		r, ok := in.(*ssa.Return)
		if !ok || k >= len(r.Results) {
			return
		}
		for _, lf := range valueLeaves(kit.Res(r, k), r.Block()) {
			v := kit.Root(lf.val)
			if kc, ok := v.(*ssa.Const); ok && kc.Value != nil && kc.Value.ExactString() == `""` {
				continue
			}
			n++
			cv, ok := v.(*ssa.Convert)
			good := ok
			if ok {
				if sl, isSl := cv.X.Type().Underlying().(*types.Slice); !isSl || sl.Elem().String() != "byte" && sl.Elem().String() != "uint8" {
					good = false
				}
			}
			c.Check(good, pri, "address-as-registered", r.Pos(), "the address is string(value) of the info:server cell", "the address read from hbase:meta is transformed before it is used as the key of the connection cache: the same regionserver is known under two spellings (ZooKeeper's for hbase:meta, the transformed one for user regions) and gets two connections")
		}
	})
	if n == 0 {
		c.Unk(pri, "address-as-registered", pri.Pos(), "ParseRegionInfo returns no address")
	}
}

// dialHonoursItsContext: the connection attempt of region.client.Dial runs under the context Dial was given (the
// establisher bounds it by regionLookupTimeout and by the life of the region): a context detached from it
// (context.WithoutCancel, Background) lets a dial to a host that swallows connection attempts hang for as long as the
// dialer likes - the establishers of all regions of that server are stuck in dialOnce.Do and the regions stay
// unavailable. C09.R3, C13.
func dialHonoursItsContext(c *kit.Ctx) {
	dial := c.Anchor("region", "client", "Dial")
	dialerF := c.P.Field("region", "client", "dialer")
	if dial == nil || dialerF == nil {
		return
	}
	var ctxP *ssa.Parameter
	for _, pa := range dial.Params {
		if isCtxType(pa) {
			ctxP = pa
		}
	}
	n := 0
	for _, fn := range kit.WithAnon(dial) {
		kit.Instrs(fn, func(in ssa.Instruction) {
			ci, ok := in.(ssa.CallInstruction)
			if !ok || ci.Common().IsInvoke() || !isLoadOfField(ci.Common().Value, dialerF) || len(ci.Common().Args) == 0 {
				return
			}
			n++
			arg := kit.Root(ci.Common().Args[0])
			c.Check(ctxP != nil && arg == ssa.Value(ctxP), fn, "dial-under-its-context", ci.Pos(), "the dialer gets the context Dial was called with", "the connection attempt does not run under the context Dial was given (detached with context.WithoutCancel, or a background context): neither the lookup timeout nor the death of the region ends a dial to a host that does not answer - every region of that server stays unavailable while it hangs")
		})
	}
	if n == 0 {
		c.Unk(dial, "dial-under-its-context", dial.Pos(), "Dial no longer calls the dialer")
	}
}

// sendFailsOnlyRegisteredCalls: every error return of send comes after registerRPC. trySend decides who answers a
// failed send by taking the call out of the sent table: found - trySend's caller answers it; not found - the failure
// sweep already has. A call that send refuses before it was registered is in neither state: nobody answers it. C03.R2.
func sendFailsOnlyRegisteredCalls(c *kit.Ctx) {
	send := c.Anchor("region", "client", "send")
	if send == nil {
		return
	}
	regs := kit.Calls(send, kit.M("region", "*client", "registerRPC"))
	if len(regs) != 1 {
		c.Unk(send, "send-fails-registered-calls", send.Pos(), "send no longer registers the call exactly once")
		return
	}
	reg := regs[0].(ssa.Instruction)
	n := 0
	kit.Instrs(send, func(in ssa.Instruction) {
		r, ok := in.(*ssa.Return)
		if !ok {
			return
		}
		ev := returnedError(r)
		if ev == nil || kit.IsNilConst(kit.Root(ev)) {
			return
		}
		n++
		c.Check(kit.Precedes(reg, r), send, "send-fails-registered-calls", r.Pos(), "the error is returned after the call was registered", "send can refuse a call before it was registered: trySend finds nothing to unregister, takes that for 'the failure sweep has answered it' and drops the error - the call is never completed and its caller waits for ever")
	})
	if n == 0 {
		c.Unk(send, "send-fails-registered-calls", send.Pos(), "send no longer returns errors")
	}
}

// fatalExceptionAlwaysFailsTheConnection: once receive has claimed the call, it does not return without an error
// before it has looked at the exception of the response header: an exception of the connection-level class
// (RegionServerStoppedException ...) concerns every request on the connection, also when the call it answers has
// been given up by its caller (context expired) - the other requests in flight are otherwise neither answered nor
// failed over until something else breaks the connection. C03.R6.
func fatalExceptionAlwaysFailsTheConnection(c *kit.Ctx) {
	recv := c.Anchor("region", "client", "receive")
	excF := c.P.Field("pb", "ResponseHeader", "Exception")
	if recv == nil || excF == nil {
		return
	}
	claims := kit.Calls(recv, kit.M("region", "*client", "unregisterRPC"))
	if len(claims) == 0 {
		c.Unk(recv, "fatal-exception-always-seen", recv.Pos(), "receive no longer claims the call with unregisterRPC")
		return
	}
	looksAtException := func(x ssa.Instruction) bool {
		bo, ok := x.(*ssa.BinOp)
		if !ok || (bo.Op != token.EQL && bo.Op != token.NEQ) {
			return false
		}
		return (isLoadOfField(bo.X, excF) && kit.IsNilConst(bo.Y)) || (isLoadOfField(bo.Y, excF) && kit.IsNilConst(bo.X))
	}
	for _, cl := range claims {
		e := kit.PathFrom(cl.(ssa.Instruction), kit.PathQuery{
			Stop: looksAtException,
			Target: func(x ssa.Instruction) bool {
				r, ok := x.(*ssa.Return)
				if !ok {
					return false
				}
				// a return that is not known to carry an error (the naked return of the named result after the
				// reads succeeded)
				ev := returnedError(r)
				if ev == nil {
					return true
				}
				if kit.NonNil(ev) || kit.NonNil(kit.Root(ev)) {
					return false
				}
				// `if err != nil { return err }` with err kept in memory (named result, deferred closure)
				raw := kit.Res(r, len(r.Results)-1)
				for _, f := range kit.FactsAt(r.Block()) {
					cmp, ok := kit.CanonCmp(f.Cond, f.Pol)
					if ok && cmp.Op == token.NEQ && kit.IsNilConst(cmp.Y) &&
						(cmp.X == ev || cmp.X == raw || kit.SameCond(cmp.X, raw) || kit.SameCond(cmp.X, ev) || kit.Root(cmp.X) == kit.Root(ev)) {
						return false
					}
					if ok && cmp.Op == token.NEQ && kit.IsNilConst(cmp.Y) {
						// the tested load and the returned one read the same store (go/ssa stores the named result
						// to itself before running the deferred calls)
						if u, isLoad := cmp.X.(*ssa.UnOp); isLoad && u.Op == token.MUL {
							if al, isAlloc := u.X.(*ssa.Alloc); isAlloc && kit.ReachingStore(u, al) == ev {
								return false
							}
						}
					}
				}
				return true
			},
			SkipEdge: func(from, to *ssa.BasicBlock) bool {
				// the claim found nothing: not a response to anything we sent (handled as a connection error)
				for _, f := range kit.EdgeFacts(from, to) {
					if cmp, ok := kit.CanonCmp(f.Cond, f.Pol); ok && cmp.Op == token.EQL && kit.IsNilConst(cmp.Y) && kit.Root(cmp.X) == cl.Value() {
						return true
					}
				}
				return false
			},
			IgnorePanics: true,
		})
		c.Check(e == nil, recv, "fatal-exception-always-seen", cl.Pos(), "no way from the claim to a return without an error avoids the test of header.Exception", "receive can return without an error, and without having looked at the exception of the response header, after it claimed the call (the call's context has expired): a RegionServerStoppedException in that header is swallowed - the connection is not failed, the other requests in flight are not failed over: "+c.BlockPath(e))
	}
}

// deferOperandNames: the identifiers that are operands (arguments, receiver) of the defer statement d, read from the
// syntax; nil if the statement was not found or has operands that are not plain identifiers.
func deferOperandNames(p *kit.Prog, fn *ssa.Function, d *ssa.Defer) map[string]bool {
	if fn.Pkg == nil || !d.Pos().IsValid() {
		return nil
	}
	pk := p.ByPath[fn.Pkg.Pkg.Path()]
	if pk == nil {
		return nil
	}
	var out map[string]bool
	for _, f := range pk.Syntax {
		if f.Pos() > d.Pos() || d.Pos() > f.End() {
			continue
		}
		ast.Inspect(f, func(n ast.Node) bool {
			ds, ok := n.(*ast.DeferStmt)
			if !ok {
				return true
			}
			if ds.Defer != d.Pos() && ds.Call.Lparen != d.Pos() && ds.Pos() != d.Pos() {
				return true
			}
			names := map[string]bool{}
			plain := true
			for _, a := range ds.Call.Args {
				if id, ok := a.(*ast.Ident); ok {
					names[id.Name] = true
				} else {
					plain = false
				}
			}
			if sel, ok := ds.Call.Fun.(*ast.SelectorExpr); ok {
				if id, ok := sel.X.(*ast.Ident); ok {
					names[id.Name] = true
				}
			}
			if plain {
				out = names
			}
			return false
		})
	}
	return out
}
