package props

import (
	"fmt"
	"os"
	"os/exec"
	"path/filepath"
	"regexp"
	"sort"
	"strconv"
	"strings"

	"golang.org/x/tools/go/ssa"

	"gohbaseverif/kit"
)

// bceCrossCheck (thorough tier, C11): completeness of the K1 enumeration,
// checked against the compiler. `go build -gcflags=-d=ssa/check_bce/debug=1`
// lists every bounds check the compiler's prove pass could not remove; each one
// that lies inside a decode-surface function must sit on a line for which the
// engine enumerated a K1 obligation (whatever its verdict). A compiler check
// without an obligation means the enumeration missed an index/slice construct.
// This is a static cross-reference (compiler diagnostics), nothing is executed.
func bceCrossCheck(prog *kit.Prog, ctx *kit.Ctx) map[string]any {
	out := map[string]any{}
	surface, _ := ctx.Scratch["surface"].([]*ssa.Function)
	if len(surface) == 0 {
		out["bce_crosscheck"] = "no surface recorded"
		return out
	}
	cmd := exec.Command("go", "build", "-gcflags="+kit.Module+"/...=-d=ssa/check_bce/debug=1", "./...")
	cmd.Dir = prog.Dir
	cmd.Env = append(os.Environ(), "GOFLAGS=-mod=mod", "GOPROXY=off", "GOSUMDB=off", "GOTOOLCHAIN=local", "GOWORK=off")
	b, _ := cmd.CombinedOutput()
	re := regexp.MustCompile(`^(\S+\.go):(\d+):\d+: Found (IsInBounds|IsSliceInBounds)`)
	type rng struct {
		file     string
		from, to int
		fn       string
	}
	var ranges []rng
	for _, fn := range surface {
		syn := fn.Syntax()
		if syn == nil {
			continue
		}
		p1, p2 := prog.Fset.Position(syn.Pos()), prog.Fset.Position(syn.End())
		rel, err := filepath.Rel(prog.Dir, p1.Filename)
		if err != nil {
			continue
		}
		ranges = append(ranges, rng{rel, p1.Line, p2.Line, kit.FuncName(fn)})
	}
	have := map[string]bool{}
	for _, o := range ctx.Obls {
		if strings.HasSuffix(o.Rule, ".K1") {
			have[o.Pos] = true
		}
	}
	// bounds checks of inlined callees are reported at the call line: a line
	// that calls a surface function is covered by that callee's own obligations
	inSurface := map[*ssa.Function]bool{}
	for _, fn := range surface {
		inSurface[fn] = true
	}
	callsSurface := map[string]bool{}
	for _, fn := range surface {
		kit.Instrs(fn, func(in ssa.Instruction) {
			if call, ok := in.(ssa.CallInstruction); ok {
				if cal := kit.StaticCallee(call); cal != nil && inSurface[cal] {
					callsSurface[prog.Pos(call.Pos())] = true
				}
			}
		})
	}
	total, matched := 0, 0
	var unmatched []string
	seen := map[string]bool{}
	for _, line := range strings.Split(string(b), "\n") {
		m := re.FindStringSubmatch(strings.TrimSpace(line))
		if m == nil {
			continue
		}
		file := filepath.Clean(m[1])
		ln, _ := strconv.Atoi(m[2])
		key := fmt.Sprintf("%s:%d", file, ln)
		if seen[key] {
			continue
		}
		for _, r := range ranges {
			if r.file == file && ln >= r.from && ln <= r.to {
				seen[key] = true
				total++
				if have[key] || callsSurface[key] {
					matched++
				} else {
					unmatched = append(unmatched, key+" ("+r.fn+", "+m[3]+")")
				}
				break
			}
		}
	}
	sort.Strings(unmatched)
	out["bce_compiler_checks_in_surface"] = total
	out["bce_matched_by_obligation"] = matched
	out["bce_unmatched"] = unmatched
	out["bce_note"] = "lines with a compiler-unproven bounds check inside a decode-surface function vs. lines with an enumerated K1 obligation; unmatched lines are constructs the K1 enumeration deliberately skips (see DESIGN.md) or has missed"
	return out
}
