package props

import (
	"fmt"
	"go/token"
	"sort"
	"strings"

	"golang.org/x/tools/go/ssa"

	"gohbaseverif/kit"
)

// origin of a context value.
type origin struct {
	Kind string    // caller | callctx | region | background | unknown
	Call ssa.Value // for callctx: the hrpc.Call whose Context() it derives from (root value), may be nil
	Desc string
}

func (o origin) key() string {
	s := o.Kind
	if o.Call != nil {
		s += fmt.Sprintf("@%p", o.Call)
	}
	return s + ":" + o.Desc
}

// ctxAnalysis propagates context origins from API entry points along
// synchronous call edges (context-insensitive, parameter-wise).
type ctxAnalysis struct {
	p       *kit.Prog
	reach   *kit.Reach
	entries map[*ssa.Function]bool
	param   map[*ssa.Parameter]map[string]origin
}

func isCtxType(v ssa.Value) bool { return v.Type().String() == "context.Context" }

var ctxDerive = map[string]bool{
	"context.WithTimeout": true, "context.WithCancel": true, "context.WithDeadline": true, "context.WithValue": true,
	"context.WithoutCancel":                          false,
	kit.Module + "/internal/observability.StartSpan": true,
}

func (a *ctxAnalysis) originOf(v ssa.Value, depth int) []origin {
	return a.originOfSeen(v, depth, map[ssa.Value]bool{})
}

func (a *ctxAnalysis) originOfSeen(v ssa.Value, depth int, seen map[ssa.Value]bool) []origin {
	if depth > 20 {
		return []origin{{Kind: "unknown", Desc: "too deep"}}
	}
	v = kit.Root(v)
	if seen[v] {
		return nil // cycle through a re-assigned variable: contributes nothing new
	}
	seen[v] = true
	switch x := v.(type) {
	case *ssa.UnOp:
		// load of a local that is assigned more than once (ctx = derive(ctx)):
		// flow-insensitive union over everything ever stored
		if x.Op == token.MUL {
			addr := x.X
			if fv, ok := addr.(*ssa.FreeVar); ok {
				if b := kit.FreeVarBinding(fv); b != nil {
					addr = b
				}
			}
			if al, ok := addr.(*ssa.Alloc); ok {
				if seen[al] {
					return nil
				}
				seen[al] = true
				var out []origin
				for _, st := range kit.StoresTo(al) {
					out = append(out, a.originOfSeen(st, depth+1, seen)...)
				}
				if len(out) > 0 {
					return out
				}
			}
		}
	case *ssa.Parameter:
		if a.entries[x.Parent()] {
			return []origin{{Kind: "caller", Desc: "parameter " + x.Name() + " of API entry " + kit.FuncName(x.Parent())}}
		}
		var out []origin
		for _, o := range a.param[x] {
			out = append(out, o)
		}
		sort.Slice(out, func(i, j int) bool { return out[i].key() < out[j].key() })
		return out
	case *ssa.Phi:
		var out []origin
		for _, l := range kit.PhiLeaves(x) {
			out = append(out, a.originOfSeen(l, depth+1, seen)...)
		}
		return out
	case *ssa.Extract:
		if call, ok := x.Tuple.(*ssa.Call); ok && x.Index == 0 {
			if ctxDerive[kit.CalleeName(call)] {
				return a.originOfSeen(call.Call.Args[0], depth+1, seen)
			}
		}
	case *ssa.Call:
		n := kit.CalleeName(x)
		if ctxDerive[n] {
			return a.originOfSeen(x.Call.Args[0], depth+1, seen)
		}
		if n == "context.Background" || n == "context.TODO" {
			return []origin{{Kind: "background", Desc: n}}
		}
		if n == hrpcRI+"Context" {
			return []origin{{Kind: "region", Desc: "region liveness context"}}
		}
		if recv, ok := a.p.IsMethodOn(x, "hrpc", "Call", "Context"); ok {
			return []origin{{Kind: "callctx", Call: kit.Root(recv), Desc: "Context() of call " + kit.Path(recv)}}
		}
	}
	return []origin{{Kind: "unknown", Desc: v.String()}}
}

// calleeParamFor maps argument index of a call site to the callee parameter.
func argsFor(site ssa.CallInstruction, callee *ssa.Function) []ssa.Value {
	cc := site.Common()
	if cc.IsInvoke() {
		return append([]ssa.Value{cc.Value}, cc.Args...)
	}
	return cc.Args
}

func (a *ctxAnalysis) propagate() {
	a.param = map[*ssa.Parameter]map[string]origin{}
	for iter := 0; iter < 30; iter++ {
		changed := false
		for _, fn := range a.reach.Order {
			kit.Instrs(fn, func(in ssa.Instruction) {
				site, ok := in.(ssa.CallInstruction)
				if !ok {
					return
				}
				if _, isGo := in.(*ssa.Go); isGo {
					return
				}
				callees, _ := a.p.Callees(site)
				for _, cal := range callees {
					if !a.reach.Funcs[cal] || a.entries[cal] && false {
						continue
					}
					args := argsFor(site, cal)
					if len(args) != len(cal.Params) {
						continue
					}
					for k, pa := range cal.Params {
						if !isCtxType(pa) {
							continue
						}
						for _, o := range a.originOf(args[k], 0) {
							if o.Kind == "callctx" && o.Call != nil {
								// translate the call into the callee's frame
								var tr ssa.Value
								for j, aj := range args {
									if j != k && kit.Root(aj) == o.Call {
										tr = cal.Params[j]
									}
								}
								if tr != nil {
									o.Call = tr
									o.Desc = "Context() of parameter " + tr.Name()
								} else {
									o.Call = nil
									o.Desc = "Context() of a call not passed along (" + o.Desc + ")"
								}
							}
							if a.param[pa] == nil {
								a.param[pa] = map[string]origin{}
							}
							if _, have := a.param[pa][o.key()]; !have {
								a.param[pa][o.key()] = o
								changed = true
							}
						}
					}
				}
			})
		}
		if !changed {
			return
		}
	}
}

func describeOrigins(os []origin) string {
	if len(os) == 0 {
		return "no origin (parameter never bound on a synchronous path from an API entry)"
	}
	var xs []string
	seen := map[string]bool{}
	for _, o := range os {
		s := o.Kind + " (" + o.Desc + ")"
		if !seen[s] {
			seen[s] = true
			xs = append(xs, s)
		}
	}
	return strings.Join(xs, ", ")
}

// callerBound: every origin is the API caller's context or a call's own context.
func callerBound(os []origin) bool {
	if len(os) == 0 {
		return false
	}
	for _, o := range os {
		if o.Kind != "caller" && o.Kind != "callctx" {
			return false
		}
	}
	return true
}
