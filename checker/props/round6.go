package props

import (
	"go/token"
	"go/types"
	"strings"

	"golang.org/x/tools/go/ssa"

	"gohbaseverif/kit"
)

// Rules added after the sixth round of independently seeded changes.

// decodeTargetsAreFresh: every message receive decodes into is made for this response: the header is a local
// of receive, the response comes from rpc.NewResponse(); protobuf merging into an object kept from the previous
// response lets optional fields (exception, cell_block_meta) survive from one caller's response into the next. C02.R3.
func decodeTargetsAreFresh(c *kit.Ctx) {
	recv := c.Anchor("region", "client", "receive")
	if recv == nil {
		return
	}
	n := 0
	kit.Instrs(recv, func(in ssa.Instruction) {
		call, ok := in.(*ssa.Call)
		if !ok || !strings.HasSuffix(kit.CalleeName(call), "Unmarshal") || !strings.Contains(kit.CalleeName(call), "protobuf/proto") {
			return
		}
		n++
		good := kit.CalleeName(call) == "google.golang.org/protobuf/proto.Unmarshal"
		why := "decoded with " + kit.ShortName(kit.CalleeName(call))
		if good {
			target := call.Call.Args[len(call.Call.Args)-1]
			org := ptrOrigins(recv, kit.Root(target), 0, map[ssa.Value]bool{})
			if mi, ok := kit.Root(target).(*ssa.MakeInterface); ok {
				org = ptrOrigins(recv, mi.X, 0, map[ssa.Value]bool{})
			}
			if _, bad := org["recv-field"]; bad {
				good, why = false, "the message decoded into is a field of the connection"
			}
			if _, bad := org["global"]; bad {
				good, why = false, "the message decoded into is a package-level object"
			}
			if _, isParam := org["param"]; isParam && len(org) == 1 {
				good, why = false, "the message decoded into is reached through the receiver"
			}
		}
		c.Check(good, recv, "decode-target-fresh", call.Pos(), "decoded with proto.Unmarshal into an object made for this response", "a response is decoded into an object that outlives it ("+why+"): optional fields that the new response does not carry (the exception, the cellblock length) keep the values of the previous response - a caller gets another caller's exception, or its response is cut with another response's cellblock length")
	})
	if n == 0 {
		c.Unk(recv, "decode-target-fresh", recv.Pos(), "receive no longer unmarshals with the protobuf package")
	}
}

// multiHasNoContextOfItsOwn: a batch is not cancelled because one of its calls is: multi.Context() is the
// background context. receive skips the response of a call whose context is done; with the context of one of the
// batch's calls that shortcut drops the whole MultiResponse and the other calls are never completed. C03.R2, C02.R5.
func multiHasNoContextOfItsOwn(c *kit.Ctx) {
	fn := c.Anchor("region", "multi", "Context")
	if fn == nil {
		return
	}
	kit.Instrs(fn, func(in ssa.Instruction) {
		r, ok := in.(*ssa.Return)
		if !ok || len(r.Results) == 0 {
			return
		}
		call, ok := kit.Root(kit.Res(r, 0)).(*ssa.Call)
		c.Check(ok && kit.CalleeName(call) == "context.Background", fn, "multi-context-is-background", r.Pos(), "multi.Context() is context.Background()", "the batch object reports the context of one of its calls as its own: when that call is cancelled, receive drops the whole MultiResponse ('context expired, don't bother'), the batch is already unregistered, and the other calls of the batch are never completed")
	})
}

// inLoopOf reports whether block b lies in the natural loop of header h.
func inLoopOf(h, b *ssa.BasicBlock) bool {
	if !h.Dominates(b) {
		return false
	}
	seen := map[*ssa.BasicBlock]bool{}
	var dfs func(x *ssa.BasicBlock) bool
	dfs = func(x *ssa.BasicBlock) bool {
		if x == h {
			return true
		}
		if seen[x] || !h.Dominates(x) {
			return false
		}
		seen[x] = true
		for _, s := range x.Succs {
			if dfs(s) {
				return true
			}
		}
		return false
	}
	for _, s := range b.Succs {
		if dfs(s) {
			return true
		}
	}
	return false
}

// storedSlicesAreNotReused: a slice that is stored into a request message inside a loop is not the same
// backing array on the next iteration (x = x[:0]; append ...; msg.Field = x): all the messages built by the loop
// would share, and overwrite, one array. C05.R5.
func storedSlicesAreNotReused(c *kit.Ctx) {
	p := c.P
	n := 0
	for _, fn := range p.Funcs {
		if !p.IsSubject(fn) || fn.Pkg == nil || fn.Pkg.Pkg.Path() != kit.Module+"/hrpc" {
			continue
		}
		kit.Instrs(fn, func(in ssa.Instruction) {
			st, ok := in.(*ssa.Store)
			if !ok {
				return
			}
			if _, isSlice := st.Val.Type().Underlying().(*types.Slice); !isSlice {
				return
			}
			fa, ok := st.Addr.(*ssa.FieldAddr)
			if !ok || !strings.Contains(fa.X.Type().String(), "/pb.") {
				return
			}
			n++
			bad := false
			seen := map[ssa.Value]bool{}
			var walk func(v ssa.Value, d int)
			walk = func(v ssa.Value, d int) {
				v = kit.Strip(v)
				if d > 10 || seen[v] || bad {
					return
				}
				seen[v] = true
				switch x := v.(type) {
				case *ssa.Phi:
					h := x.Block()
					carried := false
					for i, e := range x.Edges {
						if h.Dominates(h.Preds[i]) && e != ssa.Value(x) {
							carried = true
						}
					}
					if carried && inLoopOf(h, st.Block()) {
						// carried around the loop the store sits in - unless every way round makes a new array
						for i, e := range x.Edges {
							if h.Dominates(h.Preds[i]) {
								if _, fresh := kit.Strip(e).(*ssa.MakeSlice); !fresh {
									if k, isC := kit.Strip(e).(*ssa.Const); !isC || !k.IsNil() {
										bad = true
									}
								}
							}
						}
						return
					}
					for _, e := range x.Edges {
						walk(e, d+1)
					}
				case *ssa.Slice:
					walk(x.X, d+1)
				case *ssa.Call:
					if b, ok := x.Call.Value.(*ssa.Builtin); ok && b.Name() == "append" {
						walk(x.Call.Args[0], d+1)
					}
				}
			}
			walk(st.Val, 0)
			c.Check(!bad, fn, "stored-slice-not-reused", st.Pos(), "the slice stored into the message is not carried over to the next iteration", "a slice is stored into a request message and then reused for the next iteration of the loop (reset with [:0] and appended to): the messages built by the loop share one backing array, so an earlier family's qualifiers are overwritten by a later family's before the request is marshalled")
		})
	}
	if n == 0 {
		c.Unk(nil, "stored-slice-not-reused", token.NoPos, "no slice-valued field of a request message is assigned in hrpc")
	}
}

// scannerRequestsCarryThePriority: the priority of a request travels in the header of every frame, not in the
// server-side scanner: every request the scanner builds for an open region scanner (next, renew) passes the
// scan's priority on. C05.R4.
func scannerRequestsCarryThePriority(c *kit.Ctx) {
	p := c.P
	n := 0
	for _, nm := range []string{"request", "renew"} {
		fn := c.Anchor("", "scanner", nm)
		if fn == nil {
			continue
		}
		for _, call := range kit.Calls(fn, kit.M("hrpc", "", "NewScanRange")) {
			opts := elemsOfVariadic(call.Common().Args[len(call.Common().Args)-1])
			hasID, hasPrio := false, false
			for _, o := range opts {
				oc, ok := kit.Root(o).(*ssa.Call)
				if !ok {
					continue
				}
				switch kit.CalleeName(oc) {
				case kit.M("hrpc", "", "ScannerID"):
					hasID = true
				case kit.M("hrpc", "", "Priority"):
					if len(oc.Call.Args) == 1 {
						if pc, ok := kit.Root(oc.Call.Args[0]).(*ssa.Call); ok && strings.HasSuffix(kit.CalleeName(pc), ").Priority") {
							hasPrio = true
						}
					}
				}
			}
			if !hasID {
				continue // opening request: built from the scan's own options
			}
			n++
			c.Check(hasPrio, fn, "scanner-request-carries-priority", call.Pos(), "the request for an open region scanner is built with hrpc.Priority(s.rpc.Priority())", "a request for an open region scanner is built without the scan's priority: the priority is a field of each frame's header, so next()/renew calls of a prioritised scan go out with the default priority")
		}
	}
	_ = p
	if n == 0 {
		c.Unk(nil, "scanner-request-carries-priority", token.NoPos, "the scanner builds no request with a scanner id")
	}
}

// endOfTableIsDecidedByLength: "no stop row" means an empty stop row, nil or not (NewScanRangeStr(ctx, t, start,
// "") yields a non-nil empty one): isDone compares the stop row with region boundaries only where its length is
// known not to be zero. C06.R3.
func endOfTableIsDecidedByLength(c *kit.Ctx) {
	fn := c.Anchor("", "scanner", "isDone")
	if fn == nil {
		return
	}
	isStop := func(v ssa.Value) bool {
		call, ok := kit.Root(v).(*ssa.Call)
		return ok && strings.HasSuffix(kit.CalleeName(call), ").StopRow")
	}
	n := 0
	for _, cmp := range kit.Calls(fn, "bytes.Compare") {
		args := cmp.Common().Args
		if !isStop(args[0]) && !isStop(args[1]) {
			continue
		}
		n++
		good := kit.OnAllWays(cmp.Block(), func(facts []kit.Fact) bool {
			for _, f := range facts {
				if empty, ok := lenFact(f, isStop); ok && !empty {
					return true
				}
			}
			return false
		}, 0)
		c.Check(good, fn, "end-of-table-by-length", cmp.Pos(), "the stop row is compared with a region boundary only where len(stopRow) != 0", "isDone decides 'scan to the end of the table' by something other than the length of the stop row (a nil test): an empty, non-nil stop row compares as less than every region's stop key, so the scan ends after its first region with a clean io.EOF")
	}
	if n == 0 {
		c.Unk(fn, "end-of-table-by-length", fn.Pos(), "isDone no longer compares the stop row with the region boundaries")
	}
}

// decodedFlagsAreNotShared: (a) the decoders of hrpc never put a package-level pointer into a decoded message;
// (b) the scanner never writes through a pointer field of a decoded result (it replaces the pointer). Either half
// alone is harmless; together the first finished row clears the shared 'partial' flag for every scanner of the
// process. C06.R2.
func decodedFlagsAreNotShared(c *kit.Ctx) {
	p := c.P
	n := 0
	for _, fn := range p.Funcs {
		if !p.IsSubject(fn) || fn.Pkg == nil {
			continue
		}
		switch {
		case fn.Pkg.Pkg.Path() == kit.Module+"/hrpc" && fn.Name() == "DeserializeCellBlocks":
			kit.Instrs(fn, func(in ssa.Instruction) {
				st, ok := in.(*ssa.Store)
				if !ok {
					return
				}
				if _, isPtr := st.Val.Type().Underlying().(*types.Pointer); !isPtr {
					return
				}
				fa, ok := st.Addr.(*ssa.FieldAddr)
				if !ok || !strings.Contains(fa.X.Type().String(), "/pb.") {
					return
				}
				n++
				org := ptrOrigins(fn, st.Val, 0, map[ssa.Value]bool{})
				_, shared := org["global"]
				c.Check(!shared, fn, "decoded-flag-not-shared", st.Pos(), "pointer fields of a decoded message point to memory of their own", "a decoder stores a package-level pointer into a decoded message (to save an allocation): whoever later writes through it changes the value for every message that shares it")
			})
		case fn.Pkg.Pkg.Path() == kit.Module && fn.Signature.Recv() != nil && strings.HasSuffix(fn.Signature.Recv().Type().String(), "gohbase.scanner"):
			kit.Instrs(fn, func(in ssa.Instruction) {
				st, ok := in.(*ssa.Store)
				if !ok {
					return
				}
				ld, ok := st.Addr.(*ssa.UnOp)
				if !ok || ld.Op != token.MUL {
					return
				}
				fa, ok := ld.X.(*ssa.FieldAddr)
				if !ok || !strings.Contains(fa.X.Type().String(), "/pb.") {
					return
				}
				n++
				c.Bad(fn, "decoded-flag-not-shared", st.Pos(), "the scanner writes through a pointer field of a decoded result instead of replacing the pointer: if the decoder shares that memory between results, clearing the 'partial' flag of one finished row clears it for every later fragment of every scanner", "")
			})
		}
	}
	if n == 0 {
		c.Unk(nil, "decoded-flag-not-shared", token.NoPos, "no pointer field of a decoded message is assigned in hrpc decoders")
	}
}

// narrowLengthFieldsAreNotRangeRestricted: a length that travels in a one- or two-byte field of a KeyValue can
// take every value of that width - the writer emits byte(len(family)), uint16(len(row)) - so the reader must not
// refuse part of the range (HBase's own limit of 127 for families is not the client's to enforce on what it reads
// back: it cannot decode what it can encode). C10.R4.
func narrowLengthFieldsAreNotRangeRestricted(c *kit.Ctx) {
	fn := c.Anchor("hrpc", "", "cellFromCellBlock")
	if fn == nil {
		return
	}
	n := 0
	kit.Instrs(fn, func(in ssa.Instruction) {
		iff, ok := in.(*ssa.If)
		if !ok {
			return
		}
		cmp, ok := kit.CanonCmp(iff.Cond, true)
		if !ok || cmp.Bytes {
			return
		}
		narrow := func(v ssa.Value) bool {
			v = kit.Strip(v)
			if cv, ok := v.(*ssa.Convert); ok {
				v = cv.X
			}
			bt, ok := v.Type().Underlying().(*types.Basic)
			if !ok || (bt.Kind() != types.Uint8 && bt.Kind() != types.Uint16) {
				return false
			}
			_, isConst := v.(*ssa.Const)
			return !isConst
		}
		_, xc := kit.ConstInt(cmp.X)
		_, yc := kit.ConstInt(cmp.Y)
		if !(narrow(cmp.X) && yc) && !(narrow(cmp.Y) && xc) {
			return
		}
		// does one side of this test reject?
		rejects := false
		for _, s := range iff.Block().Succs {
			for _, x := range s.Instrs {
				if r, ok := x.(*ssa.Return); ok {
					if ev := returnedError(r); ev != nil && !kit.IsNilConst(kit.Root(ev)) {
						rejects = true
					}
				}
			}
		}
		if !rejects {
			return
		}
		n++
		c.Bad(fn, "narrow-length-not-restricted", iff.Pos(), "the decoder refuses part of the range of a one- or two-byte length field by comparing it with a constant: the client's own encoder writes the whole range (a family of 128..255 bytes), so the client cannot read back what it wrote", "")
	})
	if n == 0 {
		c.OK(fn, "narrow-length-not-restricted", fn.Pos(), "no one- or two-byte length field is compared with a constant in a rejecting test")
	}
}

// callerBatchIsNotRewritten: the region client does not write through the slice of calls it is handed:
// SendBatch keeps using that very slice to wait for the results (rpcs[:0] + append compacts it in place, so that
// the waiter waits twice for one call and never for another). C13.R2, C07.R5, C03.R5.
func callerBatchIsNotRewritten(c *kit.Ctx) {
	n := 0
	for _, nm := range []string{"QueueBatch", "QueueRPC"} {
		fn := c.Anchor("region", "client", nm)
		if fn == nil {
			continue
		}
		var sl *ssa.Parameter
		for _, pa := range fn.Params {
			if _, isSlice := pa.Type().Underlying().(*types.Slice); isSlice {
				sl = pa
			}
		}
		if sl == nil {
			continue
		}
		n++
		fromParam := func(v ssa.Value) bool {
			for i := 0; i < 8; i++ {
				switch x := kit.Strip(v).(type) {
				case *ssa.Slice:
					v = x.X
				case *ssa.Parameter:
					return x == sl
				case *ssa.Phi:
					for _, e := range x.Edges {
						if kit.Strip(e) == ssa.Value(sl) {
							return true
						}
						if s2, ok := kit.Strip(e).(*ssa.Slice); ok && kit.Strip(s2.X) == ssa.Value(sl) {
							return true
						}
					}
					return false
				default:
					return false
				}
			}
			return false
		}
		bad := false
		var where token.Pos
		kit.Instrs(fn, func(in ssa.Instruction) {
			switch x := in.(type) {
			case *ssa.Store:
				if ia, ok := x.Addr.(*ssa.IndexAddr); ok && fromParam(ia.X) {
					bad, where = true, x.Pos()
				}
			case *ssa.Call:
				if b, ok := x.Call.Value.(*ssa.Builtin); ok && b.Name() == "append" && fromParam(x.Call.Args[0]) {
					if s, isSl := kit.Strip(x.Call.Args[0]).(*ssa.Slice); !isSl || s.Max == nil {
						bad, where = true, x.Pos()
					}
				}
			}
		})
		if where == token.NoPos {
			where = fn.Pos()
		}
		c.Check(!bad, fn, "caller-batch-not-rewritten", where, "the slice of calls handed in is only read", nm+" writes through (or appends onto a sub-slice of) the slice of calls it was handed: SendBatch uses the same slice to wait for the results afterwards - compacted in place it makes the waiter wait twice for one call and never mark another")
	}
	if n == 0 {
		c.Unk(nil, "caller-batch-not-rewritten", token.NoPos, "QueueBatch no longer takes a slice of calls")
	}
}

// receiveRejectsOnlyMalformed: receive turns a response into an error for a fixed set of reasons: a callee
// failed (header/response decode, decompression, cellblock decode, clearing the deadline), the declared cellblock
// length exceeds the frame, the cellblocks were not consumed exactly, the call id is missing/unknown, the call's
// context is done, the response carries an exception. Any other rejecting test refuses well-formed responses (e.g.
// cellblocks that legitimately decompress to zero bytes). C15.R1, C11.
func receiveRejectsOnlyMalformed(c *kit.Ctx) {
	recv := c.Anchor("region", "client", "receive")
	if recv == nil {
		return
	}
	n := 0
	kit.Instrs(recv, func(in ssa.Instruction) {
		iff, ok := in.(*ssa.If)
		if !ok {
			return
		}
		// tests one side of which is an error return (or sets the error and returns)
		rejectSide := -1
		for i, s := range iff.Block().Succs {
			if len(s.Preds) != 1 {
				continue
			}
			for _, x := range s.Instrs {
				if r, ok := x.(*ssa.Return); ok {
					// an error constructed on this side (RetryableError{...}, ServerError{...}, a sentinel)
					if ev := returnedError(r); ev != nil {
						if _, made := ev.(*ssa.MakeInterface); made {
							rejectSide = i
						}
					}
				}
			}
		}
		if rejectSide < 0 {
			return
		}
		n++
		cmp, isCmp := kit.CanonCmp(iff.Cond, rejectSide == 0)
		good, why := false, "unrecognised rejecting test"
		switch {
		case !isCmp:
			// a boolean: the ok of an assertion, ctx-done select arm ...
			good, why = true, "boolean condition (assertion result, select arm)"
		case kit.IsNilConst(cmp.Y) || kit.IsNilConst(cmp.X):
			good, why = true, "nil test (callee error, missing call id, unknown call, exception present)"
		default:
			// comparisons of lengths: one side must be the frame size / the bytes read, never a bare constant
			_, xc := kit.ConstInt(cmp.X)
			_, yc := kit.ConstInt(cmp.Y)
			if !xc && !yc {
				good, why = true, "two decoded/measured lengths compared"
			} else {
				// the one constant test of the pinned tree: protowire's negative length = parse error
				v := cmp.X
				if xc {
					v = cmp.Y
				}
				if ex, ok := kit.Root(v).(*ssa.Extract); ok {
					if call, ok := ex.Tuple.(*ssa.Call); ok && strings.Contains(kit.CalleeName(call), "protowire.Consume") {
						good, why = true, "protowire parse error"
					}
				}
				if !good {
					why = "a length is compared with a constant"
				}
			}
		}
		c.Check(good, recv, "receive-rejects-only-malformed", iff.Pos(), "recognised reason: "+why, "receive refuses a response for a reason outside the recognised set ("+why+"): e.g. cellblocks that decompress to zero bytes are what the client itself sends for a request without cells - such a response would be retried for ever")
	})
	if n == 0 {
		c.Unk(recv, "receive-rejects-only-malformed", recv.Pos(), "receive has no rejecting test")
	}
}

// firstWaitPrecedesTheFirstRetry: a retry loop whose back-off starts at zero uses its first call of
// sleepAndIncreaseBackoff only to seed the schedule (it returns at once): that call must come before the first
// attempt, otherwise the second attempt follows the first without any wait and every later wait is one step short.
// Loops that start at backoffStart may wait at the bottom. C17.R4.
func firstWaitPrecedesTheFirstRetry(c *kit.Ctx) {
	p := c.P
	sleepName := kit.M("", "", "sleepAndIncreaseBackoff")
	n := 0
	for _, l := range []string{"SendRPC", "SendBatch", "lookupRegion", "lookupAllRegions", "establishRegion", "checkProcedureWithBackoff"} {
		fn := p.Func("", "client", l)
		if fn == nil {
			continue
		}
		for _, s := range kit.Calls(fn, sleepName) {
			if len(s.Common().Args) < 2 {
				continue
			}
			ph, ok := kit.Strip(s.Common().Args[1]).(*ssa.Phi)
			if !ok {
				continue
			}
			startsAtZero := false
			for i, e := range ph.Edges {
				if ph.Block().Dominates(ph.Block().Preds[i]) {
					continue
				}
				if k, isC := kit.ConstInt(e); isC && k == 0 {
					startsAtZero = true
				}
			}
			if !startsAtZero {
				continue
			}
			n++
			// every attempt of the loop (a call that can block on the network) is preceded by the wait
			hdr := ph.Block()
			good := true
			var bad ssa.Instruction
			kit.Instrs(fn, func(in ssa.Instruction) {
				call, ok := in.(*ssa.Call)
				if !ok || !inLoopOf(hdr, in.Block()) && in.Block() != hdr {
					return
				}
				nm := kit.CalleeName(call)
				if !(strings.HasSuffix(nm, ").lookupRegion") || strings.HasSuffix(nm, ").Dial") || strings.HasSuffix(nm, ").metaLookup") || strings.HasSuffix(nm, ").zkLookup")) {
					return
				}
				e := kit.PathFromBlock(hdr, kit.PathQuery{
					Target: func(x ssa.Instruction) bool { return x == in },
					Stop:   func(x ssa.Instruction) bool { return x == s.(ssa.Instruction) },
				})
				if e != nil {
					good, bad = false, in
				}
			})
			pos := s.Pos()
			if bad != nil {
				pos = bad.Pos()
			}
			c.Check(good, fn, "first-wait-precedes-first-retry", pos, "the back-off starts at zero and the wait precedes every attempt of the loop", "the back-off of this loop starts at zero, so the first call of sleepAndIncreaseBackoff returns at once; it is placed after the attempt, so the second attempt follows the first without a wait and every later wait is one step of the schedule short (twice the allowed rate)")
		}
	}
	if n == 0 {
		c.Unk(nil, "first-wait-precedes-first-retry", token.NoPos, "no retry loop with a back-off starting at zero found (establishRegion has one)")
	}
}

// writeDeadlineOnlyInDial: the only write deadline the client sets is the one around the hello in Dial, which
// it clears again. A write deadline set in send and never cleared makes a later write on an idle, healthy
// connection fail at once. C18.R1.
func writeDeadlineOnlyInDial(c *kit.Ctx) {
	p := c.P
	dial := c.Anchor("region", "client", "Dial")
	n := 0
	for _, fn := range p.Funcs {
		if !p.IsSubject(fn) || fn.Pkg == nil || fn.Pkg.Pkg.Path() != kit.Module+"/region" {
			continue
		}
		kit.Instrs(fn, func(in ssa.Instruction) {
			call, ok := in.(ssa.CallInstruction)
			if !ok || kit.CalleeName(call) != "(net.Conn).SetWriteDeadline" {
				return
			}
			n++
			c.Check(dial != nil && enclosingNamed(fn) == dial, fn, "write-deadline-only-in-dial", in.Pos(), "write deadline around the hello in Dial (set, then cleared)", "a write deadline is set on the connection outside Dial: nothing clears it, so once it has passed every later write on the idle connection fails at once with an i/o timeout - a healthy connection is torn down")
		})
	}
	if n == 0 {
		c.Unk(dial, "write-deadline-only-in-dial", token.NoPos, "Dial no longer sets a write deadline around the hello")
	}
}

// abandonedLookupCanDeliver: the goroutine zkLookup starts hands its result over a channel; zkLookup may have
// stopped waiting (context done), so the channel must have room for the result - otherwise the goroutine blocks
// in the send for ever and survives Close. C19.R3.
func abandonedLookupCanDeliver(c *kit.Ctx) {
	fn := c.Anchor("", "client", "zkLookup")
	if fn == nil {
		return
	}
	n := 0
	// the goroutines zkLookup starts: a function literal, or a named function / method given the channel as an argument
	kit.Instrs(fn, func(gi ssa.Instruction) {
		g, ok := gi.(*ssa.Go)
		if !ok {
			return
		}
		var f *ssa.Function
		var mc *ssa.MakeClosure
		if m, isLit := g.Call.Value.(*ssa.MakeClosure); isLit {
			mc = m
			f, _ = m.Fn.(*ssa.Function)
		} else {
			f = g.Call.StaticCallee()
		}
		if f == nil || len(f.Blocks) == 0 {
			return
		}
		// a goroutine that signals by closing a channel (and leaves its result in captured variables) cannot block
		sends, closes := 0, 0
		kit.Instrs(f, func(in ssa.Instruction) {
			if _, ok := in.(*ssa.Send); ok {
				sends++
			}
			if call, ok := in.(*ssa.Call); ok && kit.CalleeName(call) == "builtin.close" {
				closes++
			}
		})
		if sends == 0 && closes > 0 {
			n++
			c.OK(f, "abandoned-lookup-can-deliver", g.Pos(), "the goroutine of the ZooKeeper lookup signals by closing a channel: it cannot block")
			return
		}
		kit.Instrs(f, func(in ssa.Instruction) {
			s, ok := in.(*ssa.Send)
			if !ok {
				return
			}
			n++
			good := false
			var ch ssa.Value = kit.Strip(s.Chan)
			if ld, ok := ch.(*ssa.UnOp); ok {
				ch = ld.X
			}
			if fv, ok := kit.Strip(ch).(*ssa.FreeVar); ok && mc != nil {
				for i, b := range mc.Bindings {
					if f.FreeVars[i] == fv {
						ch = b
					}
				}
			}
			if pa, ok := kit.Strip(ch).(*ssa.Parameter); ok {
				for i, q := range f.Params {
					if q == pa && i < len(g.Call.Args) {
						ch = g.Call.Args[i]
					}
				}
			}
			var mk *ssa.MakeChan
			switch x := kit.Root(kit.Strip(ch)).(type) {
			case *ssa.MakeChan:
				mk = x
			case *ssa.Alloc:
				for _, r := range kit.Referrers(x) {
					if st, ok := r.(*ssa.Store); ok {
						if m, ok := kit.Root(st.Val).(*ssa.MakeChan); ok {
							mk = m
						}
					}
				}
			}
			if mk != nil {
				if k, ok := kit.ConstInt(mk.Size); ok && k >= 1 {
					good = true
				}
			}
			c.Check(good, f, "abandoned-lookup-can-deliver", s.Pos(), "the result channel of the ZooKeeper lookup is buffered", "the goroutine of a ZooKeeper lookup sends its result on an unbuffered channel: when the lookup was abandoned (timeout, cancelled context) and ZooKeeper answers later, the goroutine blocks in the send for ever - it is still there after Close")
		})
	})
	if n == 0 {
		c.Unk(fn, "abandoned-lookup-can-deliver", fn.Pos(), "zkLookup no longer hands its result over a channel from a goroutine")
	}
}

// dialRunsUnderTheEstablishedRegion: the connection attempt of establishRegion is bounded by the context of
// the region it is establishing at that point (the one it probes and publishes), not by a context taken from the
// region variable before a re-lookup replaced it: the replaced region is dead, its context cancelled, and the
// shared, freshly created connection would be dialled with a cancelled context and fail for everybody. C20.R2.
func dialRunsUnderTheEstablishedRegion(c *kit.Ctx) {
	est := c.Anchor("", "client", "establishRegion")
	if est == nil {
		return
	}
	dials := kit.Calls(est, hrpcRC+"Dial")
	probes := kit.Calls(est, kit.M("", "", "isRegionEstablished"))
	if len(dials) != 1 || len(probes) == 0 {
		c.Unk(est, "dial-under-established-region", est.Pos(), "establishRegion no longer has one Dial and a probe")
		return
	}
	d := dials[0]
	var ctxRegion ssa.Value
	if ex, ok := kit.Root(d.Common().Args[0]).(*ssa.Extract); ok {
		if with, ok := ex.Tuple.(*ssa.Call); ok && strings.HasPrefix(kit.CalleeName(with), "context.With") {
			if cc, ok := kit.Root(with.Call.Args[0]).(*ssa.Call); ok && kit.CalleeName(cc) == hrpcRI+"Context" {
				ctxRegion = kit.Root(cc.Call.Value)
			}
		}
	}
	probed := kit.Root(probes[0].Common().Args[1])
	c.Check(ctxRegion != nil && ctxRegion == probed, est, "dial-under-established-region", d.Pos(), "Dial is bounded by Context() of the region that is probed and published", "the connection attempt is bounded by a context that does not belong to the region being established at that point (taken before the re-lookup replaced the region variable): after a split or merge that context is already cancelled, the freshly created shared connection fails its dial at once, concurrent first users of the server are bounced and the server is dialled a second time")
}

// waitOnTestedChannel: the availability channel a request waits on is the very value it has just tested for
// nil (one read): read again for the wait, it can be nil by then and the request blocks for ever on an available
// region. Shared by C09.R4 and C04.R4.
func waitOnTestedChannel(c *kit.Ctx, gr *ssa.Function) {
	kit.Instrs(gr, func(in ssa.Instruction) {
		sel, ok := in.(*ssa.Select)
		if !ok || !sel.Blocking {
			return
		}
		for _, st := range sel.States {
			if st.Dir != types.RecvOnly || !strings.HasSuffix(st.Chan.Type().String(), "chan struct{}") {
				continue
			}
			src := kit.Root(st.Chan)
			call, isCall := src.(*ssa.Call)
			if !isCall || kit.CalleeName(call) != hrpcRI+"AvailabilityChan" {
				continue
			}
			tested := false
			for _, f := range kit.FactsAt(sel.Block()) {
				if cmp, ok := kit.CanonCmp(f.Cond, f.Pol); ok && cmp.Op == token.NEQ && kit.IsNilConst(cmp.Y) && kit.Root(cmp.X) == src {
					tested = true
				}
			}
			c.Check(tested, gr, "wait-on-tested-channel", sel.Pos(), "waits on the availability channel value that was just tested non-nil (one read)", "the availability channel is read again for the wait: if the region becomes available between the test and the wait the request blocks on a nil channel although the region is healthy")
		}
	})
}

// constructorsForwardTheirOptions: a call constructor of hrpc that takes options and builds its call through
// another constructor passes its options on (or applies them itself). A wrapper that drops them loses SkipBatch,
// Priority, Timestamp ... for that one way of building the call. C12.R1, C05.R5.
func constructorsForwardTheirOptions(c *kit.Ctx) {
	p := c.P
	isOpts := func(t types.Type) bool {
		return strings.HasSuffix(t.String(), "[]func("+kit.Module+"/hrpc.Call) error")
	}
	n := 0
	for _, fn := range p.Funcs {
		if !p.IsSubject(fn) || fn.Pkg == nil || fn.Pkg.Pkg.Path() != kit.Module+"/hrpc" || fn.Parent() != nil || len(fn.Params) == 0 {
			continue
		}
		opt := fn.Params[len(fn.Params)-1]
		if !fn.Signature.Variadic() || !isOpts(opt.Type()) {
			continue
		}
		// how the options are consumed: forwarded to a callee that takes options, or ranged over (applied)
		forwarded, applied := false, false
		var dropAt ssa.Instruction
		kit.Instrs(fn, func(in ssa.Instruction) {
			switch x := in.(type) {
			case *ssa.Call:
				cal := kit.StaticCallee(x)
				if cal == nil || !cal.Signature.Variadic() || cal.Signature.Params().Len() == 0 {
					return
				}
				last := cal.Signature.Params().At(cal.Signature.Params().Len() - 1)
				if !isOpts(last.Type()) {
					return
				}
				arg := x.Call.Args[len(x.Call.Args)-1]
				uses := false
				var walk func(v ssa.Value, d int)
				walk = func(v ssa.Value, d int) {
					v = kit.Strip(v)
					if d > 6 || uses {
						return
					}
					switch y := v.(type) {
					case *ssa.Parameter:
						if y == opt {
							uses = true
						}
					case *ssa.Phi:
						for _, e := range y.Edges {
							walk(e, d+1)
						}
					case *ssa.Slice:
						walk(y.X, d+1)
					case *ssa.Call:
						if b, ok := y.Call.Value.(*ssa.Builtin); ok && b.Name() == "append" {
							for _, a := range y.Call.Args {
								walk(a, d+1)
							}
						}
					}
				}
				walk(arg, 0)
				if uses {
					forwarded = true
				} else if dropAt == nil {
					dropAt = x
				}
			case *ssa.IndexAddr:
				if kit.Strip(x.X) == ssa.Value(opt) {
					applied = true
				}
			case *ssa.Range:
				if kit.Strip(x.X) == ssa.Value(opt) {
					applied = true
				}
			}
		})
		if dropAt == nil && !forwarded && !applied {
			continue // the options are not used at all here: nothing built through another constructor
		}
		n++
		pos := fn.Pos()
		if dropAt != nil && !forwarded && !applied {
			pos = dropAt.Pos()
		}
		c.Check(forwarded || applied, fn, "constructor-forwards-options", pos, "the options are passed on to the constructor that builds the call (or applied here)", fn.Name()+" takes options but builds its call through another constructor without passing them on: a call built this way silently loses SkipBatch (and is accepted into a batch that must reject it), Priority, Timestamp...")
	}
	if n == 0 {
		c.Unk(nil, "constructor-forwards-options", token.NoPos, "no call constructor with options found in hrpc")
	}
}

// queueingWatchesTheBatchContextItself: the context SendBatch hands to QueueBatch is the batch's context, not a
// derived one with a deadline of its own: QueueBatch drops the calls silently when its context is done, and
// waitForCompletion only stops on the batch's (or the call's own) context - calls dropped for another reason are
// waited for to no end. C07.R5, C13.R6.
func queueingWatchesTheBatchContextItself(c *kit.Ctx) {
	sb := c.Anchor("", "client", "SendBatch")
	if sb == nil {
		return
	}
	n := 0
	for _, fn := range kit.WithAnon(sb) {
		for _, call := range kit.Calls(fn, hrpcRC+"QueueBatch") {
			n++
			v := kit.Root(call.Common().Args[0])
			derived := ""
			if ex, ok := v.(*ssa.Extract); ok {
				if with, ok := ex.Tuple.(*ssa.Call); ok && strings.HasPrefix(kit.CalleeName(with), "context.With") && kit.CalleeName(with) != "context.WithValue" {
					derived = kit.CalleeName(with)
				}
			}
			c.Check(derived == "", fn, "queueing-under-batch-context", call.Pos(), "QueueBatch gets the batch's own context", "QueueBatch is called with a context derived with "+derived+": when that context ends before the batch's, the region client drops the calls without a result and SendBatch waits for them for as long as the batch context lives (for ever with a background context)")
		}
	}
	if n == 0 {
		c.Unk(sb, "queueing-under-batch-context", sb.Pos(), "SendBatch no longer queues through QueueBatch")
	}
}

// publishedRegionGetsItsEstablisher: a region that a discoverer has marked unavailable and put into the cache
// is handed to an establisher on every way out of the discoverer; otherwise it stays unavailable with nobody to
// make it available and every later request for it blocks. C09.R3.
func publishedRegionGetsItsEstablisher(c *kit.Ctx) {
	n := 0
	for _, nm := range []string{"findRegion", "findAllRegions"} {
		fn := c.Anchor("", "client", nm)
		if fn == nil {
			continue
		}
		for _, put := range kit.Calls(fn, kit.M("", "*keyRegionCache", "put")) {
			repl := kit.ExtractOf(put.Value(), 1)
			reg := kit.Root(put.Common().Args[1])
			n++
			e := kit.PathFrom(put.(ssa.Instruction), kit.PathQuery{
				Stop: func(x ssa.Instruction) bool {
					switch y := x.(type) {
					case *ssa.Go:
						return strings.HasSuffix(kit.CalleeName(y), "establishRegion") && kit.Root(y.Call.Args[1]) == reg
					case *ssa.Call:
						return kit.CalleeName(y) == hrpcRI+"MarkAvailable" && kit.Root(y.Call.Value) == reg
					}
					return false
				},
				SkipEdge: func(from, to *ssa.BasicBlock) bool {
					for _, f := range kit.EdgeFacts(from, to) {
						if repl != nil && f.Cond == repl && !f.Pol {
							return true // the cache kept its own: the new region was never published
						}
					}
					// back into the loop over the looked-up regions: the next put is judged on its own
					return to.Dominates(put.Block()) && to != put.Block() && kit.Reaches(put.(ssa.Instruction), firstInstr(to)) && inLoopOf(to, put.Block())
				},
				Target: func(x ssa.Instruction) bool { _, isRet := x.(*ssa.Return); return isRet },
			})
			c.Check(e == nil, fn, "published-region-gets-establisher", put.Pos(), "every way out after the region was put into the cache starts its establisher", "a region can be left in the cache marked unavailable without an establisher (an early return between regions.put and 'go establishRegion', e.g. because the caller's context is done): nobody will ever make it available, every later request for it blocks until its own deadline: "+c.BlockPath(e))
		}
	}
	if n == 0 {
		c.Unk(nil, "published-region-gets-establisher", token.NoPos, "findRegion no longer puts looked-up regions into the cache")
	}
}

func firstInstr(b *ssa.BasicBlock) ssa.Instruction {
	if len(b.Instrs) == 0 {
		return nil
	}
	return b.Instrs[0]
}

// multiBuildsItsRequestInFreshMemory: the actions of a multi request are built in memory allocated for that
// request: a pooled multi that keeps its []pb.Action leaves the Get/Mutation of its previous use in actions of the
// next request. C12.R3, C05.R2.
func multiBuildsItsRequestInFreshMemory(c *kit.Ctx) {
	mtp := c.Anchor("region", "multi", "toProto")
	if mtp == nil {
		return
	}
	n := 0
	kit.Instrs(mtp, func(in ssa.Instruction) {
		ia, ok := in.(*ssa.IndexAddr)
		if !ok {
			return
		}
		sl, ok := ia.X.Type().Underlying().(*types.Slice)
		if !ok || !strings.HasSuffix(sl.Elem().String(), "/pb.Action") {
			return
		}
		n++
		org := ptrOrigins(mtp, ia.X, 0, map[ssa.Value]bool{})
		_, kept := org["recv-field"]
		_, glob := org["global"]
		if cv, ok := org["call"]; ok {
			// taken from a sync.Pool: shared with whoever gets it next, while the request built here is still
			// to be marshalled by send
			if cc, ok := kit.Strip(cv).(*ssa.Call); ok && kit.CalleeName(cc) == "(*sync.Pool).Get" {
				glob = true
			}
			if ex, ok := cv.(*ssa.Extract); ok {
				if cc, ok := ex.Tuple.(*ssa.Call); ok && kit.CalleeName(cc) == "(*sync.Pool).Get" {
					glob = true
				}
			}
		}
		c.Check(!kept && !glob, mtp, "multi-request-in-fresh-memory", ia.Pos(), "the actions of the request are allocated by this toProto", "the actions of a multi request are built in memory that the (pooled) multi keeps from its previous use: an action that was a mutation last time and is a get now still carries the old mutation")
	})
	if n == 0 {
		c.Unk(mtp, "multi-request-in-fresh-memory", mtp.Pos(), "multi.toProto no longer builds a []pb.Action")
	}
}

// resultChannelsAreMadePerCall: the result channel of a call is made for that call (capacity one), never taken
// from a pool or shared: a channel handed to a later call while the region client may still answer the earlier
// one delivers one caller's response to another. C02.R3 (the capacity is the tabled precondition of C13.R1).
func resultChannelsAreMadePerCall(c *kit.Ctx) {
	p := c.P
	f := p.Field("hrpc", "base", "resultch")
	if f == nil {
		c.Unk(nil, "result-channel-per-call", token.NoPos, "hrpc.base.resultch not found")
		return
	}
	n := 0
	for _, a := range p.FieldAccesses(f) {
		st, ok := a.Instr.(*ssa.Store)
		if !ok {
			continue
		}
		n++
		mk, ok := kit.Root(st.Val).(*ssa.MakeChan)
		good := false
		if ok {
			if k, isK := kit.ConstInt(mk.Size); isK && k == 1 {
				good = true
			}
		}
		c.Check(good, a.Fn, "result-channel-per-call", st.Pos(), "resultch = make(chan RPCResult, 1)", "the result channel of a call is not made for that call (it comes from a pool or is shared): a channel that is reused while the region client can still answer the earlier call delivers that answer to the later call's caller")
	}
	if n == 0 {
		c.Unk(nil, "result-channel-per-call", token.NoPos, "no constructor stores hrpc.base.resultch")
	}
}

// everyFailedResultReachesTheReaction: in waitForCompletion every result of the region/connection classes is
// passed to handleResultError for the region and connection of that very call - each call of a batch can belong to
// a different region, so reacting once per round leaves the other regions available with a stale location. C01.R2,
// C04.R3, C12.R2.
func everyFailedResultReachesTheReaction(c *kit.Ctx) {
	wfc := c.Anchor("", "client", "waitForCompletion")
	if wfc == nil {
		return
	}
	p := c.P
	hre := kit.M("", "*client", "handleResultError")
	var sels []ssa.Instruction
	kit.Instrs(wfc, func(in ssa.Instruction) {
		if sel, ok := in.(*ssa.Select); ok && sel.Blocking {
			sels = append(sels, sel)
		}
	})
	n := 0
	kit.Instrs(wfc, func(in ssa.Instruction) {
		call, ok := in.(*ssa.Call)
		if !ok {
			return
		}
		b, ok := call.Call.Value.(*ssa.Builtin)
		if !ok || b.Name() != "append" || !strings.HasSuffix(call.Type().String(), "hrpc.Call") {
			return
		}
		n++
		good := true
		var bad *kit.Exit
		for _, sel := range sels {
			if !kit.Reaches(sel, call) {
				continue
			}
			e := kit.PathFrom(sel, kit.PathQuery{
				Target: func(x ssa.Instruction) bool { return x == ssa.Instruction(call) },
				Stop: func(x ssa.Instruction) bool {
					if x != sel {
						if _, again := x.(*ssa.Select); again {
							return true // the next wait: another call
						}
					}
					cc, ok := x.(*ssa.Call)
					return ok && kit.CalleeName(cc) == hre
				},
			})
			if e != nil {
				good, bad = false, e
			}
		}
		c.Check(good, wfc, "failed-result-reaches-reaction", call.Pos(), "a call is put on the retry list only after handleResultError was called for it", "a call can be put on the retry list without handleResultError having been called for that call (e.g. only once per round): the calls of a batch belong to different regions - the regions of the other calls stay available with their stale location and the retried calls go to the same place again: "+c.BlockPath(bad))
	})
	_ = p
	if n == 0 {
		c.Unk(wfc, "failed-result-reaches-reaction", wfc.Pos(), "waitForCompletion no longer builds a retry list")
	}
}
