package props

import (
	"go/token"
	"go/types"
	"strings"

	"golang.org/x/tools/go/ssa"

	"gohbaseverif/bounds"
	"gohbaseverif/kit"
)

func init() {
	register("C12", &Property{
		Title: "A batch executes each call once, in per-region order, or not at all",
		Explanation: "(R1) nothing can be located or queued before validation has passed: every such call in SendBatch is dominated by the allOK edge after the validation loop; the loop contains the three rejecting predicates (duplicate call, different table, not batchable), each clears allOK on every path, and the loop has no exit other than the end of the range; " +
			"(R2) only calls under a retryable-class case are collected for the next round: every append to the retry list in waitForCompletion lies in a type-switch case naming only error classes, on the res.Error != nil edge; the next round's batch is assigned only from that list; " +
			"(R3) per-region order: findClients fills each per-connection group by append of the range element inside one forward range over the batch, SendBatch hands each group to QueueBatch once and unmodified, multi.toProto appends each action to its region's list in a forward range over m.calls, and none of these functions sorts, reverses or inserts; " +
			"(R4) each call of the batch is routed by the same getRegionAndClientForRPC as single calls and grouped under the connection it returned (C01.R2)." +
			" Added after the seeded-change rounds: (R1) the definition of CanBatch and the CheckAndPut opt-out; (R2) what is appended to the retry list is exactly the one call whose failed result was received in that select arm; (R3) cellblocks go out in region-action order (shared with C05.R2); (R4) the lookup validators of C01.R3 are run here (a call is grouped under the region they return).",
		Residue:   "what the server executes and how often (a request whose response was lost may have been executed)",
		Technique: "dominance and path search over SSA, who-writes tables on the batch slices, class tables from C04",
		Run:       runC12,
	})
}

func runC12(c *kit.Ctx) {
	p := c.P
	sb := c.Anchor("", "client", "SendBatch")
	fc := c.Anchor("", "client", "findClients")
	wfc := c.Anchor("", "client", "waitForCompletion")
	mtp := c.Anchor("region", "multi", "toProto")
	if sb == nil || fc == nil || wfc == nil || mtp == nil {
		return
	}

	// ---- R1 ---------------------------------------------------------------
	c.StartRule("R1", "nothing is sent before validation passed", 5)
	allOK := resultAlloc(sb, 1) // the named bool result
	var loopHdr *ssa.BasicBlock
	var hdrs []*ssa.BasicBlock
	batchParam := paramOfType(sb, "[]"+kit.Module+"/hrpc.Call", 0)
	kit.Instrs(sb, func(in ssa.Instruction) {
		if ph, ok := in.(*ssa.Phi); ok && ph.Comment == "rangeindex" {
			for _, r := range kit.Referrers(ph) {
				if bo, ok := r.(*ssa.BinOp); ok && bo.Op == token.ADD {
					if s, ok := rangeOfIndex(bo); ok && s == ssa.Value(batchParam) {
						if loopHdr == nil {
							loopHdr = ph.Block()
						}
						hdrs = append(hdrs, ph.Block())
					}
				}
			}
		}
	})
	// validation may be done in several passes over the batch: every loop over the batch parameter that comes
	// before anything is located or queued
	if loopHdr != nil {
		var keep []*ssa.BasicBlock
		for _, h := range hdrs {
			before := true
			for _, call := range kit.Calls(sb, kit.M("", "*client", "findClients"), hrpcRC+"QueueBatch", hrpcRC+"QueueRPC") {
				if !h.Dominates(call.Block()) || kit.Reaches(call.(ssa.Instruction), h.Instrs[0]) {
					before = false
				}
			}
			if before {
				keep = append(keep, h)
			}
		}
		hdrs = keep
		if len(hdrs) == 0 {
			loopHdr = nil
		}
	}
	if allOK == nil || loopHdr == nil {
		c.Unk(sb, "validation-shape", sb.Pos(), "SendBatch no longer has the allOK flag and a validation loop over the batch parameter")
	} else {
		isAllOKLoad := func(v ssa.Value) bool {
			l, ok := v.(*ssa.UnOp)
			return ok && l.Op == token.MUL && l.X == ssa.Value(allOK)
		}
		for _, call := range kit.Calls(sb, kit.M("", "*client", "findClients"), hrpcRC+"QueueBatch", hrpcRC+"QueueRPC") {
			good := false
			for _, f := range kit.FactsAt(call.Block()) {
				if f.Pol && isAllOKLoad(f.Cond) {
					// the test is after every validation loop
					after := true
					for _, h := range hdrs {
						if !h.Dominates(f.If.Block()) || f.If.Block() == h || kit.Reaches(f.If, h.Instrs[0]) {
							after = false
						}
					}
					if after {
						good = true
					}
				}
			}
			c.Check(good, sb, "after-validation", call.Pos(), "dominated by the allOK edge of the post-validation test", "calls can be located/queued although validation failed or has not finished: part of an invalid batch is executed")
		}
		// rejecting predicates
		type pred struct {
			name string
			iff  *ssa.If
			rej  *ssa.BasicBlock
		}
		var preds []pred
		// the header of the validation loop b belongs to (the innermost, i.e. last, one that contains it)
		hdrOf := func(b *ssa.BasicBlock) *ssa.BasicBlock {
			var found *ssa.BasicBlock
			for _, h := range hdrs {
				if h.Dominates(b) && b != h && kit.PathFromBlock(b, kit.PathQuery{Target: func(x ssa.Instruction) bool { return x.Block() == h }, SkipEdge: func(from, to *ssa.BasicBlock) bool {
					// not by way of a later loop's exit... a later header is only reached after this loop ended
					return false
				}}) != nil {
					if found == nil || found.Dominates(h) {
						found = h
					}
				}
			}
			return found
		}
		inLoop := func(b *ssa.BasicBlock) bool { return hdrOf(b) != nil }
		kit.Instrs(sb, func(in ssa.Instruction) {
			iff, ok := in.(*ssa.If)
			if !ok || !inLoop(iff.Block()) {
				return
			}
			// duplicate: comma-ok lookup in map[hrpc.Call]int
			ncond, onTrue, onFalse := kit.IfBranches(iff)
			if ex, ok := ncond.(*ssa.Extract); ok && ex.Index == 1 {
				if lk, ok := ex.Tuple.(*ssa.Lookup); ok && lk.CommaOk {
					preds = append(preds, pred{"duplicate", iff, onTrue})
				}
			}
			if cmp, ok := kit.CanonCmp(iff.Cond, true); ok && cmp.Bytes && (cmp.Op == token.EQL || cmp.Op == token.NEQ) {
				isTable := func(v ssa.Value) bool {
					call, ok := kit.Root(v).(*ssa.Call)
					return ok && kit.CalleeName(call) == hrpcCall+"Table"
				}
				if isTable(cmp.X) && isTable(cmp.Y) {
					rej := kit.SuccOnFalse(iff)
					if cmp.Op == token.NEQ {
						rej = kit.SuccOnTrue(iff)
					}
					preds = append(preds, pred{"table", iff, rej})
				}
			}
			if call, ok := ncond.(*ssa.Call); ok && kit.CalleeName(call) == kit.M("hrpc", "", "CanBatch") {
				preds = append(preds, pred{"batchable", iff, onFalse})
			}
		})
		seen := map[string]bool{}
		for _, pr := range preds {
			seen[pr.name] = true
			myHdr := hdrOf(pr.iff.Block())
			e := kit.PathFromBlock(pr.rej, kit.PathQuery{
				Target: func(x ssa.Instruction) bool { return x.Block() == myHdr },
				Stop: func(x ssa.Instruction) bool {
					st, ok := x.(*ssa.Store)
					if !ok || st.Addr != ssa.Value(allOK) {
						return false
					}
					k, ok := st.Val.(*ssa.Const)
					return ok && k.Value != nil && k.Value.ExactString() == "false"
				},
			})
			c.Check(e == nil, sb, "reject-"+pr.name, pr.iff.Pos(), "the rejecting edge clears allOK on every path", "the "+pr.name+" check can reject an entry without failing the batch: "+c.BlockPath(e))
		}
		for _, n := range []string{"duplicate", "table", "batchable"} {
			if !seen[n] {
				c.Bad(sb, "reject-"+n, sb.Pos(), "the validation loop no longer contains the '"+n+"' check: such a batch is partly executed instead of rejected as a whole", "")
			}
		}
		// no break: the block after the loop is entered only from the loop header
		for _, h := range hdrs {
			done := h.Succs[1]
			c.Check(len(done.Preds) == 1, sb, "no-early-exit", firstPos(done), "the validation loop ends only when the range is exhausted", "the validation loop can be left early: later invalid entries are not seen")
		}
	}

	// what "batchable" means: the call implements Batchable AND did not ask to skip batching;
	// CheckAndPut (whose condition cannot travel in a multi action) opts out through that flag
	if cb := c.Anchor("hrpc", "", "CanBatch"); cb != nil {
		hasAssert, hasSkip := false, false
		kit.Instrs(cb, func(in ssa.Instruction) {
			if ta, ok := in.(*ssa.TypeAssert); ok && ta.CommaOk && strings.HasSuffix(ta.AssertedType.String(), "/hrpc.Batchable") {
				hasAssert = true
			}
			if call, ok := in.(*ssa.Call); ok && call.Call.IsInvoke() && call.Call.Method.Name() == "SkipBatch" {
				hasSkip = true
			}
		})
		// every true result requires ok && !SkipBatch(): walk the truth table over the two atoms
		cl := func(cond ssa.Value) (string, bool, bool) {
			if ex, ok := cond.(*ssa.Extract); ok && ex.Index == 1 {
				if _, ok := ex.Tuple.(*ssa.TypeAssert); ok {
					return "isBatchable", true, true
				}
			}
			if call, ok := cond.(*ssa.Call); ok && call.Call.IsInvoke() && call.Call.Method.Name() == "SkipBatch" {
				return "skip", true, true
			}
			return "", false, false
		}
		tbl, bad := boolFuncTable(cb, []string{"isBatchable", "skip"}, cl)
		good := hasAssert && hasSkip && tbl != nil
		if tbl != nil {
			for mask := 0; mask < 4; mask++ {
				if tbl[mask] != (mask&1 != 0 && mask&2 == 0) {
					good = false
				}
			}
		}
		c.Check(good, cb, "canbatch-definition", cb.Pos(), "CanBatch(c) == c is Batchable && !c.SkipBatch()", "CanBatch no longer means 'Batchable and not SkipBatch' ("+bad+"): calls that must not be merged into a multi request (CheckAndPut, SkipBatch()) pass validation")
		if ncp := c.Anchor("hrpc", "", "NewCheckAndPut"); ncp != nil {
			set := false
			for _, call := range kit.Calls(ncp, kit.M("hrpc", "*Mutate", "setSkipBatch")) {
				if k, ok := call.Common().Args[1].(*ssa.Const); ok && k.Value != nil && k.Value.ExactString() == "true" {
					set = true
				}
			}
			c.Check(set, ncp, "checkandput-opts-out", ncp.Pos(), "NewCheckAndPut marks its put as not batchable", "a CheckAndPut no longer opts out of batching: inside a batch its condition is dropped and it executes as an unconditional put")
		}
	}

	// ---- R2 ---------------------------------------------------------------
	conditionalMutationsAreNotBatchable(c)
	constructorsForwardTheirOptions(c)

	c.StartRule("R2", "only retryable classes are sent again", 3)
	classificationGoesByClassName(c)
	// a well-formed response that the decoder refuses is answered with a retryable error for every call of the
	// multi-request: all of them - also those whose success is in that very response - are executed again
	guardsAreTight(c, bounds.New(c.P), []*ssa.Function{c.P.Func("hrpc", "", "cellFromCellBlock")})
	everyFailedResultReachesTheReaction(c)
	multiDecodesEveryResult(c)
	regionExceptionUnchanged(c)
	{
		classes := map[string]bool{"RetryableError": true, "ServerError": true, "NotServingRegionError": true}
		var retrySlice string
		n := 0
		for _, call := range kit.Calls(wfc, "builtin.append") {
			// append(retryables, rpc)
			if !strings.Contains(call.Common().Args[0].Type().String(), "hrpc.Call") {
				continue
			}
			n++
			retrySlice = kit.Path(call.Common().Args[0])
			isClass := func(ta *ssa.TypeAssert) bool {
				nt := kit.ReceiverNamed(ta.AssertedType)
				return nt != nil && classes[nt.Obj().Name()] && nt.Obj().Pkg().Path() == kit.Module+"/region"
			}
			// on every way into this block one assertion to a retryable class has succeeded
			okClass := kit.OnAllWays(call.Block(), func(fs []kit.Fact) bool {
				for _, f := range fs {
					if ex, ok := f.Cond.(*ssa.Extract); ok && f.Pol && ex.Index == 1 {
						if ta, ok := ex.Tuple.(*ssa.TypeAssert); ok && ta.CommaOk && isClass(ta) {
							return true
						}
					}
				}
				return false
			}, 0)
			onErr := false
			for _, f := range kit.FactsAt(call.Block()) {
				if cmp, ok := kit.CanonCmp(f.Cond, f.Pol); ok && cmp.Op == token.NEQ && kit.IsNilConst(cmp.Y) && kit.IsErrorType(cmp.X.Type()) {
					onErr = true
				}
			}
			// what is appended is exactly the call whose result was just received
			one := false
			if sl, ok := call.Common().Args[1].(*ssa.Slice); ok {
				if arr, ok := sl.X.(*ssa.Alloc); ok {
					var elems []ssa.Value
					for _, r := range kit.Referrers(arr) {
						if ia, ok := r.(*ssa.IndexAddr); ok {
							for _, rr := range kit.Referrers(ia) {
								if st, ok := rr.(*ssa.Store); ok && st.Addr == ssa.Value(ia) {
									elems = append(elems, st.Val)
								}
							}
						}
					}
					if len(elems) == 1 {
						for _, st := range selectArmsAt(call.Block()) {
							if rc, ok := kit.Root(st.Chan).(*ssa.Call); ok && kit.CalleeName(rc) == hrpcCall+"ResultChan" && kit.Same(kit.Root(rc.Call.Value), kit.Root(elems[0])) {
								one = true
							}
						}
					}
				}
			}
			c.Check(one, wfc, "retry-the-received-call", call.Pos(), "the one call appended is the call whose result was received in this select arm", "the retry list grows by something other than the single call whose failed result was just received: calls whose outcome is not known yet (or that succeeded) are executed again")
			c.Check(okClass && onErr, wfc, "retry-only-class", call.Pos(), "appended to the retry list inside a retryable-class case on the error edge", "a call can be put on the retry list without having failed with a retryable class: a call whose success was received (or that failed for good) is executed again")
		}
		_ = retrySlice
		if n == 0 {
			c.Unk(wfc, "retry-list", wfc.Pos(), "waitForCompletion no longer builds a retry list")
		}
		// next round's batch comes only from the retries list, which only grows by waitForCompletion's result
		var batchPhi *ssa.Phi
		kit.Instrs(sb, func(in ssa.Instruction) {
			if ph, ok := in.(*ssa.Phi); ok && batchPhi == nil {
				for _, e := range ph.Edges {
					if e == ssa.Value(batchParam) {
						batchPhi = ph
					}
				}
			}
		})
		good := batchPhi != nil
		if good {
			for _, e := range batchPhi.Edges {
				if e == ssa.Value(batchParam) {
					continue
				}
				l, ok := e.(*ssa.UnOp)
				if !ok {
					// the list lives in a register (no closure captures it): a web of phis, appends of
					// waitForCompletion's first result, and truncations to length 0
					wfcN := kit.M("", "*client", "waitForCompletion")
					seen := map[ssa.Value]bool{}
					var fromRetryList func(v ssa.Value, depth int) bool
					fromRetryList = func(v ssa.Value, depth int) bool {
						v = kit.Strip(v)
						if seen[v] || depth > 12 {
							return true
						}
						seen[v] = true
						switch x := v.(type) {
						case *ssa.Phi:
							for _, pe := range x.Edges {
								if !fromRetryList(pe, depth+1) {
									return false
								}
							}
							return true
						case *ssa.Call:
							if kit.CalleeName(x) != "builtin.append" || !fromRetryList(x.Call.Args[0], depth+1) {
								return false
							}
							src, ok := kit.Root(x.Call.Args[1]).(*ssa.Extract)
							if !ok || src.Index != 0 {
								return false
							}
							cc, ok := src.Tuple.(*ssa.Call)
							return ok && kit.CalleeName(cc) == wfcN
						case *ssa.Slice:
							k, ok := kit.ConstInt(x.High)
							return ok && k == 0
						case *ssa.Const:
							return x.IsNil()
						case *ssa.MakeSlice:
							k, ok := kit.ConstInt(x.Len)
							return ok && k == 0
						}
						return false
					}
					if !fromRetryList(e, 0) {
						good = false
					}
					continue
				}
				a, ok := l.X.(*ssa.Alloc)
				if !ok {
					good = false
					continue
				}
				// stores to retries: append(retries, shouldRetry...) / retries[:0]
				for _, st := range kit.StoresTo(a) {
					switch v := st.(type) {
					case *ssa.Call:
						if kit.CalleeName(v) != "builtin.append" {
							good = false
							continue
						}
						src, ok := kit.Root(v.Call.Args[1]).(*ssa.Extract)
						if !ok || src.Index != 0 {
							good = false
							continue
						}
						if call, ok := src.Tuple.(*ssa.Call); !ok || kit.CalleeName(call) != kit.M("", "*client", "waitForCompletion") {
							good = false
						}
					case *ssa.Slice:
						if k, ok := kit.ConstInt(v.High); !ok || k != 0 {
							good = false
						}
					default:
						good = false
					}
				}
			}
		}
		c.Check(good, sb, "next-round-from-retry-list", sb.Pos(), "the next round's batch is the list of calls waitForCompletion reported as retryable", "the next round's batch is fed from something other than waitForCompletion's retry list")
	}

	// ---- R4 ---------------------------------------------------------------
	c.StartRule("R4", "the region a call is grouped under owns its key (lookup validators, shared with C01.R3)", 4)
	if grc, ml := c.Anchor("", "client", "getRegionFromCache"), c.Anchor("", "client", "metaLookup"); grc != nil && ml != nil {
		lookupValidators(c, grc, ml)
		establisherHandoff(c)
		retryLoopsWait(c)
	}

	// ---- R3 ---------------------------------------------------------------
	c.StartRule("R3", "per-region order is preserved", 4)
	responseIndicesAreUnique(c)
	unsentCallsAreCleared(c)
	multiBuildsItsRequestInFreshMemory(c)
	if mtp := c.Anchor("region", "multi", "toProto"); mtp != nil {
		cellblocksInActionOrder(c, mtp)
		serialisedCallGetsAction(c, mtp)
	}
	{
		// findClients: rpcByClient[rc] = append(rpcByClient[rc], rpc) with rpc the range element
		good := false
		kit.Instrs(fc, func(in ssa.Instruction) {
			mu, ok := in.(*ssa.MapUpdate)
			if !ok {
				return
			}
			call, ok := mu.Value.(*ssa.Call)
			if !ok || kit.CalleeName(call) != "builtin.append" {
				return
			}
			lk, ok := call.Call.Args[0].(*ssa.Lookup)
			if !ok || lk.X != mu.Map || !kit.Same(lk.Index, mu.Key) {
				return
			}
			el := elemOfVariadic(call.Call.Args[1])
			if el == nil {
				return
			}
			if l, ok := kit.Root(el).(*ssa.UnOp); ok {
				if ia, ok := l.X.(*ssa.IndexAddr); ok {
					if s, isR := rangeOfIndex(ia.Index); isR && s == ssa.Value(fc.Params[2]) {
						// key is the connection returned for this very element
						if ex, ok := kit.Root(mu.Key).(*ssa.Extract); ok && ex.Index == 0 {
							if g, ok := ex.Tuple.(*ssa.Call); ok && kit.CalleeName(g) == kit.M("", "*client", "getRegionAndClientForRPC") && kit.Same(g.Call.Args[2], el) {
								good = true
							}
						}
					}
				}
			}
		})
		c.Check(good, fc, "group-append-in-order", fc.Pos(), "each call is appended, in batch order, to the group of the connection getRegionAndClientForRPC returned for it", "findClients no longer appends each call in batch order to the group of its own connection")
		// SendBatch: QueueBatch(ctx, rpcs) with rpcs the value of the range over the group map, once
		qb := kit.Calls(sb, hrpcRC+"QueueBatch")
		okQ := len(qb) == 1
		if okQ {
			v := kit.Root(qb[0].Common().Args[1])
			ex, ok := v.(*ssa.Extract)
			okQ = ok && ex.Index == 2
			if okQ {
				_, okQ = ex.Tuple.(*ssa.Next)
			}
			if okQ {
				recv, ok := kit.Root(qb[0].Common().Value).(*ssa.Extract)
				okQ = ok && recv.Index == 1 && recv.Tuple == ex.Tuple
			}
		}
		if !okQ && len(qb) == 1 {
			// the group may travel through a list of (connection, calls) pairs built from the map
			fieldOf := func(v ssa.Value) (ssa.Value, int, bool) {
				switch x := kit.Root(v).(type) {
				case *ssa.Field:
					return kit.Root(x.X), x.Field, true
				case *ssa.UnOp:
					if fa, ok := x.X.(*ssa.FieldAddr); ok {
						return kit.Root(fa.X), fa.Field, true
					}
				}
				return nil, 0, false
			}
			rb, rf, ok1 := fieldOf(qb[0].Common().Value)
			ab, af, ok2 := fieldOf(qb[0].Common().Args[1])
			// cAndRs[i].client.QueueBatch(ctx, cAndRs[i].rpcs): two address computations of the same element
			if ia1, isIa := rb.(*ssa.IndexAddr); isIa && ok1 && ok2 {
				if ia2, isIa := ab.(*ssa.IndexAddr); isIa && (kit.Root(ia1.X) == kit.Root(ia2.X) || sameLocalLoad(ia1.X, ia2.X)) && kit.Root(ia1.Index) == kit.Root(ia2.Index) {
					ab = rb
				}
			}
			if ok1 && ok2 && rb == ab && rf != af {
				// rb: an element of the pair list (load of &list[i], or the address itself)
				var list ssa.Value
				if al, isAl := rb.(*ssa.Alloc); isAl {
					// a range value copied into a local struct variable
					if sts := kit.StoresTo(al); len(sts) == 1 {
						rb = kit.Root(sts[0])
					}
				}
				switch e := rb.(type) {
				case *ssa.UnOp:
					if ia, ok := e.X.(*ssa.IndexAddr); ok {
						list = ia.X
					}
				case *ssa.IndexAddr:
					list = e.X
				}
				if list != nil {
					// every pair appended to a list of that type is {key, value} of one map iteration
					nApp, okApp := 0, true
					for _, ci := range kit.Calls(sb, "builtin.append") {
						call := ci.(*ssa.Call)
						if !types.Identical(call.Type(), list.Type()) {
							continue
						}
						nApp++
						els := elemsOfVariadic(call.Call.Args[1])
						if len(els) != 1 {
							okApp = false
							continue
						}
						// the element: a struct value loaded from a literal whose two fields are stored
						var lit *ssa.Alloc
						if l, ok := kit.Strip(els[0]).(*ssa.UnOp); ok {
							lit, _ = l.X.(*ssa.Alloc)
						}
						if lit == nil {
							okApp = false
							continue
						}
						byField := map[int]ssa.Value{}
						for _, r := range kit.Referrers(lit) {
							if fa, ok := r.(*ssa.FieldAddr); ok {
								for _, rr := range kit.Referrers(fa) {
									if st, ok := rr.(*ssa.Store); ok && st.Addr == ssa.Value(fa) {
										byField[fa.Field] = kit.Root(st.Val)
									}
								}
							}
						}
						k, isK := byField[rf].(*ssa.Extract)
						v, isV := byField[af].(*ssa.Extract)
						if !isK || !isV || k.Index != 1 || v.Index != 2 || k.Tuple != v.Tuple {
							okApp = false
							continue
						}
						if _, isNext := k.Tuple.(*ssa.Next); !isNext {
							okApp = false
						}
					}
					okQ = nApp == 1 && okApp
				}
			}
		}
		c.Check(okQ, sb, "queue-group-once-unmodified", sb.Pos(), "each group is handed to its own connection's QueueBatch once, as built", "SendBatch no longer queues each group once and unmodified on its connection")
		// multi.toProto: as.pbs = append(as.pbs, a) in the forward range over m.calls
		okM := false
		kit.Instrs(mtp, func(in ssa.Instruction) {
			st, ok := in.(*ssa.Store)
			if !ok {
				return
			}
			fa, ok := st.Addr.(*ssa.FieldAddr)
			if !ok || kit.FieldVar(fa.X.Type(), fa.Field).Name() != "pbs" {
				return
			}
			call, ok := st.Val.(*ssa.Call)
			if !ok || kit.CalleeName(call) != "builtin.append" {
				return
			}
			_, f := kit.FieldRead(call.Call.Args[0])
			if f == nil || f.Name() != "pbs" {
				return
			}
			if el := elemOfVariadic(call.Call.Args[1]); el != nil {
				if ia, ok := el.(*ssa.IndexAddr); ok {
					if _, isR := rangeOfIndex(ia.Index); isR {
						okM = true
					}
				}
			}
		})
		c.Check(okM, mtp, "actions-appended-in-order", mtp.Pos(), "the action of call i is appended to its region's list while ranging forward over m.calls", "multi.toProto no longer appends actions to the per-region lists in call order")
		// no sorting/reversal in the batch path
		bad := ""
		for _, fn := range []*ssa.Function{sb, fc, wfc, mtp, p.Func("region", "multi", "add"), p.Func("region", "client", "QueueBatch")} {
			if fn == nil {
				continue
			}
			for _, f := range kit.WithAnon(fn) {
				kit.Instrs(f, func(in ssa.Instruction) {
					if call, ok := in.(ssa.CallInstruction); ok {
						n := kit.CalleeName(call)
						if strings.HasPrefix(n, "sort.") || strings.HasPrefix(n, "slices.Sort") || strings.HasPrefix(n, "slices.Reverse") || strings.HasPrefix(n, "slices.Insert") || strings.HasPrefix(n, "math/rand.") {
							bad = n + " in " + kit.FuncName(f)
						}
					}
				})
			}
		}
		// no element of a call slice is overwritten in place (hand-written swap/reverse)
		for _, fn := range []*ssa.Function{sb, fc, wfc, p.Func("region", "multi", "add"), p.Func("region", "client", "QueueBatch"), p.Func("region", "client", "QueueRPC")} {
			if fn == nil {
				continue
			}
			for _, f := range kit.WithAnon(fn) {
				kit.Instrs(f, func(in ssa.Instruction) {
					st, ok := in.(*ssa.Store)
					if !ok {
						return
					}
					ia, ok := st.Addr.(*ssa.IndexAddr)
					if !ok {
						return
					}
					if sl, ok := ia.X.Type().Underlying().(*types.Slice); ok && strings.HasSuffix(sl.Elem().String(), "/hrpc.Call") {
						bad = "element of a []hrpc.Call overwritten in " + kit.FuncName(f) + " at " + p.Pos(st.Pos())
					}
				})
			}
		}
		c.Check(bad == "", sb, "no-reordering", sb.Pos(), "no sort/reverse/insert/shuffle and no in-place element store anywhere on the batch path", "the batch path reorders calls: "+bad)
	}

	// ---- R5 ---------------------------------------------------------------
	if !c.Frozen {
		embed(c, "R5", "the cache a batch is routed by never holds two regions for one key (the rules of C08, run as one rule here)", 10, runC08)
		embed(c, "R6", "a call that was not executed is reported with an error of its own, never as a success (the outcome rules of C07, run as one rule here)", 20, runC07)
	}
}

// sameLocalLoad: a and b are loads of one local variable in one block with no store or call between them.
func sameLocalLoad(a, b ssa.Value) bool {
	la, ok1 := a.(*ssa.UnOp)
	lb, ok2 := b.(*ssa.UnOp)
	if !ok1 || !ok2 || la.Op != token.MUL || lb.Op != token.MUL || la.X != lb.X || la.Block() != lb.Block() {
		return false
	}
	if _, isLocal := la.X.(*ssa.Alloc); !isLocal {
		return false
	}
	i, j := kit.InstrIndex(la), kit.InstrIndex(lb)
	if i > j {
		i, j = j, i
	}
	for k := i + 1; k < j; k++ {
		switch la.Block().Instrs[k].(type) {
		case *ssa.Store, ssa.CallInstruction:
			return false
		}
	}
	return true
}
