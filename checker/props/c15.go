package props

import (
	"fmt"
	"go/constant"
	"go/token"
	"strings"

	"golang.org/x/tools/go/ssa"

	"gohbaseverif/bounds"
	"gohbaseverif/kit"
)

func init() {
	register("C15", &Property{
		Title: "Cellblock compression round-trips and follows Hadoop block framing",
		Explanation: "Narrow - framing shape and error discipline only: (R1) writer and reader agree on the block-stream framing: a big-endian uint32 total uncompressed length (the uncompressedLen parameter), then per chunk a uint32 length slot reserved at len(b) before Encode and filled with the length Encode returned for that chunk; the reader reads a uint32 block length, then uint32 chunk length + that many bytes + Decode until the running sum of decoded lengths reaches the block length, and rejects an overrun; " +
			"(R2) every error result in the reader is tested and returned as an error; " +
			"(R3) every slice/index of the reader is in bounds and its loops consume input (C11 engine on this sub-surface); " +
			"(R4) the snappy codec appends to dst and reports the length of exactly what it appended." +
			" Added after the seeded-change rounds: (R1) a != test of the running length against the block length is accepted after the loop established >=; (R2) buffers are recycled only at the request-side sites (shared with C02.R3); (R3) writer progress: the chunk loop reads again only on the edge where the previous Read returned n != 0; a length read from the stream is never compared with the amount of input (the framing implies no compression ratio).",
		Residue:   "byte-exact equality with Hadoop's BlockCompressorStream, behaviour at the real chunk size, and 'corruption yields an error': raw snappy blocks carry no checksum, so a flipped literal byte decodes silently - no static rule can make that clause true",
		Technique: "value provenance and ordering over SSA, error-discipline check, bounds obligations from the C11 engine",
		Run:       runC15,
	})
}

func runC15(c *kit.Ctx) {
	p := c.P
	comp := c.Anchor("region", "compressor", "compressCellblocks")
	dec := c.Anchor("region", "compressor", "decompressCellblocks")
	readN := c.Anchor("region", "", "readN")
	// readUint32 may have been inlined into its callers (readN(b, 4) + BigEndian.Uint32): optional
	readU := p.Func("region", "", "readUint32")
	sEnc := c.Anchor("compression/snappy", "snappyCodec", "Encode")
	sDec := c.Anchor("compression/snappy", "snappyCodec", "Decode")
	if comp == nil || dec == nil || readN == nil || sEnc == nil || sDec == nil {
		return
	}
	codec := "(" + kit.Module + "/compression.Codec)."

	// ---- R1 ---------------------------------------------------------------
	c.StartRule("R1", "writer and reader agree on the block framing", 6)
	{
		lenParam := paramOfType(comp, "uint32", 0)
		var puts []*ssa.Call
		kit.Instrs(comp, func(in ssa.Instruction) {
			if call, ok := in.(*ssa.Call); ok && strings.HasSuffix(kit.CalleeName(call), "bigEndian).PutUint32") {
				puts = append(puts, call)
			}
		})
		encs := kit.Calls(comp, codec+"Encode")
		if len(puts) != 2 || len(encs) != 1 || lenParam == nil {
			c.Unk(comp, "writer-shape", comp.Pos(), "compressCellblocks no longer has the shape: one total-length write, one per-chunk length write, one Encode")
		} else {
			// total length first
			first := puts[0]
			nb, isNB := kit.Root(first.Call.Args[1]).(*ssa.Call)
			okFirst := first.Call.Args[2] == ssa.Value(lenParam) && isNB && kit.CalleeName(nb) == kit.M("region", "", "newBuffer")
			if okFirst {
				k, ok := kit.ConstInt(nb.Call.Args[0])
				okFirst = ok && k == 4
			}
			c.Check(okFirst, comp, "total-length-first", first.Pos(), "the stream starts with uncompressedLen as a 4-byte big-endian integer", "the stream does not start with the 4-byte total uncompressed length")
			// per-chunk slot
			second := puts[1]
			enc := encs[0].(*ssa.Call)
			okVal := kit.Same(second.Call.Args[2], kit.ExtractOf(enc, 1))
			sl, isSl := second.Call.Args[1].(*ssa.Slice)
			okSlot := false
			if isSl && sl.Low != nil {
				// lenOffset = len(b_before) where Encode's dst = append(b_before, 4 bytes)
				if l := kit.LenOf(kit.Root(sl.Low)); l != nil {
					if ap, ok := kit.Root(enc.Call.Args[1]).(*ssa.Call); ok && kit.CalleeName(ap) == "builtin.append" && kit.Same(ap.Call.Args[0], l) {
						four := false
						switch mk := kit.Root(ap.Call.Args[1]).(type) {
						case *ssa.MakeSlice:
							k, ok := kit.ConstInt(mk.Len)
							four = ok && k == 4
						case *ssa.Slice:
							// make([]byte, 4) with a constant length is lowered to a slice of a new [4]byte
							if k, ok := kit.ConstInt(mk.High); ok && k == 4 && mk.Low == nil {
								_, four = mk.X.(*ssa.Alloc)
							}
						}
						if four {
							okSlot = kit.Same(sl.X, kit.ExtractOf(enc, 0))
						}
					}
				}
			}
			c.Check(okVal && okSlot, comp, "chunk-length-slot", second.Pos(), "a 4-byte slot is reserved before the chunk and filled with the length Encode returned for that chunk", "the per-chunk length is not the length of the chunk that follows it (wrong value or wrong position)")
			c.Check(kit.Dominates(enc, second), comp, "slot-filled-after-encode", second.Pos(), "filled after Encode", "the chunk length is written before the chunk is encoded")
			// chunk input bounded by min(uncompressedLen, ChunkLen())
			okChunk := false
			for _, call := range kit.Calls(comp, kit.M("region", "", "newBuffer")) {
				arg := call.Common().Args[0]
				if cv, ok := arg.(*ssa.Convert); ok {
					arg = cv.X
				}
				// the package's min helper or the builtin, either argument order
				if m, ok := arg.(*ssa.Call); ok && (kit.CalleeName(m) == kit.M("region", "", "min") || kit.CalleeName(m) == "builtin.min") && len(m.Call.Args) == 2 {
					hasLen, hasChunk := false, false
					for _, a := range m.Call.Args {
						if a == ssa.Value(lenParam) {
							hasLen = true
						}
						if cl, ok := a.(*ssa.Call); ok && kit.CalleeName(cl) == codec+"ChunkLen" {
							hasChunk = true
						}
					}
					if hasLen && hasChunk {
						okChunk = true
					}
				}
				// the same minimum written out (a renamed helper is expanded into this): a value that is
				// int(uncompressedLen) where uncompressedLen < ChunkLen() and int(ChunkLen()) otherwise
				if ph, ok := kit.Strip(arg).(*ssa.Phi); ok && len(ph.Edges) == 2 {
					under := func(v ssa.Value) ssa.Value {
						if cv, ok := kit.Strip(v).(*ssa.Convert); ok {
							return kit.Root(cv.X)
						}
						return kit.Root(v)
					}
					isChunk := func(v ssa.Value) bool {
						cl, ok := v.(*ssa.Call)
						return ok && kit.CalleeName(cl) == codec+"ChunkLen"
					}
					for i := 0; i < 2; i++ {
						a, b := under(ph.Edges[i]), under(ph.Edges[1-i])
						if a != ssa.Value(lenParam) || !isChunk(b) {
							continue
						}
						// the edge that brings uncompressedLen is taken where uncompressedLen < (or <=) ChunkLen()
						for _, f := range kit.EdgeFacts(ph.Block().Preds[i], ph.Block()) {
							cmp, ok := kit.CanonCmp(f.Cond, f.Pol)
							if !ok {
								continue
							}
							x, y, op := kit.Root(cmp.X), kit.Root(cmp.Y), cmp.Op
							if x == b && y == a {
								x, y = y, x
								switch op {
								case token.GTR:
									op = token.LSS
								case token.GEQ:
									op = token.LEQ
								}
							}
							if x == a && y == b && (op == token.LSS || op == token.LEQ) {
								okChunk = true
							}
						}
					}
				}
			}
			c.Check(okChunk, comp, "chunk-size", comp.Pos(), "chunks are at most min(uncompressedLen, codec.ChunkLen()) bytes", "the chunk buffer is no longer bounded by the codec's chunk length")
		}
		// reader
		rus, rusVals, rns := u32Reads(dec)
		dcs := kit.Calls(dec, codec+"Decode")
		if len(rus) != 2 || len(rns) != 1 || len(dcs) != 1 {
			c.Unk(dec, "reader-shape", dec.Pos(), "decompressCellblocks no longer has the shape: block length, then chunk length + chunk + Decode")
		} else {
			blockLen := rusVals[0]
			chunkLen := rusVals[1]
			okOrder := kit.Precedes(rus[0].(ssa.Instruction), rus[1].(ssa.Instruction)) && kit.Precedes(rus[1].(ssa.Instruction), rns[0].(ssa.Instruction)) && kit.Precedes(rns[0].(ssa.Instruction), dcs[0].(ssa.Instruction))
			nArg := rns[0].Common().Args[1]
			if cv, ok := nArg.(*ssa.Convert); ok {
				nArg = cv.X
			}
			okN := kit.Same(nArg, chunkLen)
			okSrc := kit.Same(kit.RootAt(dcs[0].Common().Args[0], dcs[0].Block()), kit.ExtractOf(rns[0].Value(), 0))
			c.Check(okOrder && okN && okSrc, dec, "reader-order", dec.Pos(), "block length, then per chunk: length, exactly that many bytes, Decode of those bytes", "the reader does not read block length, chunk length, chunk, in this order with the chunk length it just read")
			// running sum and loop condition
			var sum *ssa.Phi
			kit.Instrs(dec, func(in ssa.Instruction) {
				if bo, ok := in.(*ssa.BinOp); ok && bo.Op == token.ADD && kit.Same(bo.Y, kit.ExtractOf(dcs[0].Value(), 1)) {
					if ph, ok := bo.X.(*ssa.Phi); ok {
						sum = ph
					}
				}
			})
			okLoop, okOver := false, false
			if sum != nil {
				kit.Instrs(dec, func(in ssa.Instruction) {
					iff, ok := in.(*ssa.If)
					if !ok {
						return
					}
					cmp, ok := kit.CanonCmp(iff.Cond, true)
					if !ok {
						return
					}
					x, y := kit.Root(cmp.X), kit.Root(cmp.Y)
					swapOp := map[token.Token]token.Token{token.LSS: token.GTR, token.GTR: token.LSS, token.LEQ: token.GEQ, token.GEQ: token.LEQ, token.EQL: token.EQL, token.NEQ: token.NEQ}
					defer func() { _ = swapOp }()
					inWeb := func(v ssa.Value) bool {
						if v == ssa.Value(sum) {
							return true
						}
						if ph, ok := v.(*ssa.Phi); ok {
							for _, e := range ph.Edges {
								if e == ssa.Value(sum) {
									return true
								}
								if bo, ok := e.(*ssa.BinOp); ok && bo.X == ssa.Value(sum) {
									return true
								}
							}
						}
						if bo, ok := v.(*ssa.BinOp); ok && bo.X == ssa.Value(sum) {
							return true
						}
						return false
					}
					if !inWeb(x) && inWeb(y) {
						// blockLen OP sum: bring the running sum to the left
						x, y = y, x
						cmp.Op = swapOp[cmp.Op]
					}
					if cmp.Op == token.LSS && inWeb(x) && kit.Same(y, blockLen) {
						// the chunk is read only on the true edge of this test
						if kit.EdgeDominates(iff.Block(), kit.SuccOnTrue(iff), rus[1].(ssa.Instruction).Block()) {
							okLoop = true
						}
					}
					// "!=" is the same test where the loop has already established sum >= blockLen
					neqAfterLoop := false
					if cmp.Op == token.NEQ && inWeb(x) && kit.Same(y, blockLen) {
						for _, f := range kit.FactsAt(iff.Block()) {
							fc, ok := kit.CanonCmp(f.Cond, f.Pol)
							if !ok {
								continue
							}
							if fc.Op == token.GEQ && inWeb(kit.Root(fc.X)) && kit.Same(kit.Root(fc.Y), blockLen) {
								neqAfterLoop = true
							}
							// the same fact written from the other side: blockLen <= sum
							if fc.Op == token.LEQ && inWeb(kit.Root(fc.Y)) && kit.Same(kit.Root(fc.X), blockLen) {
								neqAfterLoop = true
							}
						}
					}
					if (cmp.Op == token.GTR || neqAfterLoop) && inWeb(x) && kit.Same(y, blockLen) {
						// true edge returns an error
						for _, in2 := range kit.SuccOnTrue(iff).Instrs {
							if r, ok := in2.(*ssa.Return); ok {
								okOver = !kit.IsNilConst(kit.Root(returnedError(r)))
							}
						}
						if !okOver {
							// ... possibly through the error result of a helper the loop was moved into: no way from
							// the true edge to a return without an error
							tb := kit.SuccOnTrue(iff)
							e := kit.PathFrom(iff, kit.PathQuery{
								SkipEdge: func(from, to *ssa.BasicBlock) bool { return from == iff.Block() && to != tb },
								TargetPath: func(x ssa.Instruction, path []*ssa.BasicBlock) bool {
									r, ok := x.(*ssa.Return)
									if !ok {
										return false
									}
									ev := returnedError(r)
									if ev != nil {
										ev = kit.ResolveAlong(ev, path)
									}
									return ev == nil || kit.IsNilConst(kit.Root(ev))
								},
							})
							okOver = e == nil
						}
					}
				})
			}
			c.Check(okLoop, dec, "until-block-length", dec.Pos(), "chunks are decoded while the running uncompressed length is below the block length", "the chunk loop no longer runs until the declared block length is reached")
			c.Check(okOver, dec, "overrun-rejected", dec.Pos(), "decoding more than the declared block length is an error", "a block that decodes to more than its declared length is accepted")
		}
	}

	// ---- R2 ---------------------------------------------------------------
	decompressorRejectsOnlyMalformed(c)
	receiveRejectsOnlyMalformed(c)

	c.StartRule("R2", "every reader error is checked and returned", 5)
	sendPathSharesNoMemory(c)
	buffersAreFreedAfterTheWrite(c)
	for _, fn := range nonNilFuncs(dec, readU) {
		kit.Instrs(fn, func(in ssa.Instruction) {
			call, ok := in.(*ssa.Call)
			if !ok {
				return
			}
			sig := call.Call.Signature()
			n := sig.Results().Len()
			if n == 0 || !kit.IsErrorType(sig.Results().At(n-1).Type()) {
				return
			}
			nm := kit.CalleeName(call)
			if nm == "fmt.Errorf" {
				return
			}
			var errV ssa.Value = call
			if n > 1 {
				errV = kit.ExtractOf(call, n-1)
			}
			good := false
			if errV != nil {
				for _, r := range kit.Referrers(errV) {
					bo, ok := r.(*ssa.BinOp)
					if !ok {
						continue
					}
					cmp, ok := kit.CanonCmp(bo, true)
					if !ok || !kit.IsNilConst(cmp.Y) {
						continue
					}
					for _, rr := range kit.Referrers(bo) {
						iff, ok := rr.(*ssa.If)
						if !ok {
							continue
						}
						errB := kit.SuccOnTrue(iff)
						if cmp.Op == token.EQL {
							errB = kit.SuccOnFalse(iff)
						}
						e := kit.PathFromBlock(errB, kit.PathQuery{Target: func(x ssa.Instruction) bool {
							if r, ok := x.(*ssa.Return); ok {
								return kit.IsNilConst(kit.Root(returnedError(r)))
							}
							return x.Block() == call.Block() && x == ssa.Instruction(call)
						}})
						good = e == nil
					}
				}
			}
			c.Check(good, fn, "error-checked "+kit.ShortName(nm), call.Pos(), "the error is tested and the failure edge returns an error", "the error of "+kit.ShortName(nm)+" is ignored (or the failure edge continues / returns nil): a truncated or corrupt stream yields data instead of an error")
		})
	}

	// "never wrong data": what decompression hands out is not recycled under the caller
	noResponseBufferRecycling(c)

	// ---- R3 ---------------------------------------------------------------
	c.StartRule("R3", "reader bounds and progress", 4)
	{
		eng := bounds.New(p)
		eng.MarkNonNegParams(readN)
		for _, fn := range nonNilFuncs(dec, readN, readU, sDec, sEnc) {
			for _, o := range eng.Obligations(fn) {
				if o.OK {
					c.OK(fn, o.Kind+" "+o.Text, posOf(o.Instr), o.Why)
				} else {
					c.Bad(fn, o.Kind+" "+o.Text, posOf(o.Instr), "the block-stream reader can slice outside its input: "+o.Why, "")
				}
			}
		}
		k5Loops(c, eng, dec)
		// writer progress: the chunk loop goes round again only after a Read that consumed something
		// (a zero-length staging buffer - a 0-byte payload - consumes nothing and reports no EOF
		// while the buffer list still has empty elements)
		reads := kit.Calls(comp, "(*net.Buffers).Read")
		if len(reads) == 0 {
			c.Unk(comp, "writer-progress", comp.Pos(), "compressCellblocks no longer drains its input through net.Buffers.Read")
		}
		for _, rd := range reads {
			n := kit.ExtractOf(rd.Value(), 0)
			e := kit.PathFrom(rd.(ssa.Instruction), kit.PathQuery{
				Target: func(in ssa.Instruction) bool { return in == rd.(ssa.Instruction) },
				SkipEdge: func(from, to *ssa.BasicBlock) bool {
					for _, f := range kit.EdgeFacts(from, to) {
						cmp, ok := kit.CanonCmp(f.Cond, f.Pol)
						if !ok || n == nil || !kit.Same(cmp.X, n) {
							continue
						}
						if k, ok := kit.ConstInt(cmp.Y); ok && (cmp.Op == token.NEQ && k == 0 || cmp.Op == token.GTR && k >= 0 || cmp.Op == token.GEQ && k >= 1) {
							return true
						}
					}
					return false
				},
				IgnorePanics: true,
			})
			// paths that stay in the loop without the n != 0 fact
			c.Check(e == nil || n == nil && false, comp, "writer-progress", rd.Pos(), "the loop reads again only on the edge n != 0",
				"the chunk loop can go round again after a Read that consumed nothing: with a 0-byte payload given as a non-empty list of empty buffers the staging buffer has length 0, Read returns (0, nil) forever, and the writer emits empty chunks without end: "+c.BlockPath(e))
		}
		// reader acceptance: the declared uncompressed block length is checked against what was decoded,
		// never against how much input there is (the framing is codec-agnostic: no ratio is implied)
		{
			var blockLens []ssa.Value
			kit.Instrs(dec, func(in ssa.Instruction) {
				bo, ok := in.(*ssa.BinOp)
				if !ok {
					return
				}
				switch bo.Op {
				case token.LSS, token.GTR, token.LEQ, token.GEQ, token.EQL, token.NEQ:
				default:
					return
				}
				for _, side := range []ssa.Value{bo.X, bo.Y} {
					sv := kit.Root(side)
					for {
						cv, ok := sv.(*ssa.Convert)
						if !ok {
							break
						}
						sv = kit.Root(cv.X)
					}
					_, declVals, _ := u32Reads(dec)
					isDecl := false
					for _, dv := range declVals {
						if dv == sv {
							isDecl = true
						}
					}
					if isDecl {
						blockLens = append(blockLens, side)
						other := bo.Y
						if side == bo.Y {
							other = bo.X
						}
						fromLen := false
						seen := map[ssa.Value]bool{}
						var walk func(v ssa.Value)
						walk = func(v ssa.Value) {
							if seen[v] {
								return
							}
							seen[v] = true
							switch x := v.(type) {
							case *ssa.BinOp:
								walk(x.X)
								walk(x.Y)
							case *ssa.Convert:
								walk(x.X)
							case *ssa.Call:
								if kit.CalleeName(x) == "builtin.len" || kit.CalleeName(x) == "builtin.cap" {
									fromLen = true
								}
							}
						}
						walk(other)
						// also the declared side may itself be scaled: walk it for len() too
						c.Check(!fromLen, dec, "declared-length-vs-input", bo.Pos(), "a length read from the stream is compared with decoded/declared lengths only",
							"a length field read from the stream is accepted or rejected by comparing it with the amount of input: the block framing implies no compression ratio, so well-formed streams of highly compressible data are refused")
					}
				}
			})
			if len(blockLens) == 0 {
				c.Unk(dec, "declared-length-vs-input", dec.Pos(), "no comparison of a declared length found in decompressCellblocks")
			}
		}
	}

	// the successful end of decompression is reached only when the input is used up: the outer loop is
	// left through its own condition (len(b) > 0 false), never by a break on something read from the stream
	{
		var hdrIf *ssa.If
		kit.Instrs(dec, func(in ssa.Instruction) {
			iff, ok := in.(*ssa.If)
			if !ok || hdrIf != nil {
				return
			}
			if cmp, ok := kit.CanonCmp(iff.Cond, true); ok && !cmp.Bytes {
				if l := kit.LenOf(cmp.X); l != nil {
					if k, ok := kit.ConstInt(cmp.Y); ok && k == 0 && (cmp.Op == token.GTR || cmp.Op == token.NEQ) {
						hdrIf = iff
					}
				}
			}
		})
		if hdrIf == nil {
			c.Unk(dec, "ends-when-input-exhausted", dec.Pos(), "the loop 'while there is input left' of decompressCellblocks was not found")
		} else {
			exitB := kit.SuccOnFalse(hdrIf)
			kit.Instrs(dec, func(in ssa.Instruction) {
				r, ok := in.(*ssa.Return)
				if !ok {
					return
				}
				ev := returnedError(r)
				if ev == nil || !kit.IsNilConst(kit.Root(ev)) {
					return
				}
				e := kit.PathFromEntry(dec, kit.PathQuery{
					Target:   func(x ssa.Instruction) bool { return x == ssa.Instruction(r) },
					SkipEdge: func(from, to *ssa.BasicBlock) bool { return from == hdrIf.Block() && to == exitB },
				})
				c.Check(e == nil, dec, "ends-when-input-exhausted", r.Pos(), "the successful return is reached only through 'no input left'", "decompression can end successfully while input is left (a break on a value read from the stream, e.g. an empty block): a corrupted length field truncates the data silently instead of yielding an error: "+c.BlockPath(e))
			})
		}
	}
	// the chunk the client feeds the codec fits Hadoop's 256 KiB codec buffers once compressed:
	// snappy's worst case is 32 + n + n/6 bytes for n bytes of input
	if k := p.Const("compression/snappy", "snappyChunkLen"); k != nil {
		v, _ := constant.Int64Val(k.Val())
		c.Check(v > 0 && 32+v+v/6 <= 256*1024, sEnc, "chunk-fits-hadoop-buffer", k.Pos(), fmt.Sprintf("chunk length %d: worst-case compressed size %d <= 262144", v, 32+v+v/6),
			fmt.Sprintf("the chunk length %d compresses, in the worst case (incompressible data), to %d bytes, more than the 262144-byte buffers of Hadoop's snappy decompressor: a server rejects such a chunk", v, 32+v+v/6))
	} else {
		c.Unk(sEnc, "chunk-fits-hadoop-buffer", sEnc.Pos(), "constant snappyChunkLen not found")
	}

	// ---- R4 ---------------------------------------------------------------
	c.StartRule("R4", "the codec appends to dst and reports what it appended", 2)
	// Decode fails only when the library fails: no acceptance condition of its own
	// (a conforming server may use larger chunks than this client writes)
	kit.Instrs(sDec, func(in ssa.Instruction) {
		r, ok := in.(*ssa.Return)
		if !ok {
			return
		}
		ev := returnedError(r)
		if ev == nil || kit.IsNilConst(kit.Root(ev)) {
			return
		}
		good := false
		if ex, ok := kit.Root(ev).(*ssa.Extract); ok {
			if call, ok := ex.Tuple.(*ssa.Call); ok && strings.HasPrefix(kit.CalleeName(call), "github.com/golang/snappy.") {
				good = true
			}
		}
		c.Check(good, sDec, "decode-error-is-library-error", r.Pos(), "Decode returns the snappy library's error unchanged", "snappyCodec.Decode rejects input on a condition of its own (not the library's verdict): chunks a conforming server may produce - larger than this client's own chunk size - are refused")
	})
	for _, fn := range []*ssa.Function{sEnc, sDec} {
		kit.Instrs(fn, func(in ssa.Instruction) {
			r, ok := in.(*ssa.Return)
			if !ok {
				return
			}
			if ev := returnedError(r); ev != nil && !kit.IsNilConst(kit.Root(ev)) {
				return
			}
			ap, ok := kit.Res(r, 0).(*ssa.Call)
			if !ok || kit.CalleeName(ap) != "builtin.append" {
				c.Bad(fn, "append-result", r.Pos(), "the codec does not return append(dst, chunk...)", "")
				return
			}
			dstP := paramOfType(fn, "[]byte", 1) // (src, dst []byte)
			cv, isCv := kit.Res(r, 1).(*ssa.Convert)
			good := ap.Call.Args[0] == ssa.Value(dstP) && isCv && kit.LenOf(cv.X) != nil && kit.Same(kit.LenOf(cv.X), ap.Call.Args[1])
			if !good && ap.Call.Args[0] == ssa.Value(dstP) && isCv {
				// the same length written as a difference: len(append(dst, chunk...)) - len(dst)
				eng := bounds.New(p)
				good = isZeroLin(eng.Lin(cv.X).Sub(eng.LenOf(ap.Call.Args[1])))
			}
			c.Check(good, fn, "append-and-length", r.Pos(), "returns append(dst, chunk...) and uint32(len(chunk)) of the same chunk", "the codec reports a length that is not the length of what it appended to dst")
		})
	}
}

func nonNilFuncs(fs ...*ssa.Function) []*ssa.Function {
	var out []*ssa.Function
	for _, f := range fs {
		if f != nil {
			out = append(out, f)
		}
	}
	return out
}

// u32Reads finds the places where fn reads a 4-byte big-endian length off its input: calls of the
// readUint32 helper, or readN(b, 4) followed by binary.BigEndian.Uint32 of the bytes read. It returns
// the instruction of each read (for ordering), the length value, and the remaining readN calls.
func u32Reads(fn *ssa.Function) (at []ssa.CallInstruction, vals []ssa.Value, otherReadN []ssa.CallInstruction) {
	for _, ci := range kit.Calls(fn, kit.M("region", "", "readUint32")) {
		at = append(at, ci)
		vals = append(vals, kit.ExtractOf(ci.Value(), 0))
	}
	used := map[ssa.CallInstruction]bool{}
	kit.Instrs(fn, func(in ssa.Instruction) {
		call, ok := in.(*ssa.Call)
		if !ok || !strings.HasSuffix(kit.CalleeName(call), "bigEndian).Uint32") || len(call.Call.Args) == 0 {
			return
		}
		src := kit.Root(call.Call.Args[len(call.Call.Args)-1])
		ex, ok := src.(*ssa.Extract)
		if !ok || ex.Index != 0 {
			return
		}
		rn, ok := ex.Tuple.(*ssa.Call)
		if !ok || kit.CalleeName(rn) != kit.M("region", "", "readN") {
			return
		}
		if k, ok := kit.ConstInt(rn.Call.Args[1]); !ok || k != 4 {
			return
		}
		used[rn] = true
		at = append(at, rn)
		vals = append(vals, call)
	})
	for _, ci := range kit.Calls(fn, kit.M("region", "", "readN")) {
		if !used[ci] {
			otherReadN = append(otherReadN, ci)
		}
	}
	// order by position in the function (dominance order for the confirmed shape)
	for i := 0; i < len(at); i++ {
		for j := i + 1; j < len(at); j++ {
			if kit.Dominates(at[j].(ssa.Instruction), at[i].(ssa.Instruction)) {
				at[i], at[j] = at[j], at[i]
				vals[i], vals[j] = vals[j], vals[i]
			}
		}
	}
	return
}
