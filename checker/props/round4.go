package props

import (
	"go/token"
	"go/types"
	"strings"

	"golang.org/x/tools/go/ssa"

	"gohbaseverif/bounds"
	"gohbaseverif/kit"
)

// Rules added after the fourth round of independently seeded changes. Each states a general necessary
// condition and is shared by the properties named in its comment.

// establisherHandoff: how establishRegion hands a re-looked-up region over. Shared by C01, C04, C08, C12.
//
//	(a) the looked-up region is discarded in favour of the one being established only when both have the
//	    same name (same range with another id is another region: the old name is refused by the server);
//	(b) the cache entry of the original is never deleted on a way that leads to regions.put: put's own age
//	    rule must see the original to protect a newer entry against a stale meta answer;
//	(c) waiters of the original are released only after every evicted overlap (the original among them)
//	    was detached from the connection cache, otherwise a woken request still finds the stale client;
//	(d) on success the connection is published (SetClient) before the waiters are released.
func establisherHandoff(c *kit.Ctx) {
	est := c.Anchor("", "client", "establishRegion")
	if est == nil {
		return
	}
	lookups := kit.Calls(est, kit.M("", "*client", "lookupRegion"))
	puts := kit.Calls(est, kit.M("", "*keyRegionCache", "put"))
	if len(lookups) != 1 || len(puts) != 1 {
		c.Unk(est, "establisher-shape", est.Pos(), "establishRegion no longer has one lookupRegion and one regions.put")
		return
	}
	lookup, put := lookups[0], puts[0]
	looked := kit.ExtractOf(lookup.Value(), 0)
	if looked == nil {
		c.Unk(est, "establisher-shape", est.Pos(), "the region returned by lookupRegion is not used")
		return
	}
	// the original: the region the lookup was made for (receiver of the StartKey() argument)
	var orig ssa.Value
	for _, a := range lookup.Common().Args {
		if call, ok := kit.Root(a).(*ssa.Call); ok && kit.CalleeName(call) == hrpcRI+"StartKey" {
			orig = kit.Root(call.Call.Value)
		}
	}
	if orig == nil {
		c.Unk(est, "establisher-shape", lookup.Pos(), "lookupRegion is not called with the start key of the region being established")
		return
	}
	isNameOf := func(v, of ssa.Value) bool {
		call, ok := kit.Root(v).(*ssa.Call)
		return ok && kit.CalleeName(call) == hrpcRI+"Name" && kit.Root(call.Call.Value) == kit.Root(of)
	}
	sameName := func(f kit.Fact) bool {
		call, ok := f.Cond.(*ssa.Call)
		if !ok || !f.Pol || kit.CalleeName(call) != "bytes.Equal" || len(call.Call.Args) != 2 {
			return false
		}
		a, b := call.Call.Args[0], call.Call.Args[1]
		return (isNameOf(a, looked) && isNameOf(b, orig)) || (isNameOf(a, orig) && isNameOf(b, looked))
	}
	// (a)
	n := 0
	kit.Instrs(est, func(in ssa.Instruction) {
		ph, ok := in.(*ssa.Phi)
		if !ok || !types.Identical(ph.Type(), looked.Type()) {
			return
		}
		hasLooked := false
		for _, e := range ph.Edges {
			if kit.Root(e) == looked {
				hasLooked = true
			}
		}
		if !hasLooked {
			return
		}
		for i, e := range ph.Edges {
			if kit.Root(e) != orig {
				continue
			}
			pred := ph.Block().Preds[i]
			if !lookup.Block().Dominates(pred) {
				continue // the way that made no lookup
			}
			n++
			good := false
			for _, f := range append(kit.FactsAt(pred), kit.EdgeFacts(pred, ph.Block())...) {
				if sameName(f) {
					good = true
				}
			}
			c.Check(good, est, "discard-only-same-name", firstPos(pred), "the looked-up region is dropped for the original only where bytes.Equal(looked.Name(), original.Name())",
				"the region hbase:meta returned is discarded in favour of the one being established although their names can differ (same range, other id: re-created or merged-back region): the dead name stays cached, its probes are refused for ever and the new region is never cached")
		}
	})
	if n == 0 {
		c.Unk(est, "discard-only-same-name", lookup.Pos(), "no place found where the looked-up region is dropped in favour of the original")
	}
	// (b)
	for _, d := range kit.Calls(est, kit.M("", "*keyRegionCache", "del")) {
		c.Check(!kit.MayReach(d.(ssa.Instruction), put.(ssa.Instruction)), est, "no-del-before-put", d.Pos(), "regions.del is only called where regions.put is not reached afterwards",
			"the original region is deleted from the cache before regions.put: put's age rule no longer sees it, so a stale meta answer carrying an older region evicts nothing and is inserted over a newer cached region")
	}
	// (b') the establisher removes a region from the location cache only where hbase:meta said that it does not
	// exist (TableNotFound) - on every way to the call. A region that merely lost a lookup, or whose lookup
	// lost against it, may be the newest one the cache has.
	tnf := c.P.Global("", "TableNotFound")
	for _, d := range kit.Calls(est, kit.M("", "*keyRegionCache", "del")) {
		good := tnf != nil && kit.OnAllWays(d.Block(), func(facts []kit.Fact) bool {
			for _, f := range facts {
				if cmp, ok := kit.CanonCmp(f.Cond, f.Pol); ok && cmp.Op == token.EQL && (isGlobalLoad(cmp.X, tnf) || isGlobalLoad(cmp.Y, tnf)) {
					return true
				}
			}
			return false
		}, 0)
		c.Check(good, est, "del-only-when-gone", d.Pos(), "regions.del only where the lookup answered TableNotFound",
			"the establisher deletes a region from the location cache although hbase:meta did not say it is gone (e.g. because the looked-up region lost against the cache): the deleted region can be the newest one - keys it serves are looked up again and the stale answer is cached in its place")
	}
	// (b'') ... and nobody else removes regions from the location cache by hand: del removes by name, so handing it
	// a region object that merely has the name of a cached one (the throw-away result of a lookup that lost against
	// the cache) removes the cached region - without marking it dead
	for _, fn := range c.P.Funcs {
		if fn == est || !c.P.IsSubject(fn) || fn.Blocks == nil || enclosingNamed(fn) == est {
			continue
		}
		for _, d := range kit.Calls(fn, kit.M("", "*keyRegionCache", "del")) {
			c.Bad(fn, "del-only-by-the-establisher", d.Pos(), "keyRegionCache.del is called outside establishRegion: it removes whatever cached region has the name of its argument (for the throw-away result of a lookup that lost against the cache that is the live, cached region, which is not marked dead): the cache changes although the discovery was refused", "")
		}
	}
	// (c)
	repl := kit.ExtractOf(put.Value(), 1)
	ov := kit.ExtractOf(put.Value(), 0)
	var done *ssa.BasicBlock
	if ov != nil {
		kit.Instrs(est, func(in ssa.Instruction) {
			ia, ok := in.(*ssa.IndexAddr)
			if !ok || ia.X != ov {
				return
			}
			if _, isR := rangeOfIndex(ia.Index); !isR {
				return
			}
			// the loop header: the block that tests the index and leads to this body
			for _, b := range est.Blocks {
				if iff, ok := b.Instrs[len(b.Instrs)-1].(*ssa.If); ok && kit.SuccOnTrue(iff).Dominates(ia.Block()) && b.Dominates(ia.Block()) && kit.Reaches(ia, iff) {
					done = kit.SuccOnFalse(iff)
				}
			}
		})
	}
	if repl == nil || done == nil {
		c.Unk(est, "release-after-detach", put.Pos(), "the (overlaps, replaced) results of regions.put and the loop over the overlaps were not found")
	} else {
		nm := 0
		for _, ma := range kit.Calls(est, hrpcRI+"MarkAvailable") {
			if kit.Root(ma.Common().Value) != orig || !kit.Reaches(put.(ssa.Instruction), ma.(ssa.Instruction)) {
				continue
			}
			// only the releases that can follow this very put (not those of a later iteration)
			e := kit.PathFrom(put.(ssa.Instruction), kit.PathQuery{
				Target: func(x ssa.Instruction) bool { return x == ma.(ssa.Instruction) },
				Stop: func(x ssa.Instruction) bool {
					return x.Block() == done || (x.Block() == lookup.Block() && x == lookup.(ssa.Instruction))
				},
				SkipEdge: func(from, to *ssa.BasicBlock) bool {
					for _, f := range kit.EdgeFacts(from, to) {
						if f.Cond == repl && !f.Pol {
							return true
						}
						if u, ok := f.Cond.(*ssa.UnOp); ok && u.Op == token.NOT && u.X == repl && f.Pol {
							return true
						}
					}
					return false
				},
			})
			nm++
			c.Check(e == nil, est, "release-after-detach", ma.Pos(), "waiters of the original are released only where put kept the cache unchanged or after the loop that detaches the evicted regions from the connection cache",
				"waiters of the original region are woken before the evicted regions (the original among them) are detached from the connection cache: a woken request still finds the stale client and is queued for the dead parent region: "+c.BlockPath(e))
		}
		if nm == 0 {
			c.Unk(est, "release-after-detach", put.Pos(), "no release of the original region after regions.put found")
		}
	}
	// (d)
	ns := 0
	sleepName := kit.M("", "", "sleepAndIncreaseBackoff")
	for _, sc := range kit.Calls(est, hrpcRI+"SetClient") {
		ns++
		for _, ma := range kit.Calls(est, hrpcRI+"MarkAvailable") {
			if kit.Root(sc.Common().Value) != kit.Root(ma.Common().Value) {
				continue
			}
			// released, and then - in the same attempt - published
			e := kit.PathFrom(ma.(ssa.Instruction), kit.PathQuery{
				Target: func(x ssa.Instruction) bool { return x == sc.(ssa.Instruction) },
				Stop: func(x ssa.Instruction) bool {
					call, ok := x.(*ssa.Call)
					return ok && kit.CalleeName(call) == sleepName
				},
			})
			c.Check(e == nil, est, "publish-before-release", ma.Pos(), "no way from this MarkAvailable to the SetClient of the same attempt",
				"the region is made available before its connection is set: a woken request reads the old (or no) connection while later calls of the same batch read the new one, so one region's calls are split over two servers and their order is lost")
		}
	}
	if ns == 0 {
		c.Unk(est, "publish-before-release", est.Pos(), "establishRegion no longer sets the connection of the region")
	}
}

// nameOfPkgFunc is a small helper for callee names of package-level functions.
func nameOfPkgFunc(path, name string) string { return strings.TrimSuffix(path, "/") + "." + name }

// conditionalMutationsAreNotBatchable: a CheckAndPut loses its condition inside a MultiRequest (only the
// mutation is carried), so its constructor flags the very Mutate it wraps as skip-batch. C12.R1.
func conditionalMutationsAreNotBatchable(c *kit.Ctx) {
	ncp := c.Anchor("hrpc", "", "NewCheckAndPut")
	mutF := c.P.Field("hrpc", "CheckAndPut", "Mutate")
	if ncp == nil || mutF == nil {
		if ncp != nil {
			c.Unk(ncp, "conditional-not-batchable", ncp.Pos(), "hrpc.CheckAndPut no longer embeds its Mutate")
		}
		return
	}
	n := 0
	kit.Instrs(ncp, func(in ssa.Instruction) {
		st, ok := in.(*ssa.Store)
		if !ok {
			return
		}
		fa, ok := st.Addr.(*ssa.FieldAddr)
		if !ok || kit.FieldVar(fa.X.Type(), fa.Field) != mutF {
			return
		}
		n++
		good := false
		for _, call := range kit.Calls(ncp, kit.M("hrpc", "*Mutate", "setSkipBatch")) {
			args := call.Common().Args
			if len(args) == 2 && kit.Root(args[0]) == kit.Root(st.Val) && kit.Dominates(call.(ssa.Instruction), st) {
				if k, ok := kit.Root(args[1]).(*ssa.Const); ok && k.Value != nil && k.Value.ExactString() == "true" {
					good = true
				}
			}
		}
		c.Check(good, ncp, "conditional-not-batchable", st.Pos(), "the wrapped Mutate itself is flagged skip-batch before it is embedded", "the Mutate embedded in the CheckAndPut is not the one flagged skip-batch: SendBatch accepts the call, the MultiRequest carries only the mutation and the put is executed unconditionally")
	})
	if n == 0 {
		c.Unk(ncp, "conditional-not-batchable", ncp.Pos(), "NewCheckAndPut no longer fills the Mutate of the call it returns")
	}
}

// clearedCallSlotsAreSkipped: multi.toProto clears the slot of a call whose own context is done (nobody
// waits for it any more); every later loop over m.calls must skip the cleared slots before it calls a
// method of the element - a nil hrpc.Call panics the connection's reader goroutine, and nobody in the batch
// gets a response. Shared by C02.R5, C07.R5 and C11.K2.
func clearedCallSlotsAreSkipped(c *kit.Ctx) {
	callsF := c.P.Field("region", "multi", "calls")
	mtp := c.P.Func("region", "multi", "toProto")
	if callsF == nil || mtp == nil {
		c.Unk(nil, "cleared-slots", token.NoPos, "region.multi.calls / toProto not found")
		return
	}
	// precondition of the rule: toProto does clear slots
	clears := false
	kit.Instrs(mtp, func(in ssa.Instruction) {
		if st, ok := in.(*ssa.Store); ok {
			if ia, ok := st.Addr.(*ssa.IndexAddr); ok && isLoadOfField(ia.X, callsF) && kit.IsNilConst(kit.Root(st.Val)) {
				clears = true
			}
		}
	})
	if !clears {
		c.OK(mtp, "cleared-slots", mtp.Pos(), "toProto no longer clears slots of m.calls: nothing to skip")
		return
	}
	n := 0
	for _, fn := range c.P.Funcs {
		if fn.Signature.Recv() == nil || !strings.HasSuffix(fn.Signature.Recv().Type().String(), "region.multi") || fn == mtp {
			continue
		}
		kit.Instrs(fn, func(in ssa.Instruction) {
			ld, ok := in.(*ssa.UnOp)
			if !ok || ld.Op != token.MUL {
				return
			}
			ia, ok := ld.X.(*ssa.IndexAddr)
			if !ok || !isLoadOfField(ia.X, callsF) {
				return
			}
			if _, isRange := rangeOfIndex(ia.Index); !isRange {
				return // indexed by a response-chosen index: validated in DeserializeCellBlocks (C11.K4 multiIndexValidated)
			}
			for _, r := range kit.Referrers(ld) {
				call, ok := r.(ssa.CallInstruction)
				if !ok || !call.Common().IsInvoke() || call.Common().Value != ssa.Value(ld) {
					continue
				}
				n++
				good := false
				for _, f := range kit.FactsAt(r.Block()) {
					if cmp, ok := kit.CanonCmp(f.Cond, f.Pol); ok && cmp.Op == token.NEQ && kit.IsNilConst(cmp.Y) && cmp.X == ssa.Value(ld) {
						good = true
					}
				}
				c.Check(good, fn, "cleared-slot-skipped", r.Pos(), "method of an element of m.calls called only where the element is known not to be nil", "a method is called on an element of m.calls without skipping the slots toProto cleared (calls whose own context had expired): nil interface call in the reader goroutine - the process dies and no call of the batch gets its response")
			}
		})
	}
	if n == 0 {
		c.Unk(mtp, "cleared-slot-skipped", mtp.Pos(), "no loop over m.calls calls a method of its elements any more")
	}
}

// resultOnWayFrom reports the value (true/false/"" = not constant) that result k of fn has when control
// leaves the block of instruction at: the input that the first merge after it feeds into the phi web of
// that result.
func resultOnWayFrom(fn *ssa.Function, at ssa.Instruction, k int) string {
	inWeb := map[ssa.Value]bool{}
	var grow func(v ssa.Value)
	grow = func(v ssa.Value) {
		if inWeb[v] {
			return
		}
		inWeb[v] = true
		if ph, ok := v.(*ssa.Phi); ok {
			for _, e := range ph.Edges {
				grow(e)
			}
		}
	}
	// the result may be "no failure was counted": failed == 0 with failed a counter that only grows
	counting := false
	kit.Instrs(fn, func(in ssa.Instruction) {
		if r, ok := in.(*ssa.Return); ok && k < len(r.Results) {
			rv := kit.Res(r, k)
			if cmp, ok := kit.CanonCmp(rv, true); ok && !cmp.Bytes && cmp.Op == token.EQL {
				if z, isK := kit.ConstInt(cmp.Y); isK && z == 0 {
					if ph, isPhi := kit.Strip(cmp.X).(*ssa.Phi); isPhi {
						counting = true
						grow(ph)
						return
					}
				}
			}
			grow(rv)
		}
	})
	b := at.Block()
	for steps := 0; steps < 8 && len(b.Succs) == 1; steps++ {
		m := b.Succs[0]
		if len(m.Preds) > 1 {
			for _, x := range m.Instrs {
				ph, ok := x.(*ssa.Phi)
				if !ok {
					break
				}
				if !inWeb[ph] {
					continue
				}
				if counting {
					for i, q := range m.Preds {
						if q == b {
							if bo, ok := kit.Strip(ph.Edges[i]).(*ssa.BinOp); ok && bo.Op == token.ADD && inWeb[kit.Strip(bo.X)] {
								if inc, isK := kit.ConstInt(bo.Y); isK && inc > 0 {
									return "false"
								}
							}
							return ""
						}
					}
					continue
				}
				for i, q := range m.Preds {
					if q == b {
						if kc, ok := kit.Root(ph.Edges[i]).(*ssa.Const); ok && kc.Value != nil {
							return kc.Value.ExactString()
						}
						return ""
					}
				}
			}
			return ""
		}
		b = m
	}
	return ""
}

// locateFailuresClearOK: in findClients every call that is given an error instead of a connection makes the
// function report failure; SendBatch copies the per-round lookup errors into the real results only then.
// C07.R5 (shared with C12.R1: a batch with a call that could not be located is not sent).
func locateFailuresClearOK(c *kit.Ctx) {
	fc := c.Anchor("", "client", "findClients")
	if fc == nil {
		return
	}
	k := -1
	for i := 0; i < fc.Signature.Results().Len(); i++ {
		if bt, ok := fc.Signature.Results().At(i).Type().Underlying().(*types.Basic); ok && bt.Kind() == types.Bool {
			k = i
		}
	}
	if k < 0 {
		c.Unk(fc, "locate-failure-reported", fc.Pos(), "findClients no longer has a boolean result")
		return
	}
	n := 0
	kit.Instrs(fc, func(in ssa.Instruction) {
		st, ok := in.(*ssa.Store)
		if !ok || !kit.IsErrorType(st.Val.Type()) {
			return
		}
		fa, ok := st.Addr.(*ssa.FieldAddr)
		if !ok {
			return
		}
		ia, ok := fa.X.(*ssa.IndexAddr)
		if !ok || !isResultSlice(c.P, ia.X.Type()) {
			return
		}
		n++
		c.Check(resultOnWayFrom(fc, st, k) == "false", fc, "locate-failure-reported", st.Pos(), "the boolean result is false on the way that gives a call an error", "findClients gives a call an error without reporting failure: SendBatch discards the per-round errors unless findClients says !ok, so the call ends with a placeholder or a stale error and the batch reports success")
	})
	if n == 0 {
		c.Unk(fc, "locate-failure-reported", fc.Pos(), "findClients no longer writes lookup errors into the result slots")
	}
}

// dialStartsTheBatcher: a region client that connected always runs its batching goroutine: QueueBatch and
// QueueRPC hand their calls over on an unbuffered channel that only processRPCs reads. Shared by C07.R6,
// C03.R2 and C19.
func dialStartsTheBatcher(c *kit.Ctx) {
	dial := c.Anchor("region", "client", "Dial")
	ctypeF := c.P.Field("region", "client", "ctype")
	if dial == nil {
		return
	}
	proc, recv := kit.M("region", "*client", "processRPCs"), kit.M("region", "*client", "receiveRPCs")
	n := 0
	for _, fn := range kit.WithAnon(dial) {
		var goRecv []ssa.Instruction
		kit.Instrs(fn, func(in ssa.Instruction) {
			if g, ok := in.(*ssa.Go); ok && kit.CalleeName(g) == recv {
				goRecv = append(goRecv, g)
			}
		})
		for _, g := range goRecv {
			n++
			e := kit.PathFromEntry(fn, kit.PathQuery{
				Target: func(x ssa.Instruction) bool { return x == g },
				Stop: func(x ssa.Instruction) bool {
					gg, ok := x.(*ssa.Go)
					return ok && kit.CalleeName(gg) == proc
				},
				SkipEdge: func(from, to *ssa.BasicBlock) bool {
					// the master client has no batcher: the edge on which ctype != RegionClient
					for _, f := range kit.EdgeFacts(from, to) {
						cmp, ok := kit.CanonCmp(f.Cond, f.Pol)
						if !ok || cmp.Op != token.NEQ || ctypeF == nil {
							continue
						}
						if isLoadOfField(cmp.X, ctypeF) || isLoadOfField(cmp.Y, ctypeF) {
							_, xc := kit.Root(cmp.X).(*ssa.Const)
							_, yc := kit.Root(cmp.Y).(*ssa.Const)
							if xc || yc {
								return true
							}
						}
					}
					return false
				},
			})
			c.Check(e == nil, fn, "batcher-started", g.Pos(), "every way to the start of the reader passes 'go c.processRPCs()' (except for the master client type)", "a region client can connect without starting its batching goroutine: QueueBatch blocks for ever on the unbuffered hand-off channel, no call of any batch is sent or answered: "+c.BlockPath(e))
		}
	}
	if n == 0 {
		c.Unk(dial, "batcher-started", dial.Pos(), "Dial no longer starts the reader goroutine")
	}
}

// failedSendClaimsItsCall: when send reports an error the call is already registered; trySend must try
// to take it out of the sent table on every way (and hand the error back if it got it). Leaving that to
// fail() is not enough: fail runs once, and a call registered after its drain is completed by nobody.
// C03.R3 (and through the embedded C03 rules C02, C04, C07, C09, C18).
func failedSendClaimsItsCall(c *kit.Ctx) {
	ts := c.Anchor("region", "client", "trySend")
	if ts == nil {
		return
	}
	unreg := kit.M("region", "*client", "unregisterRPC")
	n := 0
	for _, s := range kit.Calls(ts, kit.M("region", "*client", "send")) {
		errV := kit.ExtractOf(s.Value(), 1)
		if errV == nil {
			continue
		}
		for _, r := range kit.Referrers(errV) {
			bo, ok := r.(*ssa.BinOp)
			if !ok {
				continue
			}
			for _, rr := range kit.Referrers(bo) {
				iff, ok := rr.(*ssa.If)
				if !ok {
					continue
				}
				cmp, ok := kit.CanonCmp(iff.Cond, true)
				if !ok || !kit.IsNilConst(cmp.Y) || (cmp.Op != token.NEQ && cmp.Op != token.EQL) {
					continue
				}
				failed := kit.SuccOnTrue(iff)
				if cmp.Op == token.EQL {
					failed = kit.SuccOnFalse(iff)
				}
				n++
				e := kit.PathFromBlock(failed, kit.PathQuery{Stop: func(x ssa.Instruction) bool {
					call, ok := x.(*ssa.Call)
					return ok && kit.CalleeName(call) == unreg
				}})
				c.Check(e == nil, ts, "failed-send-claims", iff.Pos(), "after a failed send every way to a return passes unregisterRPC", "after a failed send trySend can return without trying to unregister the call (e.g. leaving it to fail()): a call that was registered after the failure transition drained the table is completed by nobody and its caller waits for ever: "+c.BlockPath(e))
			}
		}
	}
	if n == 0 {
		c.Unk(ts, "failed-send-claims", ts.Pos(), "trySend no longer tests the error of send")
	}
}

// closedErrorOnlyWhenClosed: ErrClientClosed is a connection-level error: whoever receives it declares
// the connection dead and removes it from the cache. The queueing functions may therefore hand it out only
// in the select arm in which the connection's done channel was seen closed (not, say, when the caller's
// context is done: that would purge a live, shared connection and lead to a second dial).
// C20.R3 and C03.R5.
func closedErrorOnlyWhenClosed(c *kit.Ctx) {
	p := c.P
	doneF := p.Field("region", "client", "done")
	errClosed := p.Global("region", "ErrClientClosed")
	if doneF == nil || errClosed == nil {
		c.Unk(nil, "closed-error-only-when-closed", token.NoPos, "region.client.done / region.ErrClientClosed not found")
		return
	}
	n := 0
	for _, nm := range []string{"QueueRPC", "QueueBatch"} {
		fn := c.Anchor("region", "client", nm)
		if fn == nil {
			continue
		}
		kit.Instrs(fn, func(in ssa.Instruction) {
			delivers := false
			switch y := in.(type) {
			case *ssa.Call:
				for _, a := range y.Call.Args {
					if usesGlobal(a, errClosed) {
						delivers = true
					}
				}
			case *ssa.Send:
				delivers = sendsErrClosed(y, errClosed)
			}
			if !delivers {
				return
			}
			n++
			good := false
			for _, st := range selectArmsAt(in.Block()) {
				if st.Dir == types.RecvOnly && isLoadOfField(st.Chan, doneF) {
					good = true
				}
			}
			c.Check(good, fn, "closed-error-only-when-closed", in.Pos(), "ErrClientClosed is handed out only in the <-c.done arm", "ErrClientClosed (a ServerError) is handed to calls where the connection is not known to be closed, e.g. when the caller's context is done: the root client declares the live, shared connection dead, removes it from the cache and dials the server again")
		})
	}
	if n == 0 {
		c.Unk(nil, "closed-error-only-when-closed", token.NoPos, "QueueRPC/QueueBatch no longer refuse calls with ErrClientClosed")
	}
}

// headerExceptionIsClassified: the error receive gives a call for an exception response is exactly what
// exceptionToError made of the class name - no flag of the response may bypass the class tables. C04.R1.
func headerExceptionIsClassified(c *kit.Ctx) {
	recv := c.Anchor("region", "client", "receive")
	excF := c.P.Field("pb", "ResponseHeader", "Exception")
	if recv == nil || excF == nil {
		return
	}
	n := 0
	kit.Instrs(recv, func(in ssa.Instruction) {
		r, ok := in.(*ssa.Return)
		if !ok {
			return
		}
		has := false
		for _, f := range kit.FactsAt(r.Block()) {
			if cmp, ok := kit.CanonCmp(f.Cond, f.Pol); ok && cmp.Op == token.NEQ && kit.IsNilConst(cmp.Y) && isLoadOfField(cmp.X, excF) {
				has = true
			}
		}
		if !has {
			return
		}
		n++
		good := isClassifiedError(returnedError(r), 0) || isClassifiedError(kit.Res(r, len(r.Results)-1), 0)
		c.Check(good, recv, "exception-classified", r.Pos(), "the error of an exception response is the result of exceptionToError, unchanged", "an exception response can be turned into an error that did not come out of exceptionToError unchanged (e.g. because of its do_not_retry flag): the client's reaction no longer depends on the exception class alone - a stopping master, a moved region or a full call queue is reported to the caller instead of being retried")
	})
	if n == 0 {
		c.Unk(recv, "exception-classified", recv.Pos(), "receive no longer returns on header.Exception != nil")
	}
}

// ---------------------------------------------------------------------------------------------
// locks held across blocking operations

type heldSite struct {
	fn    *ssa.Function
	at    ssa.Instruction // the call or operation made while the lock is held
	locks kit.LockSet
	op    kit.BlockingOp // the blocking operation it reaches
}

// resultChanSend: a send on the result channel of a call (capacity 1, one result per call: C13.R1 table).
func resultChanSend(op kit.BlockingOp) bool {
	s, ok := op.Instr.(*ssa.Send)
	if !ok {
		return false
	}
	call, ok := kit.Root(s.Chan).(*ssa.Call)
	return ok && kit.CalleeName(call) == hrpcCall+"ResultChan"
}

// blockingReach returns a blocking operation reachable synchronously from fn (nil if none), ignoring sends
// on result channels.
func blockingReach(p *kit.Prog, fn *ssa.Function, memo map[*ssa.Function]*kit.BlockingOp) *kit.BlockingOp {
	if r, ok := memo[fn]; ok {
		return r
	}
	memo[fn] = nil
	reach := p.SyncReach([]*ssa.Function{fn}, nil)
	for _, f := range reach.Order {
		for _, op := range kit.BlockingOps(f) {
			if resultChanSend(op) {
				continue
			}
			o := op
			memo[fn] = &o
			return &o
		}
	}
	return nil
}

// locksHeldAcrossBlocking enumerates, over all non-test module functions, the places where a mutex locked
// in that function is held while a blocking operation is performed: directly, through a synchronous call,
// or through a function value the caller passed in (the factory callback of clientRegionCache.put).
func locksHeldAcrossBlocking(p *kit.Prog) []heldSite {
	var out []heldSite
	memo := map[*ssa.Function]*kit.BlockingOp{}
	// functions that call one of their parameters while holding a lock: parameter index -> locks
	type pcall struct {
		idx   int
		locks kit.LockSet
		at    ssa.Instruction
	}
	paramCalls := map[*ssa.Function][]pcall{}
	for _, fn := range p.Funcs {
		if !p.IsSubject(fn) || len(fn.Blocks) == 0 {
			continue
		}
		locks := kit.AnalyzeLocks(fn, kit.LockSet{})
		direct := map[ssa.Instruction]bool{}
		for _, op := range kit.BlockingOps(fn) {
			direct[op.Instr] = true
			held := locks.At(op.Instr)
			if len(held) == 0 || resultChanSend(op) {
				continue
			}
			out = append(out, heldSite{fn, op.Instr, held, op})
		}
		kit.Instrs(fn, func(in ssa.Instruction) {
			call, ok := in.(ssa.CallInstruction)
			if !ok || direct[in] {
				return
			}
			if _, isGo := in.(*ssa.Go); isGo {
				return
			}
			if _, isDefer := in.(*ssa.Defer); isDefer {
				return
			}
			held := locks.At(in)
			if len(held) == 0 {
				return
			}
			if _, _, isLock := kit.LockOp(call); isLock {
				return
			}
			if pa, ok := kit.Root(call.Common().Value).(*ssa.Parameter); ok && !call.Common().IsInvoke() {
				for i, q := range fn.Params {
					if q == pa {
						paramCalls[fn] = append(paramCalls[fn], pcall{i, held, in})
					}
				}
				return
			}
			cs, _ := p.Callees(call)
			var targets []*ssa.Function
			targets = append(targets, cs...)
			for _, a := range call.Common().Args {
				switch f := kit.Strip(a).(type) {
				case *ssa.MakeClosure:
					targets = append(targets, f.Fn.(*ssa.Function))
				case *ssa.Function:
					if f.Parent() != nil {
						targets = append(targets, f)
					}
				}
			}
			for _, t := range targets {
				if t == nil || !p.IsSubject(t) {
					continue
				}
				if op := blockingReach(p, t, memo); op != nil {
					out = append(out, heldSite{fn, in, held, *op})
					return
				}
			}
		})
	}
	for g, pcs := range paramCalls {
		name := calleeFullName(g)
		for _, s := range callersOf(p, name) {
			args := s.Common().Args
			for _, pc := range pcs {
				if pc.idx >= len(args) {
					continue
				}
				var t *ssa.Function
				switch f := kit.Strip(args[pc.idx]).(type) {
				case *ssa.MakeClosure:
					t = f.Fn.(*ssa.Function)
				case *ssa.Function:
					t = f
				}
				if t == nil {
					continue
				}
				if op := blockingReach(p, t, memo); op != nil {
					out = append(out, heldSite{s.Parent(), s.(ssa.Instruction), pc.locks, *op})
				}
			}
		}
	}
	return out
}

// heldAcrossTable: the places where the pinned tree deliberately holds a mutex across a blocking operation.
var heldAcrossTable = map[string]string{
	"(*region.client).send|writeM": "the request frame is written under writeM so that frames of concurrent senders do not interleave (fix 233b7e7); a stuck write is released by conn.Close() in the failure transition, which takes no lock",
}

// noBlockingWhileLocked: no mutex is held across a blocking operation (C13.R8: everybody else who needs the
// mutex - API callers included - would block in Lock(), which watches no context), except the tabled sites;
// and nothing on the Close path acquires a mutex that a tabled site holds across blocking (C19.R3: Close
// would wait for a stuck network write).
func noBlockingWhileLocked(c *kit.Ctx, closePath bool, closeEntries ...[3]string) {
	p := c.P
	sites := locksHeldAcrossBlocking(p)
	heldAcross := map[*types.Var]string{}
	used := map[string]bool{}
	n := 0
	for _, s := range sites {
		tabled := ""
		for k := range s.locks {
			key := kit.FuncName(s.fn) + "|" + k.Field.Name()
			if why, ok := heldAcrossTable[key]; ok {
				tabled = why
				used[key] = true
				heldAcross[k.Field] = kit.FuncName(s.fn)
			}
		}
		if closePath {
			continue
		}
		n++
		if tabled != "" {
			c.OK(s.fn, "lock-across-blocking", s.at.Pos(), "tabled: "+tabled)
			continue
		}
		c.Bad(s.fn, "lock-across-blocking", s.at.Pos(), "mutex "+s.locks.String()+" is held while a blocking operation is performed ("+s.op.Kind+" at "+p.Pos(s.op.Instr.Pos())+"): every other goroutine that needs the mutex - a request of an API caller among them - blocks in Lock(), which watches no context, for as long as that operation takes", "")
	}
	for k, why := range heldAcrossTable {
		if !used[k] {
			c.Unk(nil, "lock-across-blocking-table", token.NoPos, "stale table entry "+k+" ("+why+"): the site no longer holds that mutex across a blocking operation")
		}
	}
	if !closePath {
		if n == 0 {
			c.Unk(nil, "lock-across-blocking", token.NoPos, "no lock-across-blocking site enumerated (the tabled write under writeM is gone)")
		}
		return
	}
	// Close path / failure transition
	var entries []*ssa.Function
	for _, a := range closeEntries {
		if fn := c.Anchor(a[0], a[1], a[2]); fn != nil {
			entries = append(entries, fn)
		}
	}
	reach := p.SyncReach(entries, nil)
	m := 0
	for _, fn := range reach.Order {
		kit.Instrs(fn, func(in ssa.Instruction) {
			call, ok := in.(ssa.CallInstruction)
			if !ok {
				return
			}
			key, op, isLock := kit.LockOp(call)
			if !isLock || (op != "lock" && op != "rlock") {
				return
			}
			m++
			holder, bad := heldAcross[key.Field]
			c.Check(!bad, fn, "close-takes-no-stuck-lock", in.Pos(), "mutex "+key.Field.Name()+" is never held across a blocking operation", "the Close path / failure transition acquires "+key.Field.Name()+", which "+holder+" holds across a blocking network write: when the server stops reading, the write blocks with the mutex held, only closing the connection can release it - which now waits for the mutex first: the connection is never closed, the sent calls are never failed, Close never returns")
		})
	}
	if m == 0 {
		c.Unk(nil, "close-takes-no-stuck-lock", token.NoPos, "no lock acquisition on the Close path (closeAll takes the cache lock): enumeration broken")
	}
}

// probeClassifiesOutcome: the probe of the establisher says "not established" exactly for the three
// transport/region classes and "established" for everything else. Dropping a class makes a region that is
// not online count as established (the request gets the same error, a new establisher starts without
// waiting: zero-wait loop - C17); treating every error as "not established" makes an application-level answer
// (e.g. access denied) keep the region unavailable for ever and strand every waiter (C09). Shared by C04.R2,
// C09.R4 and C17.R3.
func probeClassifiesOutcome(c *kit.Ctx) {
	p := c.P
	fn := c.Anchor("", "", "isRegionEstablished")
	if fn == nil {
		return
	}
	classes := map[string]bool{}
	for _, n := range []string{"ServerError", "NotServingRegionError", "RetryableError"} {
		if t := p.Named("region", n); t != nil {
			classes[t.String()] = false
		}
	}
	okFacts := map[ssa.Value]bool{} // comma-ok results of class assertions
	kit.Instrs(fn, func(in ssa.Instruction) {
		ta, ok := in.(*ssa.TypeAssert)
		if !ok || !kit.IsErrorType(ta.X.Type()) {
			return
		}
		if _, isClass := classes[ta.AssertedType.String()]; !isClass {
			return
		}
		classes[ta.AssertedType.String()] = true
		if ta.CommaOk {
			if ex := kit.ExtractOf(ta, 1); ex != nil {
				okFacts[ex] = true
			}
		}
	})
	var missing []string
	for n, seen := range classes {
		if !seen {
			missing = append(missing, n)
		}
	}
	c.Check(len(missing) == 0 && len(classes) == 3, fn, "probe-classes", fn.Pos(), "the probe distinguishes ServerError, NotServingRegionError and RetryableError", "the probe no longer treats "+strings.Join(missing, ", ")+" as 'region not established': a region that is not online is declared established after its first probe, the request fails again at once and a fresh establisher starts without waiting - a zero-wait loop of lookup, probe and request")
	kit.Instrs(fn, func(in ssa.Instruction) {
		r, ok := in.(*ssa.Return)
		if !ok {
			return
		}
		ev := returnedError(r)
		if ev == nil || kit.IsNilConst(kit.Root(ev)) {
			return
		}
		good := kit.OnAllWays(r.Block(), func(facts []kit.Fact) bool {
			for _, f := range facts {
				if f.Pol && okFacts[f.Cond] {
					return true
				}
			}
			return false
		}, 0)
		c.Check(good, fn, "probe-unclassified-is-established", r.Pos(), "an error is returned only where it was recognised as one of the three classes", "the probe reports 'not established' for an error outside the three classes (an application-level answer such as access denied on the probed row): the establisher loops for ever, the region never becomes available and every request waiting for it stays blocked")
	})
}

// guardsAreTight: a length read off the wire is validated by a guard and then used in an unsigned
// subtraction A - B (the length of what is left). The guard that protects the subtraction must be exactly
// A - B >= 0: a stricter one (A - B >= 1, typically "<=" written for "<") rejects the boundary value - a field
// of length zero, which the client's own encoder writes (empty qualifier of a family delete, empty value).
// Shared by C10.R4, C06.R1 and C15.R1.
func guardsAreTight(c *kit.Ctx, eng *bounds.Engine, fns []*ssa.Function) {
	n := 0
	for _, fn := range fns {
		if fn == nil {
			continue
		}
		kit.Instrs(fn, func(in ssa.Instruction) {
			bo, ok := in.(*ssa.BinOp)
			if !ok || bo.Op != token.SUB {
				return
			}
			if bt, ok := bo.Type().Underlying().(*types.Basic); !ok || bt.Info()&types.IsUnsigned == 0 {
				return
			}
			// only the end of a chain a - b - c - ...: the intermediate differences have slack by construction
			for _, r := range kit.Referrers(bo) {
				if nx, ok := r.(*ssa.BinOp); ok && nx.Op == token.SUB && nx.X == ssa.Value(bo) {
					return
				}
			}
			d := eng.Lin(bo.X).Sub(eng.Lin(bo.Y))
			if _, isConst := d.IsConst(); isConst {
				return
			}
			var tight, strict *bounds.Fact
			facts := eng.FactsAt(bo.Block(), kit.InstrIndex(bo))
			for i := range facts {
				k, isConst := facts[i].E.Sub(d).IsConst()
				if !isConst {
					continue
				}
				if k == 0 {
					tight = &facts[i]
				}
				if k < 0 {
					strict = &facts[i]
				}
			}
			if tight == nil && strict == nil {
				return
			}
			n++
			if strict != nil && tight == nil {
				c.Bad(fn, "guard-tight", bo.Pos(), "the guard in front of this subtraction ("+strict.Why+") demands more than the subtraction needs: the boundary value - a field of length zero, e.g. the empty qualifier the client itself writes for a family delete - is rejected as malformed and the response that carries it can never be decoded", "")
				return
			}
			c.OK(fn, "guard-tight", bo.Pos(), "protected by exactly A - B >= 0 ("+tight.Why+")")
		})
	}
	if n == 0 {
		c.Unk(nil, "guard-tight", token.NoPos, "no guarded unsigned subtraction found in the decoders this rule ranges over")
	}
}

// ---------------------------------------------------------------------------------------------
// the send path shares no mutable memory between requests

// ptrOrigins classifies what a pointer/slice value can point into: "global" (a package-level object),
// "recv-field" (state of the receiver), "fresh", "param", "call". Pointers loaded from a field of a local
// object are resolved through the stores into that field in the same function.
func ptrOrigins(fn *ssa.Function, v ssa.Value, depth int, seen map[ssa.Value]bool) map[string]ssa.Value {
	out := map[string]ssa.Value{}
	if depth > 6 || seen[v] {
		return out
	}
	seen[v] = true
	add := func(m map[string]ssa.Value) {
		for k, x := range m {
			out[k] = x
		}
	}
	switch x := v.(type) {
	case *ssa.Global:
		out["global"] = x
	case *ssa.Alloc, *ssa.MakeSlice, *ssa.MakeMap:
		out["fresh"] = x
	case *ssa.Parameter, *ssa.FreeVar:
		out["param"] = x
	case *ssa.Const:
	case *ssa.Call:
		if b, ok := x.Call.Value.(*ssa.Builtin); ok && b.Name() == "append" {
			add(ptrOrigins(fn, x.Call.Args[0], depth+1, seen))
			out["fresh"] = x
			return out
		}
		out["call"] = x
	case *ssa.Phi:
		for _, e := range x.Edges {
			add(ptrOrigins(fn, e, depth+1, seen))
		}
	case *ssa.FieldAddr:
		add(ptrOrigins(fn, x.X, depth+1, seen))
	case *ssa.IndexAddr:
		add(ptrOrigins(fn, x.X, depth+1, seen))
	case *ssa.Slice:
		add(ptrOrigins(fn, x.X, depth+1, seen))
	case *ssa.ChangeType:
		add(ptrOrigins(fn, x.X, depth+1, seen))
	case *ssa.Convert:
		add(ptrOrigins(fn, x.X, depth+1, seen))
	case *ssa.MakeInterface:
		add(ptrOrigins(fn, x.X, depth+1, seen))
	case *ssa.Extract:
		out["call"] = x
	case *ssa.TypeAssert:
		add(ptrOrigins(fn, x.X, depth+1, seen))
	case *ssa.UnOp:
		if x.Op != token.MUL {
			return out
		}
		switch a := x.X.(type) {
		case *ssa.TypeAssert, *ssa.Call, *ssa.Extract:
			// what a pointer that came out of a call points to: wherever the call got it from
			add(ptrOrigins(fn, a, depth+1, seen))
		case *ssa.Global:
			out["global"] = a
		case *ssa.Alloc:
			// local variable holding a pointer: the values stored into it
			for _, r := range kit.Referrers(a) {
				if st, ok := r.(*ssa.Store); ok && st.Addr == ssa.Value(a) {
					add(ptrOrigins(fn, st.Val, depth+1, seen))
				}
			}
		case *ssa.FieldAddr:
			base := ptrOrigins(fn, a.X, depth+1, map[ssa.Value]bool{})
			if _, isParam := base["param"]; isParam {
				out["recv-field"] = a
			}
			if _, isGlobal := base["global"]; isGlobal {
				out["global"] = a
			}
			// the values stored into this field of the same object in this function
			fv := kit.FieldVar(a.X.Type(), a.Field)
			kit.Instrs(fn, func(in ssa.Instruction) {
				st, ok := in.(*ssa.Store)
				if !ok {
					return
				}
				fa, ok := st.Addr.(*ssa.FieldAddr)
				if !ok || kit.FieldVar(fa.X.Type(), fa.Field) != fv {
					return
				}
				// any object of this type built in this function (field-based, not object-based: the request
				// structs are built by nested composite literals whose addresses are re-loaded from fields)
				add(ptrOrigins(fn, st.Val, depth+1, seen))
			})
		case *ssa.IndexAddr:
			add(ptrOrigins(fn, a.X, depth+1, seen))
		}
	}
	return out
}

// sendPathSharesNoMemory: building and framing a request happens outside any lock, concurrently for all
// callers of a connection (send runs on the batching goroutine and on every caller of an unbatched call).
// Therefore, in the synchronous closure of send (every ToProto / SerializeCellBlocks, marshalProto, the
// compressor): (a) nothing is written through a pointer or slice that lives in a package-level variable;
// (b) no field of the connection or its compressor is written, and no buffer kept in such a field is filled,
// unless a mutex is held; (c) what is handed to freeBuffer came from newBuffer (a package-level or otherwise
// shared slice put into the pool is handed out again as somebody's scratch buffer). C05.R6, shared with C15.R2.
func sendPathSharesNoMemory(c *kit.Ctx) {
	p := c.P
	send := c.Anchor("region", "client", "send")
	if send == nil {
		return
	}
	env := kit.NewLockEnv(p)
	reach := p.SyncReach([]*ssa.Function{send}, nil)
	nStores, nFree := 0, 0
	isConnState := func(t types.Type) bool {
		s := t.String()
		return strings.HasSuffix(s, "region.client") || strings.HasSuffix(s, "region.compressor")
	}
	for _, fn := range reach.Order {
		if fn.Pkg == nil && fn.Parent() == nil {
			continue
		}
		kit.Instrs(fn, func(in ssa.Instruction) {
			var addr ssa.Value
			switch x := in.(type) {
			case *ssa.Store:
				addr = x.Addr
			case *ssa.Call:
				if b, ok := x.Call.Value.(*ssa.Builtin); ok && b.Name() == "copy" {
					addr = x.Call.Args[0]
				}
				if kit.CalleeName(x) == kit.M("region", "", "freeBuffer") {
					return
				}
			}
			if addr == nil {
				return
			}
			if _, isLocal := addr.(*ssa.Alloc); isLocal {
				return
			}
			nStores++
			org := ptrOrigins(fn, addr, 0, map[ssa.Value]bool{})
			if g, bad := org["global"]; bad {
				c.Bad(fn, "send-path-shares-no-memory", in.Pos(), "a request is built by writing into memory that lives in a package-level variable ("+kit.Path(g)+"): every later request that uses the same object goes out with this request's value, and concurrent senders race on it", "")
				return
			}
			// (b) state of the connection
			var base ssa.Value
			switch a := addr.(type) {
			case *ssa.FieldAddr:
				base = a.X
			default:
				if f, isF := org["recv-field"]; isF {
					base = f.(*ssa.FieldAddr).X
				}
			}
			if base != nil {
				if pa, isParam := kit.Root(base).(*ssa.Parameter); isParam && len(fn.Params) > 0 && pa == fn.Params[0] && fn.Signature.Recv() != nil && isConnState(fn.Signature.Recv().Type()) {
					if len(env.At(in)) == 0 {
						c.Bad(fn, "send-path-shares-no-memory", in.Pos(), "state of the connection is written while a request is being built, with no mutex held: requests are built concurrently (batching goroutine and every caller of an unbatched call), so one request's bytes end up in another's frame", "")
						return
					}
				}
			}
		})
		// (c)
		for _, call := range kit.Calls(fn, kit.M("region", "", "freeBuffer")) {
			nFree++
			bad := bufferNotFromPool(p, fn, call.Common().Args[0], 0)
			c.Check(bad == "", fn, "freed-buffer-came-from-the-pool", call.Pos(), "what is put into the buffer pool came out of newBuffer", "a buffer that did not come from the pool is put into it ("+bad+"): the pool hands it out again as the output buffer of a later request, which overwrites the shared memory")
		}
	}
	if nStores == 0 || nFree == 0 {
		c.Unk(send, "send-path-shares-no-memory", send.Pos(), "the closure of send contains no stores / no freeBuffer call: enumeration broken")
	}
}

// bufferNotFromPool returns a description of a non-pool origin of slice v ("" if all origins are newBuffer or
// slices grown from it).
func bufferNotFromPool(p *kit.Prog, fn *ssa.Function, v ssa.Value, depth int) string {
	if depth > 4 {
		return ""
	}
	switch x := kit.Strip(v).(type) {
	case *ssa.Phi:
		for _, e := range x.Edges {
			if s := bufferNotFromPool(p, fn, e, depth+1); s != "" {
				return s
			}
		}
		return ""
	case *ssa.Slice:
		return bufferNotFromPool(p, fn, x.X, depth+1)
	case *ssa.Call:
		if b, ok := x.Call.Value.(*ssa.Builtin); ok && b.Name() == "append" {
			return bufferNotFromPool(p, fn, x.Call.Args[0], depth+1)
		}
		if kit.CalleeName(x) == kit.M("region", "", "newBuffer") {
			return ""
		}
		if cal := kit.StaticCallee(x); cal != nil && p.IsSubject(cal) && len(cal.Blocks) > 0 {
			bad := ""
			kit.Instrs(cal, func(in ssa.Instruction) {
				if r, ok := in.(*ssa.Return); ok && len(r.Results) > 0 && bad == "" {
					bad = bufferNotFromPool(p, cal, kit.Res(r, 0), depth+1)
				}
			})
			return bad
		}
		return ""
	case *ssa.Extract:
		if call, ok := x.Tuple.(*ssa.Call); ok {
			if cal := kit.StaticCallee(call); cal != nil && p.IsSubject(cal) && len(cal.Blocks) > 0 {
				bad := ""
				kit.Instrs(cal, func(in ssa.Instruction) {
					if r, ok := in.(*ssa.Return); ok && x.Index < len(r.Results) && bad == "" {
						bad = bufferNotFromPool(p, cal, kit.Res(r, x.Index), depth+1)
					}
				})
				return bad
			}
		}
		return ""
	case *ssa.UnOp:
		if x.Op == token.MUL {
			switch a := x.X.(type) {
			case *ssa.Global:
				return "the package-level variable " + a.Name()
			case *ssa.FieldAddr:
				return "the field " + kit.FieldVar(a.X.Type(), a.Field).Name() + " of a shared object"
			case *ssa.Alloc:
				for _, r := range kit.Referrers(a) {
					if st, ok := r.(*ssa.Store); ok && st.Addr == ssa.Value(a) {
						if s := bufferNotFromPool(p, fn, st.Val, depth+1); s != "" {
							return s
						}
					}
				}
			}
		}
	}
	return ""
}

// unsentCallsAreCleared: a call that multi.toProto leaves out of the request (its own context is done)
// must be recognisable as "not sent" when the response arrives - by state fixed at serialisation time (the
// cleared slot), not by a condition that can change in between (the context can expire after the request went
// out, and then a perfectly valid response is rejected for the whole batch). Structural part: in the loop over
// m.calls every way round that does not assign the call its action index stores nil into its slot.
// Together with multiIndexValidated (the reader tests the slot for nil). C02.R4.
func unsentCallsAreCleared(c *kit.Ctx) {
	callsF := c.P.Field("region", "multi", "calls")
	mtp := c.Anchor("region", "multi", "toProto")
	if callsF == nil || mtp == nil {
		return
	}
	n := 0
	seenHdr := map[*ssa.BasicBlock]bool{}
	kit.Instrs(mtp, func(in ssa.Instruction) {
		// an element of m.calls read by the index of a loop over it (range or counted form)
		ia, ok := in.(*ssa.IndexAddr)
		if !ok || !isLoadOfField(kit.Root(ia.X), callsF) && !isLoadOfField(ia.X, callsF) {
			return
		}
		if _, isR := rangeOfIndex(ia.Index); !isR {
			return
		}
		var ph *ssa.Phi
		switch x := kit.Strip(ia.Index).(type) {
		case *ssa.Phi:
			ph = x
		case *ssa.BinOp:
			ph, _ = x.X.(*ssa.Phi)
		}
		if ph == nil || seenHdr[ph.Block()] {
			return
		}
		hdr := ph.Block()
		var iff *ssa.If
		// the loop test: in the header (counted form) or in the block of the incremented index (range form)
		for _, b := range []*ssa.BasicBlock{hdr, ia.Index.(ssa.Instruction).Block()} {
			if x, ok := b.Instrs[len(b.Instrs)-1].(*ssa.If); ok && iff == nil {
				iff = x
				hdr = b
			}
		}
		if iff == nil {
			return
		}
		seenHdr[ph.Block()] = true
		body := kit.SuccOnTrue(iff)
		n++
		e := kit.PathFromBlock(body, kit.PathQuery{
			Target: func(x ssa.Instruction) bool { return x.Block() == hdr },
			Stop: func(x ssa.Instruction) bool {
				st, ok := x.(*ssa.Store)
				if !ok {
					return false
				}
				// the action index of this call recorded directly in the action
				if fa, ok := st.Addr.(*ssa.FieldAddr); ok && kit.FieldVar(fa.X.Type(), fa.Field).Name() == "Index" && strings.HasSuffix(fa.X.Type().String(), "pb.Action") {
					return true
				}
				ia, ok := st.Addr.(*ssa.IndexAddr)
				if !ok {
					return false
				}
				if _, isR := rangeOfIndex(ia.Index); !isR {
					return false
				}
				// the slot cleared, or the action index of this call recorded
				if isLoadOfField(ia.X, callsF) && kit.IsNilConst(kit.Root(st.Val)) {
					return true
				}
				if sl, ok := ia.X.Type().Underlying().(*types.Slice); ok {
					if bt, ok := sl.Elem().Underlying().(*types.Basic); ok && bt.Kind() == types.Uint32 {
						return true
					}
				}
				return false
			},
		})
		c.Check(e == nil, mtp, "unsent-call-cleared", firstPos(body), "every way round the loop either records the call's action index or clears its slot", "a call can be left out of the multi request without its slot being cleared: whether it was sent can then only be guessed from a condition that changes over time (its context), so a valid response is rejected - or a missing one accepted - for the whole batch: "+c.BlockPath(e))
	})
	if n == 0 {
		c.Unk(mtp, "unsent-call-cleared", mtp.Pos(), "the loop over m.calls in multi.toProto was not found")
	}
	eng := bounds.New(c.P)
	ok, why := multiIndexValidated(c, eng)
	c.Check(ok, mtp, "response-index-validated-against-cleared-slots", mtp.Pos(), "the reader validates every action index against the length of m.calls and the cleared slots", "the reader does not validate the action index of a result against the cleared slots of m.calls: "+why)
}

// lenFact reports whether fact f states that len(x) is zero (empty=true) or non-zero (empty=false) for a
// slice x accepted by is.
func lenFact(f kit.Fact, is func(ssa.Value) bool) (empty, ok bool) {
	cmp, isCmp := kit.CanonCmp(f.Cond, f.Pol)
	if !isCmp || cmp.Bytes {
		return false, false
	}
	isLen := func(v ssa.Value) bool {
		l := kit.LenOf(kit.Strip(v))
		return l != nil && is(l)
	}
	x, y, op := cmp.X, cmp.Y, cmp.Op
	if !isLen(x) {
		x, y = y, x
		op = map[token.Token]token.Token{token.LSS: token.GTR, token.GTR: token.LSS, token.LEQ: token.GEQ, token.GEQ: token.LEQ, token.EQL: token.EQL, token.NEQ: token.NEQ}[op]
	}
	if !isLen(x) {
		return false, false
	}
	k, isK := kit.ConstInt(y)
	if !isK {
		return false, false
	}
	switch {
	case (op == token.EQL || op == token.LEQ) && k == 0, op == token.LSS && k == 1:
		return true, true
	case (op == token.NEQ || op == token.GTR) && k == 0, op == token.GEQ && k == 1:
		return false, true
	}
	return false, false
}

// noFetchedRowIsSkipped: once scanner.update has moved the scanner past a response, fetch asks the server
// for more only if that response carried no results at all. Any other reason to go round the loop (a
// heartbeat flag, a metrics-only response, ...) drops rows the server will not send again. C06.R2.
func noFetchedRowIsSkipped(c *kit.Ctx) {
	fetch := c.Anchor("", "scanner", "fetch")
	resF := c.P.Field("pb", "ScanResponse", "Results")
	if fetch == nil || resF == nil {
		return
	}
	reqs := kit.Calls(fetch, kit.M("", "*scanner", "request"))
	upds := kit.Calls(fetch, kit.M("", "*scanner", "update"))
	if len(reqs) != 1 || len(upds) == 0 {
		c.Unk(fetch, "no-fetched-row-skipped", fetch.Pos(), "fetch no longer has one request() and an update() of the scanner state")
		return
	}
	resp := kit.ExtractOf(reqs[0].Value(), 0)
	var isResults func(v ssa.Value) bool
	isResults = func(v ssa.Value) bool {
		// a loop-carried local that is nil at first and resp.Results afterwards (for len(rs) == 0 { ...; rs = resp.Results })
		if ph, isPhi := v.(*ssa.Phi); isPhi {
			some := false
			for _, e := range ph.Edges {
				if kit.IsNilConst(e) {
					continue
				}
				if _, nested := e.(*ssa.Phi); nested || !isResults(e) {
					return false
				}
				some = true
			}
			return some
		}
		u, ok := v.(*ssa.UnOp)
		if !ok || u.Op != token.MUL {
			return false
		}
		fa, ok := u.X.(*ssa.FieldAddr)
		return ok && kit.FieldVar(fa.X.Type(), fa.Field) == resF && kit.Root(fa.X) == kit.Root(resp)
	}
	for _, u := range upds {
		e := kit.PathFrom(u.(ssa.Instruction), kit.PathQuery{
			Target: func(x ssa.Instruction) bool { return x == reqs[0].(ssa.Instruction) },
			SkipEdge: func(from, to *ssa.BasicBlock) bool {
				for _, f := range kit.EdgeFacts(from, to) {
					if empty, ok := lenFact(f, isResults); ok && empty {
						return true
					}
				}
				return false
			},
		})
		c.Check(e == nil, fetch, "no-fetched-row-skipped", u.Pos(), "after update() the next request is sent only on the edge len(resp.Results) == 0", "fetch can ask the server for more although the response it has just accounted for carried results (e.g. because it is flagged as a heartbeat - a response cut short by the server's time limit may carry rows): those rows are dropped silently, the server-side scanner has moved past them: "+c.BlockPath(e))
	}
}

// endOfScanRowHasCells: the row Next hands out when the stream ends while a row is being assembled has at
// least one cell: fragments without cells (a server may send them) do not make a row. C06.R2.
func endOfScanRowHasCells(c *kit.Ctx) {
	next := c.Anchor("", "scanner", "Next")
	cellF := c.P.Field("pb", "Result", "Cell")
	eofG := c.P.Global("io", "EOF")
	if next == nil || cellF == nil {
		return
	}
	if eofG == nil {
		if pkg := c.P.SSA.ImportedPackage("io"); pkg != nil {
			eofG, _ = pkg.Members["EOF"].(*ssa.Global)
		}
	}
	isCells := func(v ssa.Value) bool {
		u, ok := v.(*ssa.UnOp)
		if !ok || u.Op != token.MUL {
			return false
		}
		fa, ok := u.X.(*ssa.FieldAddr)
		return ok && kit.FieldVar(fa.X.Type(), fa.Field) == cellF
	}
	n := 0
	kit.Instrs(next, func(in ssa.Instruction) {
		r, ok := in.(*ssa.Return)
		if !ok || len(r.Results) != 2 {
			return
		}
		if ev := returnedError(r); ev == nil || !kit.IsNilConst(kit.Root(ev)) {
			return
		}
		atEOF := false
		for _, f := range kit.FactsAt(r.Block()) {
			if cmp, ok := kit.CanonCmp(f.Cond, f.Pol); ok && cmp.Op == token.EQL && eofG != nil && (isGlobalLoad(kit.Strip(cmp.X), eofG) || isGlobalLoad(kit.Strip(cmp.Y), eofG)) {
				atEOF = true
			}
		}
		if !atEOF {
			return
		}
		n++
		good := false
		for _, f := range kit.FactsAt(r.Block()) {
			if empty, ok := lenFact(f, isCells); ok && !empty {
				good = true
			}
		}
		c.Check(good, next, "end-of-scan-row-has-cells", r.Pos(), "what is returned as the last row is known to have cells", "at the end of the scan Next returns whatever it has assembled as a row, also when that is a fragment without any cell: the scan yields one result more than there are rows")
	})
	if n == 0 {
		c.Unk(next, "end-of-scan-row-has-cells", next.Pos(), "Next no longer returns the row under assembly when the stream ends")
	}
}

// responseIndicesAreUnique: a call takes exactly one result (its result channel has capacity one and the
// reader goroutine sends without a default case): the decoder of a multi response marks every accepted action
// index and rejects a response that mentions one twice. C02.R4, C11.K4 (precondition of the tabled
// result-channel sends of C13.R1 and of "completed exactly once" in C03).
func responseIndicesAreUnique(c *kit.Ctx) {
	d := c.Anchor("region", "multi", "DeserializeCellBlocks")
	if d == nil {
		return
	}
	eng := bounds.New(c.P)
	var idxCalls []*ssa.Call
	kit.Instrs(d, func(in ssa.Instruction) {
		if call, ok := in.(*ssa.Call); ok {
			if fn := kit.StaticCallee(call); fn != nil && fn.Name() == "GetIndex" && fn.Pkg != nil && fn.Pkg.Pkg.Path() == kit.Module+"/pb" {
				idxCalls = append(idxCalls, call)
			}
		}
	})
	if len(idxCalls) == 0 {
		c.Unk(d, "response-indices-unique", d.Pos(), "multi.DeserializeCellBlocks no longer reads the action index of results")
		return
	}
	isBoolSlot := func(addr ssa.Value, idx *ssa.Call) bool {
		ia, ok := addr.(*ssa.IndexAddr)
		if !ok {
			return false
		}
		sl, ok := ia.X.Type().Underlying().(*types.Slice)
		if !ok {
			return false
		}
		if bt, ok := sl.Elem().Underlying().(*types.Basic); !ok || bt.Kind() != types.Bool {
			return false
		}
		k, isConst := eng.Lin(ia.Index).Sub(eng.Lin(idx)).IsConst()
		return isConst && k == -1
	}
	// a region-level exception answers every call of that region: those calls are marked as well (and a marked one
	// among them is rejected), otherwise a response that fails a region and also carries a result for one of its calls
	// answers that call twice
	{
		callsF := c.P.Field("region", "multi", "calls")
		marksRegion, rejects := false, false
		kit.Instrs(d, func(in ssa.Instruction) {
			underRegionException := func(b *ssa.BasicBlock) bool {
				for _, f := range kit.FactsAt(b) {
					cmp, ok := kit.CanonCmp(f.Cond, f.Pol)
					if !ok || cmp.Op != token.NEQ || !kit.IsNilConst(cmp.Y) {
						continue
					}
					if call, ok := kit.Root(cmp.X).(*ssa.Call); ok {
						if fn := kit.StaticCallee(call); fn != nil && fn.Name() == "GetException" && strings.Contains(fn.Signature.Recv().Type().String(), "RegionActionResult") {
							return true
						}
					}
				}
				return false
			}
			isSlotOfCallIndex := func(addr ssa.Value) bool {
				ia, ok := addr.(*ssa.IndexAddr)
				if !ok {
					return false
				}
				sl, ok := ia.X.Type().Underlying().(*types.Slice)
				if !ok {
					return false
				}
				if bt, ok := sl.Elem().Underlying().(*types.Basic); !ok || bt.Kind() != types.Bool {
					return false
				}
				rng, isR := rangeOfIndex(ia.Index)
				return isR && callsF != nil && isLoadOfField(rng, callsF)
			}
			switch x := in.(type) {
			case *ssa.Store:
				if kc, ok := x.Val.(*ssa.Const); ok && kc.Value != nil && kc.Value.ExactString() == "true" && isSlotOfCallIndex(x.Addr) && underRegionException(x.Block()) {
					marksRegion = true
				}
			case *ssa.If:
				if l, ok := x.Cond.(*ssa.UnOp); ok && l.Op == token.MUL && isSlotOfCallIndex(l.X) && underRegionException(x.Block()) {
					for _, y := range kit.SuccOnTrue(x).Instrs {
						if r, ok := y.(*ssa.Return); ok {
							if ev := returnedError(r); ev != nil && !kit.IsNilConst(kit.Root(ev)) {
								rejects = true
							}
						}
					}
				}
			}
		})
		c.Check(marksRegion && rejects, d, "region-exception-answers-its-calls", d.Pos(), "a region-level exception marks every call of that region as answered and rejects one that already is", "a region-level exception does not count as the answer of the calls of that region: a response that fails a region and also carries a result for one of its calls answers that call twice - the second send blocks the connection's reader goroutine")
	}
	for _, idx := range idxCalls {
		var marks []ssa.Instruction
		tested := false
		kit.Instrs(d, func(in ssa.Instruction) {
			switch x := in.(type) {
			case *ssa.Store:
				if kc, ok := x.Val.(*ssa.Const); ok && kc.Value != nil && kc.Value.ExactString() == "true" && isBoolSlot(x.Addr, idx) {
					marks = append(marks, x)
				}
			case *ssa.If:
				cond, pol := x.Cond, true
				if u, ok := cond.(*ssa.UnOp); ok && u.Op == token.NOT {
					cond, pol = u.X, false
				}
				if l, ok := cond.(*ssa.UnOp); ok && l.Op == token.MUL && isBoolSlot(l.X, idx) {
					rej := kit.SuccOnTrue(x)
					if !pol {
						rej = kit.SuccOnFalse(x)
					}
					for _, y := range rej.Instrs {
						if r, ok := y.(*ssa.Return); ok {
							if ev := returnedError(r); ev != nil && !kit.IsNilConst(kit.Root(ev)) {
								tested = true
							}
						}
					}
					if !tested {
						// the rejection may go through a helper's error result: no way from the rejecting edge to a
						// return without an error
						ok := kit.PathFrom(x, kit.PathQuery{
							SkipEdge: func(from, to *ssa.BasicBlock) bool { return from == x.Block() && to != rej },
							Target: func(y ssa.Instruction) bool {
								r, isRet := y.(*ssa.Return)
								if !isRet {
									return false
								}
								ev := returnedError(r)
								return ev == nil || kit.IsNilConst(kit.Root(ev))
							},
						}) == nil
						if ok {
							tested = true
						}
					}
				}
			}
		})
		e := kit.PathFrom(idx, kit.PathQuery{
			Stop: func(x ssa.Instruction) bool {
				for _, m := range marks {
					if x == m {
						return true
					}
				}
				if r, ok := x.(*ssa.Return); ok {
					if ev := returnedError(r); ev != nil && !kit.IsNilConst(kit.Root(ev)) {
						return true // the response is rejected
					}
				}
				return false
			},
			Target: func(x ssa.Instruction) bool {
				if x == ssa.Instruction(idx) {
					return true // the next entry
				}
				_, isRet := x.(*ssa.Return)
				return isRet
			},
		})
		// the record of what has been answered covers the whole response: it is not made anew inside a loop
		whole := len(marks) > 0
		for _, m := range marks {
			ia := m.(*ssa.Store).Addr.(*ssa.IndexAddr)
			mk, ok := kit.Root(ia.X).(*ssa.MakeSlice)
			if !ok {
				if ph, isPhi := kit.Root(ia.X).(*ssa.Phi); isPhi {
					_ = ph
				}
				whole = false
				continue
			}
			if kit.Reaches(mk, mk) {
				whole = false
			}
		}
		c.Check(whole, d, "answered-record-spans-the-response", idx.Pos(), "the record of answered actions is allocated once per response", "the record of which actions have been answered is allocated anew inside a loop (per region result): the same action index answered in two region results of one response is accepted - the call gets two results and the second send blocks the connection's reader goroutine")
		c.Check(tested && len(marks) > 0 && e == nil, d, "response-indices-unique", idx.Pos(), "every accepted action index is marked in a []bool and a marked one is rejected", "the decoder accepts a multi response that mentions the same action index more than once: returnResults then sends more than one result to the call's capacity-1 channel, the connection's reader goroutine blocks for ever and nobody on the connection is answered any more: "+c.BlockPath(e))
	}
}
