package props

import (
	"go/token"
	"go/types"
	"strings"

	"golang.org/x/tools/go/ssa"

	"gohbaseverif/kit"
)

// Rules added after the fifth round of independently seeded changes.

// errParamIsNil reports whether facts state that the error parameter pa is nil.
func errIsNilIn(facts []kit.Fact, pa ssa.Value) bool {
	for _, f := range facts {
		if cmp, ok := kit.CanonCmp(f.Cond, f.Pol); ok && cmp.Op == token.EQL && kit.IsNilConst(cmp.Y) && kit.Root(cmp.X) == pa {
			return true
		}
	}
	return false
}

// multiSuccessOnlyWithoutError: multi.returnResults dispatches the decoded results only where the error it was
// given is nil. receive hands it the half-processed response together with the error whenever something fails
// after the protobuf part was parsed (a damaged cell, a short read, a decompression failure): dispatching then
// would deliver results whose cells are missing. C02.R5 (shared with C11.K2).
func multiSuccessOnlyWithoutError(c *kit.Ctx) {
	rr := c.Anchor("region", "multi", "returnResults")
	if rr == nil {
		return
	}
	var errP *ssa.Parameter
	for _, pa := range rr.Params {
		if kit.IsErrorType(pa.Type()) {
			errP = pa
		}
	}
	if errP == nil {
		c.Unk(rr, "multi-success-only-without-error", rr.Pos(), "multi.returnResults no longer takes the error of the response")
		return
	}
	n := 0
	kit.Instrs(rr, func(in ssa.Instruction) {
		s, ok := in.(*ssa.Send)
		if !ok {
			return
		}
		// results that carry the parameter itself are the failure fan-out
		carries := false
		var visit func(v ssa.Value, d int)
		visit = func(v ssa.Value, d int) {
			if d > 6 || v == nil {
				return
			}
			if kit.Root(v) == ssa.Value(errP) {
				carries = true
				return
			}
			switch x := v.(type) {
			case *ssa.UnOp:
				if a, ok := x.X.(*ssa.Alloc); ok {
					for _, r := range kit.Referrers(a) {
						switch y := r.(type) {
						case *ssa.Store:
							visit(y.Val, d+1)
						case *ssa.FieldAddr:
							for _, rr := range kit.Referrers(y) {
								if st, ok := rr.(*ssa.Store); ok {
									visit(st.Val, d+1)
								}
							}
						}
					}
				}
			case *ssa.Phi:
				for _, e := range x.Edges {
					visit(e, d+1)
				}
			}
		}
		visit(s.X, 0)
		if carries {
			return
		}
		n++
		good := kit.OnAllWays(s.Block(), func(facts []kit.Fact) bool { return errIsNilIn(facts, errP) }, 0)
		c.Check(good, rr, "multi-success-only-without-error", s.Pos(), "results of the response are dispatched only where the error given to returnResults is nil", "multi.returnResults can dispatch the results of a response although it was given an error (the guard no longer tests the error): after a damaged cellblock, a short read or a failed decompression the callers get 'successful' results whose cells are missing, instead of the error")
	})
	if n == 0 {
		c.Unk(rr, "multi-success-only-without-error", rr.Pos(), "multi.returnResults no longer sends results to the calls")
	}
}

// decompressedBufferIsFresh: the cells handed to callers are sub-slices of the buffer the cellblocks were
// decompressed into, so that buffer must be allocated per response: not a field of the compressor, not a pooled
// buffer. Extension of noResponseBufferRecycling; shared by C02.R3, C06, C07, C08, C10.
func decompressedBufferIsFresh(c *kit.Ctx) {
	dec := c.Anchor("region", "compressor", "decompressCellblocks")
	if dec == nil {
		return
	}
	n := 0
	kit.Instrs(dec, func(in ssa.Instruction) {
		r, ok := in.(*ssa.Return)
		if !ok || len(r.Results) == 0 {
			return
		}
		v := kit.Res(r, 0)
		if kit.IsNilConst(kit.Root(v)) {
			return
		}
		n++
		org := ptrOrigins(dec, v, 0, map[ssa.Value]bool{})
		_, recvF := org["recv-field"]
		_, glob := org["global"]
		pooled := false
		if cv, ok := org["call"]; ok {
			if call, ok := cv.(*ssa.Call); ok && kit.CalleeName(call) == kit.M("region", "", "newBuffer") {
				pooled = true
			}
		}
		c.Check(!recvF && !glob && !pooled, dec, "decompressed-buffer-fresh", r.Pos(), "the decompressed cellblocks live in memory allocated for this response", "the buffer cellblocks are decompressed into is kept between responses (a field of the compressor, a pooled or package-level buffer): decoded cells are sub-slices of it, so the next response on the connection overwrites the rows and values an earlier caller still holds")
	})
	if n == 0 {
		c.Unk(dec, "decompressed-buffer-fresh", dec.Pos(), "decompressCellblocks no longer returns a buffer")
	}
}

// tableNotFoundEvicts: when the re-lookup of a region says that its table does not exist any more, the region
// is removed from both caches before its waiters are released; otherwise they find the same stale region again
// and the request loops between NotServingRegion and re-establishment instead of returning TableNotFound. C04.R4.
func tableNotFoundEvicts(c *kit.Ctx) {
	est := c.Anchor("", "client", "establishRegion")
	tnf := c.P.Global("", "TableNotFound")
	if est == nil || tnf == nil {
		return
	}
	n := 0
	kit.Instrs(est, func(in ssa.Instruction) {
		iff, ok := in.(*ssa.If)
		if !ok {
			return
		}
		cmp, ok := kit.CanonCmp(iff.Cond, true)
		if !ok || (cmp.Op != token.EQL && cmp.Op != token.NEQ) {
			return
		}
		if !isGlobalLoad(kit.Strip(cmp.X), tnf) && !isGlobalLoad(kit.Strip(cmp.Y), tnf) && !usesGlobal(cmp.X, tnf) && !usesGlobal(cmp.Y, tnf) {
			return
		}
		n++
		gone := kit.SuccOnTrue(iff)
		if cmp.Op == token.NEQ {
			gone = kit.SuccOnFalse(iff)
		}
		for _, name := range []string{kit.M("", "*keyRegionCache", "del"), kit.M("", "*clientRegionCache", "del")} {
			nm := name
			e := kit.PathFromBlock(gone, kit.PathQuery{
				Known: kit.EdgeFacts(iff.Block(), gone),
				Stop: func(x ssa.Instruction) bool {
					call, ok := x.(*ssa.Call)
					return ok && kit.CalleeName(call) == nm
				},
			})
			c.Check(e == nil, est, "table-not-found-evicts", iff.Pos(), "on TableNotFound every way out passes "+kit.ShortName(nm), "when hbase:meta says the table is gone the region can stay in the cache ("+kit.ShortName(nm)+" is skipped): its waiters wake up, find the same stale region, get NotServingRegion again and loop for as long as their context lives instead of returning TableNotFound: "+c.BlockPath(e))
		}
	})
	if n == 0 {
		c.Unk(est, "table-not-found-evicts", est.Pos(), "establishRegion no longer distinguishes TableNotFound")
	}
}

// serialisingDoesNotChangeTheCall: a request can be serialised more than once (it is re-sent after a region
// moved, a reconnect, a batch retry): the functions that serialise a call must not write to the call itself
// (its fields, the caller's values map). C10.R2, C05.R5.
func serialisingDoesNotChangeTheCall(c *kit.Ctx) {
	p := c.P
	n, bad := 0, 0
	for _, fn := range p.Funcs {
		if !p.IsSubject(fn) || fn.Signature.Recv() == nil || fn.Pkg == nil || fn.Pkg.Pkg.Path() != kit.Module+"/hrpc" {
			continue
		}
		switch fn.Name() {
		case "ToProto", "toProto", "SerializeCellBlocks", "valuesToProto", "valuesToCellblocks", "cellblocksLen":
		default:
			continue
		}
		n++
		recv := fn.Params[0]
		fromRecv := func(v ssa.Value) bool {
			for i := 0; i < 8; i++ {
				switch x := kit.Strip(v).(type) {
				case *ssa.FieldAddr:
					v = x.X
				case *ssa.IndexAddr:
					v = x.X
				case *ssa.UnOp:
					if x.Op != token.MUL {
						return false
					}
					v = x.X
				case *ssa.Parameter:
					return x == recv
				default:
					return false
				}
			}
			return false
		}
		kit.Instrs(fn, func(in ssa.Instruction) {
			switch x := in.(type) {
			case *ssa.Store:
				if _, isLocal := x.Addr.(*ssa.Alloc); isLocal {
					return
				}
				if fromRecv(x.Addr) {
					bad++
					c.Bad(fn, "serialising-does-not-change-the-call", x.Pos(), "serialising a request writes to the request itself: the next serialisation of the same request (a re-send after a region move, a reconnect or a batch retry) is encoded from the changed state", "")
				}
			case *ssa.MapUpdate:
				if fromRecv(x.Map) {
					bad++
					c.Bad(fn, "serialising-does-not-change-the-call", x.Pos(), "serialising a mutation writes into its values map (the caller's map): the next serialisation sees different contents - e.g. a family delete whose nil qualifier map was replaced is sent as a delete of the empty qualifier - and the two encodings of the same mutation disagree", "")
				}
			}
		})
	}
	if n == 0 {
		c.Unk(nil, "serialising-does-not-change-the-call", token.NoPos, "no serialisation method found in hrpc")
	} else if bad == 0 {
		c.OK(nil, "serialising-does-not-change-the-call", token.NoPos, "no serialisation method of hrpc writes to its receiver")
	}
}

// accumulatorIsHandedBack: SerializeCellBlocks implementations receive the cellblocks accumulated so far for
// the batch and hand back that same accumulator (extended or not). Returning something else - nil for a
// mutation without cells - discards the cellblocks of the earlier calls of the region while their actions still
// announce them. C10.R2, C05.R2.
func accumulatorIsHandedBack(c *kit.Ctx) {
	p := c.P
	n := 0
	for _, fn := range p.Funcs {
		if !p.IsSubject(fn) || fn.Signature.Recv() == nil || fn.Pkg == nil || fn.Pkg.Pkg.Path() != kit.Module+"/hrpc" {
			continue
		}
		if fn.Name() != "SerializeCellBlocks" && fn.Name() != "toProto" {
			continue
		}
		var acc *ssa.Parameter
		for _, pa := range fn.Params {
			if pa.Type().String() == "[][]byte" {
				acc = pa
			}
		}
		if acc == nil {
			continue
		}
		kit.Instrs(fn, func(in ssa.Instruction) {
			r, ok := in.(*ssa.Return)
			if !ok {
				return
			}
			for i := range r.Results {
				v := kit.Res(r, i)
				if v.Type().String() != "[][]byte" {
					continue
				}
				n++
				good := true
				var visit func(v ssa.Value, d int, seen map[ssa.Value]bool)
				visit = func(v ssa.Value, d int, seen map[ssa.Value]bool) {
					v = kit.Strip(v)
					if d > 8 || seen[v] {
						return
					}
					seen[v] = true
					switch x := v.(type) {
					case *ssa.Parameter:
						if x != acc {
							good = false
						}
					case *ssa.Phi:
						for _, e := range x.Edges {
							visit(e, d+1, seen)
						}
					case *ssa.Call:
						if b, ok := x.Call.Value.(*ssa.Builtin); ok && b.Name() == "append" {
							visit(x.Call.Args[0], d+1, seen)
							return
						}
						good = false
					case *ssa.Extract:
						// the accumulator handed through a nested serialiser that obeys the same rule
						if call, ok := x.Tuple.(*ssa.Call); ok {
							if cal := kit.StaticCallee(call); cal != nil && (cal.Name() == "toProto" || cal.Name() == "SerializeCellBlocks") {
								for _, a := range call.Call.Args {
									if a.Type().String() == "[][]byte" {
										visit(a, d+1, seen)
										return
									}
								}
							}
						}
						good = false
					case *ssa.UnOp:
						if a, ok := x.X.(*ssa.Alloc); ok && x.Op == token.MUL {
							for _, rr := range kit.Referrers(a) {
								if st, ok := rr.(*ssa.Store); ok && st.Addr == ssa.Value(a) {
									visit(st.Val, d+1, seen)
								}
							}
							return
						}
						good = false
					default:
						good = false
					}
				}
				visit(v, 0, map[ssa.Value]bool{})
				c.Check(good, fn, "accumulator-handed-back", r.Pos(), "the returned cellblocks are the accumulator that was passed in, possibly extended", "a serialiser can return something other than the accumulated cellblocks it was given (e.g. nil for a mutation without cells): the cellblocks of the earlier calls of the batch are discarded while their actions and the size still announce them")
			}
		})
	}
	if n == 0 {
		c.Unk(nil, "accumulator-handed-back", token.NoPos, "no SerializeCellBlocks implementation with an accumulator parameter found")
	}
}

// decompressorRejectsOnlyMalformed: the block-stream reader may fail for exactly three reasons: a reader
// helper failed (short input), the codec failed, or a block decoded to more than its declared length. Any other
// rejecting test - e.g. a compressed chunk length above Codec.ChunkLen(), which bounds the UNcompressed input of
// a chunk; incompressible data is longer compressed - refuses streams that a conforming writer (the client's own
// compressCellblocks among them) produces. C15.R1, C10.R4.
func decompressorRejectsOnlyMalformed(c *kit.Ctx) {
	dec := c.Anchor("region", "compressor", "decompressCellblocks")
	if dec == nil {
		return
	}
	n := 0
	kit.Instrs(dec, func(in ssa.Instruction) {
		r, ok := in.(*ssa.Return)
		if !ok {
			return
		}
		ev0 := returnedError(r)
		if ev0 == nil || kit.IsNilConst(kit.Root(ev0)) {
			return
		}
		// one verdict per error that can be returned here; each is judged where it was made (the returns of a helper
		// the body was moved into are merged into one)
		for _, lf := range valueLeaves(ev0, r.Block()) {
			if kit.IsNilConst(kit.Root(lf.val)) {
				continue
			}
			at := r.Block()
			for ph, i := range lf.path {
				pb := ph.Block().Preds[i]
				if at == r.Block() || at.Dominates(pb) {
					at = pb
				}
			}
			n++
			// the reason: the innermost decided condition in front of this return
			facts := kit.FactsAt(at)
			good, why := false, "no recognised reason"
			for _, f := range facts {
				cmp, isCmp := kit.CanonCmp(f.Cond, f.Pol)
				if !isCmp {
					continue
				}
				// err != nil of a callee
				if cmp.Op == token.NEQ && kit.IsNilConst(cmp.Y) && kit.IsErrorType(cmp.X.Type()) {
					if f.If != nil && f.If.Block() == blockBefore(at, f.If.Block()) {
						good, why = true, "error of a reader helper or of the codec"
					}
				}
			}
			if !good {
				// the overrun test: running sum > declared block length (both uint32 values read/accumulated here)
				for _, f := range facts {
					if f.If == nil || !directlyGuards(f.If, at) {
						continue
					}
					cmp, isCmp := kit.CanonCmp(f.Cond, f.Pol)
					if !isCmp {
						continue
					}
					isSum := func(v ssa.Value) bool {
						_, isPhi := kit.Strip(v).(*ssa.Phi)
						_, isAdd := kit.Strip(v).(*ssa.BinOp)
						return isPhi || isAdd
					}
					isCodecBound := func(v ssa.Value) bool {
						call, ok := kit.Strip(v).(*ssa.Call)
						return ok && call.Call.IsInvoke() && call.Call.Method.Name() == "ChunkLen"
					}
					if isCodecBound(cmp.X) || isCodecBound(cmp.Y) {
						why = "a length is compared with Codec.ChunkLen()"
						continue
					}
					if (cmp.Op == token.GTR || cmp.Op == token.NEQ) && isSum(cmp.X) && !isSum(cmp.Y) || (cmp.Op == token.LSS || cmp.Op == token.NEQ) && isSum(cmp.Y) && !isSum(cmp.X) {
						good, why = true, "decoded more than the declared block length"
					}
				}
			}
			c.Check(good, dec, "rejects-only-malformed", r.Pos(), "error return for a recognised reason ("+why+")", "the block-stream reader rejects input for a reason other than a failed read, a failed Decode or an overrun of the declared block length ("+why+"): a stream that a conforming writer produces - incompressible data compresses to more than ChunkLen() bytes per chunk - cannot be read back")
		}
	})
	if n == 0 {
		c.Unk(dec, "rejects-only-malformed", dec.Pos(), "decompressCellblocks no longer returns errors")
	}
}

// directlyGuards: block b is the true or false successor of iff (or reached from it through blocks that
// only jump).
func directlyGuards(iff *ssa.If, b *ssa.BasicBlock) bool {
	for _, s := range iff.Block().Succs {
		for x := s; x != nil; {
			if x == b {
				return true
			}
			if len(x.Succs) != 1 || len(x.Instrs) > 1 {
				break
			}
			x = x.Succs[0]
		}
	}
	return false
}

// blockBefore returns ib if b is a direct successor of ib (possibly through pure jump blocks), else nil.
func blockBefore(b, ib *ssa.BasicBlock) *ssa.BasicBlock {
	if len(ib.Instrs) == 0 {
		return nil
	}
	if iff, ok := ib.Instrs[len(ib.Instrs)-1].(*ssa.If); ok && directlyGuards(iff, b) {
		return ib
	}
	return nil
}

// lookupErrorsAreTheKnownOnes: establishRegion panics on an error of lookupRegion it does not know; the errors
// lookupRegion may return are therefore frozen: TableNotFound, ErrClientClosed, or the error of the context it
// was given. C11.K4, C09.R4.
func lookupErrorsAreTheKnownOnes(c *kit.Ctx) {
	lr := c.Anchor("", "client", "lookupRegion")
	if lr == nil {
		return
	}
	p := c.P
	tnf, ecc := p.Global("", "TableNotFound"), p.Global("", "ErrClientClosed")
	n := 0
	kit.Instrs(lr, func(in ssa.Instruction) {
		r, ok := in.(*ssa.Return)
		if !ok {
			return
		}
		ev := returnedError(r)
		if ev == nil || kit.IsNilConst(kit.Root(ev)) {
			return
		}
		n++
		good := false
		root := kit.Root(ev)
		if tnf != nil && (isGlobalLoad(kit.Strip(root), tnf) || usesGlobal(ev, tnf)) || ecc != nil && (isGlobalLoad(kit.Strip(root), ecc) || usesGlobal(ev, ecc)) {
			good = true
		}
		if call, ok := root.(*ssa.Call); ok && call.Call.IsInvoke() && call.Call.Method.Name() == "Err" && isCtxType(call.Call.Value) {
			good = true
		}
		// the error of the back-off wait is the error of the context it waits on (C17.R1)
		if ex, ok := root.(*ssa.Extract); ok {
			if call, ok := ex.Tuple.(*ssa.Call); ok && kit.CalleeName(call) == kit.M("", "", "sleepAndIncreaseBackoff") {
				good = true
			}
		}
		if !good {
			// "return err" where err is known to equal one of the two sentinels - on every way the return is
			// reached (a flag `final := err == TableNotFound || err == ErrClientClosed` has two)
			good = kit.OnAllWays(r.Block(), func(facts []kit.Fact) bool {
				for _, f := range facts {
					cmp, isCmp := kit.CanonCmp(f.Cond, f.Pol)
					if !isCmp || cmp.Op != token.EQL {
						continue
					}
					for _, g := range []*ssa.Global{tnf, ecc} {
						if g != nil && (isGlobalLoad(kit.Strip(cmp.X), g) || isGlobalLoad(kit.Strip(cmp.Y), g) || usesGlobal(cmp.X, g) || usesGlobal(cmp.Y, g)) {
							return true
						}
					}
				}
				return false
			}, 0)
		}
		c.Check(good, lr, "lookup-errors-known", r.Pos(), "lookupRegion returns TableNotFound, ErrClientClosed or the context's error", "lookupRegion can return an error other than TableNotFound, ErrClientClosed and the context error (e.g. an OfflineRegionError read from hbase:meta): establishRegion panics on any other error ('unknown error occurred when looking up region'), in a goroutine nobody recovers - a meta row kills the process")
	})
	if n == 0 {
		c.Unk(lr, "lookup-errors-known", lr.Pos(), "lookupRegion no longer returns errors")
	}
}

// contextOfBackgroundRequestOutlivesItsCreator: a request that is handed to a goroutine (go SendRPC(rpc)) must
// not be built on a context whose cancel function the spawning function calls or defers: the request is then
// cancelled before the goroutine gets to send it. C14.R2.
func contextOfBackgroundRequestOutlivesItsCreator(c *kit.Ctx) {
	p := c.P
	n := 0
	for _, fn := range p.Funcs {
		if !p.IsSubject(fn) || fn.Pkg == nil || fn.Pkg.Pkg.Path() != kit.Module {
			continue
		}
		kit.Instrs(fn, func(in ssa.Instruction) {
			g, ok := in.(*ssa.Go)
			if !ok {
				return
			}
			for _, a := range g.Call.Args {
				// a call object built in this function
				mk := kit.ExtractOf(kit.Root(a), 0)
				_ = mk
				var ctor *ssa.Call
				switch x := kit.Root(a).(type) {
				case *ssa.Extract:
					ctor, _ = x.Tuple.(*ssa.Call)
				case *ssa.MakeInterface:
					if ex, ok := kit.Root(x.X).(*ssa.Extract); ok {
						ctor, _ = ex.Tuple.(*ssa.Call)
					}
				}
				if ctor == nil || len(ctor.Call.Args) == 0 || !isCtxType(ctor.Call.Args[0]) {
					continue
				}
				n++
				ctxV := kit.Root(ctor.Call.Args[0])
				ex, ok := ctxV.(*ssa.Extract)
				if !ok {
					c.OK(fn, "background-request-context", g.Pos(), "the request's context is not derived with a cancel function here")
					continue
				}
				with, ok := ex.Tuple.(*ssa.Call)
				if !ok || !strings.HasPrefix(kit.CalleeName(with), "context.With") {
					c.OK(fn, "background-request-context", g.Pos(), "the request's context is not derived with a cancel function here")
					continue
				}
				cancel := kit.ExtractOf(with, 1)
				cancelled := false
				if cancel != nil {
					for _, r := range kit.Referrers(cancel) {
						switch y := r.(type) {
						case *ssa.Defer:
							cancelled = true
						case *ssa.Call:
							if y.Call.Value == cancel {
								cancelled = true
							}
						}
					}
				}
				c.Check(!cancelled, fn, "background-request-context", g.Pos(), "the cancel function of the request's context is not called by the spawning function", "a request is handed to a goroutine while the function that spawns it cancels (or defers the cancellation of) the request's context: by the time the goroutine sends it the context is done and the region client drops the request - e.g. the explicit close of a region scanner never reaches the server and its lease stays open")
			}
		})
	}
	if n == 0 {
		c.Unk(nil, "background-request-context", token.NoPos, "no request handed to a goroutine found (scanner.closeRegionScanner sends its close request that way)")
	}
}

// everyResponseUpdatesTheScanner: every response fetch receives is accounted for (scanner.update: scanner id,
// next start row) before fetch can ask again: a response skipped before update - e.g. an empty heartbeat that
// answers a scanner-opening request - loses the id of the region scanner the server has just opened. C14.R2, C06.R3.
func everyResponseUpdatesTheScanner(c *kit.Ctx) {
	fetch := c.Anchor("", "scanner", "fetch")
	if fetch == nil {
		return
	}
	reqs := kit.Calls(fetch, kit.M("", "*scanner", "request"))
	if len(reqs) != 1 {
		c.Unk(fetch, "every-response-updates", fetch.Pos(), "fetch no longer has exactly one request()")
		return
	}
	req := reqs[0].(ssa.Instruction)
	errV := kit.ExtractOf(reqs[0].Value(), 2)
	e := kit.PathFrom(req, kit.PathQuery{
		Target: func(x ssa.Instruction) bool { return x == req },
		Stop: func(x ssa.Instruction) bool {
			call, ok := x.(*ssa.Call)
			return ok && kit.CalleeName(call) == kit.M("", "*scanner", "update")
		},
		SkipEdge: func(from, to *ssa.BasicBlock) bool {
			// the failure edge of the request ends the fetch
			for _, f := range kit.EdgeFacts(from, to) {
				if cmp, ok := kit.CanonCmp(f.Cond, f.Pol); ok && cmp.Op == token.NEQ && kit.IsNilConst(cmp.Y) && errV != nil && kit.Root(cmp.X) == errV {
					return true
				}
			}
			return false
		},
	})
	c.Check(e == nil, fetch, "every-response-updates", req.Pos(), "no way from a response to the next request avoids update()", "fetch can send the next request without having passed the response to update(): a response that is skipped early (an empty heartbeat) may be the one that carries the id of the region scanner the server has just opened - that scanner is never read and never closed, and another one is opened for the same rows: "+c.BlockPath(e))
}

// noWaitlessRecursion: a lookup function that calls itself is a retry cycle like a loop: the recursive call is
// reached only after a back-off wait. C17.R3.
func noWaitlessRecursion(c *kit.Ctx) {
	p := c.P
	sleepName := kit.M("", "", "sleepAndIncreaseBackoff")
	n := 0
	for _, fn := range p.Funcs {
		if !p.IsSubject(fn) || fn.Pkg == nil || fn.Pkg.Pkg.Path() != kit.Module || fn.Parent() != nil {
			continue
		}
		kit.Instrs(fn, func(in ssa.Instruction) {
			call, ok := in.(ssa.CallInstruction)
			if !ok || kit.StaticCallee(call) != fn {
				return
			}
			n++
			e := kit.PathFromEntry(fn, kit.PathQuery{
				Target: func(x ssa.Instruction) bool { return x == in },
				Stop: func(x ssa.Instruction) bool {
					cc, ok := x.(*ssa.Call)
					return ok && kit.CalleeName(cc) == sleepName
				},
			})
			c.Check(e == nil, fn, "waitless-recursion", in.Pos(), "the recursive call is only reached after a back-off wait", kit.FuncName(fn)+" calls itself without waiting: a condition that persists (a region listed as offline in hbase:meta) is retried in a hot loop that only the per-attempt timeout ends")
		})
	}
	if n == 0 {
		c.OK(nil, "waitless-recursion", token.NoPos, "no function of the root package calls itself")
	}
}

// zkSessionIsClosed: every ZooKeeper session zk.LocateResource opens is closed on every way out: a session
// left open on the error path re-dials the quorum once a second for ever. C17.R3, C19.
func zkSessionIsClosed(c *kit.Ctx) {
	lr := c.Anchor("zk", "client", "LocateResource")
	if lr == nil {
		return
	}
	n := 0
	kit.Instrs(lr, func(in ssa.Instruction) {
		call, ok := in.(*ssa.Call)
		if !ok || !strings.HasSuffix(kit.CalleeName(call), "zk.Connect") {
			return
		}
		n++
		conn := kit.ExtractOf(call, 0)
		errV := kit.ExtractOf(call, 2)
		isClose := func(x ssa.Instruction) bool {
			cc, ok := x.(ssa.CallInstruction)
			if !ok {
				return false
			}
			if !strings.HasSuffix(kit.CalleeName(cc), "zk.Conn).Close") {
				return false
			}
			if conn == nil || len(cc.Common().Args) == 0 {
				return true
			}
			r := kit.Root(cc.Common().Args[0])
			if r == conn {
				return true
			}
			if ph, ok := r.(*ssa.Phi); ok {
				for _, l := range kit.PhiLeaves(ph) {
					if l == conn {
						return true
					}
				}
			}
			return false
		}
		e := kit.PathFrom(call, kit.PathQuery{
			Stop: isClose,
			SkipEdge: func(from, to *ssa.BasicBlock) bool {
				for _, f := range kit.EdgeFacts(from, to) {
					if cmp, ok := kit.CanonCmp(f.Cond, f.Pol); ok && cmp.Op == token.NEQ && kit.IsNilConst(cmp.Y) && errV != nil {
						r := kit.Root(cmp.X)
						if r == errV {
							return true // connecting failed: nothing to close
						}
						if ph, ok := r.(*ssa.Phi); ok {
							for _, l := range kit.PhiLeaves(ph) {
								if l == errV {
									return true
								}
							}
						}
					}
				}
				return false
			},
			IgnorePanics: true,
		})
		c.Check(e == nil, lr, "zk-session-closed", call.Pos(), "every way out after a successful Connect closes (or has deferred the close of) the session", "a ZooKeeper session can be left open (the error path after Connect skips Close): an unclosed session keeps re-dialling the quorum once a second for ever, so the connection rate against a failing quorum grows with every lookup instead of decaying: "+c.BlockPath(e))
	})
	if n == 0 {
		c.Unk(lr, "zk-session-closed", lr.Pos(), "zk.LocateResource no longer connects to ZooKeeper")
	}
}

// counterStepIsUnconditional: every answered request takes the outstanding-request counter down by one: the
// decrement in inFlightDown is on every way through the function (a guard such as "only if > 0" loses a step when
// a response overtakes its sender's increment, and the counter is off by one for the rest of the connection). C18.R3.
func counterStepIsUnconditional(c *kit.Ctx) {
	p := c.P
	inF := p.Field("region", "client", "inFlight")
	if inF == nil {
		return
	}
	for _, nm := range []struct {
		name string
		op   token.Token
	}{{"inFlightDown", token.SUB}, {"inFlightUp", token.ADD}} {
		fn := c.Anchor("region", "client", nm.name)
		if fn == nil {
			continue
		}
		var steps []ssa.Instruction
		kit.Instrs(fn, func(in ssa.Instruction) {
			st, ok := in.(*ssa.Store)
			if !ok {
				return
			}
			fa, ok := st.Addr.(*ssa.FieldAddr)
			if !ok || kit.FieldVar(fa.X.Type(), fa.Field) != inF {
				return
			}
			if bo, ok := st.Val.(*ssa.BinOp); ok && (bo.Op == token.ADD || bo.Op == token.SUB) && isLoadOfField(bo.X, inF) {
				if k, isK := kit.ConstInt(kit.Root(bo.Y)); isK {
					if bo.Op == token.SUB {
						k = -k
					}
					if (nm.op == token.ADD && k == 1) || (nm.op == token.SUB && k == -1) {
						steps = append(steps, st)
					}
				}
			}
		})
		e := kit.PathFromEntry(fn, kit.PathQuery{Stop: func(x ssa.Instruction) bool {
			for _, s := range steps {
				if x == s {
					return true
				}
			}
			return false
		}, IgnorePanics: true})
		c.Check(len(steps) > 0 && e == nil, fn, "counter-step-unconditional", fn.Pos(), "every way through "+nm.name+" steps the counter by one", nm.name+" can return without stepping the outstanding-request counter: after a response that overtakes its sender's increment the counter is off by one for the rest of the connection's life - a read deadline stays armed on an idle connection (it is torn down), or is cleared while a request is outstanding (a silent server is never detected): "+c.BlockPath(e))
	}
}

// readerEndsOnlyWhenTheConnectionFailed: the reader goroutine of a connection returns only after it has failed
// the connection or seen it closed. If it ends on an ordinary per-call error the deadline stays armed but nobody
// reads: the timeout never fires, fail() is never called, and every later request hangs. C18.R6.
func readerEndsOnlyWhenTheConnectionFailed(c *kit.Ctx) {
	rl := c.Anchor("region", "client", "receiveRPCs")
	doneF := c.P.Field("region", "client", "done")
	if rl == nil || doneF == nil {
		return
	}
	failName := kit.M("region", "*client", "fail")
	n := 0
	kit.Instrs(rl, func(in ssa.Instruction) {
		r, ok := in.(*ssa.Return)
		if !ok || r.Block().Comment == "recover" {
			return
		}
		n++
		// every way to this return - from the entry and from every read - passes fail() or the arm of a select
		// in which c.done was received (the select may sit in a helper: `for !c.stopped() { ... }`)
		doneArm := map[*ssa.BasicBlock]bool{}
		for _, b := range rl.Blocks {
			for _, st := range selectArmsAt(b) {
				if st.Dir == types.RecvOnly && isLoadOfField(st.Chan, doneF) {
					doneArm[b] = true
				}
			}
		}
		stop := func(x ssa.Instruction) bool {
			if doneArm[x.Block()] {
				return true
			}
			cc, ok := x.(*ssa.Call)
			return ok && kit.CalleeName(cc) == failName
		}
		target := func(x ssa.Instruction) bool { return x == ssa.Instruction(r) }
		good := kit.PathFromEntry(rl, kit.PathQuery{Target: target, Stop: stop}) == nil
		for _, rc := range kit.Calls(rl, kit.M("region", "*client", "receive")) {
			if kit.PathFrom(rc.(ssa.Instruction), kit.PathQuery{Target: target, Stop: stop}) != nil {
				good = false
			}
		}
		c.Check(good, rl, "reader-ends-only-when-failed", r.Pos(), "the reader returns only in the <-c.done arm or after fail()", "the reader goroutine can end without the connection having failed (it returns on an ordinary per-call error): the read deadline stays armed but nobody reads, so the timeout never fires, the connection is never failed and every later request on it waits for ever")
	})
	if n == 0 {
		c.Unk(rl, "reader-ends-only-when-failed", rl.Pos(), "receiveRPCs has no return")
	}
}

// closedErrorProducersAreFrozen: the functions of the root package that produce ErrClientClosed. Every caller
// of such a function must treat that error as terminal (lookupRegion does so for the meta scan, not for its
// ZooKeeper branches): a new producer has to be reviewed together with its callers. C19.R3.
func closedErrorProducersAreFrozen(c *kit.Ctx) {
	p := c.P
	ecc := p.Global("", "ErrClientClosed")
	if ecc == nil {
		return
	}
	allowed := map[string]string{
		"(*gohbase.client).getRegionAndClientForRPC": "waits for a region: select on c.done",
		"(*gohbase.client).findClients":              "batch variant of the same wait",
		"(*gohbase.client).establishRegion":          "compares only",
		"(*gohbase.client).lookupRegion":             "passes the error of the meta scan on",
		"(*gohbase.client).lookupAllRegions":         "passes the error of the meta scan on",
		"(*gohbase.client).metaLookup":               "region of hbase:meta could not be resolved because the client is closed",
		"(*gohbase.client).metaLookupForTable":       "same for the all-regions scan",
		"(*gohbase.client).getRegionForRpc":          "passes on",
		"(*gohbase.client).findRegion":               "clients.put refused: closed",
		"(*gohbase.client).findAllRegions":           "clients.put refused: closed",
		"(*gohbase.client).sendRPCToRegionClient":    "wait for the result: select on c.done",
		"(*gohbase.client).waitForCompletion":        "wait for the results of a batch",
		"gohbase.sendBlocking":                       "wait for the result",
		"(*gohbase.client).SendBatch":                "passes on",
		"(*gohbase.client).SendRPC":                  "passes on",
	}
	n := 0
	for _, fn := range p.Funcs {
		if !p.IsSubject(fn) || fn.Pkg == nil || fn.Pkg.Pkg.Path() != kit.Module {
			continue
		}
		top := enclosingNamed(fn)
		kit.Instrs(fn, func(in ssa.Instruction) {
			r, ok := in.(*ssa.Return)
			if !ok {
				return
			}
			ev := returnedError(r)
			if ev == nil {
				return
			}
			produces := isGlobalLoad(kit.Strip(kit.Root(ev)), ecc) || usesGlobal(ev, ecc)
			if !produces {
				// ... or the sentinel is one of the values that flow into the returned error (a helper that was
				// expanded into this function hands it back through its result variable)
				for _, l := range valueLeaves(ev, r.Block()) {
					if isGlobalLoad(kit.Strip(l.val), ecc) || usesGlobal(l.val, ecc) {
						produces = true
					}
				}
			}
			if !produces {
				return
			}
			n++
			_, ok = allowed[kit.FuncName(top)]
			c.Check(ok, fn, "closed-error-producer", r.Pos(), "known producer of ErrClientClosed", "a new place returns ErrClientClosed ("+kit.FuncName(top)+"): its callers were not written for it - lookupRegion's ZooKeeper branches, for instance, do not treat ErrClientClosed as terminal, so an establisher that gets it there backs off and retries for ever after Close")
		})
	}
	if n == 0 {
		c.Unk(nil, "closed-error-producer", token.NoPos, "no function of the root package returns ErrClientClosed")
	}
}

// regionAttributesAreImmutable: the byte slices a RegionInfo hands out (start/stop key, name, table) are shared
// by everybody who holds the cached region: nothing in the root package writes through them or appends onto a
// sub-slice of them. Shared by C06.R4, C01.R5 and C08.R1 (a start key modified in place makes the cached region
// intersect its neighbour while the tree stays ordered by the unchanged names).
func regionAttributesAreImmutable(c *kit.Ctx) {
	p := c.P
	for _, fn := range p.Funcs {
		if enclosingNamed(fn).Pkg == nil || enclosingNamed(fn).Pkg.Pkg.Path() != kit.Module {
			continue
		}
		fromRegionAttr := func(v ssa.Value) bool {
			for i := 0; i < 8; i++ {
				switch x := kit.Strip(v).(type) {
				case *ssa.Slice:
					v = x.X
					continue
				case *ssa.Call:
					n := kit.CalleeName(x)
					return n == hrpcRI+"StartKey" || n == hrpcRI+"StopKey" || n == hrpcRI+"Name" || n == hrpcRI+"Table" || n == hrpcRI+"Namespace"
				}
				return false
			}
			return false
		}
		kit.Instrs(fn, func(in ssa.Instruction) {
			switch x := in.(type) {
			case *ssa.Store:
				if ia, ok := x.Addr.(*ssa.IndexAddr); ok && fromRegionAttr(kit.Root(ia.X)) {
					c.Bad(fn, "region-attribute-written", x.Pos(), "a byte of a RegionInfo attribute (start/stop key, name) is overwritten in place: the cached region descriptor is corrupted for every later request and scan", "")
				}
			case *ssa.Call:
				if kit.CalleeName(x) == "builtin.append" && fromRegionAttr(kit.Root(x.Call.Args[0])) {
					if sl, ok := kit.Root(x.Call.Args[0]).(*ssa.Slice); ok && sl.Max == nil {
						c.Bad(fn, "region-attribute-appended-to", x.Pos(), "append onto a sub-slice of a RegionInfo attribute writes into its backing array: the cached region's key is modified in place (later scans compute their next start row from the corrupted key)", "")
					}
				}
			}
		})
	}
}

// failedAttemptRelooksUp: an establishment attempt that failed (dial error, probe says not serving / retry
// later / connection dead) clears the address, so that the next attempt consults hbase:meta again: a region that
// moved is otherwise probed on its old server for ever. Shared by C04.R4, C01.R2 and C09.R4.
func failedAttemptRelooksUp(c *kit.Ctx) {
	est := c.Anchor("", "client", "establishRegion")
	if est == nil {
		return
	}
	sleepName := kit.M("", "", "sleepAndIncreaseBackoff")
	var addrAlloc *ssa.Alloc
	if ap := paramOfType(est, "string", 0); ap != nil {
		addrAlloc = spillOf(ap)
	}
	dials := kit.Calls(est, hrpcRC+"Dial")
	sleeps := kit.Calls(est, sleepName)
	// the address kept in a register (no closure of establishRegion captures it): the phi that merges the
	// parameter with what the rounds assign
	var addrPhi *ssa.Phi
	if addrAlloc == nil {
		if ap := paramOfType(est, "string", 0); ap != nil {
			kit.Instrs(est, func(in ssa.Instruction) {
				if ph, ok := in.(*ssa.Phi); ok && addrPhi == nil {
					for _, e := range ph.Edges {
						if e == ssa.Value(ap) {
							addrPhi = ph
						}
					}
				}
			})
		}
	}
	if addrAlloc == nil && addrPhi != nil && len(dials) == 1 && len(sleeps) == 1 {
		e := kit.PathFrom(dials[0], kit.PathQuery{
			TargetPath: func(x ssa.Instruction, path []*ssa.BasicBlock) bool {
				if x != sleeps[0].(ssa.Instruction) {
					return false
				}
				v := kit.ResolveAlong(addrPhi, path)
				k, ok := v.(*ssa.Const)
				return !(ok && k.Value != nil && k.Value.ExactString() == `""`)
			},
		})
		c.Check(e == nil, est, "failed-attempt-relooks-up", dials[0].Pos(), "every failed attempt clears the address so that the next one looks the region up again", "an establishment attempt can fail and be retried against the same address without consulting hbase:meta again: a region that moved is never found: "+c.BlockPath(e))
		return
	}
	if addrAlloc == nil || len(dials) != 1 || len(sleeps) != 1 {
		c.Unk(est, "relookup-shape", est.Pos(), "establishRegion no longer has one Dial, one back-off call and an address variable")
	} else {
		e := kit.PathFrom(dials[0], kit.PathQuery{
			Target: func(x ssa.Instruction) bool { return x == sleeps[0].(ssa.Instruction) },
			Stop: func(x ssa.Instruction) bool {
				st, ok := x.(*ssa.Store)
				if !ok || st.Addr != ssa.Value(addrAlloc) {
					return false
				}
				k, ok := st.Val.(*ssa.Const)
				return ok && k.Value != nil && k.Value.ExactString() == `""`
			},
		})
		c.Check(e == nil, est, "failed-attempt-relooks-up", dials[0].Pos(), "every failed attempt clears the address so that the next one looks the region up again", "an establishment attempt can fail and be retried against the same address without consulting hbase:meta again: a region that moved is never found: "+c.BlockPath(e))
	}
}

// everyWriteErrorIsReported: send examines the error of each write on the connection before it writes again or
// returns: an error that is overwritten by a later, successful write (a loop over the parts of a frame) makes
// send report success after a torn frame - the connection stays open with a desynchronised stream. C03.R6, C05.R6.
func everyWriteErrorIsReported(c *kit.Ctx) {
	send := c.Anchor("region", "client", "send")
	if send == nil {
		return
	}
	writes := connWrites(c.P, send)
	if len(writes) == 0 {
		c.Unk(send, "every-write-error-reported", send.Pos(), "send performs no write on the connection")
		return
	}
	isWrite := map[ssa.Instruction]bool{}
	for _, w := range writes {
		isWrite[w.(ssa.Instruction)] = true
	}
	for _, w := range writes {
		// the error value of this write (last result)
		var errV ssa.Value
		sig := w.Common().Signature()
		if sig.Results().Len() == 1 {
			errV = w.Value()
		} else if sig.Results().Len() > 1 {
			errV = kit.ExtractOf(w.Value(), sig.Results().Len()-1)
		}
		if errV == nil {
			c.Bad(send, "every-write-error-reported", w.Pos(), "the error of a write on the connection is discarded: a failed (possibly partial) write is not noticed", "")
			continue
		}
		tested := func(x ssa.Instruction) bool {
			iff, ok := x.(*ssa.If)
			if !ok {
				return false
			}
			cmp, ok := kit.CanonCmp(iff.Cond, true)
			if !ok || !kit.IsNilConst(cmp.Y) {
				return false
			}
			v := cmp.X
			if u, isLoad := v.(*ssa.UnOp); isLoad && u.Op == token.MUL {
				if a, isLocal := u.X.(*ssa.Alloc); isLocal {
					if sv := kit.ReachingStore(u, a); sv != nil {
						v = sv
					} else {
						// a variable written on several ways (if/else writes, named result): does the store of this
						// write's error reach the load without another store in between?
						for _, r := range kit.Referrers(a) {
							st, ok := r.(*ssa.Store)
							if !ok || st.Addr != ssa.Value(a) || kit.Root(st.Val) != errV {
								continue
							}
							e := kit.PathFrom(st, kit.PathQuery{
								Target: func(y ssa.Instruction) bool { return y == ssa.Instruction(u) },
								Stop: func(y ssa.Instruction) bool {
									o, ok := y.(*ssa.Store)
									return ok && o.Addr == ssa.Value(a)
								},
							})
							if e != nil {
								return true
							}
						}
					}
				}
			}
			if kit.Root(v) == errV {
				return true
			}
			// a phi that merges this write's error with the error of an alternative write (if/else)
			if ph, ok := kit.Root(v).(*ssa.Phi); ok {
				for _, e := range ph.Edges {
					if kit.Root(e) == errV {
						return true
					}
				}
			}
			return false
		}
		e := kit.PathFrom(w.(ssa.Instruction), kit.PathQuery{
			Stop: tested,
			Target: func(x ssa.Instruction) bool {
				if isWrite[x] {
					return true
				}
				_, isRet := x.(*ssa.Return)
				return isRet
			},
		})
		c.Check(e == nil, send, "every-write-error-reported", w.Pos(), "the error of this write is tested before the next write or the return", "the error of a write on the connection can be overwritten or dropped before it is looked at (e.g. a loop that writes the parts of a frame and keeps only the last error): after a failed, possibly partial write send reports success, the connection is not failed and the stream stays out of sync: "+c.BlockPath(e))
	}
}

// receivedResultIsExamined: a result taken from a call's result channel in waitForCompletion is examined for
// its error (the test that clears ok and decides about the retry) on every way; taking it without looking -
// e.g. in the arm that sees the call's own context done - reports a failed call as if it had succeeded. C07.R4.
func receivedResultIsExamined(c *kit.Ctx) {
	wfc := c.Anchor("", "client", "waitForCompletion")
	if wfc == nil {
		return
	}
	p := c.P
	n := 0
	// only the first loop (the waits); the drain after a cancelled batch context is covered by the batch-context exemption
	kit.Instrs(wfc, func(in ssa.Instruction) {
		st, ok := in.(*ssa.Store)
		if !ok {
			return
		}
		ia, ok := st.Addr.(*ssa.IndexAddr)
		if !ok || !isResultSlice(p, ia.X.Type()) {
			return
		}
		from := receivedFrom(p, st.Val)
		if from == nil {
			return
		}
		n++
		// an If on the Error field of the stored value follows on every way (or the function's ok result is false)
		isErrTest := func(x ssa.Instruction) bool {
			iff, ok := x.(*ssa.If)
			if !ok {
				return false
			}
			cmp, ok := kit.CanonCmp(iff.Cond, true)
			if !ok || !kit.IsNilConst(cmp.Y) || !kit.IsErrorType(cmp.X.Type()) {
				return false
			}
			return true
		}
		e := kit.PathFrom(st, kit.PathQuery{
			Stop: isErrTest,
			Target: func(x ssa.Instruction) bool {
				if _, isRet := x.(*ssa.Return); isRet {
					return true
				}
				// the next wait
				_, isSel := x.(*ssa.Select)
				return isSel
			},
		})
		okIdx := wfc.Signature.Results().Len() - 1
		good := e == nil || resultOnWayFrom(wfc, st, okIdx) == "false"
		c.Check(good, wfc, "received-result-examined", st.Pos(), "the error of a received result is tested before the next wait", "a result taken from a call's result channel is stored without looking at its error: a failed call is neither retried nor reflected in the success flag - SendBatch reports allOK although the result carries an error: "+c.BlockPath(e))
	})
	if n == 0 {
		c.Unk(wfc, "received-result-examined", wfc.Pos(), "waitForCompletion no longer stores received results")
	}
}

// connectionClosedWhicheverComesFirst: Close/fail and Dial can run in either order. fail() reads the connection
// under the mutex Dial writes it under and closes it if it is there; Dial, after it has published the
// connection, looks at the done channel and closes the connection itself if the client has failed meanwhile.
// Without the second half a client closed while it was connecting keeps a socket open that nobody will close. C19.R1, C03.R1.
func connectionClosedWhicheverComesFirst(c *kit.Ctx) {
	p := c.P
	fail, dial := c.Anchor("region", "client", "fail"), c.Anchor("region", "client", "Dial")
	connF, connM, doneF := p.Field("region", "client", "conn"), p.Field("region", "client", "connM"), p.Field("region", "client", "done")
	if fail == nil || dial == nil || connF == nil || connM == nil || doneF == nil {
		return
	}
	env := kit.NewLockEnv(p)
	// (i)
	n := 0
	for _, fn := range kit.WithAnon(fail) {
		kit.Instrs(fn, func(in ssa.Instruction) {
			ld, ok := in.(*ssa.UnOp)
			if !ok || !isLoadOfField(ld, connF) {
				return
			}
			n++
			c.Check(env.At(ld).HoldsField(connM, false), fn, "conn-read-under-its-mutex", ld.Pos(), "fail reads c.conn with connM held", "fail reads c.conn without the mutex Dial writes it under: a Close that races with Dial may not see the connection (and it is a data race)")
		})
	}
	if n == 0 {
		c.Unk(fail, "conn-read-under-its-mutex", fail.Pos(), "fail no longer looks at c.conn")
	}
	// (ii)
	m := 0
	for _, fn := range kit.WithAnon(dial) {
		kit.Instrs(fn, func(in ssa.Instruction) {
			st, ok := in.(*ssa.Store)
			if !ok {
				return
			}
			fa, ok := st.Addr.(*ssa.FieldAddr)
			if !ok || kit.FieldVar(fa.X.Type(), fa.Field) != connF {
				return
			}
			m++
			e := kit.PathFrom(st, kit.PathQuery{
				Stop: func(x ssa.Instruction) bool {
					sel, ok := x.(*ssa.Select)
					if !ok {
						return false
					}
					for _, s := range sel.States {
						if s.Dir == types.RecvOnly && isLoadOfField(s.Chan, doneF) {
							return true
						}
					}
					return false
				},
				Target: func(x ssa.Instruction) bool {
					if g, ok := x.(*ssa.Go); ok && strings.HasSuffix(kit.CalleeName(g), "receiveRPCs") {
						return true
					}
					_, isRet := x.(*ssa.Return)
					return isRet
				},
			})
			closes := false
			kit.Instrs(fn, func(x ssa.Instruction) {
				call, ok := x.(ssa.CallInstruction)
				if !ok || kit.CalleeName(call) != "(net.Conn).Close" {
					return
				}
				for _, s := range selectArmsAt(x.Block()) {
					if s.Dir == types.RecvOnly && isLoadOfField(s.Chan, doneF) {
						closes = true
					}
				}
			})
			c.Check(e == nil && closes, fn, "dial-rechecks-done", st.Pos(), "after publishing the connection Dial looks at c.done and closes the connection in that arm", "Dial does not look at c.done after it has stored the connection (or does not close the connection there): a client that was closed while Dial was still connecting - fail() saw no connection yet - keeps the socket open for ever")
		})
	}
	if m == 0 {
		c.Unk(dial, "dial-rechecks-done", dial.Pos(), "Dial no longer stores the connection in c.conn")
	}
}
