package props

import (
	"go/token"

	"golang.org/x/tools/go/ssa"

	"gohbaseverif/kit"
)

func init() {
	register("C20", &Property{
		Title: "One connection per regionserver, shared by all its regions",
		Explanation: "Structural necessary conditions, exhaustively enumerated over the resolved program (typed syntax + SSA): " +
			"(R1) the connection factory (function value in client.newRegionClientFn) is called only inside the literal handed to clientRegionCache.put and in the tabled admin branch; in put, the address scan, the factory call and the insertion into the cache lie in one critical section of the cache mutex, the factory call is dominated by the exhausted-scan edge and the hit edge (addr == existing.Addr()) returns the existing connection; " +
			"(R2) the dialer function value is invoked only inside the literal passed to dialOnce.Do, the two connection goroutines are started only there, and Dial's result depends only on the done channel; " +
			"(R3) entries are deleted from the connection cache only in clientRegionCache.clientDown, reached only from client.clientDown, which is called only where a ServerError / failed dial was observed; " +
			"(R4) a non-nil connection is attached to a region (SetClient) only in establishRegion and only with the value obtained from put (or the admin factory call)." +
			" Added after the seeded-change rounds: (R2) Addr() returns the addr field, which is only ever NewClient's address parameter, unchanged (the cache compares addresses for equality); (R3) the connection declared dead after a failed result is the connection the call was queued on: handleResultError passes its rc parameter to clientDown, waitForCompletion and sendRPCToRegionClient pass their own connection parameter, and the single-call path queues on that parameter.",
		Residue: "the number of real dials under all schedules (a count over executions); correctness of the address comparison as identity of servers",
		Run:     runC20,
	})
}

func runC20(c *kit.Ctx) {
	p := c.P
	put := c.Anchor("", "clientRegionCache", "put")
	est := c.Anchor("", "client", "establishRegion")
	dial := c.Anchor("region", "client", "Dial")
	rccDown := c.Anchor("", "clientRegionCache", "clientDown")
	cDown := c.Anchor("", "client", "clientDown")
	hre := c.Anchor("", "client", "handleResultError")
	if put == nil || est == nil || dial == nil || rccDown == nil || cDown == nil || hre == nil {
		return
	}
	factoryField := p.Field("", "client", "newRegionClientFn")
	adminField := p.Field("", "client", "adminRegionInfo")
	regionsField := p.Field("", "clientRegionCache", "regions")
	rccM := p.Field("", "clientRegionCache", "m")
	dialerField := p.Field("region", "client", "dialer")
	dialOnce := p.Field("region", "client", "dialOnce")
	doneField := p.Field("region", "client", "done")
	if factoryField == nil || adminField == nil || regionsField == nil || rccM == nil || dialerField == nil || dialOnce == nil || doneField == nil {
		c.StartRule("anchors", "field anchors resolve", 0)
		c.Unk(put, "unresolved-anchor", token.NoPos, "one of the fields client.newRegionClientFn/adminRegionInfo, clientRegionCache.regions/m, region.client.dialer/dialOnce/done is gone")
		return
	}
	putName := kit.M("", "*clientRegionCache", "put")

	// ---- R1 -----------------------------------------------------------------
	c.StartRule("R1", "connection factory only on a cache miss, inside one critical section keyed by address", 6)
	c.Table("C20.R1: admin branch of establishRegion creates one uncached master connection (reason: the admin client talks to a single master and never shares it)")
	sites := callsOfFieldValue(p, factoryField)
	for _, s := range sites {
		fn := s.Parent()
		if fn.Parent() != nil && literalPassedTo(fn, putName) != nil {
			c.OK(fn, "factory-call", s.Pos(), "inside the literal passed as newClient to clientRegionCache.put")
			continue
		}
		if fn == est {
			// tabled: must be on the true edge of reg == c.adminRegionInfo
			ok := false
			for _, f := range kit.FactsAt(s.Block()) {
				if cmp, isCmp := kit.CanonCmp(f.Cond, f.Pol); isCmp && cmp.Op == token.EQL {
					if isLoadOfField(cmp.X, adminField) || isLoadOfField(cmp.Y, adminField) {
						ok = true
					}
				}
			}
			c.Check(ok, fn, "factory-call", s.Pos(), "tabled admin branch: on the edge reg == c.adminRegionInfo",
				"direct factory call in establishRegion outside the admin-region edge: a connection is created without consulting the cache")
			continue
		}
		c.Bad(fn, "factory-call", s.Pos(), "connection factory called outside clientRegionCache.put's miss path", "")
	}
	// inside put
	var newClientParam *ssa.Parameter
	var addrParam *ssa.Parameter
	for _, pa := range put.Params {
		if sig, ok := pa.Type().Underlying().(interface{ Results() interface{ Len() int } }); ok {
			_ = sig
		}
	}
	for _, pa := range put.Params {
		switch pa.Type().Underlying().String() {
		case "string":
			addrParam = pa
		}
		if _, ok := pa.Type().Underlying().(*typesSignature); ok {
			newClientParam = pa
		}
	}
	var factoryCall ssa.CallInstruction
	kit.Instrs(put, func(in ssa.Instruction) {
		if ci, ok := in.(ssa.CallInstruction); ok && !ci.Common().IsInvoke() {
			if pa, ok := ci.Common().Value.(*ssa.Parameter); ok && pa == newClientParam {
				factoryCall = ci
			}
		}
	})
	if factoryCall == nil || addrParam == nil {
		c.Unk(put, "factory-param-call", put.Pos(), "put no longer calls its factory parameter in a recognisable way")
		return
	}
	le := kit.NewLockEnv(p)
	held := le.At(factoryCall)
	c.Check(held.HoldsField(rccM, true), put, "factory-under-lock", factoryCall.Pos(),
		"factory parameter called with the cache mutex write-locked "+held.String(),
		"factory parameter called without the cache mutex held: two first users of one server both create a connection")
	// insertion of the created connection
	var insert *ssa.MapUpdate
	kit.Instrs(put, func(in ssa.Instruction) {
		if mu, ok := in.(*ssa.MapUpdate); ok && isLoadOfField(mu.Map, regionsField) && kit.Same(mu.Key, factoryCall.Value()) {
			insert = mu
		}
	})
	if insert == nil {
		c.Bad(put, "insert-created", factoryCall.Pos(), "the connection returned by the factory is not inserted into the cache (rcc.regions[c] = ...)", "")
	} else {
		c.Check(le.At(insert).HoldsField(rccM, true), put, "insert-under-lock", insert.Pos(),
			"insertion under the cache mutex", "insertion into the cache without the mutex")
		// no unlock between the beginning of the scan and the insertion
		bad := false
		for _, u := range kit.Calls(put, nmRWUnl, "(*sync.RWMutex).RUnlock") {
			if kit.Reaches(u, factoryCall) || (kit.Reaches(factoryCall, u) && kit.Reaches(u, insert)) {
				bad = true
				c.Bad(put, "critical-section-split", u.Pos(), "the cache mutex is released between the address scan and the insertion of the new connection", "")
			}
		}
		if !bad {
			c.OK(put, "critical-section", insert.Pos(), "no unlock can execute between the scan, the factory call and the insertion")
		}
	}
	// scan: range over rcc.regions, hit edge compares addr with existing.Addr()
	var hit *ssa.If
	var existing ssa.Value
	var rangeIf *ssa.If
	kit.Instrs(put, func(in ssa.Instruction) {
		iff, ok := in.(*ssa.If)
		if !ok {
			return
		}
		if cmp, ok := kit.CanonCmp(iff.Cond, true); ok && !cmp.Bytes && (cmp.Op == token.EQL || cmp.Op == token.NEQ) {
			for _, pr := range [][2]ssa.Value{{cmp.X, cmp.Y}, {cmp.Y, cmp.X}} {
				if pr[0] == ssa.Value(addrParam) {
					if call, ok := pr[1].(*ssa.Call); ok && kit.CalleeName(call) == hrpcRC+"Addr" {
						hit = iff
						existing = call.Call.Value
					}
				}
			}
		}
		if ex, ok := iff.Cond.(*ssa.Extract); ok && ex.Index == 0 {
			if nx, ok := ex.Tuple.(*ssa.Next); ok {
				if rg, ok := nx.Iter.(*ssa.Range); ok && isLoadOfField(rg.X, regionsField) {
					rangeIf = iff
				}
			}
		}
	})
	if hit == nil || rangeIf == nil {
		c.Unk(put, "address-scan", put.Pos(), "no scan of rcc.regions comparing addr with existing.Addr() found")
	} else {
		cmp, _ := kit.CanonCmp(hit.Cond, true)
		hitBlock := kit.SuccOnTrue(hit)
		if cmp.Op == token.NEQ {
			hitBlock = kit.SuccOnFalse(hit)
		}
		// existing must be the key of the range
		isKey := false
		if ex, ok := existing.(*ssa.Extract); ok && ex.Index == 1 {
			if nx, ok := ex.Tuple.(*ssa.Next); ok {
				if rg, ok := nx.Iter.(*ssa.Range); ok && isLoadOfField(rg.X, regionsField) {
					isKey = true
				}
			}
		}
		c.Check(isKey, put, "scan-subject", hit.Pos(), "addr is compared with Addr() of each cached connection (range key of rcc.regions)",
			"the address comparison does not range over the cached connections")
		// every exit reachable from the hit edge returns the existing connection and never calls the factory
		e := kit.PathFromBlock(hitBlock, kit.PathQuery{TargetPath: func(in ssa.Instruction, path []*ssa.BasicBlock) bool {
			if in == factoryCall.(ssa.Instruction) {
				return true
			}
			if r, ok := in.(*ssa.Return); ok {
				full := append([]*ssa.BasicBlock{hit.Block()}, path...)
				return len(r.Results) != 1 || !kit.Same(kit.ResolveAlong(kit.Res(r, 0), full), existing)
			}
			return false
		}})
		c.Check(e == nil, put, "hit-returns-existing", hit.Pos(), "on the equal-address edge every path returns the existing connection without calling the factory",
			"on the equal-address edge a path creates a connection or returns something else: "+c.BlockPath(e))
		// miss: factory call dominated by the exhausted-scan edge
		exh := kit.SuccOnFalse(rangeIf)
		viaOther := kit.PathFromEntry(put, kit.PathQuery{
			Target:   func(in ssa.Instruction) bool { return in == factoryCall.(ssa.Instruction) },
			SkipEdge: func(from, to *ssa.BasicBlock) bool { return from == rangeIf.Block() && to == exh },
		})
		c.Check(viaOther == nil, put, "miss-after-full-scan", factoryCall.Pos(),
			"the factory call is reached only through the exhausted-scan edge of the range over the cache",
			"the factory can be called before the whole cache has been scanned for the address")
	}

	// ---- R2 -----------------------------------------------------------------
	addressesAreUsedAsRegistered(c)

	c.StartRule("R2", "dial performed once per connection object", 4)
	dialRunsUnderTheEstablishedRegion(c)
	connectionWritesAreSerialised(c) // the one connection is shared: concurrent senders must not interleave their frames (the server drops a connection whose stream is garbled, and all its regions are dialled again)
	lit, _ := onceLiteral(dial, dialOnce)
	if lit == nil {
		c.Bad(dial, "dial-once", dial.Pos(), "Dial no longer runs its body under dialOnce.Do", "")
	} else {
		c.Funcs[kit.FuncName(lit)] = true
		for _, s := range callsOfFieldValue(p, dialerField) {
			c.Check(s.Parent() == lit, s.Parent(), "dialer-call", s.Pos(), "dialer invoked inside the literal passed to dialOnce.Do",
				"dialer invoked outside dialOnce.Do: one connection object can dial more than once")
		}
		for _, name := range []string{kit.M("region", "*client", "processRPCs"), kit.M("region", "*client", "receiveRPCs")} {
			for _, s := range callersOf(p, name) {
				_, isGo := s.(*ssa.Go)
				c.Check(isGo && s.Parent() == lit, s.Parent(), "goroutine-start", s.Pos(), "connection goroutine started once, inside dialOnce.Do",
					"connection goroutine started outside dialOnce.Do")
			}
		}
		// Dial's result: every return is nil or ErrClientClosed chosen by a non-blocking select on c.done
		okRet := true
		kit.Instrs(dial, func(in ssa.Instruction) {
			r, ok := in.(*ssa.Return)
			if !ok {
				return
			}
			v := kit.Root(kit.Res(r, 0))
			if kit.IsNilConst(v) {
				return
			}
			// a non-nil result is chosen under the done case of a non-blocking select on c.done: the
			// return itself, or the edge that carries the value into the returned variable
			underDone := func(facts []kit.Fact) bool {
				for _, f := range facts {
					if cmp, ok := kit.CanonCmp(f.Cond, f.Pol); ok && cmp.Op == token.EQL {
						if ex, ok := cmp.X.(*ssa.Extract); ok {
							if s, ok := ex.Tuple.(*ssa.Select); ok && len(s.States) == 1 && isLoadOfField(s.States[0].Chan, doneField) {
								return true
							}
						}
					}
				}
				return false
			}
			sel := underDone(kit.FactsAt(r.Block()))
			if ph, ok := v.(*ssa.Phi); ok && !sel {
				sel = true
				seen := map[*ssa.Phi]bool{}
				var walk func(ph *ssa.Phi)
				walk = func(ph *ssa.Phi) {
					if seen[ph] {
						return
					}
					seen[ph] = true
					for i, e := range ph.Edges {
						e = kit.Root(e)
						if kit.IsNilConst(e) {
							continue
						}
						if inner, ok := e.(*ssa.Phi); ok {
							walk(inner)
							continue
						}
						if !underDone(kit.EdgeFacts(ph.Block().Preds[i], ph.Block())) {
							sel = false
						}
					}
				}
				walk(ph)
			}
			if !sel {
				okRet = false
			}
		})
		// every Dial goes through the once: a caller arriving while the connection is being set up
		// waits for the hello instead of writing ahead of it
		if e := mustPass(dial, func(x ssa.Instruction) bool {
			cc, ok := x.(*ssa.Call)
			return ok && kit.CalleeName(cc) == nmOnceDo
		}, nil); true {
			c.Check(e == nil, dial, "dial-through-once", dial.Pos(), "every path through Dial calls dialOnce.Do", "Dial can return without going through dialOnce.Do (a fast path): a second region of a server whose connection is still being set up does not wait for the hello, its request is written ahead of or into the preamble, the server drops the connection and is dialled again: "+c.BlockPath(e))
		}
		c.Check(okRet, dial, "dial-result", dial.Pos(), "Dial returns an error only on the closed done channel", "Dial returns an error not derived from the done channel")
	}

	// the cache recognises a connection by comparing the address it is asked for with Addr() of the
	// connections it holds: Addr() must give back, byte for byte, the address the connection was made for
	{
		addrF := p.Field("region", "client", "addr")
		addrFn := p.Func("region", "client", "Addr")
		newC := p.Func("region", "", "NewClient")
		if addrF == nil || addrFn == nil || newC == nil {
			c.Unk(nil, "address-identity", token.NoPos, "region.client.addr / Addr / NewClient not found")
		} else {
			kit.Instrs(addrFn, func(in ssa.Instruction) {
				if r, ok := in.(*ssa.Return); ok {
					c.Check(isLoadOfField(kit.Res(r, 0), addrF), addrFn, "address-identity", r.Pos(), "Addr() returns the addr field", "Addr() no longer returns the stored address")
				}
			})
			n := 0
			for _, a := range p.FieldAccesses(addrF) {
				st, ok := a.Instr.(*ssa.Store)
				if !a.Write || !ok {
					continue
				}
				n++
				par, isPar := kit.Root(st.Val).(*ssa.Parameter)
				c.Check(isPar && a.Fn == newC && par.Type().String() == "string", a.Fn, "address-identity", st.Pos(), "addr is NewClient's address parameter, unchanged",
					"the address a connection remembers is not the address it was created for, unchanged (normalised, resolved, re-formatted...): the cache compares the requested address with Addr() for equality, so for addresses the transformation changes it never finds the existing connection and every region gets its own connection")
			}
			if n == 0 {
				c.Unk(newC, "address-identity", newC.Pos(), "no store to region.client.addr found")
			}
		}
	}

	// a healthy connection stays usable: nothing but the in-flight helpers arms a deadline on it
	counterAndDeadlineUnderOneLock(c, kit.NewLockEnv(p))

	// ---- R3 -----------------------------------------------------------------
	c.StartRule("R3", "cache entries are removed only on the declared-dead path", 5)
	cacheEntriesLeaveOnlyWhenDead(c)
	decodeErrorsKeepTheConnection(c)
	clientDownOnlyWhenDead(c, hre, est)
	deadConnectionIsTheFailedOne(c)
	classificationGoesByClassName(c)
	closedErrorOnlyWhenClosed(c)
	exceptionTableOracle(c)
	receiveRejectsOnlyMalformed(c)
	probeClassifiesOutcome(c)

	// ---- R4 -----------------------------------------------------------------
	c.StartRule("R4", "regions get their connection from the cache", 5)
	connectionsComeFromTheCache(c)

	// ---- R5 -----------------------------------------------------------------
	if !c.Frozen {
		embed(c, "R5", "a healthy, idle connection is never declared dead, so its server is not dialled a second time (the read-deadline rules of C18, run as one rule here)", 40, runC18)
	}
}

// cacheEntriesLeaveOnlyWhenDead: shared by C20.R3 and C19.R2 (closeAll closes what the cache holds).
func cacheEntriesLeaveOnlyWhenDead(c *kit.Ctx) {
	p := c.P
	regionsField := p.Field("", "clientRegionCache", "regions")
	rccDown := p.Func("", "clientRegionCache", "clientDown")
	cDown := p.Func("", "client", "clientDown")
	if regionsField == nil || rccDown == nil || cDown == nil {
		c.Unk(nil, "cache-delete", token.NoPos, "clientRegionCache.regions / clientDown not found")
		return
	}
	for _, a := range p.FieldAccesses(regionsField) {
		if a.Kind != "map-delete" && a.Kind != "store" {
			continue
		}
		if a.Kind == "store" && kit.FreshObject(a.Instr) {
			c.OK(a.Fn, "cache-init", a.Instr.Pos(), "initialisation of a fresh cache object")
			continue
		}
		// which delete: delete(rcc.regions, c) (outer map)
		c.Check(a.Fn == rccDown, a.Fn, "cache-delete", posOf(a.Instr), "connection removed from the cache in clientRegionCache.clientDown",
			"connection removed from (or cache map replaced in) the cache outside clientRegionCache.clientDown: a live connection can be forgotten and a second one opened")
	}
	for _, s := range callersOf(p, kit.M("", "*clientRegionCache", "clientDown")) {
		c.Check(s.Parent() == cDown, s.Parent(), "caller-of-cache-clientDown", s.Pos(), "called from client.clientDown", "unexpected caller of clientRegionCache.clientDown")
	}
}

// connectionsComeFromTheCache: the connection a region is given is the one clientRegionCache.put returned for the
// address that was looked up (or the admin connection): a region never gets a connection from anywhere else - not
// the one it had before, which clientDown may have removed from the cache while the region was being
// re-established. C20.R4, C09.R3.
func connectionsComeFromTheCache(c *kit.Ctx) {
	p := c.P
	est := c.Anchor("", "client", "establishRegion")
	factoryField := p.Field("", "client", "newRegionClientFn")
	putName := kit.M("", "*clientRegionCache", "put")
	if est == nil || factoryField == nil {
		return
	}
	for _, fn := range p.Funcs {
		if fn.Pkg == nil || fn.Pkg.Pkg.Path() != kit.Module {
			if enclosingNamed(fn).Pkg == nil || enclosingNamed(fn).Pkg.Pkg.Path() != kit.Module {
				continue
			}
		}
		for _, s := range kit.Calls(fn, hrpcRI+"SetClient") {
			arg := s.Common().Args[0]
			if kit.IsNilConst(kit.Root(arg)) {
				c.OK(fn, "set-client-nil", s.Pos(), "detaches the connection")
				continue
			}
			ok := fn == est
			if ok {
				ok = false
				r := kit.Root(arg)
				var srcs []ssa.Value
				if ph, isPhi := r.(*ssa.Phi); isPhi {
					srcs = ph.Edges
				} else {
					srcs = []ssa.Value{r}
				}
				ok = len(srcs) > 0
				for _, e := range srcs {
					call, isCall := kit.Root(e).(*ssa.Call)
					if !isCall {
						ok = false
						break
					}
					if kit.CalleeName(call) == putName {
						continue
					}
					if _, fv := kit.FieldRead(call.Call.Value); fv == factoryField {
						continue // admin branch, checked in R1
					}
					ok = false
				}
			}
			c.Check(ok, fn, "set-client", s.Pos(), "connection attached in establishRegion comes from clientRegionCache.put (or the tabled admin factory call)",
				"a connection that did not come out of the cache is attached to a region")
		}
	}

}
