package props

import (
	"go/token"
	"go/types"

	"golang.org/x/tools/go/ssa"

	"gohbaseverif/kit"
)

func init() {
	register("C19", &Property{
		Title: "Close is terminal and leaves nothing running",
		Explanation: "(R1) close(c.done) only inside the literal passed to closeOnce.Do, which also closes the master connection of an admin client and calls clients.closeAll(); " +
			"(R2) closeAll, under the cache lock, closes every cached connection and marks every region of it unavailable with no client; " +
			"(R3) both waits of getRegionAndClientForRPC have a <-c.done case returning ErrClientClosed; reestablishRegion tests c.done before doing anything; lookupRegion/lookupAllRegions return on ErrClientClosed before the back-off; establishRegion returns on it without releasing waiters; " +
			"(R4) no connection is created after Close: the connection factory runs only in clientRegionCache.put, and there it is dominated - inside the same critical section - by the false edge of a closed flag that closeAll sets under that lock before closing the connections; the establisher handles the refusal by returning; " +
			"(R5) connections are handed calls only after getRegionAndClientForRPC / findClients succeeded (so every later call sees the closed signal first)." +
			" Added after the seeded-change rounds: (R2) entries leave the connection cache only in clientRegionCache.clientDown and client.clientDown is called only where the connection was observed dead (shared with C20.R3): a forgotten live connection is never closed by closeAll; (R3) an establisher is started through reestablishRegion or directly after a lookup of the same function succeeded.",
		Residue:   "goroutine count at quiescence; promptness (real time); the admin client (its interface exposes no Close)",
		Technique: "once/defer idioms, who-may-call tables, dominance under a lock (lock-set analysis), path search",
		Run:       runC19,
	})
}

func runC19(c *kit.Ctx) {
	p := c.P
	closeFn := c.Anchor("", "client", "Close")
	closeAll := c.Anchor("", "clientRegionCache", "closeAll")
	put := c.Anchor("", "clientRegionCache", "put")
	gr := c.Anchor("", "client", "getRegionAndClientForRPC")
	rees := c.Anchor("", "client", "reestablishRegion")
	est := c.Anchor("", "client", "establishRegion")
	lr := c.Anchor("", "client", "lookupRegion")
	lar := c.Anchor("", "client", "lookupAllRegions")
	sendRPC := c.Anchor("", "client", "SendRPC")
	sendBatch := c.Anchor("", "client", "SendBatch")
	if closeFn == nil || closeAll == nil || put == nil || gr == nil || rees == nil || est == nil || lr == nil || lar == nil || sendRPC == nil || sendBatch == nil {
		return
	}
	doneF := p.Field("", "client", "done")
	closeOnce := p.Field("", "client", "closeOnce")
	regionsF := p.Field("", "clientRegionCache", "regions")
	rccM := p.Field("", "clientRegionCache", "m")
	adminF := p.Field("", "client", "adminRegionInfo")
	errClosed := p.Global("", "ErrClientClosed")
	if doneF == nil || closeOnce == nil || regionsF == nil || rccM == nil || errClosed == nil || adminF == nil {
		c.StartRule("anchors", "anchors resolve", 0)
		c.Unk(closeFn, "unresolved-anchor", token.NoPos, "client.done/closeOnce/adminRegionInfo, clientRegionCache.regions/m or ErrClientClosed missing")
		return
	}
	le := kit.NewLockEnv(p)

	// ---- R1 ---------------------------------------------------------------
	c.StartRule("R1", "once-guarded close", 3)
	connectionClosedWhicheverComesFirst(c)
	lit, _ := onceLiteral(closeFn, closeOnce)
	if lit == nil {
		c.Bad(closeFn, "close-once", closeFn.Pos(), "Close no longer runs under closeOnce.Do: closing twice panics (close of closed channel)", "")
	} else {
		c.Funcs[kit.FuncName(lit)] = true
		for _, fn := range p.Funcs {
			if enclosingNamed(fn).Pkg == nil || enclosingNamed(fn).Pkg.Pkg.Path() != kit.Module {
				continue
			}
			for _, call := range kit.Calls(fn, "builtin.close") {
				if isLoadOfField(call.Common().Args[0], doneF) {
					c.Check(fn == lit, fn, "close-done", call.Pos(), "close(c.done) inside closeOnce.Do", "close(c.done) outside closeOnce.Do")
				}
			}
		}
		nAll := len(kit.Calls(lit, kit.M("", "*clientRegionCache", "closeAll")))
		c.Check(nAll == 1, lit, "close-all", lit.Pos(), "the close literal calls clients.closeAll()", "Close no longer closes the cached connections")
		adminClosed := false
		for _, call := range kit.Calls(lit, hrpcRC+"Close") {
			// the receiver is adminRegionInfo.Client(), directly or through a local that is nil otherwise
			recv := kit.Strip(call.Common().Value)
			leaves := []ssa.Value{recv}
			if ph, ok := recv.(*ssa.Phi); ok {
				leaves = kit.PhiLeaves(ph)
			}
			for _, lv := range leaves {
				if cc, ok := kit.Root(lv).(*ssa.Call); ok && kit.CalleeName(cc) == hrpcRI+"Client" && isLoadOfField(cc.Call.Value, adminF) {
					adminClosed = true
				}
			}
		}
		c.Check(adminClosed, lit, "close-master", lit.Pos(), "the master connection of an admin client is closed", "Close no longer closes the admin client's master connection")
	}

	if closeFn := p.Func("", "client", "Close"); closeFn != nil {
		e := mustPass(closeFn, func(x ssa.Instruction) bool {
			cc, ok := x.(*ssa.Call)
			return ok && kit.CalleeName(cc) == nmOnceDo
		}, nil)
		c.Check(e == nil, closeFn, "close-through-once", closeFn.Pos(), "every Close goes through closeOnce.Do (a second caller waits until the first has finished closing)", "Close can return without going through closeOnce.Do (an 'already closed' fast path): a second, concurrent Close returns while the first is still closing connections - connections are open after Close returned: "+c.BlockPath(e))
	}

	// ---- R2 ---------------------------------------------------------------
	c.StartRule("R2", "closeAll closes everything it holds", 3)
	{
		var outer *ssa.Next
		kit.Instrs(closeAll, func(in ssa.Instruction) {
			if nx, ok := in.(*ssa.Next); ok {
				if rg, ok := nx.Iter.(*ssa.Range); ok && isLoadOfField(rg.X, regionsF) {
					outer = nx
				}
			}
		})
		if outer == nil {
			c.Bad(closeAll, "range-cache", closeAll.Pos(), "closeAll no longer ranges over the connection cache", "")
		} else {
			key := kit.ExtractOf(outer, 1)
			body := outer.Block().Succs[0]
			// every iteration closes the connection
			e := kit.PathFromBlock(body, kit.PathQuery{
				Target: func(in ssa.Instruction) bool { return in == ssa.Instruction(outer) },
				Stop: func(in ssa.Instruction) bool {
					call, ok := in.(*ssa.Call)
					return ok && kit.CalleeName(call) == hrpcRC+"Close" && key != nil && call.Call.Value == key
				},
			})
			c.Check(e == nil && key != nil, closeAll, "close-each", outer.Pos(), "every cached connection is closed", "an iteration of closeAll can skip closing the connection")
			c.Check(le.At(outer).HoldsField(rccM, true), closeAll, "under-lock", outer.Pos(), "under the cache lock", "closeAll walks the cache without the cache lock")
			marks, clears := 0, 0
			for _, call := range kit.Calls(closeAll, hrpcRI+"MarkUnavailable") {
				if body.Dominates(call.Block()) {
					marks++
				}
			}
			for _, call := range kit.Calls(closeAll, hrpcRI+"SetClient") {
				if body.Dominates(call.Block()) && kit.IsNilConst(kit.Root(call.Common().Args[0])) {
					clears++
				}
			}
			c.Check(marks == 1 && clears == 1, closeAll, "regions-detached", outer.Pos(), "every region of a closed connection is marked unavailable and loses its client", "closeAll no longer marks the regions unavailable / clears their client")
		}
	}

	// closeAll closes what the cache holds: a connection the cache forgot while it was alive stays open
	// (with its two goroutines) after Close
	clientDownOnlyWhenDead(c, p.Func("", "client", "handleResultError"), est)
	cacheEntriesLeaveOnlyWhenDead(c)
	deadConnectionIsTheFailedOne(c)

	// ---- R3 ---------------------------------------------------------------
	c.StartRule("R3", "waits and establishers observe the closed signal", 6)
	renewerStopsOnError(c)
	{
		n := 0
		kit.Instrs(gr, func(in ssa.Instruction) {
			sel, ok := in.(*ssa.Select)
			if !ok || !sel.Blocking {
				return
			}
			n++
			good := false
			for i, st := range sel.States {
				if isLoadOfField(st.Chan, doneF) && st.Dir == types.RecvOnly {
					good = selectCaseReturns(sel, i, errClosed)
				}
			}
			c.Check(good, gr, "wait-closed-case", sel.Pos(), "has a <-c.done case returning ErrClientClosed", "a wait for region availability has no <-c.done case returning ErrClientClosed: callers blocked here are not released by Close")
		})
		if n < 2 {
			c.Unk(gr, "waits", gr.Pos(), "fewer than the two confirmed waits found in getRegionAndClientForRPC")
		}
		// reestablishRegion
		var sel *ssa.Select
		kit.Instrs(rees, func(in ssa.Instruction) {
			if s, ok := in.(*ssa.Select); ok && !s.Blocking && len(s.States) == 1 && isLoadOfField(s.States[0].Chan, doneF) {
				sel = s
			}
		})
		good := sel != nil
		if good {
			for _, call := range kit.Calls(rees, kit.M("", "*client", "establishRegion")) {
				if !kit.Dominates(sel, call.(ssa.Instruction)) {
					good = false
				}
				// establishRegion only on the default edge
				idx := kit.ExtractOf(sel, 0)
				okEdge := false
				for _, f := range kit.FactsAt(call.Block()) {
					if cmp, ok := kit.CanonCmp(f.Cond, f.Pol); ok && cmp.X == idx && cmp.Op == token.NEQ {
						okEdge = true
					}
				}
				if !okEdge {
					good = false
				}
			}
		}
		c.Check(good, rees, "reestablish-tests-done", rees.Pos(), "tests c.done first and establishes only when it is open", "reestablishRegion no longer refuses to start after Close")
		// an establisher is started through reestablishRegion (which tests the closed signal), or
		// directly after a lookup that succeeded in the same function (lookups observe the signal)
		{
			estName := kit.M("", "*client", "establishRegion")
			n := 0
			for _, fn := range p.Funcs {
				kit.Instrs(fn, func(in ssa.Instruction) {
					ci, ok := in.(ssa.CallInstruction)
					if !ok || kit.CalleeName(ci) != estName {
						return
					}
					n++
					if fn == rees {
						c.OK(fn, "establisher-start", ci.Pos(), "inside reestablishRegion (tested above)")
						return
					}
					good := false
					for _, l := range append(kit.Calls(fn, kit.M("", "*client", "lookupRegion")), kit.Calls(fn, kit.M("", "*client", "lookupAllRegions"))...) {
						if kit.Dominates(l.(ssa.Instruction), in) {
							good = true
						}
					}
					c.Check(good, fn, "establisher-start", ci.Pos(), "started after a lookup of this function succeeded", "an establisher is started without passing the closed test of reestablishRegion and without a lookup that would have observed Close: after Close, a straggler request makes the closed client look regions up (ZooKeeper, hbase:meta) in the background, forever if the lookup keeps failing")
				})
			}
			if n < 3 {
				c.Unk(est, "establisher-start", est.Pos(), "fewer establisher start sites than confirmed (3)")
			}
		}
		for _, fn := range []*ssa.Function{lr, lar} {
			// once err == ErrClientClosed is known there is no way to the back-off (the comparison may feed a
			// branch directly or a flag that is tested later)
			found := false
			kit.Instrs(fn, func(in ssa.Instruction) {
				bo, ok := in.(*ssa.BinOp)
				if !ok || (bo.Op != token.EQL && bo.Op != token.NEQ) {
					return
				}
				if !(isGlobalLoad(bo.X, errClosed) || isGlobalLoad(bo.Y, errClosed)) {
					return
				}
				again := kit.PathFrom(bo, kit.PathQuery{
					Known: []kit.Fact{{Cond: bo, Pol: bo.Op == token.EQL}},
					Target: func(x ssa.Instruction) bool {
						call, ok := x.(*ssa.Call)
						return ok && kit.CalleeName(call) == kit.M("", "", "sleepAndIncreaseBackoff")
					},
				})
				if again == nil {
					found = true
				}
			})
			c.Check(found, fn, "lookup-returns-on-closed", fn.Pos(), "returns on ErrClientClosed without backing off", "the lookup loop no longer returns on ErrClientClosed: it keeps looking up (and backing off) after Close")
		}
		// establishRegion: return on ErrClientClosed without MarkAvailable - no way from the ErrClientClosed edge
		// back to the back-off or the lookup (the return itself may be shared with other exits)
		found := false
		kit.Instrs(est, func(in ssa.Instruction) {
			iff, ok := in.(*ssa.If)
			if !ok {
				return
			}
			cmp, ok := kit.CanonCmp(iff.Cond, true)
			if !ok || !(isGlobalLoad(cmp.Y, errClosed) || isGlobalLoad(cmp.X, errClosed)) {
				return
			}
			var eq *ssa.BasicBlock
			switch cmp.Op {
			case token.EQL:
				eq = kit.SuccOnTrue(iff)
			case token.NEQ:
				eq = kit.SuccOnFalse(iff)
			default:
				return
			}
			// enter eq over the edge from the test, so that a block that only tests what it received is decided
			again := kit.PathFrom(iff, kit.PathQuery{
				SkipEdge: func(from, to *ssa.BasicBlock) bool { return from == iff.Block() && to != eq },
				Target: func(x ssa.Instruction) bool {
					call, ok := x.(*ssa.Call)
					if !ok {
						return false
					}
					n := kit.CalleeName(call)
					return n == kit.M("", "", "sleepAndIncreaseBackoff") || n == kit.M("", "*client", "lookupRegion")
				},
			})
			if again == nil {
				found = true
			}
		})
		c.Check(found, est, "establish-returns-on-closed", est.Pos(), "returns when the lookup reports ErrClientClosed", "establishRegion no longer stops when the client is closed")
	}

	// ---- R4 ---------------------------------------------------------------
	closedErrorProducersAreFrozen(c)
	abandonedLookupCanDeliver(c)
	zkSessionIsClosed(c)

	c.StartRule("R6", "Close acquires no mutex that is held across a blocking operation", 1)
	noBlockingWhileLocked(c, true, [3]string{"", "client", "Close"}, [3]string{"region", "client", "Close"})

	c.StartRule("R4", "no connection is created after Close", 4)
	c.Table("C19.R4: the admin branch of establishRegion creates the master connection without a closed test (reason: AdminClient exposes no Close; newAdminClient does not even create the done channel)")
	{
		// closed flag: a bool field of clientRegionCache to which closeAll stores true under the lock
		var flag *types.Var
		var flagStore *ssa.Store
		kit.Instrs(closeAll, func(in ssa.Instruction) {
			st, ok := in.(*ssa.Store)
			if !ok {
				return
			}
			fa, ok := st.Addr.(*ssa.FieldAddr)
			if !ok {
				return
			}
			fv := kit.FieldVar(fa.X.Type(), fa.Field)
			if b, ok := fv.Type().Underlying().(*types.Basic); ok && b.Kind() == types.Bool {
				if k, ok := st.Val.(*ssa.Const); ok && k.Value != nil && k.Value.ExactString() == "true" {
					flag, flagStore = fv, st
				}
			}
		})
		var factoryCall ssa.CallInstruction
		kit.Instrs(put, func(in ssa.Instruction) {
			if ci, ok := in.(ssa.CallInstruction); ok && !ci.Common().IsInvoke() {
				if pa, ok := ci.Common().Value.(*ssa.Parameter); ok {
					if _, isSig := pa.Type().Underlying().(*types.Signature); isSig {
						factoryCall = ci
					}
				}
			}
		})
		if factoryCall == nil {
			c.Unk(put, "factory-call", put.Pos(), "put no longer calls its factory parameter")
		} else if flag == nil {
			c.Bad(put, "closed-flag", factoryCall.Pos(), "nothing tells clientRegionCache.put that the client was closed: an establisher that is past its last closed-signal test when Close runs creates, dials and probes a new connection after Close returned, and leaves it (two goroutines, one socket) open", "closeAll sets no closed indication under the cache lock")
		} else {
			c.Check(le.At(flagStore).HoldsField(rccM, true), closeAll, "flag-set-under-lock", flagStore.Pos(), "closed flag set under the cache lock", "the closed flag is set without the cache lock")
			// ... on every way through closeAll (also when there is nothing to close yet: the first establisher
			// may still be looking its server up)
			skipped := mustPass(closeAll, func(x ssa.Instruction) bool { return x == ssa.Instruction(flagStore) }, nil)
			c.Check(skipped == nil, closeAll, "flag-set-always", flagStore.Pos(), "every way through closeAll sets the closed flag", "closeAll can return without setting the closed flag (e.g. when the cache is still empty): an establisher that is still looking its server up creates, dials and probes a connection after Close returned, and later requests are served over it: "+c.BlockPath(skipped))
			// the store precedes the closing loop
			var rng *ssa.Range
			kit.Instrs(closeAll, func(in ssa.Instruction) {
				if r, ok := in.(*ssa.Range); ok && isLoadOfField(r.X, regionsF) {
					rng = r
				}
			})
			c.Check(rng != nil && kit.Dominates(flagStore, rng), closeAll, "flag-before-closing", flagStore.Pos(), "the flag is set before the connections are closed", "the closed flag is not set before the connections are closed")
			// factory dominated by the false edge of the flag, with the lock held at the test
			tested := false
			for _, f := range kit.FactsAt(factoryCall.Block()) {
				if !f.Pol && isLoadOfField(f.Cond, flag) {
					if ld, ok := f.Cond.(ssa.Instruction); ok && le.At(ld).HoldsField(rccM, true) {
						tested = true
					}
				}
				if cmp, ok := kit.CanonCmp(f.Cond, f.Pol); ok && isLoadOfField(cmp.X, flag) {
					if k, isC := cmp.Y.(*ssa.Const); isC && k.Value != nil && ((cmp.Op == token.EQL && k.Value.ExactString() == "false") || (cmp.Op == token.NEQ && k.Value.ExactString() == "true")) {
						tested = true
					}
				}
			}
			// no unlock between the test and the factory (single critical section is C20.R1)
			c.Check(tested && le.At(factoryCall).HoldsField(rccM, true), put, "factory-after-closed-test", factoryCall.Pos(), "the factory runs only on the not-closed edge, tested under the cache lock in the same critical section", "the connection factory is not dominated by a closed test under the cache lock (check-then-act window)")
		}
		// the establisher handles the refusal
		if flag != nil {
			for _, call := range kit.Calls(est, kit.M("", "*clientRegionCache", "put")) {
				good := false
				for _, r := range kit.Referrers(call.Value()) {
					bo, ok := r.(*ssa.BinOp)
					if !ok {
						continue
					}
					cmp, ok := kit.CanonCmp(bo, true)
					if !ok || !kit.IsNilConst(cmp.Y) {
						continue
					}
					if cmp.Op != token.EQL && cmp.Op != token.NEQ {
						continue
					}
					// with the comparison known to say "nil" no way leads to a use of a connection (the comparison
					// may feed a branch directly, or a boolean a helper returns)
					e := kit.PathFrom(bo, kit.PathQuery{
						Known: []kit.Fact{{Cond: bo, Pol: cmp.Op == token.EQL}},
						Target: func(in ssa.Instruction) bool {
							cc, ok := in.(ssa.CallInstruction)
							return ok && cc.Common().IsInvoke()
						}})
					good = e == nil
				}
				c.Check(good, est, "refusal-handled", call.Pos(), "a nil connection from put (client closed) makes the establisher return", "establishRegion does not handle put refusing to create a connection after Close")
			}
		}
	}

	// ---- R5 ---------------------------------------------------------------
	c.StartRule("R5", "calls are queued only after the region was resolved (closed signal seen first)", 3)
	lookupFailuresReachTheirSlots(c)
	{
		for _, fn := range p.Funcs {
			if enclosingNamed(fn).Pkg == nil || enclosingNamed(fn).Pkg.Pkg.Path() != kit.Module {
				continue
			}
			for _, call := range kit.Calls(fn, hrpcRC+"QueueRPC", hrpcRC+"QueueBatch") {
				named := enclosingNamed(fn)
				switch kit.KnownName(named) {
				case "sendBlocking":
					c.OK(fn, "queue-site", call.Pos(), "sendBlocking: callers checked below")
				case "SendBatch":
					fc := kit.Calls(sendBatch, kit.M("", "*client", "findClients"))
					good := len(fc) == 1 && fn == sendBatch && kit.Dominates(fc[0].(ssa.Instruction), call.(ssa.Instruction))
					c.Check(good, fn, "queue-site", call.Pos(), "after findClients resolved every call", "a batch is queued without resolving its regions first")
				default:
					c.Unk(fn, "queue-site", call.Pos(), "new place that hands calls to a connection")
				}
			}
		}
		for _, s := range callersOf(p, kit.M("", "", "sendBlocking")) {
			fn := s.Parent()
			switch kit.KnownName(fn) {
			case "sendRPCToRegionClient":
				for _, s2 := range callersOf(p, kit.M("", "*client", "sendRPCToRegionClient")) {
					g := kit.Calls(s2.Parent(), kit.M("", "*client", "getRegionAndClientForRPC"))
					good := len(g) == 1 && kit.Dominates(g[0].(ssa.Instruction), s2.(ssa.Instruction))
					c.Check(good, s2.Parent(), "send-after-resolve", s2.Pos(), "dominated by getRegionAndClientForRPC", "an RPC is sent without resolving its region first")
				}
			case "isRegionEstablished":
				c.OK(fn, "send-after-resolve", s.Pos(), "probe of the establisher (closed connections refuse it: C03.R5)")
			default:
				c.Unk(fn, "send-after-resolve", s.Pos(), "new caller of sendBlocking")
			}
		}
	}

	// ---- R7 ---------------------------------------------------------------
	if !c.Frozen {
		embed(c, "R7", "closing a connection completes every call that was handed to it: nothing keeps waiting, no goroutine stays behind (the rules of C03, run as one rule here)", 30, runC03)
	}
}

// selectCaseReturns: case i of sel leads to a return of the given global error.
func selectCaseReturns(sel *ssa.Select, i int, g *ssa.Global) bool {
	idx := kit.ExtractOf(sel, 0)
	if idx == nil {
		return false
	}
	for _, r := range kit.Referrers(idx) {
		bo, ok := r.(*ssa.BinOp)
		if !ok {
			continue
		}
		if k, ok := kit.ConstInt(bo.Y); !ok || int(k) != i {
			continue
		}
		for _, rr := range kit.Referrers(bo) {
			iff, ok := rr.(*ssa.If)
			if !ok {
				continue
			}
			body := kit.SuccOnTrue(iff)
			// every way on from the case body ends in a return of the error (possibly handed up
			// through a result variable and the caller's `if err != nil`: branches on phis are
			// decided by the value that arrives over the edge taken)
			reached := false
			bad := kit.PathFromBlock(body, kit.PathQuery{TargetPath: func(in ssa.Instruction, path []*ssa.BasicBlock) bool {
				ret, ok := in.(*ssa.Return)
				if !ok {
					return false
				}
				reached = true
				ev := returnedError(ret)
				if ev == nil {
					return true
				}
				full := append([]*ssa.BasicBlock{iff.Block()}, path...)
				return !usesGlobal(kit.ResolveAlong(ev, full), g)
			}})
			return reached && bad == nil
		}
	}
	return false
}
