package props

import (
	"go/token"
	"go/types"
	"os"
	"path/filepath"
	"sort"
	"strconv"
	"strings"

	"golang.org/x/tools/go/ssa"

	"gohbaseverif/bounds"
	"gohbaseverif/kit"
)

// common anchor names
var (
	nmLock   = "(*sync.Mutex).Lock"
	nmUnlock = "(*sync.Mutex).Unlock"
	nmRWLock = "(*sync.RWMutex).Lock"
	nmRWUnl  = "(*sync.RWMutex).Unlock"
	nmOnceDo = "(*sync.Once).Do"
	hrpcCall = "(" + kit.Module + "/hrpc.Call)."
	hrpcRC   = "(" + kit.Module + "/hrpc.RegionClient)."
	hrpcRI   = "(" + kit.Module + "/hrpc.RegionInfo)."
	ctxDone  = "(context.Context).Done"
	ctxErr   = "(context.Context).Err"
)

// callsOfFieldValue returns the calls in the analysed program whose callee is
// a function value loaded from struct field f.
func callsOfFieldValue(p *kit.Prog, f *types.Var) []ssa.CallInstruction {
	var out []ssa.CallInstruction
	for _, fn := range p.Funcs {
		kit.Instrs(fn, func(in ssa.Instruction) {
			c, ok := in.(ssa.CallInstruction)
			if !ok || c.Common().IsInvoke() {
				return
			}
			if _, fv := kit.FieldRead(c.Common().Value); fv == f {
				out = append(out, c)
			}
		})
	}
	return out
}

// literalPassedTo reports whether function literal fn is passed as an
// argument to a call of callee (by resolved name) in its parent; returns the call.
func literalPassedTo(fn *ssa.Function, callee string) ssa.CallInstruction {
	par := fn.Parent()
	if par == nil {
		return nil
	}
	var found ssa.CallInstruction
	kit.Instrs(par, func(in ssa.Instruction) {
		c, ok := in.(ssa.CallInstruction)
		if !ok || kit.CalleeName(c) != callee {
			return
		}
		for _, a := range c.Common().Args {
			a = kit.Strip(a)
			if mc, ok := a.(*ssa.MakeClosure); ok && mc.Fn == fn {
				found = c
			}
			if f, ok := a.(*ssa.Function); ok && f == fn {
				found = c
			}
		}
	})
	return found
}

// onceLiteral returns the function literal passed to (*sync.Once).Do whose
// receiver is field onceField, inside fn.
func onceLiteral(fn *ssa.Function, onceField *types.Var) (*ssa.Function, ssa.CallInstruction) {
	for _, c := range kit.Calls(fn, nmOnceDo) {
		args := c.Common().Args
		if len(args) != 2 {
			continue
		}
		fa, ok := args[0].(*ssa.FieldAddr)
		if !ok || kit.FieldVar(fa.X.Type(), fa.Field) != onceField {
			continue
		}
		switch a := kit.Strip(args[1]).(type) {
		case *ssa.MakeClosure:
			f := a.Fn.(*ssa.Function)
			if f.Synthetic != "" {
				// once.Do(x.method): the bound-method wrapper just calls the method
				var real *ssa.Function
				kit.Instrs(f, func(in ssa.Instruction) {
					if ci, ok := in.(ssa.CallInstruction); ok {
						if cal := kit.StaticCallee(ci); cal != nil && cal.Blocks != nil {
							real = cal
						}
					}
				})
				if real != nil {
					return real, c
				}
			}
			return f, c
		case *ssa.Function:
			return a, c
		}
	}
	return nil, nil
}

// typeAssertEdge reports whether block b is reached only through the
// success edge of a comma-ok type assertion (or type-switch case) of a value
// to type t. Returns the asserted operand.
func typeAssertEdge(b *ssa.BasicBlock, t types.Type) (ssa.Value, bool) {
	for _, f := range kit.FactsAt(b) {
		if !f.Pol {
			continue
		}
		ex, ok := f.Cond.(*ssa.Extract)
		if !ok || ex.Index != 1 {
			continue
		}
		ta, ok := ex.Tuple.(*ssa.TypeAssert)
		if !ok || !ta.CommaOk {
			continue
		}
		if types.Identical(ta.AssertedType, t) {
			return ta.X, true
		}
	}
	// the assertion may be remembered in a boolean that is tested here: on every way into b it succeeded
	var operand ssa.Value
	if kit.OnAllWays(b, func(fs []kit.Fact) bool {
		for _, f := range fs {
			if ex, ok := f.Cond.(*ssa.Extract); ok && f.Pol && ex.Index == 1 {
				if ta, ok := ex.Tuple.(*ssa.TypeAssert); ok && ta.CommaOk && types.Identical(ta.AssertedType, t) {
					operand = ta.X
					return true
				}
			}
		}
		return false
	}, 0) {
		return operand, true
	}
	return nil, false
}

// assertedTypesAt returns all types t such that block b is reached only through
// the success edge of x.(t).
func assertedTypesAt(b *ssa.BasicBlock) []*ssa.TypeAssert {
	var out []*ssa.TypeAssert
	for _, f := range kit.FactsAt(b) {
		if !f.Pol {
			continue
		}
		if ex, ok := f.Cond.(*ssa.Extract); ok && ex.Index == 1 {
			if ta, ok := ex.Tuple.(*ssa.TypeAssert); ok && ta.CommaOk {
				out = append(out, ta)
			}
		}
	}
	return out
}

// isLoadOfField reports whether v is a load of struct field f.
func isLoadOfField(v ssa.Value, f *types.Var) bool {
	_, fv := kit.FieldRead(kit.Root(v))
	if fv == f {
		return true
	}
	_, fv = kit.FieldRead(v)
	return fv == f
}

// isGlobalLoad reports whether v is a load of global g.
func isGlobalLoad(v ssa.Value, g *ssa.Global) bool {
	v = kit.Strip(v)
	u, ok := v.(*ssa.UnOp)
	return ok && u.Op == token.MUL && u.X == ssa.Value(g)
}

// firstPos returns the first valid position in a block.
func firstPos(b *ssa.BasicBlock) token.Pos {
	for _, in := range b.Instrs {
		if _, isPhi := in.(*ssa.Phi); isPhi {
			continue
		}
		if in.Pos().IsValid() {
			return in.Pos()
		}
	}
	return token.NoPos
}

// enclosingNamed returns the outermost named function containing fn.
func enclosingNamed(fn *ssa.Function) *ssa.Function {
	for fn.Parent() != nil {
		fn = fn.Parent()
	}
	return fn
}

// callersOf returns the call sites (in analysed functions) that statically
// call fn, by resolved callee name.
func callersOf(p *kit.Prog, name string) []ssa.CallInstruction {
	var out []ssa.CallInstruction
	for _, fn := range p.Funcs {
		out = append(out, kit.Calls(fn, name)...)
	}
	return out
}

func posOf(in ssa.Instruction) token.Pos {
	if in.Pos().IsValid() {
		return in.Pos()
	}
	// fall back to the first positioned instruction after it in the block
	b := in.Block()
	idx := kit.InstrIndex(in)
	for i := idx; i < len(b.Instrs); i++ {
		if b.Instrs[i].Pos().IsValid() {
			return b.Instrs[i].Pos()
		}
	}
	for i := idx; i >= 0; i-- {
		if b.Instrs[i].Pos().IsValid() {
			return b.Instrs[i].Pos()
		}
	}
	return token.NoPos
}

type typesSignature = types.Signature

// paramOfType returns the n-th (0-based) parameter of fn whose type string
// ends with typeSuffix (parameters are identified by type and position, never
// by their spelling).
func paramOfType(fn *ssa.Function, typeSuffix string, n int) *ssa.Parameter {
	k := 0
	for _, pa := range fn.Params {
		if strings.HasSuffix(pa.Type().String(), typeSuffix) {
			if k == n {
				return pa
			}
			k++
		}
	}
	return nil
}

// paramOfExactType is paramOfType with an exact match of the type string.
func paramOfExactType(fn *ssa.Function, typ string, n int) *ssa.Parameter {
	k := 0
	for _, pa := range fn.Params {
		if pa.Type().String() == typ {
			if k == n {
				return pa
			}
			k++
		}
	}
	return nil
}

// resultAlloc returns the variable (Alloc) holding named result idx of fn,
// found through the loads feeding its Return instructions.
func resultAlloc(fn *ssa.Function, idx int) *ssa.Alloc {
	var out *ssa.Alloc
	kit.Instrs(fn, func(in ssa.Instruction) {
		r, ok := in.(*ssa.Return)
		if !ok || idx >= len(r.Results) {
			return
		}
		if l, ok := kit.Res(r, idx).(*ssa.UnOp); ok && l.Op == token.MUL {
			if a, ok := l.X.(*ssa.Alloc); ok {
				out = a
			}
		}
	})
	return out
}

// spillOf returns the Alloc into which parameter pa is stored on entry
// (parameters whose address is taken).
func spillOf(pa *ssa.Parameter) *ssa.Alloc {
	for _, r := range kit.Referrers(pa) {
		if st, ok := r.(*ssa.Store); ok && st.Val == ssa.Value(pa) {
			if a, ok := st.Addr.(*ssa.Alloc); ok {
				return a
			}
		}
	}
	return nil
}

// freeVarFor returns the free variable of literal lit that is bound to alloc a.
func freeVarFor(lit *ssa.Function, a *ssa.Alloc) *ssa.FreeVar {
	for _, fv := range lit.FreeVars {
		if kit.FreeVarBinding(fv) == ssa.Value(a) {
			return fv
		}
	}
	return nil
}

// unbufferedHandoff checks that the queue between callers and the writer goroutine of a region
// client is a rendezvous channel wherever a client is built. QueueBatch's select offers the batch
// and watches c.done; fail() never drains the channel and the writer stops reading once done is
// closed, so a buffered channel can accept a batch that nobody will ever read or complete.
func unbufferedHandoff(c *kit.Ctx) {
	p := c.P
	f := p.Field("region", "client", "rpcs")
	if f == nil {
		c.Unk(nil, "handoff-channel", token.NoPos, "region.client.rpcs not found")
		return
	}
	n := 0
	for _, a := range p.FieldAccesses(f) {
		if !a.Write {
			continue
		}
		st, ok := a.Instr.(*ssa.Store)
		if !ok {
			c.Unk(a.Fn, "handoff-channel", a.Instr.Pos(), "the queue channel is written by an unrecognised instruction")
			continue
		}
		n++
		mk, ok := kit.Root(st.Val).(*ssa.MakeChan)
		size, isConst := int64(-1), false
		if ok {
			size, isConst = kit.ConstInt(mk.Size)
		}
		c.Check(ok && isConst && size == 0, a.Fn, "handoff-channel", st.Pos(), "the queue is an unbuffered channel: a batch is either taken by the writer or refused by the <-done case",
			"the queue between callers and the writer goroutine is not an unbuffered channel: once the connection has failed a batch can be accepted into the buffer (select picks among ready cases at random) and is never read, completed or refused")
	}
	if n == 0 {
		c.Unk(nil, "handoff-channel", token.NoPos, "no construction site of the queue channel found")
	}
}

// selectArmsAt returns the select states whose case body dominates b (decided by the
// index comparisons on the paths to b).
func selectArmsAt(b *ssa.BasicBlock) []*ssa.SelectState {
	var out []*ssa.SelectState
	for _, f := range kit.FactsAt(b) {
		bo, ok := f.Cond.(*ssa.BinOp)
		if !ok || bo.Op != token.EQL || !f.Pol {
			continue
		}
		ex, ok := bo.X.(*ssa.Extract)
		if !ok || ex.Index != 0 {
			continue
		}
		sel, ok := ex.Tuple.(*ssa.Select)
		if !ok {
			continue
		}
		if k, ok := kit.ConstInt(bo.Y); ok && int(k) < len(sel.States) {
			out = append(out, sel.States[k])
		}
	}
	return out
}

// sameContext reports whether two context values are the same value or the Context() of the same call.
func sameContext(a, b ssa.Value) bool {
	a, b = kit.Root(a), kit.Root(b)
	if kit.Same(a, b) {
		return true
	}
	ca, ok1 := a.(*ssa.Call)
	cb, ok2 := b.(*ssa.Call)
	if ok1 && ok2 && kit.CalleeName(ca) == hrpcCall+"Context" && kit.CalleeName(cb) == hrpcCall+"Context" {
		return kit.Same(kit.Root(ca.Call.Value), kit.Root(cb.Call.Value))
	}
	return false
}

// handbackErrorUnchanged: the error trySend hands back (it classifies the failure: ServerError,
// RetryableError, ...) is delivered to the call as it is. Consumers classify by type switch, so a
// wrapped error (fmt.Errorf("...%w")) is an application error to them: not retried, connection not
// declared dead.
func handbackErrorUnchanged(c *kit.Ctx) {
	p := c.P
	n := 0
	for _, s := range callersOf(p, kit.M("region", "*client", "trySend")) {
		fn := s.Parent()
		res := s.Value()
		if res == nil {
			continue
		}
		arg := s.Common().Args[1]
		for _, cc := range append(kit.Calls(fn, kit.M("region", "", "returnResult")), kit.Calls(fn, kit.M("region", "*multi", "returnResults"))...) {
			if !kit.Reaches(s.(ssa.Instruction), cc.(ssa.Instruction)) {
				continue
			}
			if !(kit.Same(cc.Common().Args[0], arg) || sameVarNoStoreBetween(cc.Common().Args[0], arg, s.(ssa.Instruction), cc.(ssa.Instruction))) {
				continue
			}
			n++
			c.Check(kit.Same(kit.Root(cc.Common().Args[2]), res), fn, "handback-error-unchanged", cc.Pos(), "the call is completed with the very error trySend returned",
				"the error handed back by trySend is replaced or wrapped before it is delivered: the consumers classify errors by their dynamic type, so a connection failure arrives as an application error - not retried, the dead connection not discarded")
		}
	}
	if n == 0 {
		c.Unk(nil, "handback-error-unchanged", token.NoPos, "no delivery of a trySend error found")
	}
}

// deadConnectionIsTheFailedOne: the connection declared dead after a failed result is the connection
// the failed call was queued on (not whatever connection the region has by now: a late error of an
// already replaced connection must not take the replacement down).
func deadConnectionIsTheFailedOne(c *kit.Ctx) {
	p := c.P
	hre := p.Func("", "client", "handleResultError")
	wfc := p.Func("", "client", "waitForCompletion")
	s2rc := p.Func("", "client", "sendRPCToRegionClient")
	if hre == nil || wfc == nil || s2rc == nil {
		c.Unk(nil, "failed-connection", token.NoPos, "handleResultError / waitForCompletion / sendRPCToRegionClient not found")
		return
	}
	rcH := paramOfType(hre, "/hrpc.RegionClient", 0)
	for _, call := range kit.Calls(hre, kit.M("", "*client", "clientDown")) {
		c.Check(rcH != nil && call.Common().Args[1] == ssa.Value(rcH), hre, "failed-connection-down", call.Pos(), "clientDown(rc, ...) with the connection handleResultError was given", "handleResultError declares dead a connection other than the one it was given")
	}
	for _, fn := range []*ssa.Function{wfc, s2rc} {
		rcP := paramOfType(fn, "/hrpc.RegionClient", 0)
		hs := kit.Calls(fn, kit.M("", "*client", "handleResultError"))
		if len(hs) == 0 || rcP == nil {
			c.Unk(fn, "failed-connection-passed", fn.Pos(), "no handleResultError call / connection parameter in "+fn.Name())
			continue
		}
		for _, h := range hs {
			c.Check(kit.Same(h.Common().Args[3], rcP), fn, "failed-connection-passed", h.Pos(), "the connection passed is the one this function waited on ("+rcP.Name()+")",
				"a failed result is attributed to a connection other than the one the call was queued on (e.g. the region's current connection): a late connection-level error of an already replaced connection evicts the healthy replacement, which is not closed, and a further connection to the same address is opened")
		}
	}
	// the single-call path queues on that same connection
	rcP := paramOfType(s2rc, "/hrpc.RegionClient", 0)
	for _, q := range kit.Calls(s2rc, hrpcRC+"QueueRPC") {
		c.Check(rcP != nil && q.Common().Value == ssa.Value(rcP), s2rc, "queued-on-that-connection", q.Pos(), "QueueRPC is invoked on the connection parameter", "the call is queued on a different connection than the one errors are attributed to")
	}
}

// clientDownOnlyWhenDead: client.clientDown (which makes the cache forget a connection without
// closing it) is called only where the connection was observed dead: a ServerError result or a
// failed Dial.
func clientDownOnlyWhenDead(c *kit.Ctx, hre, est *ssa.Function) {
	p := c.P
	serverErr := p.Named("region", "ServerError")
	for _, s := range callersOf(p, kit.M("", "*client", "clientDown")) {
		fn := s.Parent()
		switch fn {
		case hre, est:
			if _, ok := typeAssertEdge(s.Block(), serverErr); ok {
				c.OK(fn, "declared-dead", s.Pos(), "on the success edge of a type assertion to region.ServerError")
				continue
			}
			// failed dial in establishRegion
			ok := false
			for _, f := range kit.FactsAt(s.Block()) {
				if cmp, isCmp := kit.CanonCmp(f.Cond, f.Pol); isCmp && cmp.Op == token.NEQ && kit.IsNilConst(cmp.Y) {
					if call, isCall := kit.Root(cmp.X).(*ssa.Call); isCall && kit.CalleeName(call) == hrpcRC+"Dial" {
						ok = true
					}
				}
			}
			c.Check(ok && fn == est, fn, "declared-dead", s.Pos(), "on the edge where Dial of this connection returned an error",
				"client.clientDown called where neither a ServerError nor a failed dial was observed")
		default:
			c.Bad(fn, "declared-dead", s.Pos(), "unexpected caller of client.clientDown: connections may be dropped from the cache while healthy", "")
		}
	}
}

// elemsOfVariadic returns the elements of the implicit slice literal of a variadic call
// (append(x, a, b) -> [a b]) in index order, or nil when v is an ordinary slice (append(x, s...)).
func elemsOfVariadic(v ssa.Value) []ssa.Value {
	sl, ok := v.(*ssa.Slice)
	if !ok {
		return nil
	}
	arr, ok := sl.X.(*ssa.Alloc)
	if !ok {
		return nil
	}
	byIdx := map[int64]ssa.Value{}
	max := int64(-1)
	kit.Instrs(arr.Parent(), func(in ssa.Instruction) {
		if st, ok := in.(*ssa.Store); ok {
			if ia, ok := st.Addr.(*ssa.IndexAddr); ok && ia.X == ssa.Value(arr) {
				if k, ok := kit.ConstInt(ia.Index); ok {
					byIdx[k] = st.Val
					if k > max {
						max = k
					}
				}
			}
		}
	})
	var out []ssa.Value
	for i := int64(0); i <= max; i++ {
		if byIdx[i] == nil {
			return nil
		}
		out = append(out, byIdx[i])
	}
	return out
}

// singleCallSite returns the only static call site of fn in the analysed sources (nil if there are
// none or several, or fn is a method that may be reached through an interface).
func singleCallSite(p *kit.Prog, fn *ssa.Function) ssa.CallInstruction {
	if fn == nil || fn.Object() == nil || fn.Object().Exported() {
		return nil
	}
	sites := callersOf(p, calleeFullName(fn))
	if len(sites) != 1 {
		return nil
	}
	return sites[0]
}

// rootThroughHelpers is kit.Root that also looks through the parameters of unexported helpers with a
// single call site (an extracted helper sees exactly the argument of that site).
func rootThroughHelpers(p *kit.Prog, v ssa.Value) ssa.Value {
	for i := 0; i < 6; i++ {
		r := kit.Root(v)
		pa, ok := r.(*ssa.Parameter)
		if !ok {
			return r
		}
		site := singleCallSite(p, pa.Parent())
		if site == nil {
			return r
		}
		args := argsFor(site, pa.Parent())
		idx := -1
		for k, q := range pa.Parent().Params {
			if q == pa {
				idx = k
			}
		}
		if idx < 0 || idx >= len(args) {
			return r
		}
		v = args[idx]
	}
	return kit.Root(v)
}

// withHelpers returns fn followed by the unexported same-package functions it calls (transitively,
// depth 3) that have no other call site: code that a refactoring moved out of fn.
func withHelpers(p *kit.Prog, fn *ssa.Function) []*ssa.Function {
	out := []*ssa.Function{fn}
	seen := map[*ssa.Function]bool{fn: true}
	for depth, frontier := 0, []*ssa.Function{fn}; depth < 3 && len(frontier) > 0; depth++ {
		var next []*ssa.Function
		for _, f := range frontier {
			kit.Instrs(f, func(in ssa.Instruction) {
				ci, ok := in.(ssa.CallInstruction)
				if !ok {
					return
				}
				cal := kit.StaticCallee(ci)
				if cal == nil || seen[cal] || cal.Pkg != fn.Pkg || cal.Blocks == nil {
					return
				}
				if site := singleCallSite(p, cal); site == nil {
					return
				}
				seen[cal] = true
				out = append(out, cal)
				next = append(next, cal)
			})
		}
		frontier = next
	}
	return out
}

// resultFlowsFrom: v is (on every non-nil path) a value satisfying pred, possibly handed up through
// the results of module functions (every return of such a function yields, at that index, nil or a
// value that flows from pred).
func resultFlowsFrom(v ssa.Value, pred func(ssa.Value) bool, depth int) bool {
	if depth > 4 {
		return false
	}
	r := kit.Root(v)
	if pred(r) {
		return true
	}
	if ph, ok := r.(*ssa.Phi); ok {
		any := false
		for _, l := range kit.PhiLeaves(ph) {
			if kit.IsNilConst(l) {
				continue
			}
			if !resultFlowsFrom(l, pred, depth+1) {
				return false
			}
			any = true
		}
		return any
	}
	ex, ok := r.(*ssa.Extract)
	if !ok {
		return false
	}
	call, ok := ex.Tuple.(*ssa.Call)
	if !ok {
		return false
	}
	cal := kit.StaticCallee(call)
	if cal == nil || cal.Blocks == nil {
		return false
	}
	any := false
	good := true
	kit.Instrs(cal, func(in ssa.Instruction) {
		ret, ok := in.(*ssa.Return)
		if !ok || ex.Index >= len(ret.Results) {
			return
		}
		x := kit.Res(ret, ex.Index)
		if kit.IsNilConst(kit.Root(x)) {
			return
		}
		if resultFlowsFrom(x, pred, depth+1) {
			any = true
		} else {
			good = false
		}
	})
	return good && any
}

// connWrites returns the places in fn that put bytes on the region client's connection: calls of the
// write helper, gather writes (net.Buffers.WriteTo) and direct Write calls on the conn field.
func connWrites(p *kit.Prog, fn *ssa.Function) []ssa.CallInstruction {
	var out []ssa.CallInstruction
	out = append(out, kit.Calls(fn, kit.M("region", "*client", "write"))...)
	out = append(out, kit.Calls(fn, "(*net.Buffers).WriteTo")...)
	connF := p.Field("region", "client", "conn")
	for _, w := range kit.Calls(fn, "(net.Conn).Write") {
		if connF != nil && isLoadOfField(w.Common().Value, connF) {
			out = append(out, w)
		}
	}
	return out
}

// leaf is one value that can flow into a merged value, with the facts under which it does and the
// (phi, input index) choices that select it.
type leaf struct {
	val   ssa.Value
	facts []kit.Fact
	path  map[*ssa.Phi]int
}

// valueLeaves splits v, used in block at, into the values that can flow into it through phis, each
// with the facts that hold when it does: the facts at `at` plus those of the edges taken.
func valueLeaves(v ssa.Value, at *ssa.BasicBlock) []leaf {
	var out []leaf
	base := kit.FactsAt(at)
	var walk func(v ssa.Value, facts []kit.Fact, path map[*ssa.Phi]int, depth int)
	walk = func(v ssa.Value, facts []kit.Fact, path map[*ssa.Phi]int, depth int) {
		ph, ok := kit.Strip(v).(*ssa.Phi)
		if !ok || depth > 4 {
			out = append(out, leaf{kit.Strip(v), facts, path})
			return
		}
		if _, seen := path[ph]; seen {
			return
		}
		for i, e := range ph.Edges {
			np := map[*ssa.Phi]int{}
			for k, x := range path {
				np[k] = x
			}
			np[ph] = i
			nf := append(append([]kit.Fact{}, facts...), kit.EdgeFacts(ph.Block().Preds[i], ph.Block())...)
			walk(e, nf, np, depth+1)
		}
	}
	walk(v, base, map[*ssa.Phi]int{}, 0)
	return out
}

// scannerClosedFact recognises a fact that says the region scanner is closed: the helper
// isRegionScannerClosed() returned true, or - the helper written out - the scanner id field equals
// the "no scanner" sentinel (the all-ones uint64). ok is false for unrelated facts.
func scannerClosedFact(p *kit.Prog, f kit.Fact) (closed bool, ok bool) {
	if cc, isCall := f.Cond.(*ssa.Call); isCall && strings.HasSuffix(kit.CalleeName(cc), "scanner).isRegionScannerClosed") {
		return f.Pol, true
	}
	idF := p.Field("", "scanner", "curRegionScannerID")
	cmp, isCmp := kit.CanonCmp(f.Cond, f.Pol)
	if !isCmp || idF == nil || (cmp.Op != token.EQL && cmp.Op != token.NEQ) {
		return false, false
	}
	x, y := cmp.X, cmp.Y
	if !isLoadOfField(x, idF) {
		x, y = y, x
	}
	if !isLoadOfField(x, idF) {
		return false, false
	}
	k, isC := kit.Strip(y).(*ssa.Const)
	if !isC || k.Value == nil || k.Value.ExactString() != "18446744073709551615" {
		return false, false
	}
	return cmp.Op == token.EQL, true
}

// embed runs the rules of another property as one rule of this one (its obligations land in the rule
// that is open; rule ids and minimum counts of the embedded property are not used).
func embed(c *kit.Ctx, id, text string, min int, run func(*kit.Ctx)) {
	c.StartRule(id, text, min)
	was := c.Frozen
	c.Frozen = true
	run(c)
	c.Frozen = was
}

// serialisedCallGetsAction: in multi.toProto, once a call has been serialised (its cells appended to
// the region's cellblocks and counted) its action is appended on every path: a call dropped after
// serialisation leaves orphan cells that the server hands to the following mutations of the region.
// Shared by C05.R2, C10.R2 and C12.R3.
func serialisedCallGetsAction(c *kit.Ctx, mtp *ssa.Function) {
	var sers []ssa.CallInstruction
	kit.Instrs(mtp, func(in ssa.Instruction) {
		call, ok := in.(*ssa.Call)
		if !ok {
			return
		}
		nm := kit.CalleeName(call)
		if nm == hrpcCall+"ToProto" || strings.HasSuffix(nm, "canSerializeCellBlocks).SerializeCellBlocks") {
			sers = append(sers, call)
		}
	})
	if len(sers) == 0 {
		c.Unk(mtp, "serialised-call-gets-action", mtp.Pos(), "multi.toProto no longer serialises its calls in a recognisable way")
	}
	isPbsStore := func(in ssa.Instruction) bool {
		st, ok := in.(*ssa.Store)
		if !ok {
			return false
		}
		fa, ok := st.Addr.(*ssa.FieldAddr)
		return ok && kit.FieldVar(fa.X.Type(), fa.Field).Name() == "pbs"
	}
	for _, s := range sers {
		e := kit.PathFrom(s.(ssa.Instruction), kit.PathQuery{
			Stop:         isPbsStore,
			IgnorePanics: true,
			// the next call's serialisation or the end of the loop reached without the append
			Target: func(in ssa.Instruction) bool {
				if in == s.(ssa.Instruction) {
					return true
				}
				for _, o := range sers {
					if in == o.(ssa.Instruction) {
						return true
					}
				}
				_, isRet := in.(*ssa.Return)
				return isRet
			},
		})
		c.Check(e == nil, mtp, "serialised-call-gets-action", s.Pos(), "after this serialisation every path appends the call's action", "a call can be dropped after it was serialised: its cells are already in the region's cellblock (and counted in the cellblock length) but no action accounts for them, so the server attaches them to the following mutations: "+c.BlockPath(e))
	}
}

// lockPairing: every Lock/RLock of a mutex field in the analysed packages is released on every path
// to the function's exit (directly or by a deferred Unlock). A path that returns with the lock held -
// typically an error return added above the Unlock - blocks every later user of that lock.
func lockPairing(c *kit.Ctx, pkgSuffix string) {
	p := c.P
	n := 0
	for _, fn := range p.Funcs {
		if enclosingNamed(fn).Pkg == nil || !strings.HasSuffix(enclosingNamed(fn).Pkg.Pkg.Path(), pkgSuffix) {
			continue
		}
		kit.Instrs(fn, func(in ssa.Instruction) {
			call, ok := in.(*ssa.Call)
			if !ok {
				return
			}
			var unlock string
			switch kit.CalleeName(call) {
			case nmLock:
				unlock = nmUnlock
			case nmRWLock:
				unlock = nmRWUnl
			case "(*sync.RWMutex).RLock":
				unlock = "(*sync.RWMutex).RUnlock"
			default:
				return
			}
			fa, ok := call.Call.Args[0].(*ssa.FieldAddr)
			if !ok {
				return
			}
			fv := kit.FieldVar(fa.X.Type(), fa.Field)
			n++
			sameMutex := func(v ssa.Value) bool {
				fb, ok := v.(*ssa.FieldAddr)
				return ok && kit.FieldVar(fb.X.Type(), fb.Field) == fv
			}
			// a deferred unlock covers every exit of the ways that pass the defer statement (a return in front of
			// it leaves with the lock held)
			releasing := map[ssa.Instruction]bool{}
			kit.Instrs(fn, func(x ssa.Instruction) {
				if d, ok := x.(*ssa.Defer); ok && kit.CalleeName(d) == unlock && sameMutex(d.Call.Args[0]) {
					releasing[x] = true
				}
				// a deferred function literal that unlocks on every way through it
				if d, ok := x.(*ssa.Defer); ok {
					if mc, ok := d.Call.Value.(*ssa.MakeClosure); ok {
						lit := mc.Fn.(*ssa.Function)
						e := kit.PathFromEntry(lit, kit.PathQuery{Stop: func(y ssa.Instruction) bool {
							u, ok := y.(*ssa.Call)
							return ok && kit.CalleeName(u) == unlock && len(u.Call.Args) > 0 && sameMutex(u.Call.Args[0])
						}, IgnorePanics: true})
						if e == nil {
							releasing[x] = true
						}
					}
				}
			})
			// the usual form: the defer follows the Lock at once
			for d := range releasing {
				if d.Block() == call.Block() && kit.Dominates(call, d) {
					onlyBetween := true
					for _, y := range call.Block().Instrs[kit.InstrIndex(call)+1 : kit.InstrIndex(d)] {
						if _, isCall := y.(ssa.CallInstruction); isCall {
							onlyBetween = false
						}
					}
					if onlyBetween {
						c.OK(fn, "lock-released", call.Pos(), "released by a deferred "+unlock)
						return
					}
				}
			}
			// a defer registered before the Lock (defer mu.Unlock() above mu.Lock() is unusual but covers it)
			for d := range releasing {
				if kit.Dominates(d, call) {
					c.OK(fn, "lock-released", call.Pos(), "released by a deferred "+unlock)
					return
				}
			}
			e := kit.PathFrom(call, kit.PathQuery{
				Stop: func(x ssa.Instruction) bool {
					if releasing[x] {
						return true
					}
					u, ok := x.(*ssa.Call)
					return ok && kit.CalleeName(u) == unlock && sameMutex(u.Call.Args[0])
				},
				IgnorePanics: true,
			})
			c.Check(e == nil, fn, "lock-released", call.Pos(), "released on every path to the exit", "a path returns with "+fv.Name()+" still held: every later user of that lock blocks forever: "+c.BlockPath(e))
		})
	}
	if n == 0 {
		c.Unk(nil, "lock-released", token.NoPos, "no mutex acquisitions found")
	}
}

// mustPass: every path from the entry of fn to a return passes an instruction accepted by through
// (paths that end in a panic are ignored; skip names edges that need not be covered).
func mustPass(fn *ssa.Function, through func(ssa.Instruction) bool, skip func(from, to *ssa.BasicBlock) bool) *kit.Exit {
	return kit.PathFromEntry(fn, kit.PathQuery{Stop: through, SkipEdge: skip, IgnorePanics: true})
}

// decodeErrorsKeepTheConnection: once receive has claimed the call and registered its deferred
// delivery, the frame has been consumed completely: what can still go wrong concerns that call only.
// Errors made up there are not of the connection-level class (the server's own exception, translated
// by exceptionToError, is whatever class it is). Shared by C20.R3 and C03.R6.
func decodeErrorsKeepTheConnection(c *kit.Ctx) {
	p := c.P
	recv := p.Func("region", "client", "receive")
	se := p.Named("region", "ServerError")
	if recv == nil || se == nil {
		c.Unk(nil, "post-claim-error-class", token.NoPos, "region.client.receive / ServerError not found")
		return
	}
	// the claim: the lookup-and-delete of the sent table entry (the helper unregisterRPC, or written out)
	var claim ssa.Instruction
	for _, s := range kit.Calls(recv, kit.M("region", "*client", "unregisterRPC")) {
		claim = s.(ssa.Instruction)
	}
	if claim == nil {
		sentF := p.Field("region", "client", "sent")
		kit.Instrs(recv, func(in ssa.Instruction) {
			if call, ok := in.(*ssa.Call); ok && kit.CalleeName(call) == "builtin.delete" && sentF != nil && isLoadOfField(call.Call.Args[0], sentF) {
				claim = call
			}
		})
	}
	if claim == nil {
		c.Unk(recv, "post-claim-error-class", recv.Pos(), "the place where receive claims the call from the sent table was not found")
		return
	}
	down := kit.M("region", "*client", "inFlightDown")
	n := 0
	kit.Instrs(recv, func(in ssa.Instruction) {
		mi, ok := in.(*ssa.MakeInterface)
		if !ok || !kit.Reaches(claim, mi) || !kit.IsErrorType(mi.Type()) {
			return
		}
		// nothing was claimed on the edge where the looked-up call is nil (unknown call id)
		skip := false
		for _, f := range kit.FactsAt(mi.Block()) {
			if cmp, ok := kit.CanonCmp(f.Cond, f.Pol); ok && cmp.Op == token.EQL && kit.IsNilConst(cmp.Y) {
				r := kit.Root(cmp.X)
				if cv, isVal := claim.(ssa.Value); isVal && r == cv && kit.CalleeName(claim.(ssa.CallInstruction)) != "builtin.delete" {
					skip = true
				}
				if lk, isLk := r.(*ssa.Lookup); isLk && isLoadOfField(lk.X, p.Field("region", "client", "sent")) {
					skip = true
				}
			}
		}
		if skip {
			return
		}
		n++
		if !types.Identical(mi.X.Type(), se) {
			c.OK(recv, "post-claim-error-class", posOf(mi), "an error about the claimed call only ("+mi.X.Type().String()+")")
			return
		}
		// the server's own exception, translated by exceptionToError and found to be of the connection class
		// (serr, ok := exceptionToError(...).(ServerError)): the class is the exception table's, not made up here
		if ex, isEx := kit.Root(mi.X).(*ssa.Extract); isEx && ex.Index == 0 {
			if ta, isTA := ex.Tuple.(*ssa.TypeAssert); isTA {
				if isClassifiedError(ta.X, 0) {
					c.OK(recv, "post-claim-error-class", posOf(mi), "the server's exception as classified by exceptionToError")
					return
				}
			}
		}
		// a connection-level error after the claim is only the failure to clear the read deadline
		inner := structFieldStore(mi.X)
		fromDown := false
		if inner != nil {
			r := kit.Root(inner)
			if call, ok := r.(*ssa.Call); ok && (kit.CalleeName(call) == down || kit.CalleeName(call) == "(net.Conn).SetReadDeadline") {
				fromDown = true
			}
			if ph, ok := r.(*ssa.Phi); ok {
				fromDown = true
				for _, l := range kit.PhiLeaves(ph) {
					call, ok := l.(*ssa.Call)
					if kit.IsNilConst(l) {
						continue
					}
					if !ok || (kit.CalleeName(call) != down && kit.CalleeName(call) != "(net.Conn).SetReadDeadline") {
						fromDown = false
					}
				}
			}
		}
		c.Check(fromDown, recv, "post-claim-error-class", posOf(mi), "the only connection-level error after the claim wraps the failure to clear the read deadline",
			"an error detected after the frame was consumed and the call claimed is reported as a connection failure: the (healthy) connection shared by all regions of that server is torn down, every request on it fails over, and the server is dialled again")
	})
	if n == 0 {
		c.Unk(recv, "post-claim-error-class", recv.Pos(), "no error construction found after the claim in receive")
	}
}

// renewerStopsOnError: a failed renewal ends the lease renewer (a closed client fails every renewal:
// a renewer that retries on the next tick never ends). Shared by C14.R5 and C19.R3.
func renewerStopsOnError(c *kit.Ctx) {
	p := c.P
	rl := p.Func("", "scanner", "renewLoop")
	if rl == nil {
		c.Unk(nil, "renewer-stops-on-error", token.NoPos, "scanner.renewLoop not found")
		return
	}
	n := 0
	for _, call := range kit.Calls(rl, kit.M("", "*scanner", "renew")) {
		errV := call.Value()
		if errV == nil {
			c.Bad(rl, "renewer-stops-on-error", call.Pos(), "the result of renew is ignored: the renewer cannot notice that its scanner or client is gone", "")
			continue
		}
		n++
		for _, r := range kit.Referrers(errV) {
			bo, ok := r.(*ssa.BinOp)
			if !ok {
				continue
			}
			for _, rr := range kit.Referrers(bo) {
				iff, ok := rr.(*ssa.If)
				if !ok {
					continue
				}
				cmp, ok := kit.CanonCmp(iff.Cond, true)
				if !ok || !kit.IsNilConst(cmp.Y) {
					continue
				}
				errB := kit.SuccOnTrue(iff)
				if cmp.Op == token.EQL {
					errB = kit.SuccOnFalse(iff)
				}
				e := kit.PathFromBlock(errB, kit.PathQuery{Target: func(x ssa.Instruction) bool { return x == call.(ssa.Instruction) }})
				c.Check(e == nil, rl, "renewer-stops-on-error", call.Pos(), "on a failed renewal the loop is left", "after a failed renewal the renewer keeps going: once the client is closed (or the scanner gone) every tick fails and the goroutine, its ticker and its reference to the client stay forever: "+c.BlockPath(e))
			}
		}
	}
	if n == 0 {
		c.Unk(rl, "renewer-stops-on-error", rl.Pos(), "renewLoop no longer calls renew")
	}
}

// ctxLeaves returns the non-phi values a context value can be.
func ctxLeaves(v ssa.Value) []ssa.Value {
	r := kit.Root(v)
	if ph, ok := r.(*ssa.Phi); ok {
		return kit.PhiLeaves(ph)
	}
	return []ssa.Value{r}
}

func isDerivedCtx(v ssa.Value) bool {
	ex, ok := kit.Root(v).(*ssa.Extract)
	if !ok || ex.Index != 0 {
		return false
	}
	call, ok := ex.Tuple.(*ssa.Call)
	if !ok {
		return false
	}
	switch kit.CalleeName(call) {
	case "context.WithTimeout", "context.WithCancel", "context.WithDeadline":
		return true
	}
	return false
}

// lookupContexts: in the lookup loops every attempt (ZooKeeper or hbase:meta) runs under a context
// bounded by context.WithTimeout, and the back-off between attempts waits on the context the loop was
// given - not on an attempt's context (which is cancelled as soon as the attempt is over: the wait
// would fail at once with context.Canceled and the transient failure would surface to the caller).
// Shared by C04.R4, C09.R6, C13.R1 and C17.R4.
func lookupContexts(c *kit.Ctx) {
	p := c.P
	for _, nm := range []string{"lookupRegion", "lookupAllRegions"} {
		fn := p.Func("", "client", nm)
		if fn == nil {
			c.Unk(nil, "lookup-contexts", token.NoPos, "client."+nm+" not found")
			continue
		}
		n := 0
		for _, call := range kit.Calls(fn, kit.M("", "*client", "zkLookup"), kit.M("", "*client", "metaLookup"), kit.M("", "*client", "metaLookupForTable")) {
			n++
			good := true
			for _, l := range ctxLeaves(call.Common().Args[1]) {
				ex, ok := l.(*ssa.Extract)
				if !ok {
					good = false
					continue
				}
				wt, ok := ex.Tuple.(*ssa.Call)
				if !ok || kit.CalleeName(wt) != "context.WithTimeout" {
					good = false
				}
			}
			c.Check(good, fn, "attempt-bounded", call.Pos(), "the attempt runs under a context.WithTimeout context", "a lookup attempt runs under a context without the lookup timeout: a ZooKeeper or meta request that hangs blocks the only establisher of that region forever, and with it every request that needs the region")
		}
		for _, call := range kit.Calls(fn, sleepName) {
			n++
			good := true
			for _, l := range ctxLeaves(call.Common().Args[0]) {
				if isDerivedCtx(l) {
					good = false
				}
			}
			c.Check(good, fn, "backoff-on-loop-context", call.Pos(), "the back-off waits on the context the loop was given", "the back-off between lookup attempts waits on the context of the attempt, which has just been cancelled: the wait returns context.Canceled at once and the first transient lookup failure ends the lookup (and, in the establisher, hits the 'unknown error' panic)")
		}
		if n == 0 {
			c.Unk(fn, "lookup-contexts", fn.Pos(), "no lookup attempt or back-off found in "+nm)
		}
	}
}

// multiDecodesEveryResult: in multi.DeserializeCellBlocks every action result that carries a Result
// is run through the call's own decoder (which consumes its cells) before the next result is looked
// at: nothing - such as "the caller has given up" - skips it. Shared by C02.R6 and C12.R2.
func multiDecodesEveryResult(c *kit.Ctx) {
	p := c.P
	md := p.Func("region", "multi", "DeserializeCellBlocks")
	if md == nil {
		c.Unk(nil, "multi-decodes-every-result", token.NoPos, "multi.DeserializeCellBlocks not found")
		return
	}
	var gets []ssa.Instruction
	for _, g := range kit.Calls(md, kit.M("region", "*multi", "get")) {
		gets = append(gets, g.(ssa.Instruction))
	}
	if len(gets) == 0 {
		// the call fetched by indexing m.calls directly
		callsF := p.Field("region", "multi", "calls")
		kit.Instrs(md, func(in ssa.Instruction) {
			if l, ok := in.(*ssa.UnOp); ok && l.Op == token.MUL {
				if ia, ok := l.X.(*ssa.IndexAddr); ok && callsF != nil && isLoadOfField(ia.X, callsF) {
					// only the fetch that is decoded (not the validation reads): its value is type-asserted
					for _, r := range kit.Referrers(l) {
						if _, isTA := r.(*ssa.TypeAssert); isTA {
							gets = append(gets, l)
						}
					}
				}
			}
		})
	}
	if len(gets) == 0 {
		c.Unk(md, "multi-decodes-every-result", md.Pos(), "multi.DeserializeCellBlocks no longer fetches the call of a result with m.get")
	}
	for _, g := range gets {
		g := g
		e := kit.PathFrom(g, kit.PathQuery{
			IgnorePanics: true,
			Stop: func(x ssa.Instruction) bool {
				cc, ok := x.(*ssa.Call)
				return ok && cc.Call.IsInvoke() && cc.Call.Method.Name() == "DeserializeCellBlocks"
			},
			Target: func(x ssa.Instruction) bool {
				if x == g {
					return true
				}
				if r, ok := x.(*ssa.Return); ok {
					ev := returnedError(r)
					return ev != nil && kit.IsNilConst(kit.Root(ev))
				}
				return false
			},
		})
		c.Check(e == nil, md, "multi-decodes-every-result", g.Pos(), "every result with cells goes through its call's decoder before the next one", "a result can be skipped without its cells being consumed: the running cellblock cursor stays behind, the following calls of the response read the wrong cells and the whole (successfully executed) batch ends with a short-read error and is executed again: "+c.BlockPath(e))
	}
}

// regionExceptionUnchanged: the error multi.returnResults delivers is the error it was given or the
// translation of the server's exception (exceptionToError), as it is: consumers act on its class.
// Shared by C04.R3 and C12.R2.
func regionExceptionUnchanged(c *kit.Ctx) {
	p := c.P
	mret := p.Func("region", "multi", "returnResults")
	if mret == nil {
		c.Unk(nil, "multi-error-unchanged", token.NoPos, "multi.returnResults not found")
		return
	}
	errP := paramOfType(mret, "error", 0)
	n := 0
	kit.Instrs(mret, func(in ssa.Instruction) {
		st, ok := in.(*ssa.Store)
		if !ok {
			return
		}
		fa, ok := st.Addr.(*ssa.FieldAddr)
		if !ok || kit.FieldVar(fa.X.Type(), fa.Field).Name() != "Error" || !strings.HasSuffix(fa.X.Type().String(), "hrpc.RPCResult") {
			return
		}
		n++
		good := true
		for _, l := range ctxLeaves(st.Val) {
			if l == ssa.Value(errP) {
				continue
			}
			if call, ok := l.(*ssa.Call); ok && kit.CalleeName(call) == kit.M("region", "", "exceptionToError") {
				continue
			}
			good = false
		}
		c.Check(good, mret, "multi-error-unchanged", st.Pos(), "the error delivered is the given error or exceptionToError(...) unchanged", "multi.returnResults changes the class of an error before delivering it (wraps or re-labels it): an exception the server marked as final is retried, or a retryable one surfaces")
	})
	if n < 2 {
		c.Unk(mret, "multi-error-unchanged", mret.Pos(), "fewer error deliveries than confirmed found in multi.returnResults")
	}
}

// errorCarriesAssembledRow: once Next has started assembling a row from partial results, an error
// is returned together with what was assembled. Shared by C14.R4 and C06.R2.
func errorCarriesAssembledRow(c *kit.Ctx) {
	p := c.P
	next := p.Func("", "scanner", "Next")
	if next == nil {
		c.Unk(nil, "error-carries-row", token.NoPos, "scanner.Next not found")
		return
	}
	coal := kit.Calls(next, kit.M("", "*scanner", "coalesce"))
	if len(coal) == 0 {
		c.Unk(next, "error-carries-row", next.Pos(), "Next no longer assembles rows with coalesce")
		return
	}
	n := 0
	kit.Instrs(next, func(in ssa.Instruction) {
		r, ok := in.(*ssa.Return)
		if !ok {
			return
		}
		ev := returnedError(r)
		if ev == nil || kit.IsNilConst(kit.Root(ev)) {
			return
		}
		after := false
		for _, cc := range coal {
			if kit.Reaches(cc.(ssa.Instruction), r) {
				after = true
			}
		}
		if !after {
			return
		}
		n++
		call, isCall := kit.Root(kit.Res(r, 0)).(*ssa.Call)
		c.Check(isCall && kit.CalleeName(call) == kit.M("", "", "toLocalResult"), next, "error-carries-row", r.Pos(), "the error is returned with toLocalResult(result): the cells assembled so far",
			"an error in the middle of a row split over several responses is returned without the part of the row already assembled: those cells have been taken out of the buffer and the next call answers end-of-scan, so they are lost")
	})
	if n == 0 {
		c.Unk(next, "error-carries-row", next.Pos(), "no error return found after the row assembly in Next")
	}
}

// scanRequestLevelOptions: options of a scan that apply to every request of the scan - also to the
// continuation / renewal / close requests that carry a scanner id and return early from Scan.ToProto -
// are put into the ScanRequest before that early return: whenever such a field is assigned under an
// option of the Scan, no return of ToProto is reachable with the option set but the field unassigned.
// Shared by C06.R3 and C14.R5 (a renewal sent without renew=true is an ordinary next(): the renewer
// swallows rows).
func scanRequestLevelOptions(c *kit.Ctx) {
	p := c.P
	tp := p.Func("hrpc", "Scan", "ToProto")
	if tp == nil {
		c.Unk(nil, "request-level-option", token.NoPos, "hrpc.Scan.ToProto not found")
		return
	}
	n := 0
	kit.Instrs(tp, func(in ssa.Instruction) {
		st, ok := in.(*ssa.Store)
		if !ok {
			return
		}
		fa, ok := st.Addr.(*ssa.FieldAddr)
		if !ok || !strings.HasSuffix(fa.X.Type().String(), "pb.ScanRequest") {
			return
		}
		// the option the assignment is conditional on: a true fact about a field of the Scan
		var opt *types.Var
		for _, f := range kit.FactsAt(st.Block()) {
			if !f.Pol {
				continue
			}
			if _, fv := kit.FieldRead(kit.Root(f.Cond)); fv != nil {
				opt = fv
			}
		}
		if opt == nil {
			return
		}
		n++
		e := mustPass(tp, func(x ssa.Instruction) bool { return x == ssa.Instruction(st) }, func(from, to *ssa.BasicBlock) bool {
			for _, f := range kit.EdgeFacts(from, to) {
				if _, fv := kit.FieldRead(kit.Root(f.Cond)); fv == opt && !f.Pol {
					return true
				}
			}
			return false
		})
		c.Check(e == nil, tp, "request-level-option "+kit.FieldVar(fa.X.Type(), fa.Field).Name(), st.Pos(), "assigned on every path on which "+opt.Name()+" is set, including the early return of requests that carry a scanner id",
			"the request field "+kit.FieldVar(fa.X.Type(), fa.Field).Name()+" is only assigned on the path that opens a scanner: requests that carry a scanner id return before it, so e.g. a lease renewal goes out as an ordinary next() whose rows the renewer throws away: "+c.BlockPath(e))
	})
	if n == 0 {
		c.Unk(tp, "request-level-option", tp.Pos(), "no option-dependent field of the ScanRequest found (Renew was confirmed)")
	}
}

// scanEndBoundaries: isDone compares the scan's stop row with the boundary of the region just
// finished inclusively: forward stop <= region stop key, reversed stop >= region start key. With a
// strict test a stop row that coincides with a region boundary makes the scanner open the next region
// with an empty range [stop, stop), which HBase answers like a Get of that row. Shared by C06.R2.
func scanEndBoundaries(c *kit.Ctx) {
	p := c.P
	isd := p.Func("", "scanner", "isDone")
	if isd == nil {
		c.Unk(nil, "scan-end-boundary", token.NoPos, "scanner.isDone not found")
		return
	}
	n := 0
	seen := map[string]bool{}
	check := func(cond ssa.Value, pos token.Pos) {
		cmp, ok := kit.CanonCmp(cond, true)
		if !ok || !cmp.Bytes {
			return
		}
		name := func(v ssa.Value) string {
			if call, ok := kit.Root(v).(*ssa.Call); ok {
				nm := kit.CalleeName(call)
				switch {
				case strings.HasSuffix(nm, "hrpc.Scan).StopRow"):
					return "stop"
				case nm == hrpcRI+"StopKey":
					return "regionStop"
				case nm == hrpcRI+"StartKey":
					return "regionStart"
				}
			}
			return ""
		}
		x, y, op := name(cmp.X), name(cmp.Y), cmp.Op
		if x != "stop" && y == "stop" {
			x, y = y, x
			op = map[token.Token]token.Token{token.LSS: token.GTR, token.GTR: token.LSS, token.LEQ: token.GEQ, token.GEQ: token.LEQ, token.EQL: token.EQL, token.NEQ: token.NEQ}[op]
		}
		if x != "stop" || y == "" || y == "stop" {
			return
		}
		key := x + y
		if seen[key+op.String()] {
			return
		}
		seen[key+op.String()] = true
		n++
		switch y {
		case "regionStop":
			c.Check(op == token.LEQ || op == token.GTR, isd, "scan-end-boundary forward", pos, "forward: done when stop row <= region stop key", "the forward end-of-scan test is strict: a stop row equal to a region boundary is not recognised as the end and the next region is opened with the empty range [stop, stop)")
		case "regionStart":
			c.Check(op == token.GEQ || op == token.LSS, isd, "scan-end-boundary reversed", pos, "reversed: done when stop row >= region start key", "the reversed end-of-scan test is strict: a stop row equal to a region boundary is not recognised as the end")
		}
	}
	kit.Instrs(isd, func(in ssa.Instruction) {
		switch x := in.(type) {
		case *ssa.If:
			check(x.Cond, x.Pos())
		case *ssa.BinOp:
			check(x, x.Pos())
		}
	})
	if n < 2 {
		c.Unk(isd, "scan-end-boundary", isd.Pos(), "the two comparisons of the scan's stop row with the region boundaries were not found in isDone")
	}
}

// scanResultsFullyPopulated: shared by C06.R1 and C11.K1.
func scanResultsFullyPopulated(c *kit.Ctx) {
	p := c.P
	dcb := p.Func("hrpc", "Scan", "DeserializeCellBlocks")
	if dcb == nil {
		c.Unk(nil, "results-fully-populated", token.NoPos, "hrpc.Scan.DeserializeCellBlocks not found")
		return
	}
	eng := bounds.New(p)
	// every slot of the Results slice is filled: it is as long as the slice the filling loop ranges over
	kit.Instrs(dcb, func(in ssa.Instruction) {
		mk, ok := in.(*ssa.MakeSlice)
		if !ok || !strings.Contains(mk.Type().String(), "pb.Result") {
			return
		}
		// the loop that stores into it
		var ranged ssa.Value
		kit.Instrs(dcb, func(x ssa.Instruction) {
			ia, ok := x.(*ssa.IndexAddr)
			if !ok || !strings.Contains(ia.X.Type().String(), "pb.Result") {
				return
			}
			if sl, isR := rangeOfIndex(ia.Index); isR {
				ranged = sl
			}
		})
		if ranged == nil {
			c.Unk(dcb, "results-fully-populated", mk.Pos(), "the loop that fills the results was not recognised")
			return
		}
		n1 := eng.Lin(mk.Len)
		n2 := eng.LenOf(ranged)
		ok1, _ := eng.Prove(n1.Sub(n2), mk.Block(), kit.InstrIndex(mk))
		ok2, _ := eng.Prove(n2.Sub(n1), mk.Block(), kit.InstrIndex(mk))
		// ... and every iteration fills its slot with a result (not nil): no way round the loop avoids the store
		var fills []*ssa.Store
		kit.Instrs(dcb, func(x ssa.Instruction) {
			st, ok := x.(*ssa.Store)
			if !ok {
				return
			}
			ia, ok := st.Addr.(*ssa.IndexAddr)
			if !ok || !strings.Contains(ia.X.Type().String(), "pb.Result") {
				return
			}
			if _, isR := rangeOfIndex(ia.Index); isR && kit.NonNil(st.Val) {
				fills = append(fills, st)
			}
		})
		if len(fills) == 0 {
			c.Unk(dcb, "every-iteration-fills-its-slot", mk.Pos(), "no store of a fresh result into the slot of the current iteration found")
		} else {
			cyc := kit.FindCycle(dcb, func(b *ssa.BasicBlock) bool {
				for _, st := range fills {
					if st.Block() == b {
						return true
					}
				}
				return false
			}, nil)
			c.Check(cyc == nil, dcb, "every-iteration-fills-its-slot", fills[0].Pos(), "no way round the filling loop skips the store into Results[i]", "an iteration of the filling loop can go on to the next result without storing one (e.g. for a result without cells): the slot stays nil - Next returns (nil, nil) or the scanner dereferences the nil fragment while it assembles a row")
		}
		c.Check(ok1 && ok2, dcb, "results-fully-populated", mk.Pos(), "the results slice has exactly one slot per iteration of the loop that fills it", "the results slice can be longer than the number of results the loop fills in (it is sized by one per-result array and filled by another, and the guard only bounds one by the other): the tail stays nil, Next returns (nil, nil) and the meta lookup dereferences a nil result")
	})
}

// cellblockFormMatchesProtoForm: a call type that defines its own ToProto but inherits
// SerializeCellBlocks from an embedded call (CheckAndPut embeds *Mutate) would be sent, on the
// cellblock path, as the embedded call - without what its own ToProto adds (the condition of a
// check-and-put). Such a type must answer CellBlocksEnabled() with false itself. Shared by C05.R5.
func cellblockFormMatchesProtoForm(c *kit.Ctx) {
	p := c.P
	pkg := p.Pkg("hrpc")
	if pkg == nil {
		c.Unk(nil, "cellblock-form", token.NoPos, "package hrpc not found")
		return
	}
	n := 0
	for _, name := range pkg.Scope().Names() {
		tn, ok := pkg.Scope().Lookup(name).(*types.TypeName)
		if !ok {
			continue
		}
		named, ok := tn.Type().(*types.Named)
		if !ok {
			continue
		}
		ms := types.NewMethodSet(types.NewPointer(named))
		own := func(m string) (declaredHere bool, present bool) {
			sel := ms.Lookup(pkg, m)
			if sel == nil {
				return false, false
			}
			return len(sel.Index()) == 1, true
		}
		tpOwn, tpHas := own("ToProto")
		scOwn, scHas := own("SerializeCellBlocks")
		if !tpHas || !scHas || !tpOwn || scOwn {
			continue
		}
		n++
		ceOwn, _ := own("CellBlocksEnabled")
		fn := p.Func("hrpc", name, "CellBlocksEnabled")
		good := ceOwn && fn != nil
		if good {
			kit.Instrs(fn, func(in ssa.Instruction) {
				if r, ok := in.(*ssa.Return); ok {
					k, isC := kit.Res(r, 0).(*ssa.Const)
					if !isC || k.Value == nil || k.Value.ExactString() != "false" {
						good = false
					}
				}
			})
		}
		var at *ssa.Function = fn
		c.Check(good, at, "cellblock-form "+name, tn.Pos(), name+" has its own ToProto, inherits SerializeCellBlocks, and opts out of cellblocks",
			name+" defines its own request (ToProto) but inherits the cellblock serialisation of the call it embeds and does not opt out of cellblocks: on connections that use cellblocks it is sent as the embedded call, without what its own ToProto adds (a check-and-put goes out as an unconditional put)")
	}
	if n == 0 {
		c.Unk(nil, "cellblock-form", token.NoPos, "no call type with its own ToProto and an inherited SerializeCellBlocks found (CheckAndPut was confirmed)")
	}
}

// exceptionTableOracle: every exception class of the confirmed table (tables/exception_classes.txt,
// with the reason for each entry) is in the table of its kind. Moving or dropping an entry changes
// how that fault is survived (a RegionMovedException treated as "come back later" is retried against
// the old server for ever; a request-specific RetryImmediatelyException treated as a region fault is
// retried without any wait). New entries are not judged. Shared by C04.R1, C01.R2 and C17.R3.
func exceptionTableOracle(c *kit.Ctx) {
	p := c.P
	path := filepath.Join(c.VerifDir(), "tables", "exception_classes.txt")
	b, err := os.ReadFile(path)
	if err != nil {
		c.Unk(nil, "exception-table-oracle", token.NoPos, "oracle table tables/exception_classes.txt not readable: "+err.Error())
		return
	}
	tableOf := map[string]string{"region": "javaRegionExceptions", "retryable": "javaRetryableExceptions", "server": "javaServerExceptions"}
	have := map[string]map[string]bool{}
	for _, t := range tableOf {
		have[t] = map[string]bool{}
		for _, k := range mapLiteralKeys(p, "region", p.Global("region", t)) {
			have[t][k] = true
		}
	}
	e2e := p.Func("region", "", "exceptionToError")
	n := 0
	for _, line := range strings.Split(string(b), "\n") {
		if strings.HasPrefix(line, "#") || strings.TrimSpace(line) == "" {
			continue
		}
		f := strings.SplitN(line, "\t", 3)
		if len(f) < 3 || tableOf[f[1]] == "" {
			c.Unk(e2e, "exception-table-oracle", token.NoPos, "malformed oracle line: "+line)
			continue
		}
		n++
		key := strconv.Quote(f[0])
		ok := have[tableOf[f[1]]][f[0]] || have[tableOf[f[1]]][key]
		where := ""
		for t, ks := range have {
			if (ks[f[0]] || ks[key]) && t != tableOf[f[1]] {
				where = " (it is in " + t + " now)"
			}
		}
		c.Check(ok, e2e, "exception-class "+f[0], token.NoPos, f[1]+": "+f[2], f[0]+" is no longer classified as '"+f[1]+"'"+where+": "+f[2])
	}
	if n < 10 {
		c.Unk(e2e, "exception-table-oracle", token.NoPos, "the oracle table has fewer entries than confirmed")
	}
	// the other direction: every class in one of the three maps is in the oracle table. A class that is added to
	// a map without a stated reason changes the client's reaction to it (e.g. CallDroppedException as a server
	// error: a busy but alive server gets its shared connection failed for all its regions)
	oracle := map[string]bool{}
	for _, line := range strings.Split(string(b), "\n") {
		if f := strings.SplitN(line, "\t", 3); len(f) == 3 && !strings.HasPrefix(line, "#") {
			oracle[f[0]] = true
		}
	}
	inTables := map[string][]string{}
	for t, ks := range have {
		for k := range ks {
			inTables[k] = append(inTables[k], t)
		}
	}
	for k, ts := range inTables {
		if len(ts) > 1 {
			sort.Strings(ts)
			c.Bad(e2e, "exception-class-in-one-table "+k, token.NoPos, k+" is listed in more than one table ("+strings.Join(ts, ", ")+"): exceptionToError consults them in a fixed order, so the earlier table shadows the later one - e.g. a server-fatal class that is also 'retryable' no longer fails the connection: the other outstanding calls are left waiting and the dead server keeps its connection", "")
		}
	}
	for t, ks := range have {
		for k := range ks {
			uq := k
			if u, err := strconv.Unquote(k); err == nil {
				uq = u
			}
			c.Check(oracle[uq], e2e, "exception-class-known "+uq, token.NoPos, "listed in the oracle table", uq+" has been added to "+t+" but the oracle table (tables/exception_classes.txt) does not state which reaction it must get and why: the reaction to that exception changes for every request")
		}
	}
	// matching is by substring of the stack trace: a real trace starts with "<class>: <message>", so a prefix or
	// equality test never matches the one entry that carries a message (IOException "Cannot append; log is closed")
	if e2e != nil {
		contains, other := 0, ""
		kit.Instrs(e2e, func(in ssa.Instruction) {
			if call, ok := in.(*ssa.Call); ok {
				switch n := kit.CalleeName(call); n {
				case "strings.Contains":
					contains++
				case "strings.HasPrefix", "strings.HasSuffix", "strings.EqualFold", "strings.Index":
					other = n
				}
			}
		})
		c.Check(contains >= 1 && other == "", e2e, "exception-message-by-substring", e2e.Pos(), "the message of a table entry is looked for anywhere in the stack trace (strings.Contains)", "exceptionToError no longer matches the message of a table entry as a substring of the stack trace ("+other+"): real traces begin with the class name, so 'java.io.IOException: Cannot append; log is closed' is not recognised as NotServingRegion any more and surfaces to the caller")
	}
}

// afterClassAlways: in fn, whenever an error has been found to be of class (a successful comma-ok
// type assertion or type-switch case), every way on reaches an instruction accepted by stop (ways
// over skip edges excepted). This is the form-independent reading of "the X case does Y": it holds
// for a type switch, a chain of assertions, and assertions stored in booleans that are tested later
// (the search remembers what the assertion yielded). found is false if fn never tests for class.
func afterClassAlways(fn *ssa.Function, class types.Type, stop func(ssa.Instruction) bool, skip func(from, to *ssa.BasicBlock) bool) (e *kit.Exit, found bool) {
	if fn == nil || class == nil {
		return nil, false
	}
	var asserts []*ssa.TypeAssert
	kit.Instrs(fn, func(in ssa.Instruction) {
		if ta, ok := in.(*ssa.TypeAssert); ok && ta.CommaOk && types.Identical(ta.AssertedType, class) {
			asserts = append(asserts, ta)
		}
	})
	for _, ta := range asserts {
		okV := kit.ExtractOf(ta, 1)
		if okV == nil {
			continue
		}
		found = true
		known := []kit.Fact{{Cond: okV, Pol: true}}
		// the other assertions on the same operand fail (the classes are distinct concrete types)
		kit.Instrs(fn, func(in ssa.Instruction) {
			if o, ok := in.(*ssa.TypeAssert); ok && o.CommaOk && o != ta && kit.Same(kit.Root(o.X), kit.Root(ta.X)) && !types.Identical(o.AssertedType, class) {
				if _, isIface := o.AssertedType.Underlying().(*types.Interface); !isIface {
					if ov := kit.ExtractOf(o, 1); ov != nil {
						known = append(known, kit.Fact{Cond: ov, Pol: false})
					}
				}
			}
		})
		if x := kit.PathFrom(ta, kit.PathQuery{Known: known, Stop: stop, SkipEdge: skip, IgnorePanics: true}); x != nil {
			return x, true
		}
	}
	return nil, found
}

// isServerErrorProbe: a call that answers "does some call of the retry list carry a ServerError":
// the hasServerError helper, or slices.ContainsFunc with a literal that asserts region.ServerError.
func isServerErrorProbe(p *kit.Prog, call *ssa.Call) bool {
	n := kit.CalleeName(call)
	if strings.HasSuffix(n, ".hasServerError") {
		return true
	}
	if !strings.HasPrefix(n, "slices.ContainsFunc") {
		return false
	}
	se := p.Named("region", "ServerError")
	for _, a := range call.Call.Args {
		var lit *ssa.Function
		switch x := kit.Strip(a).(type) {
		case *ssa.MakeClosure:
			lit, _ = x.Fn.(*ssa.Function)
		case *ssa.Function:
			lit = x
		}
		if lit == nil {
			continue
		}
		found := false
		kit.Instrs(lit, func(in ssa.Instruction) {
			if ta, ok := in.(*ssa.TypeAssert); ok && se != nil && types.Identical(ta.AssertedType, se) {
				found = true
			}
		})
		if found {
			return true
		}
	}
	return false
}

// isClassifiedError: v is the result of exceptionToError, unchanged: the call itself, the value a type assertion
// narrowed it to, or a variable that holds nil or such a result (the classification made once, before the ways
// part: `var remoteErr error; if exc != nil { remoteErr = exceptionToError(...) }`).
func isClassifiedError(v ssa.Value, depth int) bool {
	if depth > 6 {
		return false
	}
	v = kit.Root(v)
	switch x := v.(type) {
	case *ssa.Call:
		return kit.CalleeName(x) == kit.M("region", "", "exceptionToError")
	case *ssa.Extract:
		if ta, ok := x.Tuple.(*ssa.TypeAssert); ok && x.Index == 0 {
			return isClassifiedError(ta.X, depth+1)
		}
	case *ssa.TypeAssert:
		return isClassifiedError(x.X, depth+1)
	case *ssa.MakeInterface:
		return isClassifiedError(x.X, depth+1)
	case *ssa.Phi:
		some := false
		for _, e := range x.Edges {
			if kit.IsNilConst(kit.Root(e)) {
				continue
			}
			if !isClassifiedError(e, depth+1) {
				return false
			}
			some = true
		}
		return some
	case *ssa.UnOp:
		if a, ok := x.X.(*ssa.Alloc); ok && x.Op == token.MUL {
			some := false
			for _, st := range kit.StoresTo(a) {
				if kit.IsNilConst(kit.Root(st)) {
					continue
				}
				if l, isLoad := kit.Root(st).(*ssa.UnOp); isLoad && l.Op == token.MUL && l.X == ssa.Value(a) {
					continue
				}
				if !isClassifiedError(st, depth+1) {
					return false
				}
				some = true
			}
			return some
		}
	}
	return false
}
