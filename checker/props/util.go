package props

import (
	"go/token"
	"go/types"
	"strings"

	"golang.org/x/tools/go/ssa"

	"gohbaseverif/kit"
)

// common anchor names
var (
	nmLock   = "(*sync.Mutex).Lock"
	nmUnlock = "(*sync.Mutex).Unlock"
	nmRWLock = "(*sync.RWMutex).Lock"
	nmRWUnl  = "(*sync.RWMutex).Unlock"
	nmOnceDo = "(*sync.Once).Do"
	hrpcCall = "(" + kit.Module + "/hrpc.Call)."
	hrpcRC   = "(" + kit.Module + "/hrpc.RegionClient)."
	hrpcRI   = "(" + kit.Module + "/hrpc.RegionInfo)."
	ctxDone  = "(context.Context).Done"
	ctxErr   = "(context.Context).Err"
)

// callsOfFieldValue returns the calls in the analysed program whose callee is
// a function value loaded from struct field f.
func callsOfFieldValue(p *kit.Prog, f *types.Var) []ssa.CallInstruction {
	var out []ssa.CallInstruction
	for _, fn := range p.Funcs {
		kit.Instrs(fn, func(in ssa.Instruction) {
			c, ok := in.(ssa.CallInstruction)
			if !ok || c.Common().IsInvoke() {
				return
			}
			if _, fv := kit.FieldRead(c.Common().Value); fv == f {
				out = append(out, c)
			}
		})
	}
	return out
}

// literalPassedTo reports whether function literal fn is passed as an
// argument to a call of callee (by resolved name) in its parent; returns the call.
func literalPassedTo(fn *ssa.Function, callee string) ssa.CallInstruction {
	par := fn.Parent()
	if par == nil {
		return nil
	}
	var found ssa.CallInstruction
	kit.Instrs(par, func(in ssa.Instruction) {
		c, ok := in.(ssa.CallInstruction)
		if !ok || kit.CalleeName(c) != callee {
			return
		}
		for _, a := range c.Common().Args {
			a = kit.Strip(a)
			if mc, ok := a.(*ssa.MakeClosure); ok && mc.Fn == fn {
				found = c
			}
			if f, ok := a.(*ssa.Function); ok && f == fn {
				found = c
			}
		}
	})
	return found
}

// onceLiteral returns the function literal passed to (*sync.Once).Do whose
// receiver is field onceField, inside fn.
func onceLiteral(fn *ssa.Function, onceField *types.Var) (*ssa.Function, ssa.CallInstruction) {
	for _, c := range kit.Calls(fn, nmOnceDo) {
		args := c.Common().Args
		if len(args) != 2 {
			continue
		}
		fa, ok := args[0].(*ssa.FieldAddr)
		if !ok || kit.FieldVar(fa.X.Type(), fa.Field) != onceField {
			continue
		}
		switch a := kit.Strip(args[1]).(type) {
		case *ssa.MakeClosure:
			return a.Fn.(*ssa.Function), c
		case *ssa.Function:
			return a, c
		}
	}
	return nil, nil
}

// typeAssertEdge reports whether block b is reached only through the
// success edge of a comma-ok type assertion (or type-switch case) of a value
// to type t. Returns the asserted operand.
func typeAssertEdge(b *ssa.BasicBlock, t types.Type) (ssa.Value, bool) {
	for _, f := range kit.FactsAt(b) {
		if !f.Pol {
			continue
		}
		ex, ok := f.Cond.(*ssa.Extract)
		if !ok || ex.Index != 1 {
			continue
		}
		ta, ok := ex.Tuple.(*ssa.TypeAssert)
		if !ok || !ta.CommaOk {
			continue
		}
		if types.Identical(ta.AssertedType, t) {
			return ta.X, true
		}
	}
	return nil, false
}

// assertedTypesAt returns all types t such that block b is reached only through
// the success edge of x.(t).
func assertedTypesAt(b *ssa.BasicBlock) []*ssa.TypeAssert {
	var out []*ssa.TypeAssert
	for _, f := range kit.FactsAt(b) {
		if !f.Pol {
			continue
		}
		if ex, ok := f.Cond.(*ssa.Extract); ok && ex.Index == 1 {
			if ta, ok := ex.Tuple.(*ssa.TypeAssert); ok && ta.CommaOk {
				out = append(out, ta)
			}
		}
	}
	return out
}

// isLoadOfField reports whether v is a load of struct field f.
func isLoadOfField(v ssa.Value, f *types.Var) bool {
	_, fv := kit.FieldRead(kit.Root(v))
	if fv == f {
		return true
	}
	_, fv = kit.FieldRead(v)
	return fv == f
}

// isGlobalLoad reports whether v is a load of global g.
func isGlobalLoad(v ssa.Value, g *ssa.Global) bool {
	v = kit.Strip(v)
	u, ok := v.(*ssa.UnOp)
	return ok && u.Op == token.MUL && u.X == ssa.Value(g)
}

// firstPos returns the first valid position in a block.
func firstPos(b *ssa.BasicBlock) token.Pos {
	for _, in := range b.Instrs {
		if _, isPhi := in.(*ssa.Phi); isPhi {
			continue
		}
		if in.Pos().IsValid() {
			return in.Pos()
		}
	}
	return token.NoPos
}

// enclosingNamed returns the outermost named function containing fn.
func enclosingNamed(fn *ssa.Function) *ssa.Function {
	for fn.Parent() != nil {
		fn = fn.Parent()
	}
	return fn
}

// callersOf returns the call sites (in analysed functions) that statically
// call fn, by resolved callee name.
func callersOf(p *kit.Prog, name string) []ssa.CallInstruction {
	var out []ssa.CallInstruction
	for _, fn := range p.Funcs {
		out = append(out, kit.Calls(fn, name)...)
	}
	return out
}

func posOf(in ssa.Instruction) token.Pos {
	if in.Pos().IsValid() {
		return in.Pos()
	}
	// fall back to the first positioned instruction after it in the block
	b := in.Block()
	idx := kit.InstrIndex(in)
	for i := idx; i < len(b.Instrs); i++ {
		if b.Instrs[i].Pos().IsValid() {
			return b.Instrs[i].Pos()
		}
	}
	for i := idx; i >= 0; i-- {
		if b.Instrs[i].Pos().IsValid() {
			return b.Instrs[i].Pos()
		}
	}
	return token.NoPos
}

type typesSignature = types.Signature

// paramOfType returns the n-th (0-based) parameter of fn whose type string
// ends with typeSuffix (parameters are identified by type and position, never
// by their spelling).
func paramOfType(fn *ssa.Function, typeSuffix string, n int) *ssa.Parameter {
	k := 0
	for _, pa := range fn.Params {
		if strings.HasSuffix(pa.Type().String(), typeSuffix) {
			if k == n {
				return pa
			}
			k++
		}
	}
	return nil
}

// paramOfExactType is paramOfType with an exact match of the type string.
func paramOfExactType(fn *ssa.Function, typ string, n int) *ssa.Parameter {
	k := 0
	for _, pa := range fn.Params {
		if pa.Type().String() == typ {
			if k == n {
				return pa
			}
			k++
		}
	}
	return nil
}

// resultAlloc returns the variable (Alloc) holding named result idx of fn,
// found through the loads feeding its Return instructions.
func resultAlloc(fn *ssa.Function, idx int) *ssa.Alloc {
	var out *ssa.Alloc
	kit.Instrs(fn, func(in ssa.Instruction) {
		r, ok := in.(*ssa.Return)
		if !ok || idx >= len(r.Results) {
			return
		}
		if l, ok := r.Results[idx].(*ssa.UnOp); ok && l.Op == token.MUL {
			if a, ok := l.X.(*ssa.Alloc); ok {
				out = a
			}
		}
	})
	return out
}

// spillOf returns the Alloc into which parameter pa is stored on entry
// (parameters whose address is taken).
func spillOf(pa *ssa.Parameter) *ssa.Alloc {
	for _, r := range kit.Referrers(pa) {
		if st, ok := r.(*ssa.Store); ok && st.Val == ssa.Value(pa) {
			if a, ok := st.Addr.(*ssa.Alloc); ok {
				return a
			}
		}
	}
	return nil
}

// freeVarFor returns the free variable of literal lit that is bound to alloc a.
func freeVarFor(lit *ssa.Function, a *ssa.Alloc) *ssa.FreeVar {
	for _, fv := range lit.FreeVars {
		if kit.FreeVarBinding(fv) == ssa.Value(a) {
			return fv
		}
	}
	return nil
}
