package props

import (
	"fmt"
	"go/token"
	"go/types"
	"strings"

	"golang.org/x/tools/go/ssa"

	"gohbaseverif/kit"
)

func init() {
	register("C01", &Property{
		Title: "Requests are routed to the region that owns the row key",
		Explanation: "The plumbing that carries a lookup result to the wire, and the two validators that reject a wrong lookup result: " +
			"(R1) every protobuf request that has a Region field (Get/Mutate/Scan requests, region actions of a multi - found by type) sets it from the region stored in the call being serialised (regionSpecifier of the receiver's own base, which reads base.region), and a multi groups actions under the region of each grouped call; " +
			"(R2) Call.SetRegion is called only by getRegionAndClientForRPC and the establisher's probe; in getRegionAndClientForRPC the region stamped on the call, the region whose Client() is returned and the region resolved for that call's table/key are one value, and the stamp dominates the success return; " +
			"(R3) sibling validators: getRegionFromCache and metaLookup return the approximately located region only if its fully qualified table equals the requested table and NOT(len(stop) != 0 && key >= stop) in canonical form, with the call's own Table()/Key() flowing unchanged into them; " +
			"(R4) one search-key builder: createRegionSearchKey is the only producer of keys for the cache lookup, the overlap search and the meta scan, and appends table, ',', key, ',', c with c > '9'; " +
			"(R5) the cache tree is ordered by region.Compare and get() returns the predecessor of the search key (Seek then Prev on the same enumerator)." +
			" Added after the seeded-change rounds: (R1) in multi.toProto every action is appended to the group looked up or created under c.Region() of the call of the same iteration (nothing carried over from the previous call); (R2 shared with C08.R5) the three discoverers detach every evicted overlap from the connection cache; (R5 shared with C08.R4) the overlap search finds every intersecting cached region.",
		Residue:   "that region.Compare and the b-tree seek locate the owning region for every key and layout (value-level: C16/C08 residue)",
		Technique: "value provenance over SSA, guarded-return path search with canonical byte-comparison forms, who-may-call tables, constant extraction",
		Run:       runC01All,
	})
}

func runC01(c *kit.Ctx) {
	p := c.P
	grc := c.Anchor("", "client", "getRegionFromCache")
	ml := c.Anchor("", "client", "metaLookup")
	gr := c.Anchor("", "client", "getRegionAndClientForRPC")
	grf := c.Anchor("", "client", "getRegionForRpc")
	fr := c.Anchor("", "client", "findRegion")
	lr := c.Anchor("", "client", "lookupRegion")
	csk := c.Anchor("", "", "createRegionSearchKey")
	kget := c.Anchor("", "keyRegionCache", "get")
	rs := c.Anchor("hrpc", "base", "regionSpecifier")
	mtp := c.Anchor("region", "multi", "toProto")
	if grc == nil || ml == nil || gr == nil || grf == nil || fr == nil || lr == nil || csk == nil || kget == nil || rs == nil || mtp == nil {
		return
	}
	regionF := p.Field("hrpc", "base", "region")

	// ---- R1 ---------------------------------------------------------------
	c.StartRule("R1", "the region put into every request is the region stored in the call", 5)
	c.Table("C01.R1: pb.MoveRegionRequest.Region names the subject of an administrative operation chosen by the caller (not a routing target)")
	{
		n := 0
		for _, fn := range p.Funcs {
			path := enclosingNamed(fn).Pkg
			if path == nil || (path.Pkg.Path() != kit.Module+"/hrpc" && path.Pkg.Path() != kit.Module+"/region") {
				continue
			}
			kit.Instrs(fn, func(in ssa.Instruction) {
				al, ok := in.(*ssa.Alloc)
				if !ok {
					return
				}
				nt := kit.ReceiverNamed(al.Type())
				if nt == nil || nt.Obj().Pkg() == nil || nt.Obj().Pkg().Path() != kit.Module+"/pb" {
					return
				}
				st, ok := nt.Underlying().(*types.Struct)
				if !ok {
					return
				}
				hasRegion := false
				for i := 0; i < st.NumFields(); i++ {
					if st.Field(i).Name() == "Region" && strings.HasSuffix(st.Field(i).Type().String(), "pb.RegionSpecifier") {
						hasRegion = true
					}
				}
				if !hasRegion || !strings.HasSuffix(nt.Obj().Name(), "Request") && nt.Obj().Name() != "RegionAction" {
					return
				}
				if nt.Obj().Name() == "MoveRegionRequest" {
					return // tabled below
				}
				n++
				var val ssa.Value
				for _, r := range kit.Referrers(al) {
					if fa, ok := r.(*ssa.FieldAddr); ok && kit.FieldVar(fa.X.Type(), fa.Field).Name() == "Region" {
						for _, rr := range kit.Referrers(fa) {
							if s, ok := rr.(*ssa.Store); ok && s.Addr == ssa.Value(fa) {
								val = s.Val
							}
						}
					}
				}
				if val == nil {
					c.Bad(fn, "request "+nt.Obj().Name(), al.Pos(), "a "+nt.Obj().Name()+" is built without its Region field: the server cannot tell which region the request is for", "")
					return
				}
				if call, ok := val.(*ssa.Call); ok && kit.StaticCallee(call) == rs {
					// receiver must be the base embedded in this method's receiver
					good := false
					if fa, ok := call.Call.Args[0].(*ssa.FieldAddr); ok && len(fn.Params) > 0 {
						base := fa.X
						// CheckAndPut embeds *Mutate: one more hop
						if l, ok := base.(*ssa.UnOp); ok {
							if fa2, ok := l.X.(*ssa.FieldAddr); ok {
								base = fa2.X
							}
						}
						good = base == ssa.Value(fn.Params[0])
					}
					c.Check(good, fn, "request "+nt.Obj().Name(), al.Pos(), "Region = regionSpecifier() of the call being serialised", "the request carries the region of another call object")
					return
				}
				if nt.Obj().Name() == "RegionAction" {
					good := false
					if spec, ok := val.(*ssa.Alloc); ok {
						for _, r := range kit.Referrers(spec) {
							if fa, ok := r.(*ssa.FieldAddr); ok && kit.FieldVar(fa.X.Type(), fa.Field).Name() == "Value" {
								for _, rr := range kit.Referrers(fa) {
									if s, ok := rr.(*ssa.Store); ok {
										if call, ok := s.Val.(*ssa.Call); ok && kit.CalleeName(call) == hrpcRI+"Name" {
											// r must be the key of the grouping map
											if ex, ok := call.Call.Value.(*ssa.Extract); ok && ex.Index == 1 {
												if _, ok := ex.Tuple.(*ssa.Next); ok {
													good = true
												}
											}
										}
									}
								}
							}
						}
					}
					c.Check(good, fn, "request RegionAction", al.Pos(), "Region = Name() of the grouping-map key", "a region action is not addressed with the name of the region its actions were grouped under")
					return
				}
				c.Unk(fn, "request "+nt.Obj().Name(), al.Pos(), "Region field set from an unrecognised source: "+val.String())
			})
		}
		if n < 4 {
			c.Unk(nil, "request-literals", token.NoPos, fmt.Sprintf("only %d request literals with a Region field found (4 confirmed)", n))
		}
		// regionSpecifier reads base.region
		reads := false
		for _, a := range p.FieldAccesses(regionF) {
			if a.Fn == rs && !a.Write {
				reads = true
			}
		}
		kit.Instrs(rs, func(in ssa.Instruction) {
			r, ok := in.(*ssa.Return)
			if !ok {
				return
			}
			good := false
			switch v := kit.Res(r, 0).(type) {
			case *ssa.Call:
				// i.RegionSpecifier() with i = b.region.(interface{...})
				if ex, ok := v.Call.Value.(*ssa.Extract); ok {
					if ta, ok := ex.Tuple.(*ssa.TypeAssert); ok && isLoadOfField(ta.X, regionF) {
						good = true
					}
				}
			case *ssa.Alloc:
				for _, rr := range kit.Referrers(v) {
					if fa, ok := rr.(*ssa.FieldAddr); ok && kit.FieldVar(fa.X.Type(), fa.Field).Name() == "Value" {
						for _, r3 := range kit.Referrers(fa) {
							if s, ok := r3.(*ssa.Store); ok {
								if call, ok := s.Val.(*ssa.Call); ok && kit.CalleeName(call) == hrpcRI+"Name" && isLoadOfField(call.Call.Value, regionF) {
									good = true
								}
							}
						}
					}
				}
			}
			c.Check(good && reads, rs, "specifier-from-call-region", r.Pos(), "the specifier returned names base.region", "regionSpecifier returns a specifier that is not derived from the region stored in the call")
		})
		// multi groups by the region of each grouped call
		good := false
		kit.Instrs(mtp, func(in ssa.Instruction) {
			mu, ok := in.(*ssa.MapUpdate)
			if !ok {
				return
			}
			if call, ok := mu.Key.(*ssa.Call); ok && kit.CalleeName(call) == hrpcCall+"Region" {
				// of the call at the current position of the loop over m.calls
				if l, ok := kit.Root(call.Call.Value).(*ssa.UnOp); ok {
					if ia, ok := l.X.(*ssa.IndexAddr); ok {
						if _, isRange := rangeOfIndex(ia.Index); isRange {
							good = true
						}
					}
				}
			}
		})
		c.Check(good, mtp, "group-by-call-region", mtp.Pos(), "actions are grouped under c.Region() of each call", "multi.toProto no longer groups actions by the region of the call")
		// the group an action is appended to is looked up (or created) in the same iteration under the
		// region of the call being converted: nothing is carried over from a previous call
		{
			isCurRegion := func(v ssa.Value) (ssa.Instruction, bool) {
				call, ok := kit.Root(v).(*ssa.Call)
				if !ok || kit.CalleeName(call) != hrpcCall+"Region" {
					return nil, false
				}
				if l, ok := kit.Root(call.Call.Value).(*ssa.UnOp); ok {
					if ia, ok := l.X.(*ssa.IndexAddr); ok {
						if _, isRange := rangeOfIndex(ia.Index); isRange {
							return l, true
						}
					}
				}
				return nil, false
			}
			n := 0
			kit.Instrs(mtp, func(in ssa.Instruction) {
				st, ok := in.(*ssa.Store)
				if !ok {
					return
				}
				fa, ok := st.Addr.(*ssa.FieldAddr)
				if !ok || kit.FieldVar(fa.X.Type(), fa.Field).Name() != "pbs" {
					return
				}
				n++
				why := ""
				seen := map[ssa.Value]bool{}
				var walk func(v ssa.Value)
				walk = func(v ssa.Value) {
					v = kit.Root(v)
					if seen[v] || why != "" {
						return
					}
					seen[v] = true
					switch x := v.(type) {
					case *ssa.Phi:
						for _, e := range x.Edges {
							walk(e)
						}
						// a phi at a loop head carries the group of an earlier call
						for i, pred := range x.Block().Preds {
							if x.Block().Dominates(pred) && i < len(x.Edges) {
								why = "the group is carried over from the previous iteration (" + c.P.Pos(x.Pos()) + ")"
							}
						}
					case *ssa.Extract:
						lk, ok := x.Tuple.(*ssa.Lookup)
						if !ok {
							why = "group comes from " + x.Tuple.String()
							return
						}
						if _, ok := isCurRegion(lk.Index); !ok {
							why = "group looked up under a key that is not the current call's Region()"
						}
					case *ssa.Lookup:
						if _, ok := isCurRegion(x.Index); !ok {
							why = "group looked up under a key that is not the current call's Region()"
						}
					case *ssa.Alloc:
						// fresh group: must be registered under the current call's region
						reg := false
						for _, r := range kit.Referrers(x) {
							if mu, ok := r.(*ssa.MapUpdate); ok && mu.Value == ssa.Value(x) {
								if _, ok := isCurRegion(mu.Key); ok {
									reg = true
								}
							}
						}
						if !reg {
							why = "a fresh group is not registered under the current call's Region()"
						}
					default:
						why = "group comes from " + v.String()
					}
				}
				walk(fa.X)
				c.Check(why == "", mtp, "action-joins-own-region-group", st.Pos(), "the action is appended to the group found or created under c.Region() in this iteration", "an action can be appended to the group of another region: "+why+"; the call is then sent inside another region's RegionAction")
			})
			if n == 0 {
				c.Unk(mtp, "action-joins-own-region-group", mtp.Pos(), "no append to a per-region action list found")
			}
		}
	}

	// ---- R2 ---------------------------------------------------------------
	if mtp := c.P.Func("region", "multi", "toProto"); mtp != nil {
		cellblocksInActionOrder(c, mtp)
	}

	c.StartRule("R2", "the call is stamped with the region it was resolved to", 4)
	// a located region becomes usable: the probe that decides it accepts every answer that is not of the
	// region/connection classes (the probe row may lie outside a narrow region: WrongRegionException is an answer)
	probeClassifiesOutcome(c)
	{
		allowed := map[string]bool{"(*gohbase.client).getRegionAndClientForRPC": true, "gohbase.isRegionEstablished": true}
		for _, fn := range p.Funcs {
			if enclosingNamed(fn).Pkg == nil || enclosingNamed(fn).Pkg.Pkg.Path() != kit.Module {
				continue
			}
			var sites []ssa.CallInstruction
			sites = append(sites, kit.Calls(fn, hrpcCall+"SetRegion")...)
			sites = append(sites, kit.Calls(fn, kit.M("hrpc", "*base", "SetRegion"))...)
			for _, s := range sites {
				c.Check(allowed[kit.FuncName(fn)], fn, "set-region-site", s.Pos(), "SetRegion in "+kit.FuncName(fn), "a new place changes the region a call is addressed to")
			}
		}
		rpcParam := paramOfType(gr, "/hrpc.Call", 0)
		res := kit.Calls(gr, kit.M("", "*client", "getRegionForRpc"))
		sets := kit.Calls(gr, hrpcCall+"SetRegion")
		if len(res) != 1 || len(sets) == 0 || rpcParam == nil {
			c.Unk(gr, "shape", gr.Pos(), "getRegionAndClientForRPC no longer has one resolution and a SetRegion")
		} else {
			reg := kit.ExtractOf(res[0].Value(), 0)
			for _, set := range sets {
				good := res[0].Common().Args[2] == ssa.Value(rpcParam) && set.Common().Value == ssa.Value(rpcParam) && kit.Same(set.Common().Args[0], reg)
				c.Check(good, gr, "stamp-resolved-region", set.Pos(), "rpc.SetRegion(reg) with reg = getRegionForRpc(ctx, rpc) for the same rpc", "the region stamped on the call is not the one resolved for it")
			}
			kit.Instrs(gr, func(in ssa.Instruction) {
				r, ok := in.(*ssa.Return)
				if !ok {
					return
				}
				ev := returnedError(r)
				if ev == nil || !kit.IsNilConst(kit.Root(ev)) {
					return
				}
				leaves := []ssa.Value{kit.Root(kit.Res(r, 0))}
				if ph, ok := leaves[0].(*ssa.Phi); ok {
					leaves = kit.PhiLeaves(ph)
				}
				same := true
				for _, l := range leaves {
					call, ok := l.(*ssa.Call)
					if !ok || kit.CalleeName(call) != hrpcRI+"Client" || !kit.Same(call.Call.Value, reg) {
						same = false
					}
				}
				stamped := false
				for _, set := range sets {
					if kit.Dominates(set.(ssa.Instruction), r) {
						stamped = true
					}
				}
				c.Check(same && stamped, gr, "client-of-stamped-region", r.Pos(), "the connection returned is Client() of the region stamped on the call, stamped before the return", "the connection returned belongs to another region than the one stamped on the call (or the call is not stamped on this path)")
			})
		}
	}

	// every attempt of SendRPC is routed again: no way from one send to the next without resolving
	if sr := p.Func("", "client", "SendRPC"); sr != nil {
		for _, s2 := range kit.Calls(sr, kit.M("", "*client", "sendRPCToRegionClient")) {
			e := kit.PathFrom(s2.(ssa.Instruction), kit.PathQuery{
				Target: func(in ssa.Instruction) bool { return in == s2.(ssa.Instruction) },
				Stop: func(in ssa.Instruction) bool {
					cc, ok := in.(*ssa.Call)
					return ok && kit.CalleeName(cc) == kit.M("", "*client", "getRegionAndClientForRPC")
				},
			})
			c.Check(e == nil, sr, "every-attempt-resolves", s2.Pos(), "between two sends the region is resolved again", "a retry can be sent to the connection and region of the previous attempt without consulting the location cache again: after a split, merge or move during the back-off the request goes to the old region/server: "+c.BlockPath(e))
		}
	}
	// a region marked unavailable is waited for even if it still has a connection (shared with C17.R3)
	retryLoopsWait(c)
	// a server that says "the region is not here (any more)" makes the client look the region up again
	exceptionTableOracle(c)
	discoverersDetachOverlaps(c)
	cacheDelAlwaysDetaches(c)
	tableNotFoundEvicts(c)
	establisherHandoff(c)
	failedAttemptRelooksUp(c)
	regionAttributesAreImmutable(c)
	everyFailedResultReachesTheReaction(c)

	// ---- R3 ---------------------------------------------------------------
	c.StartRule("R3", "both lookup validators check table and key < stop", 6)
	lookupValidators(c, grc, ml)
	// the call's own table/key flow unchanged into the validators
	{
		rpcP := paramOfType(grf, "/hrpc.Call", 0)
		argIs := func(v ssa.Value, method string) bool {
			call, ok := kit.Strip(v).(*ssa.Call)
			return ok && kit.CalleeName(call) == hrpcCall+method && call.Call.Value == ssa.Value(rpcP)
		}
		for _, s := range kit.Calls(grf, kit.M("", "*client", "getRegionFromCache")) {
			a := s.Common().Args
			c.Check(argIs(a[1], "Table") && argIs(a[2], "Key"), grf, "cache-lookup-args", s.Pos(), "cache lookup with rpc.Table(), rpc.Key()", "the cache is consulted with something other than the call's own table and key")
		}
		for _, s := range kit.Calls(grf, kit.M("", "*client", "findRegion")) {
			a := s.Common().Args
			c.Check(argIs(a[2], "Table") && argIs(a[3], "Key"), grf, "meta-lookup-args", s.Pos(), "meta lookup with rpc.Table(), rpc.Key()", "hbase:meta is consulted with something other than the call's own table and key")
		}
		passes := func(fn *ssa.Function, callee string, from, to [2]int) bool {
			ok := false
			for _, s := range kit.Calls(fn, callee) {
				a := s.Common().Args
				ok = a[to[0]] == ssa.Value(fn.Params[from[0]]) && a[to[1]] == ssa.Value(fn.Params[from[1]])
			}
			return ok
		}
		c.Check(passes(fr, kit.M("", "*client", "lookupRegion"), [2]int{2, 3}, [2]int{2, 3}), fr, "pass-through", fr.Pos(), "findRegion passes table/key unchanged", "findRegion alters table/key on the way to the lookup")
		c.Check(passes(lr, kit.M("", "*client", "metaLookup"), [2]int{2, 3}, [2]int{2, 3}), lr, "pass-through", lr.Pos(), "lookupRegion passes table/key unchanged", "lookupRegion alters table/key on the way to the meta lookup")
	}

	// ---- R4 ---------------------------------------------------------------
	c.StartRule("R4", "one search-key builder with the right separators", 5)
	{
		allowedCallers := map[string]bool{"(*gohbase.client).getRegionFromCache": true, "(*gohbase.client).metaLookup": true, "(*gohbase.keyRegionCache).getOverlaps": true}
		for _, s := range callersOf(p, kit.M("", "", "createRegionSearchKey")) {
			c.Check(allowedCallers[kit.FuncName(s.Parent())], s.Parent(), "search-key-caller", s.Pos(), "search key built by createRegionSearchKey", "unexpected user of createRegionSearchKey")
		}
		// every Seek on the region tree gets a key produced by createRegionSearchKey
		for _, fn := range p.Funcs {
			kit.Instrs(fn, func(in ssa.Instruction) {
				call, ok := in.(*ssa.Call)
				if !ok || !strings.Contains(kit.CalleeName(call), "modernc.org/b/v2.Tree[") || !strings.HasSuffix(kit.CalleeName(call), ".Seek") {
					return
				}
				key := rootThroughHelpers(p, call.Call.Args[1])
				good := false
				if k, ok := key.(*ssa.Call); ok && kit.StaticCallee(k) == csk {
					good = true
				}
				if pa, ok := key.(*ssa.Parameter); ok && pa.Parent() == kget {
					good = true
					for _, s := range callersOf(p, kit.M("", "*keyRegionCache", "get")) {
						k, ok := kit.Root(s.Common().Args[1]).(*ssa.Call)
						if !ok || kit.StaticCallee(k) != csk {
							good = false
						}
					}
				}
				c.Check(good, fn, "seek-key", call.Pos(), "the tree is searched with a key from createRegionSearchKey", "the region tree is searched with a hand-built key")
			})
		}
		// meta scan start row
		for _, s := range kit.Calls(ml, kit.M("hrpc", "", "NewScanRange")) {
			k, ok := kit.Root(s.Common().Args[2]).(*ssa.Call)
			c.Check(ok && kit.StaticCallee(k) == csk, ml, "meta-scan-start", s.Pos(), "the reversed meta scan starts at createRegionSearchKey(table, key)", "the meta scan does not start at the search key")
			// ... and stops at the table name: without a stop row the closest row before the search key of an unknown
			// table is a region of whatever table sorts before it
			tp := paramOfType(ml, "[]byte", 0)
			c.Check(tp != nil && kit.Root(s.Common().Args[3]) == ssa.Value(tp), ml, "meta-scan-stop", s.Pos(), "the reversed meta scan stops at the table name", "the meta scan has no stop row (or another one than the table): for a table that does not exist it returns a region of the table sorting before it - the wrong-table check turns that into an ordinary error that is retried with back-off, and the caller never gets TableNotFound")
		}
		// appended constants
		var consts []int64
		var order []string
		kit.Instrs(csk, func(in ssa.Instruction) {
			call, ok := in.(*ssa.Call)
			if !ok || kit.CalleeName(call) != "builtin.append" {
				return
			}
			if xs := elemsOfVariadic(call.Call.Args[1]); xs != nil {
				for _, x := range xs {
					if k, ok := kit.ConstInt(x); ok {
						consts = append(consts, k)
						order = append(order, fmt.Sprintf("%q", rune(k)))
					} else {
						order = append(order, kit.Path(x))
					}
				}
				return
			}
			order = append(order, kit.Path(call.Call.Args[1]))
		})
		good := len(consts) == 3 && consts[0] == ',' && consts[1] == ',' && consts[2] > '9' && len(order) == 5
		c.Check(good, csk, "separators", csk.Pos(), "appends "+strings.Join(order, " ")+": two commas and a final byte greater than '9'", "the search key is not table ',' key ',' c with c > '9' (appended: "+strings.Join(order, " ")+"): it would sort before region names of the same start key")
	}

	// ---- R5 ---------------------------------------------------------------
	c.StartRule("R5", "the cache is ordered by region.Compare; lookup returns the predecessor", 2)
	regionKeysAreNotWrittenThrough(c)
	overlapSearch(c)
	{
		treeF := p.Field("", "keyRegionCache", "regions")
		cmpFn := p.Func("region", "", "Compare")
		n := 0
		for _, a := range p.FieldAccesses(treeF) {
			st, ok := a.Instr.(*ssa.Store)
			if !ok || a.Kind != "store" {
				continue
			}
			n++
			good := false
			if call, ok := st.Val.(*ssa.Call); ok && strings.Contains(kit.CalleeName(call), "modernc.org/b/v2.TreeNew") {
				arg := kit.Strip(call.Call.Args[0])
				if ct, ok := arg.(*ssa.ChangeType); ok {
					arg = ct.X
				}
				good = arg == ssa.Value(cmpFn)
			}
			c.Check(good, a.Fn, "tree-order", st.Pos(), "tree created with region.Compare", "the region cache is ordered by something other than region.Compare")
		}
		if n == 0 {
			c.Unk(nil, "tree-order", token.NoPos, "no initialisation of keyRegionCache.regions found")
		}
		// get: Seek then Prev on the same enumerator, result returned (the walk may live in a helper
		// that get alone calls)
		seeks := 0
		good := false
		for _, f := range withHelpers(p, kget) {
			kit.Instrs(f, func(in ssa.Instruction) {
				call, ok := in.(*ssa.Call)
				if !ok || !strings.HasSuffix(kit.CalleeName(call), ".Seek") {
					return
				}
				seeks++
				enum := kit.ExtractOf(call, 0)
				kit.Instrs(f, func(x ssa.Instruction) {
					pc, ok := x.(*ssa.Call)
					if !ok || !strings.HasSuffix(kit.CalleeName(pc), ".Prev") || pc.Call.Args[0] != enum {
						return
					}
					v := kit.ExtractOf(pc, 1)
					kit.Instrs(kget, func(y ssa.Instruction) {
						if r, ok := y.(*ssa.Return); ok && len(r.Results) == 2 && !kit.IsNilConst(kit.Root(kit.Res(r, 1))) {
							if resultFlowsFrom(kit.Res(r, 1), func(z ssa.Value) bool { return z == v }, 0) {
								good = true
							}
						}
					})
				})
			})
		}
		c.Check(good && seeks == 1, kget, "predecessor", kget.Pos(), "get seeks to the key and returns the previous entry", "keyRegionCache.get no longer returns the predecessor of the search key")
	}
}

// lookupValidators: both places that hand out a region for (table, key) - the cache hit and the
// hbase:meta lookup - return it only if it is of that table and key < stop key. Shared by C01.R3
// and C12.R4 (a batch call is grouped under the region this lookup returned).
func lookupValidators(c *kit.Ctx, grc, ml *ssa.Function) {
	validators := []struct {
		fn     *ssa.Function
		source string
		idx    int
	}{{grc, kit.M("", "*keyRegionCache", "get"), 1}, {ml, kit.M("region", "", "ParseRegionInfo"), 0}}
	for _, v := range validators {
		// (table, key) are the first and second []byte parameters
		tableP, keyP := paramOfType(v.fn, "[]byte", 0), paramOfType(v.fn, "[]byte", 1)
		src := kit.Calls(v.fn, v.source)
		if len(src) != 1 || tableP == nil || keyP == nil {
			c.Unk(v.fn, "validator-shape", v.fn.Pos(), "validator no longer obtains the region from "+kit.ShortName(v.source)+" with parameters table/key")
			continue
		}
		R := kit.ExtractOf(src[0].Value(), v.idx)
		isStopOfR := func(x ssa.Value) bool {
			call, ok := kit.Strip(x).(*ssa.Call)
			return ok && kit.CalleeName(call) == hrpcRI+"StopKey" && kit.Same(call.Call.Value, R)
		}
		isFQT := func(x ssa.Value) bool {
			call, ok := kit.Strip(x).(*ssa.Call)
			return ok && kit.CalleeName(call) == kit.M("", "", "fullyQualifiedTable") && kit.Same(call.Call.Args[0], R)
		}
		// the two atoms, wherever they are computed (as a branch condition or as a value a helper returns):
		// a1 = "stop key is not empty", a2 = "key >= stop"; pol tells which truth value of the comparison says so
		type atom struct {
			v   *ssa.BinOp
			pol bool
		}
		var a1s, a2s []atom
		kit.Instrs(v.fn, func(in ssa.Instruction) {
			bo, ok := in.(*ssa.BinOp)
			if !ok {
				return
			}
			for _, pol := range []bool{true, false} {
				cmp, ok := kit.CanonCmp(bo, pol)
				if !ok {
					continue
				}
				if !cmp.Bytes && (cmp.Op == token.NEQ || cmp.Op == token.GTR) {
					if l := kit.LenOf(cmp.X); l != nil && isStopOfR(l) {
						if k, ok := kit.ConstInt(cmp.Y); ok && k == 0 {
							a1s = append(a1s, atom{bo, pol})
						}
					}
				}
				if cmp.Bytes && ((cmp.Op == token.GEQ && kit.Root(cmp.X) == ssa.Value(keyP) && isStopOfR(cmp.Y)) || (cmp.Op == token.LEQ && isStopOfR(cmp.X) && kit.Root(cmp.Y) == ssa.Value(keyP))) {
					a2s = append(a2s, atom{bo, pol})
				}
			}
		})
		nRet := 0
		kit.Instrs(v.fn, func(in ssa.Instruction) {
			r, ok := in.(*ssa.Return)
			if !ok || !kit.Same(kit.Res(r, 0), R) {
				return
			}
			nRet++
			tableOK := false
			for _, f := range kit.FactsAt(r.Block()) {
				if cmp, ok := kit.CanonCmp(f.Cond, f.Pol); ok && cmp.Bytes && cmp.Op == token.EQL {
					if (isFQT(cmp.X) && cmp.Y == ssa.Value(tableP)) || (isFQT(cmp.Y) && cmp.X == ssa.Value(tableP)) {
						tableOK = true
					}
				}
			}
			c.Check(tableOK, v.fn, "table-check", r.Pos(), "the region is returned only if fullyQualifiedTable(region) equals the requested table", "a region of another table (the last region of a same-prefixed table) can be returned for this key")
			stopOK := len(a1s) > 0 && len(a2s) > 0
			why := "no guard of the canonical form len(region.StopKey()) != 0 && key >= region.StopKey() found"
			target := func(x ssa.Instruction) bool { return x == ssa.Instruction(r) }
			for _, a1 := range a1s {
				if !stopOK {
					break
				}
				for _, a2 := range a2s {
					// with "stop not empty" and "key >= stop" both known no way leads to the return of the region
					e := kit.PathFrom(src[0].(ssa.Instruction), kit.PathQuery{
						Known:  []kit.Fact{{Cond: a1.v, Pol: a1.pol}, {Cond: a2.v, Pol: a2.pol}},
						Target: target,
					})
					if e != nil {
						stopOK = false
						why = "the region is still returned on the edge key >= stop"
					}
				}
				// ... and with "stop not empty" known, none that does not evaluate key >= stop (no other test lets
				// the region through)
				e := kit.PathFrom(src[0].(ssa.Instruction), kit.PathQuery{
					Known:  []kit.Fact{{Cond: a1.v, Pol: a1.pol}},
					Target: target,
					Stop: func(x ssa.Instruction) bool {
						for _, a2 := range a2s {
							if x == ssa.Instruction(a2.v) {
								return true
							}
						}
						return false
					},
				})
				if e != nil && stopOK {
					stopOK = false
					why = "with a non-empty stop key the region can be returned without key >= stop having been evaluated (another test lets it through)"
				}
			}
			c.Check(stopOK, v.fn, "stop-key-check", r.Pos(), "the region is returned only if NOT(len(stop) != 0 && key >= stop)", "a key at or beyond the region's stop key can be routed to it (it belongs to the next region): "+why)
		})
		if nRet == 0 {
			c.Unk(v.fn, "validator-return", v.fn.Pos(), "the validator no longer returns the located region")
		}
	}
}

// runC01All: the rules of C01 plus the consistency of the cache it routes by.
func runC01All(c *kit.Ctx) {
	runC01(c)
	if !c.Frozen {
		embed(c, "R6", "the location cache a request is routed by holds one region per key, the newest (the rules of C08, run as one rule here)", 10, runC08)
	}
}
