package props

import (
	"fmt"
	"go/constant"
	"go/token"
	"go/types"
	"sort"
	"strings"

	"golang.org/x/tools/go/ssa"

	"gohbaseverif/bounds"
	"gohbaseverif/kit"
)

func init() {
	register("C10", &Property{
		Title: "Cell encoding is lossless and both mutation encodings agree",
		Explanation: "(R1) the delete-kind decision of the protobuf encoding (valuesToProto) and of the cellblock encoding (valuesToCellblocks) are evaluated as decision tables over the atoms {mutation is a delete, len(v)==0, deleteOneVersion, v==nil} by walking the CFG under every consistent truth assignment, and must agree through the HBase map DeleteType->KeyValue type {ONE_VERSION->8, MULTIPLE_VERSIONS->12, FAMILY->14, FAMILY_VERSION->10, not a delete->4}; " +
			"(R2) the event 'family map replaced by the empty-qualifier map' has the same truth table in valuesToProto, in the sizing loop and in the writing loop of valuesToCellblocks, and the cell count is taken after it; " +
			"(R3) linear forms: cellblockLen(r,f,q,v) = bytes appendCellblock writes = 4 + the key-value length it stores; the key length it stores = 2+r+1+f+q+8+1; the constant the reader subtracts to get the qualifier length equals the writer's fixed key overhead; " +
			"(R4) field widths: every fixed-width write converts to exactly the field's width (no narrower intermediate conversion), the reader's constant slices have the accessor's width, and the fixed header offsets/widths of writer and reader agree; " +
			"(R5) both encodings map the MaxTimestamp sentinel to 'latest' under the same condition." +
			" Added after the seeded-change rounds: (R3) provenance of every field the reader extracts and the order of the fields the writer emits; buffers are returned to the pool only at the request-side sites of C02.R3's table.",
		Residue:   "decode(encode(x)) == x for every x (value-level round trip); behaviour for rows > 64 KiB-1 and families > 255 bytes",
		Technique: "decision-table extraction by CFG walk under truth assignments; symbolic linear forms over SSA; width/offset agreement",
		Run:       runC10All,
	})
}

// atomEval classifies branch conditions of the delete-kind trees.
type atomEval struct {
	v       ssa.Value // the family map (range value)
	mutType *types.Var
	oneVer  *types.Var
	deleteK int64
	unknown []string
	assign  map[string]bool
	env     map[*ssa.Phi]ssa.Value // phis resolved along the current walk
	target  *ssa.Next              // the loop being tabulated (other range loops are skipped)
	// forced: sides chosen for tests on the way to the loop that are not about the kind of cell;
	// ambiguous: such a test met without a choice
	forced    map[*ssa.If]bool
	ambiguous *ssa.If
}

func boolConstOf(v ssa.Value) (bool, bool) {
	k, ok := v.(*ssa.Const)
	if !ok || k.Value == nil {
		return false, false
	}
	if b, isB := k.Type().Underlying().(*types.Basic); !isB || b.Info()&types.IsBoolean == 0 {
		return false, false
	}
	return k.Value.ExactString() == "true", true
}

func (a *atomEval) eval(cond ssa.Value) (bool, bool) {
	neg := false
	for i := 0; i < 16; i++ {
		if u, ok := cond.(*ssa.UnOp); ok && u.Op == token.NOT {
			cond = u.X
			neg = !neg
			continue
		}
		// conditions evaluated as values: true == x, x != false, and phis resolved along the walk
		if bo, ok := cond.(*ssa.BinOp); ok && (bo.Op == token.EQL || bo.Op == token.NEQ) {
			if k, isC := boolConstOf(bo.X); isC {
				cond = bo.Y
				if k != (bo.Op == token.EQL) {
					neg = !neg
				}
				continue
			}
			if k, isC := boolConstOf(bo.Y); isC {
				cond = bo.X
				if k != (bo.Op == token.EQL) {
					neg = !neg
				}
				continue
			}
		}
		if ph, ok := cond.(*ssa.Phi); ok && a.env != nil {
			if r, ok := a.env[ph]; ok {
				cond = r
				continue
			}
		}
		break
	}
	if k, isC := boolConstOf(cond); isC {
		return k != neg, true
	}
	res := func(name string, pol bool) (bool, bool) {
		val := a.assign[name]
		if !pol {
			val = !val
		}
		if neg {
			val = !val
		}
		return val, true
	}
	if isLoadOfField(cond, a.oneVer) {
		return res("oneVersion", true)
	}
	if bo, ok := cond.(*ssa.BinOp); ok && (bo.Op == token.EQL || bo.Op == token.NEQ) {
		pol := bo.Op == token.EQL
		x, y := bo.X, bo.Y
		// constants may be written on either side
		if _, isC := x.(*ssa.Const); isC {
			x, y = y, x
		}
		if isLoadOfField(x, a.mutType) {
			if k, ok := kit.ConstInt(y); ok && k == a.deleteK {
				return res("isDelete", pol)
			}
		}
		if l := kit.LenOf(x); l != nil && kit.Strip(l) == a.v {
			if k, ok := kit.ConstInt(y); ok && k == 0 {
				return res("lenZero", pol)
			}
		}
		if kit.Strip(x) == a.v && kit.IsNilConst(y) {
			return res("isNil", pol)
		}
	}
	// len(v) > 0 / len(v) >= 1 / len(v) < 1 / len(v) <= 0 (either operand order)
	if cmp, ok := kit.CanonCmp(cond, true); ok && !cmp.Bytes {
		if l := kit.LenOf(cmp.X); l != nil && kit.Strip(l) == a.v {
			if k, ok := kit.ConstInt(cmp.Y); ok {
				switch {
				case cmp.Op == token.GTR && k == 0, cmp.Op == token.GEQ && k == 1:
					return res("lenZero", false)
				case cmp.Op == token.LSS && k == 1, cmp.Op == token.LEQ && k == 0:
					return res("lenZero", true)
				}
			}
		}
	}
	a.unknown = append(a.unknown, cond.String())
	return false, false
}

// walk follows the CFG from block start (entered from prev) under the
// assignment until stop(instr) is true; phis are resolved along the way.
func walkCFG(start, prev *ssa.BasicBlock, a *atomEval, stop func(ssa.Instruction) bool) (map[*ssa.Phi]ssa.Value, ssa.Instruction, bool) {
	env := map[*ssa.Phi]ssa.Value{}
	a.env = env
	b := start
	entered := a.target == nil
	for steps := 0; steps < 400; steps++ {
		// phis of a block are evaluated in parallel from the values of the predecessor
		upd := map[*ssa.Phi]ssa.Value{}
		for _, in := range b.Instrs {
			if ph, ok := in.(*ssa.Phi); ok && prev != nil {
				for k, p := range b.Preds {
					if p == prev {
						v := ph.Edges[k]
						for n := 0; n < 8; n++ {
							q, isPhi := v.(*ssa.Phi)
							if !isPhi {
								break
							}
							r, have := env[q]
							if !have {
								break
							}
							v = r
						}
						upd[ph] = v
					}
				}
			}
		}
		for k, v := range upd {
			env[k] = v
		}
		for _, in := range b.Instrs {
			if _, ok := in.(*ssa.Phi); ok {
				continue
			}
			if entered && stop(in) {
				return env, in, true
			}
			switch t := in.(type) {
			case *ssa.If:
				// range loops: enter the loop being tabulated, skip every other one
				if ex, isEx := t.Cond.(*ssa.Extract); isEx && ex.Index == 0 {
					if nx, isNext := ex.Tuple.(*ssa.Next); isNext && a.target != nil && !entered {
						prev = b
						if nx == a.target {
							entered = true
							b = b.Succs[0]
						} else {
							b = b.Succs[1]
						}
						break
					}
				}
				val, ok := a.eval(t.Cond)
				if !ok && !entered && a.target != nil {
					// a test on the way to the loop that is not about the kind of cell: follow the side
					// that leads to the loop, if only one does
					reach := func(from *ssa.BasicBlock) bool {
						return from == a.target.Block() || kit.PathFromBlock(from, kit.PathQuery{Target: func(x ssa.Instruction) bool { return x == ssa.Instruction(a.target) }}) != nil
					}
					r0, r1 := reach(b.Succs[0]), reach(b.Succs[1])
					if r0 != r1 {
						val, ok = r0, true
						a.unknown = a.unknown[:len(a.unknown)-1]
					} else if r0 && r1 {
						// unrelated to the kind of cell as far as we know: the caller tries both sides and
						// requires the same outcome
						if f, have := a.forced[t]; have {
							val, ok = f, true
							a.unknown = a.unknown[:len(a.unknown)-1]
						} else {
							a.ambiguous = t
							a.unknown = a.unknown[:len(a.unknown)-1]
							return env, in, false
						}
					}
				}
				if !ok {
					return env, in, false
				}
				prev = b
				if val {
					b = b.Succs[0]
				} else {
					b = b.Succs[1]
				}
			case *ssa.Jump:
				prev = b
				b = b.Succs[0]
			case *ssa.Return, *ssa.Panic:
				return env, in, false
			}
		}
	}
	return env, nil, false
}

type kindRow struct {
	assign string
	subst  bool
	kind   string
}

// deleteKindTable extracts the decision table of one outer loop over m.values.
func deleteKindTable(c *kit.Ctx, fn *ssa.Function, next *ssa.Next, kindOf func(env map[*ssa.Phi]ssa.Value, rg *ssa.Range) string, emptyQ *ssa.Global, a0 atomEval) ([]kindRow, []string) {
	var rows []kindRow
	famMap := kit.ExtractOf(next, 2)
	if famMap == nil {
		return nil, []string{"family map value not used"}
	}
	body := next.Block().Succs[0]
	var unknown []string
	for mask := 0; mask < 16; mask++ {
		as := map[string]bool{"isDelete": mask&1 != 0, "lenZero": mask&2 != 0, "oneVersion": mask&4 != 0, "isNil": mask&8 != 0}
		if as["isNil"] && !as["lenZero"] {
			continue
		}
		var names []string
		for _, n := range []string{"isDelete", "lenZero", "oneVersion", "isNil"} {
			if as[n] {
				names = append(names, n)
			} else {
				names = append(names, "!"+n)
			}
		}
		// all combinations of sides of the unrelated tests met on the way must give the same outcome
		type outcome struct {
			subst bool
			kind  string
		}
		var outs []outcome
		work := []map[*ssa.If]bool{{}}
		failed := false
		for len(work) > 0 && len(outs) < 16 {
			forced := work[0]
			work = work[1:]
			a := a0
			a.v = famMap
			a.assign = as
			a.target = next
			a.forced = forced
			env, in, ok := walkCFG(fn.Blocks[0], nil, &a, func(in ssa.Instruction) bool {
				rg, isR := in.(*ssa.Range)
				if !isR {
					return false
				}
				_, isMap := rg.X.Type().Underlying().(*types.Map)
				return isMap
			})
			if !ok && a.ambiguous != nil {
				for _, side := range []bool{true, false} {
					f2 := map[*ssa.If]bool{}
					for k, v := range forced {
						f2[k] = v
					}
					f2[a.ambiguous] = side
					work = append(work, f2)
				}
				continue
			}
			if !ok {
				unknown = append(unknown, a.unknown...)
				failed = true
				break
			}
			rg := in.(*ssa.Range)
			x := rg.X
			if ph, isPhi := x.(*ssa.Phi); isPhi {
				if r, ok := env[ph]; ok {
					x = r
				}
			}
			subst := isGlobalLoad(x, emptyQ)
			if !subst && kit.Strip(x) != famMap {
				unknown = append(unknown, "inner loop ranges over "+x.String())
			}
			outs = append(outs, outcome{subst, kindOf(env, rg)})
		}
		if failed || len(outs) == 0 {
			continue
		}
		for _, o := range outs[1:] {
			if o != outs[0] {
				unknown = append(unknown, "the outcome for "+strings.Join(names, ",")+" depends on a test that is not about the kind of cell")
			}
		}
		subst, kind := outs[0].subst, outs[0].kind
		_ = body
		rows = append(rows, kindRow{strings.Join(names, ","), subst, kind})
	}
	return rows, unknown
}

func runC10(c *kit.Ctx) {
	p := c.P
	vtp := c.Anchor("hrpc", "Mutate", "valuesToProto")
	vtc := c.Anchor("hrpc", "Mutate", "valuesToCellblocks")
	app := c.Anchor("hrpc", "", "appendCellblock")
	cbl := c.Anchor("hrpc", "", "cellblockLen")
	rdr := c.Anchor("hrpc", "", "cellFromCellBlock")
	toProto := c.Anchor("hrpc", "Mutate", "toProto")
	if vtp == nil || vtc == nil || app == nil || cbl == nil || rdr == nil || toProto == nil {
		return
	}
	mutType := p.Field("hrpc", "Mutate", "mutationType")
	oneVer := p.Field("hrpc", "Mutate", "deleteOneVersion")
	valuesF := p.Field("hrpc", "Mutate", "values")
	tsF := p.Field("hrpc", "Mutate", "timestamp")
	emptyQ := p.Global("hrpc", "emptyQualifier")
	delConst, _ := p.Pkg("pb").Scope().Lookup("MutationProto_DELETE").(*types.Const)
	if mutType == nil || oneVer == nil || valuesF == nil || emptyQ == nil || delConst == nil || tsF == nil {
		c.StartRule("anchors", "anchors resolve", 0)
		c.Unk(vtp, "unresolved-anchor", token.NoPos, "Mutate.mutationType/deleteOneVersion/values/timestamp, emptyQualifier or pb.MutationProto_DELETE missing")
		return
	}
	delK, _ := constant.Int64Val(delConst.Val())
	a0 := atomEval{mutType: mutType, oneVer: oneVer, deleteK: delK}

	// oracle: HBase KeyValue.Type codes per DeleteType
	c.Table("C10.R1 oracle (HBase KeyValue.Type): DELETE_ONE_VERSION->8 (Delete), DELETE_MULTIPLE_VERSIONS->12 (DeleteColumn), DELETE_FAMILY->14 (DeleteFamily), DELETE_FAMILY_VERSION->10 (DeleteFamilyVersion), put/append/increment->4 (Put)")
	typeMap := map[string]int64{}
	for name, code := range map[string]int64{"MutationProto_DELETE_ONE_VERSION": 8, "MutationProto_DELETE_MULTIPLE_VERSIONS": 12, "MutationProto_DELETE_FAMILY": 14, "MutationProto_DELETE_FAMILY_VERSION": 10} {
		k, ok := p.Pkg("pb").Scope().Lookup(name).(*types.Const)
		if !ok {
			c.StartRule("anchors", "anchors resolve", 0)
			c.Unk(vtp, "unresolved-anchor", token.NoPos, "pb."+name+" missing")
			return
		}
		typeMap[k.Val().ExactString()] = code
	}
	// globals holding *DeleteType: value from the package initialiser
	globalEnum := map[*ssa.Global]string{}
	if initFn := p.SSAPkg[kit.Module+"/hrpc"].Func("init"); initFn != nil {
		kit.Instrs(initFn, func(in ssa.Instruction) {
			st, ok := in.(*ssa.Store)
			if !ok {
				return
			}
			g, ok := st.Addr.(*ssa.Global)
			if !ok {
				return
			}
			if call, ok := st.Val.(*ssa.Call); ok && strings.HasSuffix(kit.CalleeName(call), "MutationProto_DeleteType).Enum") {
				if k, ok := call.Call.Args[0].(*ssa.Const); ok && k.Value != nil {
					globalEnum[g] = k.Value.ExactString()
				}
			}
		})
	}

	outerNexts := func(fn *ssa.Function) []*ssa.Next {
		var out []*ssa.Next
		kit.Instrs(fn, func(in ssa.Instruction) {
			if nx, ok := in.(*ssa.Next); ok {
				if rg, ok := nx.Iter.(*ssa.Range); ok && isLoadOfField(rg.X, valuesF) {
					out = append(out, nx)
				}
			}
		})
		return out
	}
	protoNexts, cbNexts := outerNexts(vtp), outerNexts(vtc)
	if len(protoNexts) != 1 || len(cbNexts) != 2 {
		c.StartRule("anchors", "anchors resolve", 0)
		c.Unk(vtc, "loops-over-values", vtc.Pos(), fmt.Sprintf("expected 1 loop over m.values in valuesToProto and 2 (sizing, writing) in valuesToCellblocks, found %d and %d", len(protoNexts), len(cbNexts)))
		return
	}
	// kind extractors
	protoKind := func(env map[*ssa.Phi]ssa.Value, rg *ssa.Range) string {
		// the DeleteType stored into QualifierValue literals in the inner loop
		var dt ssa.Value
		kit.Instrs(vtp, func(in ssa.Instruction) {
			if st, ok := in.(*ssa.Store); ok {
				if fa, ok := st.Addr.(*ssa.FieldAddr); ok && kit.FieldVar(fa.X.Type(), fa.Field).Name() == "DeleteType" {
					dt = st.Val
				}
			}
		})
		if dt == nil {
			return "?no DeleteType store"
		}
		if dependsOnCarried(dt, rg) {
			return "?the kind written for one family depends on what was decided for an earlier family (loop-carried)"
		}
		if ph, ok := dt.(*ssa.Phi); ok {
			if r, ok := env[ph]; ok {
				dt = r
			}
		}
		if kit.IsNilConst(dt) {
			return "none"
		}
		if u, ok := dt.(*ssa.UnOp); ok {
			if g, ok := u.X.(*ssa.Global); ok {
				if e, ok := globalEnum[g]; ok {
					return "enum:" + e
				}
			}
		}
		return "?" + dt.String()
	}
	cbKind := func(env map[*ssa.Phi]ssa.Value, rg *ssa.Range) string {
		var mt ssa.Value
		for _, call := range kit.Calls(vtc, kit.M("hrpc", "", "appendCellblock")) {
			mt = call.Common().Args[5]
		}
		if mt == nil {
			return "?no appendCellblock call"
		}
		if dependsOnCarried(mt, rg) {
			return "?the kind written for one family depends on what was decided for an earlier family (loop-carried)"
		}
		if ph, ok := mt.(*ssa.Phi); ok {
			if r, ok := env[ph]; ok {
				mt = r
			}
		}
		if k, ok := kit.ConstInt(mt); ok {
			return fmt.Sprintf("byte:%d", k)
		}
		return "?" + mt.String()
	}
	noKind := func(env map[*ssa.Phi]ssa.Value, rg *ssa.Range) string { return "-" }

	protoRows, u1 := deleteKindTable(c, vtp, protoNexts[0], protoKind, emptyQ, a0)
	// sizing loop is the one whose body does not call appendCellblock
	sizing, writing := cbNexts[0], cbNexts[1]
	appCalls := kit.Calls(vtc, kit.M("hrpc", "", "appendCellblock"))
	if len(appCalls) == 1 && !sizing.Block().Dominates(appCalls[0].Block()) {
		sizing, writing = writing, sizing
	}
	if len(appCalls) == 1 && sizing.Block().Dominates(appCalls[0].Block()) && !writing.Block().Dominates(appCalls[0].Block()) {
		sizing, writing = writing, sizing
	}
	sizeRows, u2 := deleteKindTable(c, vtc, sizing, noKind, emptyQ, a0)
	writeRows, u3 := deleteKindTable(c, vtc, writing, cbKind, emptyQ, a0)

	// ---- R1 ---------------------------------------------------------------
	c.StartRule("R1", "delete-kind tables of the two encodings agree through the HBase type map", 12)
	for _, u := range append(append(u1, u2...), u3...) {
		c.Unk(vtc, "unrecognised-condition", vtc.Pos(), "condition in a delete-kind tree that is not one of the recognised atoms: "+u)
	}
	byAssign := func(rows []kindRow) map[string]kindRow {
		m := map[string]kindRow{}
		for _, r := range rows {
			m[r.assign] = r
		}
		return m
	}
	pm, sm, wm := byAssign(protoRows), byAssign(sizeRows), byAssign(writeRows)
	var keys []string
	for k := range pm {
		keys = append(keys, k)
	}
	sort.Strings(keys)
	for _, k := range keys {
		pr, wr := pm[k], wm[k]
		isDel := !strings.HasPrefix(k, "!isDelete")
		want := ""
		switch {
		case pr.kind == "none":
			want = "byte:4"
		case strings.HasPrefix(pr.kind, "enum:"):
			if code, ok := typeMap[strings.TrimPrefix(pr.kind, "enum:")]; ok {
				want = fmt.Sprintf("byte:%d", code)
			}
		}
		good := want != "" && wr.kind == want && (isDel == (pr.kind != "none"))
		c.Check(good, vtc, "kind["+k+"]", vtc.Pos(), fmt.Sprintf("protobuf %s <-> cellblock %s", pr.kind, wr.kind),
			fmt.Sprintf("for %s the protobuf form says %s and the cellblock form %s (expected %s): the two encodings of the same mutation denote different cells", k, pr.kind, wr.kind, want))
	}

	// ---- R2 ---------------------------------------------------------------
	c.StartRule("R2", "the empty-qualifier substitution agrees in valuesToProto, the sizing loop and the writing loop", 12)
	for _, k := range keys {
		pr, sr, wr := pm[k], sm[k], wm[k]
		good := pr.subst == wr.subst && sr.subst == wr.subst
		c.Check(good, vtc, "subst["+k+"]", vtc.Pos(), fmt.Sprintf("substituted: proto=%v sizing=%v writing=%v", pr.subst, sr.subst, wr.subst),
			fmt.Sprintf("for %s the family map is replaced by the empty-qualifier map in: proto=%v sizing=%v writing=%v - the sized/counted cells differ from the written ones (panic 'cellblocks len mismatch' in the batching goroutine, or a wrong associated_cell_count)", k, pr.subst, sr.subst, wr.subst))
	}
	// cell count is taken after the substitution: count += len(v') where v' is the value ranged over in the sizing loop
	{
		good := false
		kit.Instrs(vtc, func(in ssa.Instruction) {
			bo, ok := in.(*ssa.BinOp)
			if !ok || bo.Op != token.ADD {
				return
			}
			if ph, ok := bo.X.(*ssa.Phi); ok && isReturnedCount(vtc, ph) {
				if l := kit.LenOf(bo.Y); l != nil {
					// l must be what the inner sizing range iterates
					kit.Instrs(vtc, func(x ssa.Instruction) {
						if rg, ok := x.(*ssa.Range); ok && rg.X == l && rg.Block() == bo.Block() {
							good = true
						}
					})
				}
			}
		})
		c.Check(good, vtc, "count-after-substitution", vtc.Pos(), "the cell count adds len() of the very map the sizing loop iterates", "the associated cell count is not taken from the map that is actually iterated")
	}

	// ---- R3 ---------------------------------------------------------------
	if mtp := p.Func("region", "multi", "toProto"); mtp != nil {
		// the cells written for a call are consumed by that call's action (batch level)
		serialisedCallGetsAction(c, mtp)
		// ... in the order of the actions, and the reader consumes exactly what was written for each call
		cellblocksInActionOrder(c, mtp)
		multiDecodesEveryResult(c)
		serialisingDoesNotChangeTheCall(c)
		accumulatorIsHandedBack(c)
		sendPathSharesNoMemory(c)
		buffersAreFreedAfterTheWrite(c)
		noResponseBufferRecycling(c)
	}

	c.StartRule("R3", "size function = bytes written = header lengths; reader's overhead constant = writer's", 5)
	cellListRejectsOnlyWhatACellRejects(c)
	cellDecoderJudgesLengthsOnly(c)
	mutationConstructorsAcceptEveryLegalSize(c)
	eng := bounds.New(p)
	eng.CopyAsLenSrc = true
	// cellblockLen as a linear form over its parameters
	var cblRet ssa.Value
	kit.Instrs(cbl, func(in ssa.Instruction) {
		if r, ok := in.(*ssa.Return); ok {
			cblRet = kit.Res(r, 0)
		}
	})
	sizeForm := eng.Lin(cblRet)
	want := bounds.Const(4 + 4 + 4 + 2 + 1 + 8 + 1)
	for _, pa := range cbl.Params {
		want = want.Add(bounds.Var(bounds.Sym{K: ssa.Value(pa)}))
	}
	c.Check(isZeroLin(sizeForm.Sub(want)), cbl, "size-form", cbl.Pos(), "cellblockLen = 24 + rowLen + familyLen + qualifierLen + valueLen ("+sizeForm.String(eng.Name)+")",
		"cellblockLen is "+sizeForm.String(eng.Name)+", a KeyValue cell occupies 24 + row + family + qualifier + value bytes")
	// appendCellblock(row []byte, family, qualifier string, value []byte, ts uint64, typ byte, cbs []byte):
	// parameters by type and position
	rowP, valP, cbsParam := paramOfType(app, "[]byte", 0), paramOfType(app, "[]byte", 1), paramOfType(app, "[]byte", 2)
	famP, qualP := paramOfType(app, "string", 0), paramOfType(app, "string", 1)
	var evs []wEvent
	style, okEv := "", false
	if cbsParam != nil {
		evs, style, okEv = writerEvents(app, cbsParam, eng)
	}
	if !okEv || cbsParam == nil || rowP == nil || famP == nil || qualP == nil || valP == nil {
		c.Unk(app, "writer-shape", app.Pos(), "appendCellblock is no longer a sequence of fixed-width writes and copies (cursor style or append style) with parameters row/family/qualifier/value/cbs")
	} else {
		last := evs[len(evs)-1]
		written := last.off.Add(last.size)
		wantW := bounds.Const(24).Add(eng.LenOf(rowP)).Add(eng.LenOf(famP)).Add(eng.LenOf(qualP)).Add(eng.LenOf(valP))
		c.Check(isZeroLin(written.Sub(wantW)), app, "bytes-written", last.pos, "the writes end at 24 + len(row)+len(family)+len(qualifier)+len(value) bytes ("+style+" style)",
			"appendCellblock writes "+written.String(eng.Name)+" bytes, expected "+wantW.String(eng.Name))
		// every write starts where the previous one ended (no gap, no overlap)
		contiguous := true
		next := bounds.Const(0)
		for _, e := range evs {
			if !isZeroLin(e.off.Sub(next)) {
				contiguous = false
			}
			next = e.off.Add(e.size)
		}
		c.Check(contiguous, app, "writes-contiguous", app.Pos(), "every field starts where the previous one ended", "the fields of a cell are not written back to back")
		// allocation = cellblockLen(len(row), len(family), len(qualifier), len(value)) (cursor style: the
		// region written through the cursor must exist; append style grows as it goes)
		if style == "cursor" {
			var mk *ssa.MakeSlice
			kit.Instrs(app, func(in ssa.Instruction) {
				if m, ok := in.(*ssa.MakeSlice); ok {
					mk = m
				}
			})
			alloc := bounds.Lin{}
			okAlloc := false
			if mk != nil {
				if call, ok := mk.Len.(*ssa.Call); ok && kit.StaticCallee(call) == cbl {
					alloc = bounds.Const(sizeForm.C)
					okAlloc = true
					for sym, co := range sizeForm.T {
						pa, _ := sym.K.(ssa.Value).(*ssa.Parameter)
						idx := paramIndex(cbl, pa)
						alloc = alloc.Add(eng.Lin(call.Call.Args[idx]).Scale(co))
					}
				} else {
					// the size written out (or computed through another helper): any expression that is linear
					// in the four lengths
					alloc = eng.Lin(mk.Len)
					okAlloc = true
				}
			}
			c.Check(okAlloc && isZeroLin(alloc.Sub(wantW)), app, "bytes-allocated", app.Pos(), "the buffer grows by cellblockLen of the same four lengths", "the buffer is not grown by exactly the number of bytes written")
		} else {
			c.OK(app, "bytes-allocated", app.Pos(), "append style: the buffer grows with every write (any pre-sizing is only a capacity hint)")
		}
		// header fields: the first three 32-bit writes
		var u32s []wEvent
		for _, e := range evs {
			if e.kind == "u32" {
				u32s = append(u32s, e)
			}
		}
		if len(u32s) >= 3 {
			kv := eng.Lin(convOperand(u32s[0].val))
			kl := eng.Lin(convOperand(u32s[1].val))
			vl := eng.Lin(convOperand(u32s[2].val))
			keyWant := bounds.Const(12).Add(eng.LenOf(rowP)).Add(eng.LenOf(famP)).Add(eng.LenOf(qualP))
			c.Check(isZeroLin(kv.Sub(wantW).Add(bounds.Const(4))), app, "header-kvlen", u32s[0].pos, "stored key-value length = bytes written - 4", "the stored key-value length is "+kv.String(eng.Name))
			c.Check(isZeroLin(kl.Sub(keyWant)), app, "header-keylen", u32s[1].pos, "stored key length = 2+row+1+family+qualifier+8+1", "the stored key length is "+kl.String(eng.Name))
			c.Check(isZeroLin(vl.Sub(eng.LenOf(valP))), app, "header-vallen", u32s[2].pos, "stored value length = len(value)", "the stored value length is "+vl.String(eng.Name))
		} else {
			c.Unk(app, "header-fields", app.Pos(), "fewer than three 32-bit header writes found")
		}
		// writer field order: lengths, row length, row, family length, family, qualifier, timestamp, type, value
		tsP, typP := paramOfExactType(app, "uint64", 0), paramOfExactType(app, "byte", 0)
		if typP == nil {
			typP = paramOfExactType(app, "uint8", 0)
		}
		var seq []string
		for _, e := range evs {
			switch e.kind {
			case "u32":
				seq = append(seq, "u32")
			case "u16":
				if l := kit.LenOf(convOperand(e.val)); l != nil && l == ssa.Value(rowP) {
					seq = append(seq, "u16:len(row)")
				} else {
					seq = append(seq, "u16:?")
				}
			case "u64":
				if e.val == ssa.Value(tsP) {
					seq = append(seq, "u64:ts")
				} else {
					seq = append(seq, "u64:?")
				}
			case "bytes":
				switch e.val {
				case ssa.Value(rowP):
					seq = append(seq, "row")
				case ssa.Value(famP):
					seq = append(seq, "family")
				case ssa.Value(qualP):
					seq = append(seq, "qualifier")
				case ssa.Value(valP):
					seq = append(seq, "value")
				default:
					seq = append(seq, "copy:?")
				}
			case "u8":
				if e.val == ssa.Value(typP) {
					seq = append(seq, "u8:type")
				} else if cv, ok := e.val.(*ssa.Convert); ok {
					if l := kit.LenOf(cv.X); l != nil && l == ssa.Value(famP) {
						seq = append(seq, "u8:len(family)")
					} else {
						seq = append(seq, "u8:?")
					}
				} else {
					seq = append(seq, "u8:?")
				}
			}
		}
		want := "u32 u32 u32 u16:len(row) row u8:len(family) family qualifier u64:ts u8:type value"
		c.Check(strings.Join(seq, " ") == want, app, "field-order", app.Pos(), "KeyValue fields are written in the order: "+want,
			"appendCellblock writes the KeyValue fields as ["+strings.Join(seq, " ")+"], the KeyValue layout (and this client's reader) is ["+want+"]")
	}

	// reader: qualifierLen = rowKeyLen - keyLen - familyLen - K with K = 12
	{
		found := false
		kit.Instrs(rdr, func(in ssa.Instruction) {
			sl, ok := in.(*ssa.Slice)
			if !ok || sl.High == nil {
				return
			}
			// qualifier := b[:qualifierLen]; walk the SUB chain collecting constants
			v := sl.High
			total := int64(0)
			subs := 0
			for sl.Low == nil {
				bo, ok := v.(*ssa.BinOp)
				if !ok || bo.Op != token.SUB {
					break
				}
				if k, ok := kit.ConstInt(bo.Y); ok {
					total += k
				} else {
					subs++
				}
				v = bo.X
			}
			if !(subs == 2 && total > 0) {
				// any other spelling of the same linear expression (a named subtotal, reordered terms):
				// one quantity minus two others minus a constant
				// (or b[off:off+qualifierLen] when the fields are addressed by offset: the length of the slice)
				lin := eng.Lin(sl.High)
				if sl.Low != nil {
					lin = lin.Sub(eng.Lin(sl.Low))
				}
				pos, neg := 0, 0
				for _, k := range lin.T {
					switch k {
					case 1:
						pos++
					case -1:
						neg++
					default:
						pos = -100
					}
				}
				if pos == 1 && neg == 2 && lin.C < 0 {
					subs, total = 2, -lin.C
				}
			}
			if subs == 2 && total > 0 {
				found = true
				c.Check(total == 12, rdr, "reader-overhead", sl.Pos(), "qualifier length = key length - row - family - 12 (2+1+8+1, the writer's fixed key overhead)",
					fmt.Sprintf("the reader subtracts %d as fixed key overhead, the writer emits 2+1+8+1 = 12", total))
			}
		})
		if !found {
			c.Unk(rdr, "reader-overhead", rdr.Pos(), "the qualifier-length computation of the reader was not recognised")
		}
	}

	// reader field provenance: every field of the decoded cell is taken directly from the buffer
	{
		bP := paramOfType(rdr, "[]byte", 0)
		var fromBuf func(v ssa.Value) bool
		fromBuf = func(v ssa.Value) bool {
			switch x := kit.Strip(v).(type) {
			case *ssa.Parameter:
				return x == bP
			case *ssa.Slice:
				return fromBuf(x.X)
			}
			return false
		}
		fields := map[string]ssa.Value{}
		kit.Instrs(rdr, func(in ssa.Instruction) {
			if st, ok := in.(*ssa.Store); ok {
				if fa, ok := st.Addr.(*ssa.FieldAddr); ok {
					if n := kit.ReceiverNamed(fa.X.Type()); n != nil && n.Obj().Name() == "Cell" && n.Obj().Pkg().Path() == kit.Module+"/pb" {
						fields[kit.FieldVar(fa.X.Type(), fa.Field).Name()] = st.Val
					}
				}
			}
		})
		for _, f := range []string{"Row", "Family", "Qualifier", "Value"} {
			c.Check(fields[f] != nil && fromBuf(fields[f]), rdr, "cell-field "+f, rdr.Pos(), f+" is a sub-slice of the received buffer", f+" of the decoded cell is not taken from the received buffer")
		}
		okTS := false
		if a, ok := fields["Timestamp"].(*ssa.Alloc); ok {
			for _, st := range kit.StoresTo(a) {
				if call, ok := st.(*ssa.Call); ok && strings.HasSuffix(kit.CalleeName(call), "bigEndian).Uint64") && fromBuf(call.Call.Args[1]) {
					okTS = true
				}
			}
		}
		c.Check(okTS, rdr, "cell-field Timestamp", rdr.Pos(), "Timestamp is the 8 bytes read from the buffer", "the decoded timestamp is not the big-endian uint64 read from the buffer")
		okType := false
		if call, ok := fields["CellType"].(*ssa.Call); ok && strings.HasSuffix(kit.CalleeName(call), "pb.CellType).Enum") {
			if cv, ok := call.Call.Args[0].(*ssa.Convert); ok {
				if l, ok := cv.X.(*ssa.UnOp); ok {
					if ia, ok := l.X.(*ssa.IndexAddr); ok && fromBuf(ia.X) {
						okType = true
					}
				}
			}
		}
		c.Check(okType, rdr, "cell-field CellType", rdr.Pos(), "CellType is the type byte of the KeyValue, converted without a table", "the decoded cell type is not the type byte passed through unchanged (a lookup table or mapping loses KeyValue types the protobuf enum has no name for, e.g. DeleteFamilyVersion = 10, which this client's own writer emits)")
	}

	// ---- R4 ---------------------------------------------------------------
	c.StartRule("R4", "field widths and fixed header layout agree between writer and reader", 10)
	guardsAreTight(c, bounds.New(p), []*ssa.Function{p.Func("hrpc", "", "cellFromCellBlock")})
	decompressorRejectsOnlyMalformed(c)
	narrowLengthFieldsAreNotRangeRestricted(c)
	// writer: no narrowing-then-widening conversion feeds a fixed-width write
	var wOff []int64
	var wWid []int
	for _, e := range evs {
		if e.kind == "bytes" || e.kind == "u8" {
			continue
		}
		good := true
		why := ""
		if cv, ok := e.val.(*ssa.Convert); ok {
			if inner, ok := cv.X.(*ssa.Convert); ok {
				ib, _ := inner.Type().Underlying().(*types.Basic)
				ob, _ := cv.Type().Underlying().(*types.Basic)
				if ib != nil && ob != nil && basicBits(ib) < basicBits(ob) {
					good = false
					why = fmt.Sprintf("value narrowed to %s before being written as %s", ib.Name(), ob.Name())
				}
			}
		}
		c.Check(good, app, "write-width "+e.kind, e.pos, "written at the field's full width", "a length is truncated before it is written: "+why)
		// writer layout: offsets of the fixed header relative to the start
		if len(wOff) < 4 {
			if k, isC := e.off.IsConst(); isC {
				wOff = append(wOff, k)
				w := map[string]int{"u16": 2, "u32": 4, "u64": 8}[e.kind]
				wWid = append(wWid, w)
			}
		}
	}
	var rOff []int64
	var rWid []int
	kit.Instrs(rdr, func(in ssa.Instruction) {
		call, ok := in.(*ssa.Call)
		if !ok || len(rOff) >= 4 {
			return
		}
		if w, ok := getWidth(kit.CalleeName(call)); ok {
			if sl, ok := call.Call.Args[1].(*ssa.Slice); ok {
				lo, okl := kit.ConstInt(sl.Low)
				hi, okh := kit.ConstInt(sl.High)
				if sl.Low == nil {
					lo, okl = 0, true
				}
				if okl && okh {
					if _, isParam := sl.X.(*ssa.Parameter); isParam {
						rOff = append(rOff, lo)
						rWid = append(rWid, w)
						c.Check(hi-lo == int64(w), rdr, "read-width", call.Pos(), fmt.Sprintf("slice [%d:%d] has the accessor's width %d", lo, hi, w), fmt.Sprintf("slice [%d:%d] does not have the accessor's width %d", lo, hi, w))
					}
				}
			}
		}
	})
	c.Check(fmt.Sprint(wOff) == fmt.Sprint(rOff) && fmt.Sprint(wWid) == fmt.Sprint(rWid) && len(wOff) == 4, rdr, "header-layout", rdr.Pos(),
		fmt.Sprintf("fixed header offsets %v widths %v on both sides", wOff, wWid), fmt.Sprintf("writer lays the fixed header out at offsets %v widths %v, reader reads offsets %v widths %v", wOff, wWid, rOff, rWid))

	// ---- R5 ---------------------------------------------------------------
	// cells handed to callers are sub-slices of the response buffer: it is never recycled under them
	noResponseBufferRecycling(c)

	c.StartRule("R5", "MaxTimestamp means 'latest' in both encodings under the same condition", 2)
	maxTS := func(v ssa.Value) bool {
		k, ok := v.(*ssa.Const)
		return ok && k.Value != nil && k.Value.ExactString() == "18446744073709551615"
	}
	for _, fn := range []*ssa.Function{toProto, vtc} {
		found := false
		kit.Instrs(fn, func(in ssa.Instruction) {
			iff, ok := in.(*ssa.If)
			if !ok {
				return
			}
			if cmp, ok := kit.CanonCmp(iff.Cond, true); ok && (cmp.Op == token.EQL || cmp.Op == token.NEQ) && isLoadOfField(cmp.X, tsF) && maxTS(cmp.Y) {
				found = true
			}
		})
		c.Check(found, fn, "timestamp-sentinel", fn.Pos(), "branches on m.timestamp == MaxTimestamp", "the 'latest timestamp' sentinel is no longer tested against MaxTimestamp here: the two encodings disagree about unset timestamps")
	}
}

func convOperand(v ssa.Value) ssa.Value {
	if cv, ok := v.(*ssa.Convert); ok {
		return cv.X
	}
	return v
}

func basicBits(b *types.Basic) int {
	switch b.Kind() {
	case types.Uint8, types.Int8:
		return 8
	case types.Uint16, types.Int16:
		return 16
	case types.Uint32, types.Int32:
		return 32
	}
	return 64
}

func putWidth(name string) (int, bool) {
	if !strings.Contains(name, "bigEndian).PutUint") {
		return 0, false
	}
	switch {
	case strings.HasSuffix(name, "16"):
		return 2, true
	case strings.HasSuffix(name, "32"):
		return 4, true
	case strings.HasSuffix(name, "64"):
		return 8, true
	}
	return 0, false
}

func getWidth(name string) (int, bool) {
	if !strings.Contains(name, "bigEndian).Uint") {
		return 0, false
	}
	switch {
	case strings.HasSuffix(name, "16"):
		return 2, true
	case strings.HasSuffix(name, "32"):
		return 4, true
	case strings.HasSuffix(name, "64"):
		return 8, true
	}
	return 0, false
}

// isReturnedCount: phi ph is (a conversion of) what valuesToCellblocks returns
// as its second result (the cell count).
func isReturnedCount(fn *ssa.Function, ph *ssa.Phi) bool {
	found := false
	kit.Instrs(fn, func(in ssa.Instruction) {
		r, ok := in.(*ssa.Return)
		if !ok || len(r.Results) != 3 {
			return
		}
		v := kit.Res(r, 1)
		if cv, ok := v.(*ssa.Convert); ok {
			v = cv.X
		}
		if q, ok := v.(*ssa.Phi); ok {
			if q == ph {
				found = true
			}
			for _, l := range q.Edges {
				if l == ssa.Value(ph) {
					found = true
				}
				if bo, ok := l.(*ssa.BinOp); ok && bo.X == ssa.Value(ph) {
					found = true
				}
			}
		}
	})
	return found
}

// wEvent is one write of the KeyValue writer: a fixed-width big-endian integer, a single byte, or a
// run of bytes copied from a slice/string, with its offset from the start of the cell.
type wEvent struct {
	kind string // u16 | u32 | u64 | u8 | bytes
	val  ssa.Value
	off  bounds.Lin
	size bounds.Lin
	pos  token.Pos
	call *ssa.Call
}

// writerEvents lists what appendCellblock writes, in order, for both ways of writing it: into a
// pre-sized region through a cursor (PutUintNN(cbs[i:], v), copy(cbs[i:], src), cbs[i] = b) or by
// appending (AppendUintNN(cbs, v), append(cbs, src...), append(cbs, b)). ok is false if the function
// mixes in something that is not understood.
func writerEvents(app *ssa.Function, cbsParam *ssa.Parameter, eng *bounds.Engine) (evs []wEvent, style string, ok bool) {
	base := eng.LenOf(cbsParam)
	run := bounds.Const(0) // append style: bytes appended so far
	ok = true
	width := func(name, prefix string) (int, bool) {
		if !strings.Contains(name, "bigEndian)."+prefix+"Uint") {
			return 0, false
		}
		switch {
		case strings.HasSuffix(name, "16"):
			return 2, true
		case strings.HasSuffix(name, "32"):
			return 4, true
		case strings.HasSuffix(name, "64"):
			return 8, true
		}
		return 0, false
	}
	setStyle := func(st string) {
		if style == "" {
			style = st
		} else if style != st {
			ok = false
		}
	}
	// offset of the first byte of a window into the buffer, relative to the old end of the buffer: cbs[i:] is at
	// i - len(cbs); a window of a window (dst = dst[4:]) is that much further
	var off func(sl *ssa.Slice) bounds.Lin
	off = func(sl *ssa.Slice) bounds.Lin {
		low := bounds.Const(0)
		if sl.Low != nil {
			low = eng.Lin(sl.Low)
		}
		if inner, isSl := kit.Strip(sl.X).(*ssa.Slice); isSl {
			return off(inner).Add(low)
		}
		return low.Sub(base)
	}
	kit.Instrs(app, func(in ssa.Instruction) {
		switch x := in.(type) {
		case *ssa.Call:
			n := kit.CalleeName(x)
			if w, isPut := width(n, "Put"); isPut {
				sl, isSl := x.Call.Args[1].(*ssa.Slice)
				if !isSl {
					ok = false
					return
				}
				setStyle("cursor")
				evs = append(evs, wEvent{fmt.Sprintf("u%d", w*8), x.Call.Args[2], off(sl), bounds.Const(int64(w)), x.Pos(), x})
				return
			}
			if w, isApp := width(n, "Append"); isApp {
				setStyle("append")
				evs = append(evs, wEvent{fmt.Sprintf("u%d", w*8), x.Call.Args[2], run, bounds.Const(int64(w)), x.Pos(), x})
				run = run.Add(bounds.Const(int64(w)))
				return
			}
			switch n {
			case "builtin.copy":
				sl, isSl := x.Call.Args[0].(*ssa.Slice)
				if !isSl {
					ok = false
					return
				}
				setStyle("cursor")
				evs = append(evs, wEvent{"bytes", kit.Strip(x.Call.Args[1]), off(sl), eng.LenOf(x.Call.Args[1]), x.Pos(), x})
			case "builtin.append":
				// append(cbs, make([]byte, n)...) pre-sizes the region of the cursor style
				if _, isMk := kit.Root(x.Call.Args[1]).(*ssa.MakeSlice); isMk {
					return
				}
				if els := elemsOfVariadic(x.Call.Args[1]); els != nil {
					setStyle("append")
					for _, e := range els {
						evs = append(evs, wEvent{"u8", e, run, bounds.Const(1), x.Pos(), x})
						run = run.Add(bounds.Const(1))
					}
					return
				}
				setStyle("append")
				src := kit.Strip(x.Call.Args[1])
				evs = append(evs, wEvent{"bytes", src, run, eng.LenOf(x.Call.Args[1]), x.Pos(), x})
				run = run.Add(eng.LenOf(x.Call.Args[1]))
			}
		case *ssa.Store:
			if ia, isIA := x.Addr.(*ssa.IndexAddr); isIA {
				if b, isB := x.Val.Type().Underlying().(*types.Basic); isB && b.Kind() == types.Uint8 {
					if _, isArr := ia.X.Type().Underlying().(*types.Pointer); isArr {
						return // element of a variadic literal
					}
					setStyle("cursor")
					at := eng.Lin(ia.Index).Sub(base)
					if win, isSl := kit.Strip(ia.X).(*ssa.Slice); isSl {
						at = off(win).Add(eng.Lin(ia.Index))
					}
					evs = append(evs, wEvent{"u8", x.Val, at, bounds.Const(1), x.Pos(), nil})
				}
			}
		}
	})
	if len(evs) == 0 {
		ok = false
	}
	return
}

// dependsOnCarried: v (a value used inside the loop over the families whose inner loop is inner)
// depends, through phis and arithmetic, on a variable that an earlier iteration of that outer loop
// may have changed: a phi at the outer loop's head with an input from inside the loop other than
// itself.
func dependsOnCarried(v ssa.Value, inner *ssa.Range) bool {
	// the outer loop head: the innermost loop head dominating the inner range that is a range-over-map head
	var hdr *ssa.BasicBlock
	for b := inner.Block(); b != nil; b = b.Idom() {
		for _, in := range b.Instrs {
			if nx, ok := in.(*ssa.Next); ok {
				if rg, ok := nx.Iter.(*ssa.Range); ok && rg != inner {
					hdr = b
				}
			}
		}
		if hdr != nil {
			break
		}
	}
	if hdr == nil {
		return false
	}
	seen := map[ssa.Value]bool{}
	var walk func(v ssa.Value, depth int) bool
	walk = func(v ssa.Value, depth int) bool {
		if v == nil || seen[v] || depth > 12 {
			return false
		}
		seen[v] = true
		switch x := v.(type) {
		case *ssa.Phi:
			if x.Block() == hdr {
				for i, e := range x.Edges {
					if hdr.Dominates(hdr.Preds[i]) && e != ssa.Value(x) {
						return true
					}
				}
			}
			for _, e := range x.Edges {
				if walk(e, depth+1) {
					return true
				}
			}
		case *ssa.BinOp:
			return walk(x.X, depth+1) || walk(x.Y, depth+1)
		case *ssa.UnOp:
			return walk(x.X, depth+1)
		case *ssa.Convert:
			return walk(x.X, depth+1)
		case *ssa.ChangeType:
			return walk(x.X, depth+1)
		}
		return false
	}
	return walk(v, 0)
}

// runC10All: the rules of C10 plus, as embedded rules, what the cells go through between the encoder and the wire.
func runC10All(c *kit.Ctx) {
	runC10(c)
	if !c.Frozen {
		embed(c, "R6", "the cellblocks that go out are, byte for byte and in one piece, what the encoder produced for this request (the request-side rules of C05, run as one rule here)", 100, runC05)
		embed(c, "R7", "compressed cellblocks decompress to the bytes that were compressed (the framing rules of C15, run as one rule here)", 20, runC15)
	}
}
