package props

import (
	"fmt"
	"go/token"
	"go/types"
	"sort"
	"strings"

	"golang.org/x/tools/go/ssa"

	"gohbaseverif/kit"
)

func init() {
	register("C09", &Property{
		Title: "Concurrent failures never crash the client or strand a waiting request",
		Explanation: "(R1) lock discipline over the guarded-field table (region.client.sent/sentM, region.info.client+available/m, clientRegionCache.regions+closed/m, keyRegionCache tree/m): every access in every non-test function holds the mutex (exclusively for writes), locks inherited from all callers and from the creation site of synchronously run literals; " +
			"(R2) availability-token typestate on establishRegion: the set of regions this establisher made unavailable is tracked through phis; MarkAvailable only on an owned region (a second release is a close of a nil channel: process death), every return leaves the set empty except the client-closed exits, states agree at merges; " +
			"(R3) every establisher goroutine is started for a region on whose MarkUnavailable() the starter won (true edge) or that it just looked up and marked; every tested MarkUnavailable() starts one on its true edge; MarkAvailable is called only by establishRegion; " +
			"(R4) after waking up, a waiter re-reads the region's client before using the region; " +
			"(R5) the primitives: MarkUnavailable creates the channel only on the nil edge under the lock and reports true only then; MarkAvailable swaps and closes under the lock; clientRegionCache.clientDown reads and deletes in one critical section; " +
			"(R6) the establisher's 'should not happen' panics are unreachable: the probe is built and awaited with a context that cannot end, and the panic on an unknown lookup error is dominated by the tests for every error the lookup can return." +
			" Added after the seeded-change rounds: (R3) a region is marked unavailable before it becomes visible in the cache, and clientDown marks the region the error was seen on on every path (shared with C04.R4); (R5) the once-guarded failure transition of a connection: signal, close the socket, then drain (shared with C03.R1).",
		Residue:   "liveness (no request remains blocked once the cluster is stable); data races outside the guarded-field table (that is the race detector's domain); exact interleavings",
		Technique: "lock-set analysis with caller summaries, token typestate dataflow over SSA with phi renaming, who-may-call tables, dominance",
		Run:       runC09,
	})
}

// guardSpec is one row of the guarded-field table.
type guardSpec struct {
	rel, typ, field, mutex string
	reason                 string
}

var guardTable = []guardSpec{
	{"region", "client", "sent", "sentM", "call-id -> call table shared by senders, the reader and the failure transition"},
	{"region", "info", "client", "m", "region's connection, read by every request, written by establishers and failure handlers"},
	{"region", "info", "available", "m", "availability channel, created/closed by markers, read by waiters"},
	{"", "clientRegionCache", "regions", "m", "connection cache shared by all establishers"},
	{"", "clientRegionCache", "closed", "m", "closed flag tested by put, set by closeAll"},
	{"", "keyRegionCache", "regions", "m", "region b-tree: lookups (RLock) vs put/del (Lock)"},
}

func checkGuardedFields(c *kit.Ctx, le *kit.LockEnv, table []guardSpec) {
	p := c.P
	for _, g := range table {
		f := p.Field(g.rel, g.typ, g.field)
		m := p.Field(g.rel, g.typ, g.mutex)
		if f == nil && g.field == "closed" {
			continue // introduced by the C19 fix; absent on older trees
		}
		if f == nil || m == nil {
			c.Unk(nil, "unresolved-anchor", token.NoPos, fmt.Sprintf("guarded field %s.%s.%s or its mutex %s is gone", g.rel, g.typ, g.field, g.mutex))
			continue
		}
		c.Table(fmt.Sprintf("guarded: %s.%s.%s -> %s (%s)", g.rel, g.typ, g.field, g.mutex, g.reason))
		for _, a := range p.FieldAccesses(f) {
			if kit.FreshObject(a.Instr) {
				c.OK(a.Fn, "init "+g.typ+"."+g.field, posOf(a.Instr), "object under construction (not yet shared)")
				continue
			}
			// tree pointer itself is immutable; what matters is how the loaded value is used
			write := a.Write
			held := le.At(a.Instr)
			if held.HoldsField(m, write) {
				c.OK(a.Fn, a.Kind+" "+g.typ+"."+g.field, posOf(a.Instr), "with "+held.String()+" held")
			} else {
				mode := "read"
				if write {
					mode = "write"
				}
				c.Bad(a.Fn, a.Kind+" "+g.typ+"."+g.field, posOf(a.Instr), fmt.Sprintf("%s of %s.%s without %s held (held: %s): a data race with the other accessors for some schedule", mode, g.typ, g.field, g.mutex, held.String()), "")
			}
		}
	}
}

func runC09(c *kit.Ctx) {
	p := c.P
	est := c.Anchor("", "client", "establishRegion")
	rees := c.Anchor("", "client", "reestablishRegion")
	gr := c.Anchor("", "client", "getRegionAndClientForRPC")
	markU := c.Anchor("region", "info", "MarkUnavailable")
	markA := c.Anchor("region", "info", "MarkAvailable")
	rccDown := c.Anchor("", "clientRegionCache", "clientDown")
	if est == nil || rees == nil || gr == nil || markU == nil || markA == nil || rccDown == nil {
		return
	}
	errClosed := p.Global("", "ErrClientClosed")
	override := p.Global("", "establishRegionOverride")
	le := kit.NewLockEnv(p)

	// ---- R1 ---------------------------------------------------------------
	c.StartRule("R1", "lock discipline on the guarded-field table", 30)
	checkGuardedFields(c, le, guardTable)

	// enumerators of the region tree are only stepped while the tree's lock is held
	{
		treeF := p.Field("", "keyRegionCache", "regions")
		treeM := p.Field("", "keyRegionCache", "m")
		for _, a := range p.FieldAccesses(treeF) {
			u, ok := a.Instr.(*ssa.UnOp)
			if !ok {
				continue
			}
			for _, r := range kit.Referrers(u) {
				call, ok := r.(*ssa.Call)
				if !ok || len(call.Call.Args) == 0 || call.Call.Args[0] != ssa.Value(u) {
					continue
				}
				if !strings.Contains(kit.CalleeName(call), ".Seek") {
					continue
				}
				// enumerator values derived from this call
				derived := map[ssa.Value]bool{}
				var grow func(v ssa.Value)
				grow = func(v ssa.Value) {
					if derived[v] {
						return
					}
					derived[v] = true
					for _, rr := range kit.Referrers(v) {
						switch x := rr.(type) {
						case *ssa.Extract:
							if _, isPtr := x.Type().Underlying().(*types.Pointer); isPtr {
								grow(x)
							}
						case *ssa.Phi:
							grow(x)
						}
					}
				}
				grow(call)
				for v := range derived {
					for _, rr := range kit.Referrers(v) {
						step, ok := rr.(*ssa.Call)
						if !ok || len(step.Call.Args) == 0 || step.Call.Args[0] != v {
							continue
						}
						n := kit.CalleeName(step)
						if !strings.HasSuffix(n, ".Next") && !strings.HasSuffix(n, ".Prev") {
							continue
						}
						held := le.At(step)
						c.Check(held.HoldsField(treeM, false), step.Parent(), "enumerator-step", step.Pos(), "tree enumerator stepped with "+held.String()+" held",
							"a b-tree enumerator is stepped without the cache lock: a concurrent put/del restructures the tree under it")
					}
				}
			}
		}
	}

	// ---- R2 ---------------------------------------------------------------
	lockPairing(c, "/gohbase")
	lockPairing(c, "/gohbase/region")

	c.StartRule("R2", "availability-token typestate of the establisher", 8)
	c.Table("C09.R2 exempt exits: returns on the edge err == ErrClientClosed / put returned nil (client closed: waiters are released by the closed signal, C19.R3), the test-override branch, panics")
	tokenTypestate(c, est, errClosed, override)

	// ---- R3 ---------------------------------------------------------------
	c.StartRule("R3", "mark-unavailable / establisher pairing", 8)
	connectionsComeFromTheCache(c)
	dialHonoursItsContext(c)
	publishedRegionGetsItsEstablisher(c)
	muName, maName := hrpcRI+"MarkUnavailable", hrpcRI+"MarkAvailable"
	estNames := []string{kit.M("", "*client", "reestablishRegion"), kit.M("", "*client", "establishRegion")}
	ignoredOK := map[string]string{
		"(*gohbase.client).findRegion":          "fresh region object from a lookup, marked before it is published; dropped if it loses the put race",
		"(*gohbase.client).findAllRegions":      "same as findRegion",
		"(*gohbase.client).establishRegion":     "freshly looked-up replacement region, tracked by R2",
		"(*gohbase.clientRegionCache).closeAll": "client is closing: nobody is established again",
	}
	for k, v := range ignoredOK {
		c.Table("C09.R3 ignored MarkUnavailable() result in " + k + ": " + v)
	}
	for _, fn := range p.Funcs {
		named := enclosingNamed(fn)
		if named.Pkg == nil || named.Pkg.Pkg.Path() != kit.Module {
			continue
		}
		// establisher starts
		kit.Instrs(fn, func(in ssa.Instruction) {
			g, ok := in.(*ssa.Go)
			if !ok {
				return
			}
			n := kit.CalleeName(g)
			if n != estNames[0] && n != estNames[1] {
				return
			}
			x := g.Call.Args[1]
			good := false
			why := ""
			for _, mu := range kit.Calls(fn, muName) {
				if !kit.Same(mu.Common().Value, x) || !kit.Dominates(mu.(ssa.Instruction), g) {
					continue
				}
				if mu.Value() == nil || len(kit.Referrers(mu.Value())) == 0 {
					if _, tabled := ignoredOK[kit.FuncName(named)]; tabled {
						good, why = true, "region looked up and marked in this function (tabled)"
					}
					continue
				}
				for _, f := range kit.FactsAt(g.Block()) {
					if f.Pol && f.Cond == mu.Value() {
						good, why = true, "on the true edge of "+kit.Path(x)+".MarkUnavailable()"
					}
				}
			}
			if good {
				c.OK(fn, "establisher-start", g.Pos(), why)
			} else {
				c.Bad(fn, "establisher-start", g.Pos(), "an establisher is started for a region this goroutine did not win MarkUnavailable() on: two establishers release the same waiters (close of nil channel) or one never runs", "")
			}
		})
		// tested marks start an establisher
		for _, mu := range kit.Calls(fn, muName) {
			v := mu.Value()
			if v == nil || len(kit.Referrers(v)) == 0 {
				if _, tabled := ignoredOK[kit.FuncName(named)]; tabled {
					c.OK(fn, "mark-ignored", mu.Pos(), "tabled: "+ignoredOK[kit.FuncName(named)])
				} else {
					c.Bad(fn, "mark-ignored", mu.Pos(), "result of MarkUnavailable() ignored in a function that is not tabled: if it was the winning mark nobody establishes the region and its waiters hang", "")
				}
				continue
			}
			for _, r := range kit.Referrers(v) {
				iff, ok := r.(*ssa.If)
				if !ok {
					continue
				}
				e := kit.PathFromBlock(kit.SuccOnTrue(iff), kit.PathQuery{
					Stop: func(in ssa.Instruction) bool {
						g, ok := in.(*ssa.Go)
						if !ok {
							return false
						}
						n := kit.CalleeName(g)
						return (n == estNames[0] || n == estNames[1]) && kit.Same(g.Call.Args[1], mu.Common().Value)
					},
					IgnorePanics: true,
				})
				c.Check(e == nil, fn, "mark-starts-establisher", mu.Pos(), "the winner of MarkUnavailable() starts the establisher on every path", "the goroutine that wins MarkUnavailable() can leave without starting an establisher: waiters of that region hang: "+c.BlockPath(e))
			}
		}
		for _, ma := range kit.Calls(fn, maName) {
			c.Check(named == est, fn, "mark-available-caller", ma.Pos(), "MarkAvailable called by the establisher", "MarkAvailable called outside establishRegion: only the establisher owns the token")
		}
	}

	markBeforePublish(c)
	failedRegionAlwaysMarked(c)

	// ---- R4 ---------------------------------------------------------------
	c.StartRule("R4", "waiters re-validate after wake-up", 2)
	probeClassifiesOutcome(c)
	lookupErrorsAreTheKnownOnes(c)
	failedAttemptRelooksUp(c)
	waitOnTestedChannel(c, gr)
	kit.Instrs(gr, func(in ssa.Instruction) {
		sel, ok := in.(*ssa.Select)
		if !ok || !sel.Blocking {
			return
		}
		e := kit.PathFrom(sel, kit.PathQuery{
			Stop: func(x ssa.Instruction) bool {
				call, ok := x.(*ssa.Call)
				return ok && kit.CalleeName(call) == hrpcRI+"Client"
			},
			Target: func(x ssa.Instruction) bool {
				r, ok := x.(*ssa.Return)
				if !ok {
					return false
				}
				ev := returnedError(r)
				return ev != nil && kit.IsNilConst(kit.Root(ev))
			},
		})
		c.Check(e == nil, gr, "reread-client-after-wait", sel.Pos(), "after the wait the region's client is read again before the region is used", "a waiter can use the connection it saw before waiting: "+c.BlockPath(e))
	})
	// the success return hands out a non-nil client that belongs to the region stamped on the call
	kit.Instrs(gr, func(in ssa.Instruction) {
		r, ok := in.(*ssa.Return)
		if !ok {
			return
		}
		ev := returnedError(r)
		if ev == nil || !kit.IsNilConst(kit.Root(ev)) {
			return
		}
		leaves := []ssa.Value{kit.Root(kit.Res(r, 0))}
		if ph, ok := leaves[0].(*ssa.Phi); ok {
			leaves = kit.PhiLeaves(ph)
		}
		good := len(leaves) > 0
		for _, l := range leaves {
			call, ok := l.(*ssa.Call)
			if !ok || kit.CalleeName(call) != hrpcRI+"Client" {
				good = false
			}
		}
		c.Check(good, gr, "returns-region-client", r.Pos(), "the connection returned is reg.Client() of the resolved region", "getRegionAndClientForRPC returns a connection that is not the resolved region's current client")
	})

	// ---- R6 ---------------------------------------------------------------
	c.StartRule("R6", "the establisher's 'should not happen' panics are unreachable", 3)
	failedLookupResultsAreNotUsed(c)
	constructorPanicsAreInputIndependent(c)
	lookupContexts(c)
	{
		ire := c.Anchor("", "", "isRegionEstablished")
		if ire != nil {
			// the probe is built with a context that cannot end: sendBlocking fails only when its context is done
			ca := &ctxAnalysis{p: p, entries: map[*ssa.Function]bool{}, param: map[*ssa.Parameter]map[string]origin{}}
			n := 0
			for _, ng := range kit.Calls(ire, kit.M("hrpc", "", "NewGet")) {
				n++
				os := ca.originOf(ng.Common().Args[0], 0)
				bg := len(os) > 0
				for _, o := range os {
					if o.Kind != "background" {
						bg = false
					}
				}
				c.Check(bg, ire, "probe-context", ng.Pos(), "the probe request is created with context.Background()", "the probe is created with "+describeOrigins(os)+": when that context ends while the probe is in flight (a region replaced in the cache is marked dead) sendBlocking returns an error and the establisher panics ('should not happen') - the process dies, or the region's waiters are stranded")
			}
			for _, sbc := range kit.Calls(ire, kit.M("", "", "sendBlocking")) {
				// its context argument is the probe's own context
				cc, ok := kit.Strip(sbc.Common().Args[0]).(*ssa.Call)
				good := ok && strings.HasSuffix(kit.CalleeName(cc), ".Context")
				c.Check(good, ire, "probe-wait-context", sbc.Pos(), "the probe is awaited on its own (never ending) context", "the probe is awaited on a context that can end: the 'should not happen' panic becomes reachable")
			}
			if n == 0 {
				c.Unk(ire, "probe", ire.Pos(), "isRegionEstablished no longer builds its probe with hrpc.NewGet")
			}
		}
		// establishRegion's panic on an unknown lookup error: every error lookupRegion can return is handled before it
		tnf := p.Global("", "TableNotFound")
		kit.Instrs(est, func(in ssa.Instruction) {
			pn, ok := in.(*ssa.Panic)
			if !ok {
				return
			}
			notTNF, notClosed, ctxAlive := false, false, false
			for _, f := range kit.FactsAt(pn.Block()) {
				cmp, ok := kit.CanonCmp(f.Cond, f.Pol)
				if !ok {
					continue
				}
				if cmp.Op == token.NEQ && tnf != nil && (isGlobalLoad(cmp.Y, tnf) || isGlobalLoad(cmp.X, tnf)) {
					notTNF = true
				}
				if cmp.Op == token.NEQ && errClosed != nil && (isGlobalLoad(cmp.Y, errClosed) || isGlobalLoad(cmp.X, errClosed)) {
					notClosed = true
				}
				if cmp.Op == token.EQL && kit.IsNilConst(cmp.Y) {
					if e, ok := cmp.X.(*ssa.Call); ok && kit.CalleeName(e) == ctxErr {
						if cc, ok := e.Call.Value.(*ssa.Call); ok && kit.CalleeName(cc) == hrpcRI+"Context" {
							ctxAlive = true
						}
					}
				}
			}
			c.Check(notTNF && notClosed && ctxAlive, est, "lookup-error-panic", posOf(pn), "reached only when the lookup error is neither TableNotFound, nor ErrClientClosed, nor the region's own cancelled context (the only errors lookupRegion returns)", "establishRegion's panic on an 'unknown' lookup error is reachable for an error lookupRegion does return (table gone, client closed or region dead): the establisher goroutine crashes the process")
		})
	}

	// ---- R5 ---------------------------------------------------------------
	if !c.Frozen {
		embed(c, "R9", "every wait a request can sit in watches something that ends: its own context, the batch context, the client's done channel (the rules of C13, run as one rule here)", 30, runC13)
	}
	if !c.Frozen {
		embed(c, "R10", "what ends an outage is decided by the error class alone: a table that is gone is given up (and leaves the caches), everything else is retried (the rules of C04, run as one rule here)", 30, runC04)
	}
	embed(c, "R7", "no request is stranded by a failing connection (the rules of C03, run as one rule here)", 30, runC03)
	if !c.Frozen {
		embed(c, "R8", "a region that leaves the cache is marked dead - and only such a region - so that nobody keeps waiting for, or re-establishing, a region that cannot come back (the rules of C08, run as one rule here)", 10, runC08)
	}

	c.StartRule("R5", "region/cache primitives", 4)
	failureTransition(c)
	availF := p.Field("region", "info", "available")
	infoM := p.Field("region", "info", "m")
	if availF != nil && infoM != nil {
		// MarkUnavailable: make(chan) stored only on the nil edge; returns true only there
		var mkStore *ssa.Store
		kit.Instrs(markU, func(in ssa.Instruction) {
			if st, ok := in.(*ssa.Store); ok {
				if fa, ok := st.Addr.(*ssa.FieldAddr); ok && kit.FieldVar(fa.X.Type(), fa.Field) == availF {
					if _, isMk := st.Val.(*ssa.MakeChan); isMk {
						mkStore = st
					}
				}
			}
		})
		good := mkStore != nil
		if good {
			good = false
			for _, f := range kit.FactsAt(mkStore.Block()) {
				if cmp, ok := kit.CanonCmp(f.Cond, f.Pol); ok && cmp.Op == token.EQL && kit.IsNilConst(cmp.Y) && isLoadOfField(cmp.X, availF) {
					good = true
				}
			}
		}
		c.Check(good, markU, "create-on-nil-edge", markU.Pos(), "the channel is created only when there is none", "MarkUnavailable replaces an existing availability channel: waiters on the old one are stranded")
		// result true iff created
		okRet := true
		kit.Instrs(markU, func(in ssa.Instruction) {
			if r, ok := in.(*ssa.Return); ok {
				v := kit.Strip(kit.Res(r, 0))
				if kc, isC := v.(*ssa.Const); isC && mkStore != nil {
					// early-return form: return true after creating, return false where nothing was created
					isTrue := kc.Value != nil && kc.Value.ExactString() == "true"
					if isTrue && !(mkStore.Block() == r.Block() || mkStore.Block().Dominates(r.Block())) {
						okRet = false
					}
					if !isTrue && kit.Reaches(mkStore, r) {
						okRet = false
					}
					return
				}
				ph, isPhi := v.(*ssa.Phi)
				if !isPhi {
					// the result is the very condition the creation is guarded by (wasAvailable := i.available == nil)
					same := false
					if mkStore != nil {
						for _, f := range kit.EdgeFacts(mkStore.Block().Preds[0], mkStore.Block()) {
							if len(mkStore.Block().Preds) == 1 && f.Pol && (f.Cond == v || kit.SameCond(f.Cond, v)) {
								same = true
							}
						}
					}
					if !same {
						okRet = false
					}
					return
				}
				for k, ed := range ph.Edges {
					kc, isC := ed.(*ssa.Const)
					if !isC {
						okRet = false
						continue
					}
					isTrue := kc.Value != nil && kc.Value.ExactString() == "true"
					fromCreate := mkStore != nil && (ph.Block().Preds[k] == mkStore.Block() || mkStore.Block().Dominates(ph.Block().Preds[k]))
					if isTrue != fromCreate {
						okRet = false
					}
				}
			}
		})
		c.Check(okRet && mkStore != nil, markU, "true-iff-created", markU.Pos(), "reports true exactly when it created the channel", "MarkUnavailable's result does not say whether this call created the channel: more or fewer than one establisher starts")
		// MarkAvailable: close of the loaded channel, nil stored, all under the lock
		var closeCall ssa.CallInstruction
		for _, call := range kit.Calls(markA, "builtin.close") {
			closeCall = call
		}
		okA := closeCall != nil && isLoadOfField(closeCall.Common().Args[0], availF) && le.At(closeCall).HoldsField(infoM, true)
		nilStored := false
		kit.Instrs(markA, func(in ssa.Instruction) {
			if st, ok := in.(*ssa.Store); ok {
				if fa, ok := st.Addr.(*ssa.FieldAddr); ok && kit.FieldVar(fa.X.Type(), fa.Field) == availF && kit.IsNilConst(st.Val) {
					nilStored = le.At(st).HoldsField(infoM, true)
				}
			}
		})
		c.Check(okA && nilStored, markA, "swap-and-close", markA.Pos(), "MarkAvailable clears the field and closes the old channel in one critical section", "MarkAvailable no longer swaps and closes under the lock")
	}
	// clientRegionCache.clientDown: one critical section
	{
		rccM := p.Field("", "clientRegionCache", "m")
		bad := false
		var first, last ssa.Instruction
		for _, a := range p.FieldAccesses(p.Field("", "clientRegionCache", "regions")) {
			if a.Fn != rccDown {
				continue
			}
			if first == nil {
				first = a.Instr
			}
			last = a.Instr
		}
		if first != nil && last != nil {
			for _, u := range kit.Calls(rccDown, nmRWUnl, nmUnlock) {
				if kit.Reaches(first, u.(ssa.Instruction)) && kit.Reaches(u.(ssa.Instruction), last) {
					bad = true
				}
			}
		}
		c.Check(first != nil && !bad && rccM != nil, rccDown, "remove-returns-regions-atomically", rccDown.Pos(), "lookup and delete of the connection's region set lie in one critical section", "clientRegionCache.clientDown releases the lock between reading and deleting the region set")
	}
}

// tokenTypestate runs the ownership dataflow on the establisher.
func tokenTypestate(c *kit.Ctx, est *ssa.Function, errClosed, override *ssa.Global) {
	muName, maName := hrpcRI+"MarkUnavailable", hrpcRI+"MarkAvailable"
	type state map[ssa.Value]bool
	key := func(s state) string {
		var xs []string
		for v := range s {
			xs = append(xs, v.Name())
		}
		sort.Strings(xs)
		return strings.Join(xs, ",")
	}
	// a node is a block, or a block as entered over edges that decide its final branch (jump threading: the
	// `if !ok` / `if err != nil` after an expanded helper is decided by the return it is reached from; the
	// paths that meet in such a block do not really meet)
	type node struct {
		b   *ssa.BasicBlock
		dec int8 // 0: undecided, 1: branch known true, 2: known false
	}
	var regParam ssa.Value
	for _, pa := range est.Params {
		if pa.Type().String() == kit.Module+"/hrpc.RegionInfo" {
			regParam = pa
		}
	}
	if regParam == nil {
		c.Unk(est, "signature", est.Pos(), "establishRegion no longer takes the region as a parameter")
		return
	}
	// exemptWhy names the condition under which an exit may leave a region owned: the client was closed (nobody
	// waits any more) or the test hook replaced the establisher
	exemptWhy := func(facts []kit.Fact) string {
		for _, f := range facts {
			cmp, ok := kit.CanonCmp(f.Cond, f.Pol)
			if !ok {
				continue
			}
			if cmp.Op == token.EQL && errClosed != nil && (isGlobalLoad(cmp.Y, errClosed) || isGlobalLoad(cmp.X, errClosed)) {
				return "client closed (err == ErrClientClosed)"
			}
			if cmp.Op == token.EQL && kit.IsNilConst(cmp.Y) {
				if call, ok := kit.Root(cmp.X).(*ssa.Call); ok && kit.CalleeName(call) == kit.M("", "*clientRegionCache", "put") {
					return "client closed (connection cache refused to create a connection)"
				}
			}
			if cmp.Op == token.NEQ && override != nil && isGlobalLoad(cmp.X, override) {
				return "test override hook"
			}
		}
		return ""
	}
	// The analysis is disjunctive: a node keeps every distinct owned set it can be reached with (the sets are
	// subsets of a handful of values), so nothing is lost where paths meet. why is the exemption condition
	// that was passed on the way, if any.
	type item struct {
		nd  node
		st  state
		why string
	}
	entry := est.Blocks[0]
	seenSt := map[node]map[string]bool{}
	push := func(work []item, it item) []item {
		k := key(it.st) + "|" + it.why
		if seenSt[it.nd] == nil {
			seenSt[it.nd] = map[string]bool{}
		}
		if seenSt[it.nd][k] {
			return work
		}
		seenSt[it.nd][k] = true
		return append(work, it)
	}
	work := push(nil, item{node{entry, 0}, state{regParam: true}, ""})
	type verdict struct {
		pos       token.Pos
		what      string
		good, bad []string
	}
	verdicts := map[string]*verdict{}
	var order []string
	note := func(k string, pos token.Pos, what string, ok bool, text string) {
		v := verdicts[k]
		if v == nil {
			v = &verdict{pos: pos, what: what}
			verdicts[k] = v
			order = append(order, k)
		}
		if ok {
			v.good = append(v.good, text)
		} else {
			v.bad = append(v.bad, text)
		}
	}
	steps := 0
	for len(work) > 0 && steps < 20000 {
		steps++
		it := work[0]
		work = work[1:]
		nd, b := it.nd, it.nd.b
		cur := state{}
		for v := range it.st {
			cur[v] = true
		}
		for _, ins := range b.Instrs {
			switch x := ins.(type) {
			case *ssa.Call:
				n := kit.CalleeName(x)
				if n == muName {
					// acquiring: only if the result is ignored or we are on ... (tracked: ignored result = fresh region)
					if len(kit.Referrers(x)) == 0 {
						cur[kit.Strip(x.Call.Value)] = true
					}
				}
				if n == maName {
					v := kit.Strip(x.Call.Value)
					k := "release|" + fmt.Sprint(x.Pos())
					if cur[v] {
						note(k, x.Pos(), "release "+kit.Path(v), true, "releases a region this establisher owns (owned set "+key(cur)+")")
					} else {
						note(k, x.Pos(), "release "+kit.Path(v), false, "MarkAvailable on a region this establisher does not own on this path (owned: {"+key(cur)+"}): the availability channel is nil or belongs to another establisher - close of nil channel kills the process, or waiters are released early")
					}
					delete(cur, v)
				}
			case *ssa.Return:
				k := "return|" + fmt.Sprint(posOf(x)) + "|" + fmt.Sprint(b.Index)
				why := it.why
				if why == "" {
					why = exemptWhy(kit.FactsAt(b))
				}
				if why != "" {
					note(k, posOf(x), "exit", true, "exempt exit: "+why)
				} else if len(cur) == 0 {
					note(k, posOf(x), "exit", true, "all owned regions were released before this return")
				} else {
					note(k, posOf(x), "exit", false, "the establisher returns while still owning {"+key(cur)+"}: that region stays unavailable and its waiters are never released")
				}
			}
		}
		succs := b.Succs
		if nd.dec == 1 {
			succs = b.Succs[:1]
		} else if nd.dec == 2 {
			succs = b.Succs[1:2]
		}
		for _, s := range succs {
			// rename through the phis of s
			nxt := state{}
			for v := range cur {
				nxt[v] = true
			}
			for _, ins := range s.Instrs {
				ph, ok := ins.(*ssa.Phi)
				if !ok {
					break
				}
				for k, p := range s.Preds {
					if p == b {
						e := kit.Strip(ph.Edges[k])
						if nxt[e] {
							nxt[ph] = true
						}
					}
				}
			}
			// values replaced by a phi are dead afterwards only if the phi took them over;
			// drop an owned value that flowed into a phi of s
			for _, ins := range s.Instrs {
				ph, ok := ins.(*ssa.Phi)
				if !ok {
					break
				}
				for k, p := range s.Preds {
					if p == b {
						e := kit.Strip(ph.Edges[k])
						if e != ssa.Value(ph) && nxt[ph] {
							delete(nxt, e)
						}
					}
				}
			}
			sn := node{s, 0}
			if v, decided := kit.DecideOnEntry(s, b); decided && len(s.Succs) == 2 {
				sn.dec = 2
				if v {
					sn.dec = 1
				}
			}
			why := it.why
			if s.Dominates(b) {
				why = "" // next round of the loop: the condition was about the last one
			}
			if why == "" && len(b.Succs) == 2 {
				if iff, ok := b.Instrs[len(b.Instrs)-1].(*ssa.If); ok && b.Succs[0] != b.Succs[1] {
					why = exemptWhy([]kit.Fact{{Cond: iff.Cond, Pol: s == b.Succs[0], If: iff}})
				}
			}
			work = push(work, item{sn, nxt, why})
		}
	}
	if steps >= 20000 {
		c.Unk(est, "ownership", est.Pos(), "the ownership analysis of establishRegion did not converge")
	}
	for _, k := range order {
		v := verdicts[k]
		if len(v.bad) > 0 {
			c.Bad(est, v.what, v.pos, v.bad[0], "")
		} else {
			c.OK(est, v.what, v.pos, v.good[0])
		}
	}
	_ = types.Typ
}

// markBeforePublish: shared by C09.R3 and C04.R4.
func markBeforePublish(c *kit.Ctx) {
	p := c.P
	muName := hrpcRI + "MarkUnavailable"
	// a region is published to the cache only after it was marked unavailable
	for _, fn := range p.Funcs {
		if enclosingNamed(fn).Pkg == nil || enclosingNamed(fn).Pkg.Pkg.Path() != kit.Module {
			continue
		}
		for _, pc := range kit.Calls(fn, kit.M("", "*keyRegionCache", "put")) {
			x := pc.Common().Args[1]
			good := false
			for _, mu := range kit.Calls(fn, muName) {
				if kit.Same(mu.Common().Value, x) && kit.Dominates(mu.(ssa.Instruction), pc.(ssa.Instruction)) {
					good = true
				}
			}
			c.Check(good, fn, "mark-before-publish", pc.Pos(), "the region is marked unavailable before it becomes visible in the cache", "a freshly looked-up region is put into the cache before it is marked unavailable: a concurrent request finds it available without a client, wins MarkUnavailable and starts a second establisher for the same outage (double release: close of nil channel)")
		}
	}
}
