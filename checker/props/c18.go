package props

import (
	"go/token"
	"go/types"

	"golang.org/x/tools/go/ssa"

	"gohbaseverif/kit"
)

func init() {
	register("C18", &Property{
		Title: "Silent servers are detected; idle connections are left alone",
		Explanation: "(R1) the outstanding-request counter and every SetReadDeadline on the connection are touched only in inFlightUp/inFlightDown (and the debug reader) with inFlightM held; inFlightUp is called only by send, inFlightDown only by receive; " +
			"(R2) the request is counted before it can be answered: either the increment dominates the connection write in send, or the counter is a signed integer, a non-zero deadline is armed only on the '> 0' edge and cleared on the '== 0' edge (commutative form, insensitive to the response overtaking the sender); " +
			"(R3) in receive, every path after a successful claim of a call passes exactly one inFlightDown, before the cancelled-call early return, and none on the unknown-id edge; " +
			"(R4) in send, every nil-error return passed exactly one inFlightUp; " +
			"(R5) arming uses time.Now().Add(readTimeout), clearing uses the zero time exactly on the '== 0' edge, and a failing SetReadDeadline becomes a ServerError at both call sites; " +
			"(R6) every error of the reader before a call is claimed (read error, timeout) is a ServerError and the reader loop fails the client on it." +
			" Added after the seeded-change rounds: (R1) SetDeadline (which arms the read deadline as well) is not used on the connection at all.",
		Residue:   "real-time behaviour (that the deadline fires, and when)",
		Technique: "lock-set analysis, who-may-call tables, dominance and must-pass-through on the SSA CFG",
		Run:       runC18,
	})
}

func runC18(c *kit.Ctx) {
	p := c.P
	up := c.Anchor("region", "client", "inFlightUp")
	down := c.Anchor("region", "client", "inFlightDown")
	send := c.Anchor("region", "client", "send")
	recv := c.Anchor("region", "client", "receive")
	if up == nil || down == nil || send == nil || recv == nil {
		return
	}
	inFlight := p.Field("region", "client", "inFlight")
	inFlightM := p.Field("region", "client", "inFlightM")
	connF := p.Field("region", "client", "conn")
	readTimeout := p.Field("region", "client", "readTimeout")
	if inFlight == nil || inFlightM == nil || connF == nil || readTimeout == nil {
		c.StartRule("anchors", "field anchors resolve", 0)
		c.Unk(up, "unresolved-anchor", token.NoPos, "fields inFlight/inFlightM/conn/readTimeout of region.client missing")
		return
	}
	le := kit.NewLockEnv(p)
	upName, downName := kit.M("region", "*client", "inFlightUp"), kit.M("region", "*client", "inFlightDown")
	const srd = "(net.Conn).SetReadDeadline"

	// ---- R1 ---------------------------------------------------------------
	c.StartRule("R1", "counter and read deadline share one lock and two helpers", 8)
	writeDeadlineOnlyInDial(c)
	counterAndDeadlineUnderOneLock(c, le)
	for _, fn := range p.Funcs {
		for _, call := range kit.Calls(fn, "(net.Conn).SetDeadline") {
			c.Bad(fn, "set-deadline", call.Pos(), "SetDeadline arms the read deadline as well, outside the counter's helpers: nothing clears it (the hello path only resets the write deadline), so an idle connection is torn down when it expires", "")
		}
	}
	for _, s := range callersOf(p, upName) {
		c.Check(s.Parent() == send, s.Parent(), "caller-of-inFlightUp", s.Pos(), "called from send", "inFlightUp called from an unexpected place: a request is counted that was not sent")
	}
	for _, s := range callersOf(p, downName) {
		c.Check(s.Parent() == recv, s.Parent(), "caller-of-inFlightDown", s.Pos(), "called from receive", "inFlightDown called from an unexpected place")
	}

	embed(c, "R7", "when the read timeout fails the connection, every outstanding request fails over (the rules of C03, run as one rule here)", 30, runC03)

	// ---- R2 ---------------------------------------------------------------
	c.StartRule("R2", "the request is counted before its response can be processed", 1)
	ups := kit.Calls(send, upName)
	var writes []ssa.CallInstruction
	writes = append(writes, connWrites(p, send)...)
	ordered := len(ups) == 1 && len(writes) > 0
	if ordered {
		for _, w := range writes {
			if !kit.Dominates(ups[0].(ssa.Instruction), w.(ssa.Instruction)) {
				ordered = false
			}
		}
	}
	if ordered {
		c.OK(send, "count-before-answer", ups[0].Pos(), "the increment dominates every connection write in send")
	} else {
		// commutative form
		b, isBasic := inFlight.Type().Underlying().(*types.Basic)
		signed := isBasic && b.Info()&types.IsInteger != 0 && b.Info()&types.IsUnsigned == 0
		why := ""
		good := signed
		if !signed {
			why = "the counter is unsigned: a response processed before the sender's increment wraps it (0 -> 2^32-1 -> 0) and the deadline armed by the late increment is never cleared"
		} else {
			// in inFlightUp: every non-zero deadline is armed under counter > 0
			for _, call := range kit.Calls(up, srd) {
				if !nonZeroDeadlineOnlyWhenPositive(call, inFlight) {
					good = false
					why = "inFlightUp can arm a deadline while the counter is not positive (the response was already processed)"
				}
			}
			// in inFlightDown: clears on == 0
			cleared := false
			for _, call := range kit.Calls(down, srd) {
				for _, f := range kit.FactsAt(call.Block()) {
					if cmp, ok := kit.CanonCmp(f.Cond, f.Pol); ok && cmp.Op == token.EQL && isLoadOfField(cmp.X, inFlight) {
						if k, ok := kit.ConstInt(cmp.Y); ok && k == 0 {
							cleared = true
						}
					}
				}
			}
			if !cleared {
				good = false
				why = "inFlightDown does not clear the deadline on the == 0 edge"
			}
		}
		if good {
			c.OK(send, "count-before-answer", send.Pos(), "commutative form: signed counter, deadline armed only on > 0 and cleared on == 0")
		} else {
			c.Bad(send, "count-before-answer", send.Pos(), "the response to a request can be processed (counter decremented) before the sender has counted it: "+why+"; the idle connection keeps an armed read deadline and is torn down one read-timeout later", "")
		}
	}

	// ---- R3 ---------------------------------------------------------------
	c.StartRule("R3", "exactly one decrement per answered call id", 2)
	counterStepIsUnconditional(c)
	downs := kit.Calls(recv, downName)
	unregs := kit.Calls(recv, kit.M("region", "*client", "unregisterRPC"))
	if len(downs) != 1 || len(unregs) != 1 {
		c.Bad(recv, "one-decrement", recv.Pos(), "receive must contain exactly one unregisterRPC and one inFlightDown", "")
	} else {
		d, u := downs[0].(ssa.Instruction), unregs[0]
		claimed := false
		for _, f := range kit.FactsAt(d.Block()) {
			if cmp, ok := kit.CanonCmp(f.Cond, f.Pol); ok && cmp.Op == token.NEQ && kit.IsNilConst(cmp.Y) && kit.Same(cmp.X, u.Value()) {
				claimed = true
			}
		}
		c.Check(claimed, recv, "decrement-only-when-claimed", d.Pos(), "inFlightDown only on the edge where a call was claimed", "inFlightDown also runs for an unknown call id: the counter goes below the number of outstanding requests")
		e := kit.PathFrom(u, kit.PathQuery{
			Stop: func(in ssa.Instruction) bool { return in == d },
			SkipEdge: func(from, to *ssa.BasicBlock) bool {
				for _, f := range kit.EdgeFacts(from, to) {
					if cmp, ok := kit.CanonCmp(f.Cond, f.Pol); ok && cmp.Op == token.EQL && kit.IsNilConst(cmp.Y) && kit.Same(cmp.X, u.Value()) {
						return true
					}
				}
				return false
			},
			IgnorePanics: true,
		})
		c.Check(e == nil && !kit.Reaches(d, d), recv, "decrement-on-every-claimed-path", d.Pos(), "every path after a successful claim passes the single inFlightDown", "a claimed response can leave receive without decrementing the counter: "+c.BlockPath(e))
	}

	// ---- R4 ---------------------------------------------------------------
	c.StartRule("R4", "exactly one increment per request sent", 2)
	if len(ups) != 1 {
		c.Bad(send, "one-increment", send.Pos(), "send must contain exactly one inFlightUp", "")
	} else {
		upI := ups[0].(ssa.Instruction)
		e := kit.PathFromEntry(send, kit.PathQuery{
			Stop: func(in ssa.Instruction) bool { return in == upI },
			Target: func(in ssa.Instruction) bool {
				r, ok := in.(*ssa.Return)
				if !ok {
					return false
				}
				ev := returnedError(r)
				return ev != nil && kit.IsNilConst(kit.Root(ev))
			},
		})
		c.Check(e == nil && !kit.Reaches(upI, upI), send, "increment-on-success", upI.Pos(), "every successful send passed the single inFlightUp", "send can succeed without counting the request: no deadline is armed for it: "+c.BlockPath(e))
		// ... and only a request that was written is counted: every way to inFlightUp passes a write on the
		// connection (a request that is skipped - an empty batch, a duplicate - gets no answer; counting it arms a
		// deadline that nothing will clear and the idle connection is torn down readTimeout later)
		connF := p.Field("region", "client", "conn")
		isConnWrite := func(in ssa.Instruction) bool {
			call, ok := in.(*ssa.Call)
			if !ok {
				return false
			}
			switch kit.CalleeName(call) {
			case kit.M("region", "*client", "write"):
				return true
			case "(*net.Buffers).WriteTo":
				return len(call.Call.Args) == 2 && connF != nil && isLoadOfField(call.Call.Args[1], connF)
			}
			return call.Call.IsInvoke() && call.Call.Method.Name() == "Write" && connF != nil && isLoadOfField(call.Call.Value, connF)
		}
		w := kit.PathFromEntry(send, kit.PathQuery{
			Stop:         isConnWrite,
			Target:       func(in ssa.Instruction) bool { return in == upI },
			IgnorePanics: true,
		})
		c.Check(w == nil, send, "counted-only-when-written", upI.Pos(), "every way to inFlightUp passes a write of the request on the connection", "a request can be counted as outstanding without having been written: no response will ever decrement the counter, the read deadline stays armed and the idle, healthy connection is torn down: "+c.BlockPath(w))
	}

	// ---- R5 ---------------------------------------------------------------
	c.StartRule("R5", "arm with now+readTimeout, clear with the zero time, errors are connection failures", 6)
	{
		// every connection is created with the configured read timeout
		rrt := p.Field("", "client", "regionReadTimeout")
		fnF := p.Field("", "client", "newRegionClientFn")
		n := 0
		for _, fn := range p.Funcs {
			kit.Instrs(fn, func(in ssa.Instruction) {
				ci, ok := in.(ssa.CallInstruction)
				if !ok || ci.Common().IsInvoke() || fnF == nil || !isLoadOfField(ci.Common().Value, fnF) {
					return
				}
				n++
				// the read timeout is the second time.Duration argument (after the flush interval)
				var durs []ssa.Value
				for _, a := range ci.Common().Args {
					if a.Type().String() == "time.Duration" {
						durs = append(durs, a)
					}
				}
				c.Check(len(durs) == 2 && rrt != nil && isLoadOfField(durs[1], rrt), fn, "configured-read-timeout", ci.Pos(), "the connection is created with c.regionReadTimeout", "a connection is created with something other than the configured read timeout: RegionReadTimeout(d) is silently ignored for it and a silent server is detected only after that other delay")
			})
		}
		if n < 2 {
			c.Unk(nil, "configured-read-timeout", token.NoPos, "fewer than the two confirmed connection constructions found")
		}
	}
	{
		// every request that is counted while others (or itself) are outstanding (re)arms the deadline:
		// no way through inFlightUp skips SetReadDeadline except where the counter is negative
		e := mustPass(up, func(x ssa.Instruction) bool {
			cc, ok := x.(*ssa.Call)
			return ok && kit.CalleeName(cc) == srd
		}, func(from, to *ssa.BasicBlock) bool {
			for _, f := range kit.EdgeFacts(from, to) {
				if cmp, ok := kit.CanonCmp(f.Cond, f.Pol); ok && cmp.Op == token.LSS && isLoadOfField(cmp.X, inFlight) {
					if k, ok := kit.ConstInt(cmp.Y); ok && k == 0 {
						return true
					}
				}
			}
			return false
		})
		c.Check(e == nil, up, "every-count-arms", up.Pos(), "every path through inFlightUp sets the read deadline (except where the counter is negative)", "a request can be counted without (re)arming the read deadline (a 'recently armed' shortcut): inFlightDown clears the deadline when the counter passes through zero, so a request sent right after is outstanding with no read deadline and a silent server is never detected: "+c.BlockPath(e))
	}
	for _, call := range kit.Calls(up, srd) {
		c.Check(armsWithTimeout(call, readTimeout), up, "arm-value", call.Pos(), "armed with time.Now().Add(c.readTimeout) (or the zero time when nothing is outstanding)", "inFlightUp arms something other than now+readTimeout")
	}
	for _, call := range kit.Calls(down, srd) {
		c.Check(isZeroTime(call.Common().Args[0]), down, "clear-value", call.Pos(), "cleared with the zero time", "inFlightDown sets a non-zero deadline")
	}
	// the timeout armed is the configured one: the field is written once, in the constructor, with the
	// constructor's duration parameter as it came (not raised to the flush interval, not defaulted)
	{
		nc := c.Anchor("region", "", "NewClient")
		n := 0
		for _, fn := range p.Funcs {
			if fn.Pkg == nil || !p.IsSubject(fn) {
				continue
			}
			kit.Instrs(fn, func(in ssa.Instruction) {
				st, ok := in.(*ssa.Store)
				if !ok {
					return
				}
				fa, ok := st.Addr.(*ssa.FieldAddr)
				if !ok || kit.FieldVar(fa.X.Type(), fa.Field) != readTimeout {
					return
				}
				n++
				pa, isParam := kit.Root(st.Val).(*ssa.Parameter)
				c.Check(fn == nc && isParam && pa.Parent() == nc, fn, "read-timeout-as-configured", st.Pos(), "readTimeout is set in NewClient from its parameter, unchanged", "the read timeout of a connection is set to something other than the value it was created with (raised, defaulted or changed later): a silent server is not detected within the configured time")
			})
		}
		if n == 0 {
			c.Unk(nc, "read-timeout-as-configured", token.NoPos, "no place found where the read timeout of a connection is set")
		}
	}
	// the zero time is what inFlightUp sets only where nothing is outstanding: every way to its SetReadDeadline
	// computes now+readTimeout or crosses an edge on which the counter is known not to be positive - no other
	// condition (kind of client, size of the request, time of day) may select the zero time
	for _, call := range kit.Calls(up, srd) {
		target := call.(ssa.Instruction)
		e := kit.PathFromEntry(up, kit.PathQuery{
			Target: func(x ssa.Instruction) bool { return x == target },
			Stop: func(x ssa.Instruction) bool {
				cc, ok := x.(*ssa.Call)
				return ok && kit.CalleeName(cc) == "(time.Time).Add" && len(cc.Call.Args) == 2 && isLoadOfField(cc.Call.Args[1], readTimeout)
			},
			SkipEdge: func(from, to *ssa.BasicBlock) bool {
				for _, f := range kit.EdgeFacts(from, to) {
					cmp, ok := kit.CanonCmp(f.Cond, f.Pol)
					if !ok || !isLoadOfField(cmp.X, inFlight) {
						continue
					}
					k, isK := kit.ConstInt(cmp.Y)
					if !isK {
						continue
					}
					switch {
					case cmp.Op == token.LEQ && k <= 0, cmp.Op == token.LSS && k <= 1, cmp.Op == token.EQL && k <= 0:
						return true
					}
				}
				return false
			},
			IgnorePanics: true,
		})
		c.Check(e == nil, up, "armed-whenever-outstanding", call.Pos(), "the deadline set is now+readTimeout on every way on which the counter is positive", "inFlightUp can set the zero time (no read deadline) although requests are outstanding - for some kind of client or request a silent server is never detected: "+c.BlockPath(e))
	}
	defer func() {
		c.StartRule("R6", "a read error, including the read timeout, is a connection failure", 5)
		readerEndsOnlyWhenTheConnectionFailed(c)
		readerErrorsAreFatal(c, recv)
		loop := c.Anchor("region", "client", "receiveRPCs")
		if loop != nil {
			good := false
			se := p.Named("region", "ServerError")
			for _, s := range kit.Calls(loop, kit.M("region", "*client", "fail")) {
				if _, ok := typeAssertEdge(s.Block(), se); ok {
					good = true
				}
			}
			c.Check(good, loop, "reader-fails-client", loop.Pos(), "the reader loop fails the client on a ServerError", "the reader loop no longer fails the client on a ServerError")
		}
	}()
	for _, pair := range []struct {
		fn    *ssa.Function
		calls []ssa.CallInstruction
	}{{send, ups}, {recv, downs}} {
		for _, call := range pair.calls {
			v := call.Value()
			good := false
			if v != nil {
				// the result itself, or the variable it is merged into (`if err == nil { err = c.inFlightUp() }`)
				vals := []ssa.Value{v}
				for i := 0; i < len(vals) && i < 8; i++ {
					for _, r := range kit.Referrers(vals[i]) {
						if ph, ok := r.(*ssa.Phi); ok {
							dup := false
							for _, w := range vals {
								dup = dup || w == ssa.Value(ph)
							}
							if !dup {
								vals = append(vals, ph)
							}
						}
					}
				}
				var refs []ssa.Instruction
				for _, w := range vals {
					refs = append(refs, kit.Referrers(w)...)
				}
				for _, r := range refs {
					bo, ok := r.(*ssa.BinOp)
					if !ok {
						continue
					}
					cmp, ok := kit.CanonCmp(bo, true)
					if !ok || !kit.IsNilConst(cmp.Y) {
						continue
					}
					for _, rr := range kit.Referrers(bo) {
						iff, ok := rr.(*ssa.If)
						if !ok {
							continue
						}
						errB := kit.SuccOnTrue(iff)
						if cmp.Op == token.EQL {
							errB = kit.SuccOnFalse(iff)
						}
						// every return from the error edge yields a ServerError
						e := kit.PathFromBlock(errB, kit.PathQuery{TargetPath: func(in ssa.Instruction, path []*ssa.BasicBlock) bool {
							r, ok := in.(*ssa.Return)
							if !ok {
								return false
							}
							// the value returned on this way (a helper's error result is merged from its returns)
							ev := returnedError(r)
							if ev != nil {
								ev = kit.ResolveAlong(ev, path)
							}
							return !isServerErrorValue(p, ev)
						}})
						good = e == nil
					}
				}
			}
			c.Check(good, pair.fn, "deadline-error-is-fatal", call.Pos(), "a failing SetReadDeadline is returned as a ServerError", "the error of the deadline helper is dropped or not a ServerError")
		}
	}
}

// (R6 is appended in init-time registration below)

// isZeroTime: v is the zero time.Time (zero-value constant or a load of a
// never-stored local).
func isZeroTime(v ssa.Value) bool {
	v = kit.Strip(v)
	if k, ok := v.(*ssa.Const); ok {
		return k.Value == nil
	}
	if u, ok := v.(*ssa.UnOp); ok && u.Op == token.MUL {
		if a, ok := u.X.(*ssa.Alloc); ok {
			return len(kit.StoresTo(a)) == 0
		}
	}
	return false
}

// armsWithTimeout: the deadline value is time.Now().Add(c.readTimeout), or a
// local that is only ever assigned that (and otherwise zero).
func armsWithTimeout(call ssa.CallInstruction, readTimeout *types.Var) bool {
	isArm := func(v ssa.Value) bool {
		cc, ok := kit.Strip(v).(*ssa.Call)
		if !ok || kit.CalleeName(cc) != "(time.Time).Add" {
			return false
		}
		now, ok := cc.Call.Args[0].(*ssa.Call)
		if !ok || kit.CalleeName(now) != "time.Now" {
			return false
		}
		return isLoadOfField(cc.Call.Args[1], readTimeout)
	}
	v := call.Common().Args[0]
	if isArm(v) || isZeroTime(v) {
		return true
	}
	if ph, ok := kit.Strip(v).(*ssa.Phi); ok {
		for _, leaf := range kit.PhiLeaves(ph) {
			if !isArm(leaf) && !isZeroTime(leaf) {
				return false
			}
		}
		return true
	}
	if u, ok := kit.Strip(v).(*ssa.UnOp); ok && u.Op == token.MUL {
		if a, ok := u.X.(*ssa.Alloc); ok {
			for _, st := range kit.StoresTo(a) {
				if !isArm(st) {
					return false
				}
			}
			return true
		}
	}
	return false
}

// nonZeroDeadlineOnlyWhenPositive: every non-zero value that can reach the
// deadline argument is assigned on an edge where counter > 0 holds.
func nonZeroDeadlineOnlyWhenPositive(call ssa.CallInstruction, counter *types.Var) bool {
	// the facts about the counter imply counter >= 1 (x > 0, x >= 1, or !(x < 0) && x != 0, ...)
	positive := func(facts []kit.Fact) bool {
		lb, neq0 := int64(-1<<62), false
		for _, f := range facts {
			cmp, ok := kit.CanonCmp(f.Cond, f.Pol)
			if !ok || cmp.Bytes {
				continue
			}
			op, x, y := cmp.Op, cmp.X, cmp.Y
			if !isLoadOfField(x, counter) && isLoadOfField(y, counter) {
				x, y = y, x
				switch op {
				case token.LSS:
					op = token.GTR
				case token.GTR:
					op = token.LSS
				case token.LEQ:
					op = token.GEQ
				case token.GEQ:
					op = token.LEQ
				}
			}
			if !isLoadOfField(x, counter) {
				continue
			}
			k, ok := kit.ConstInt(y)
			if !ok {
				continue
			}
			switch op {
			case token.GTR:
				if k+1 > lb {
					lb = k + 1
				}
			case token.GEQ:
				if k > lb {
					lb = k
				}
			case token.NEQ:
				if k == 0 {
					neq0 = true
				}
			}
		}
		if lb == 0 && neq0 {
			lb = 1
		}
		return lb >= 1
	}
	positiveAt := func(b *ssa.BasicBlock) bool { return positive(kit.FactsAt(b)) }
	v := kit.Strip(call.Common().Args[0])
	if isZeroTime(v) {
		return true
	}
	if ph, ok := v.(*ssa.Phi); ok {
		for k, ed := range ph.Edges {
			if isZeroTime(ed) {
				continue
			}
			pred := ph.Block().Preds[k]
			if !positive(kit.EdgeFacts(pred, ph.Block())) {
				return false
			}
		}
		return true
	}
	if u, ok := v.(*ssa.UnOp); ok && u.Op == token.MUL {
		if a, ok := u.X.(*ssa.Alloc); ok {
			good := true
			kit.Instrs(a.Parent(), func(in ssa.Instruction) {
				if st, ok := in.(*ssa.Store); ok && st.Addr == ssa.Value(a) && !positiveAt(st.Block()) {
					good = false
				}
			})
			return good
		}
	}
	return positiveAt(call.Block())
}

// counterAndDeadlineUnderOneLock: the in-flight counter and the connection's read deadline are only
// touched in inFlightUp/inFlightDown with inFlightM held (so the deadline is armed exactly while
// requests are outstanding). Shared by C18.R1 and C03.R6 (failure by read timeout).
func counterAndDeadlineUnderOneLock(c *kit.Ctx, le *kit.LockEnv) []ssa.CallInstruction {
	p := c.P
	up, down := p.Func("region", "client", "inFlightUp"), p.Func("region", "client", "inFlightDown")
	inFlight, inFlightM, connF := p.Field("region", "client", "inFlight"), p.Field("region", "client", "inFlightM"), p.Field("region", "client", "conn")
	if up == nil || down == nil || inFlight == nil || inFlightM == nil || connF == nil {
		c.Unk(nil, "counter-helpers", token.NoPos, "inFlightUp/inFlightDown or the fields inFlight/inFlightM/conn of region.client not found")
		return nil
	}
	const srd = "(net.Conn).SetReadDeadline"
	marshal := p.Func("region", "client", "MarshalJSON")
	for _, a := range p.FieldAccesses(inFlight) {
		if kit.FreshObject(a.Instr) {
			continue
		}
		okFn := a.Fn == up || a.Fn == down || (a.Fn == marshal && !a.Write)
		held := le.At(a.Instr).HoldsField(inFlightM, a.Write)
		c.Check(okFn && held, a.Fn, "counter-"+a.Kind, posOf(a.Instr), "in a helper, with inFlightM held", "the in-flight counter is accessed outside inFlightUp/inFlightDown or without inFlightM: it can drift from the armed deadline")
	}
	var deadlineCalls []ssa.CallInstruction
	for _, fn := range p.Funcs {
		for _, call := range kit.Calls(fn, srd) {
			if !isLoadOfField(call.Common().Value, connF) {
				continue
			}
			deadlineCalls = append(deadlineCalls, call)
			okFn := fn == up || fn == down
			held := le.At(call).HoldsField(inFlightM, true)
			c.Check(okFn && held, fn, "set-read-deadline", call.Pos(), "in a helper, with inFlightM held", "SetReadDeadline on the connection outside inFlightUp/inFlightDown or without inFlightM")
		}
	}
	return deadlineCalls
}
