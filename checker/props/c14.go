package props

import (
	"go/token"
	"strings"

	"golang.org/x/tools/go/ssa"

	"gohbaseverif/kit"
)

func init() {
	register("C14", &Property{
		Title: "Scanners terminate cleanly and release server-side scanners",
		Explanation: "(R1) every error return of fetch and the cancelled-context return of Next are preceded by Close(); Close sets closed and reaches closeRegionScanner on every path after the closed test; fetch closes when isDone says so; " +
			"(R2) the region-scanner id is reset (to noScannerID) only in update on the edge where the server reported no more results in the region, and in closeRegionScanner after - unless the scan itself is a closing scan - a close request carrying that very id (ScannerID(id), CloseScanner()) was started; other values are stored only by openRegionScanner and the constructor; " +
			"(R3) the synchronous call closure of Close contains no blocking operation (the close request is sent with go); " +
			"(R4) Next reports a non-EOF error only on a path on which the scanner was not closed when the error was produced (errors from peek come from fetch, reached only while open; the cancellation error is returned only on the not-closed edge), so an error is reported once and io.EOF afterwards; " +
			"(R5) the renewer is cancelled before every fetch and in Close." +
			" Added after the seeded-change rounds: (R1) isDone looks at more_results first (shared with C06.R2); (R2) the close request is keyed by the scanner's current start row and carries the current region-scanner id; (R5) the renew goroutine is started only on an edge where closed was tested false after the fetch (no scanner method runs between the test and the go statement).",
		Residue:   "server-side lease state; that the asynchronous close request arrives",
		Technique: "must-pass-through path search, who-writes tables on the scanner state, blocking-operation enumeration",
		Run:       runC14All,
	})
}

func runC14(c *kit.Ctx) {
	p := c.P
	next := c.Anchor("", "scanner", "Next")
	peek := c.Anchor("", "scanner", "peek")
	fetch := c.Anchor("", "scanner", "fetch")
	closeFn := c.Anchor("", "scanner", "Close")
	crs := c.Anchor("", "scanner", "closeRegionScanner")
	upd := c.Anchor("", "scanner", "update")
	open := c.Anchor("", "scanner", "openRegionScanner")
	if next == nil || peek == nil || fetch == nil || closeFn == nil || crs == nil || upd == nil || open == nil {
		return
	}
	closedF := p.Field("", "scanner", "closed")
	idF := p.Field("", "scanner", "curRegionScannerID")
	renewF := p.Field("", "scanner", "renewCancel")
	eof := p.SSA.ImportedPackage("io")
	var eofG *ssa.Global
	if eof != nil {
		eofG, _ = eof.Members["EOF"].(*ssa.Global)
	}
	if closedF == nil || idF == nil || renewF == nil || eofG == nil {
		c.StartRule("anchors", "anchors resolve", 0)
		c.Unk(next, "unresolved-anchor", token.NoPos, "scanner.closed/curRegionScannerID/renewCancel or io.EOF missing")
		return
	}
	closeName := kit.M("", "*scanner", "Close")
	isEOF := func(v ssa.Value) bool { return v != nil && isGlobalLoad(kit.Strip(v), eofG) }
	closedFalseIn := func(facts []kit.Fact) bool {
		for _, f := range facts {
			if !f.Pol && isLoadOfField(f.Cond, closedF) {
				return true
			}
			if f.Pol {
				if u, ok := f.Cond.(*ssa.UnOp); ok && u.Op == token.NOT && isLoadOfField(u.X, closedF) {
					return true
				}
			}
		}
		return false
	}
	closedFalseAt := func(b *ssa.BasicBlock) bool { return closedFalseIn(kit.FactsAt(b)) }
	// resultsFact: the fact states that the buffer of fetched rows is empty / not empty
	resultsF := p.Field("", "scanner", "results")
	resultsLen := func(v ssa.Value) bool {
		l := kit.LenOf(kit.Strip(v))
		return l != nil && resultsF != nil && isLoadOfField(l, resultsF)
	}
	resultsFact := func(f kit.Fact) (empty, ok bool) {
		cmp, isCmp := kit.CanonCmp(f.Cond, f.Pol)
		if !isCmp || cmp.Bytes {
			return false, false
		}
		x, y, op := cmp.X, cmp.Y, cmp.Op
		if !resultsLen(x) {
			x, y = y, x
			op = map[token.Token]token.Token{token.LSS: token.GTR, token.GTR: token.LSS, token.LEQ: token.GEQ, token.GEQ: token.LEQ, token.EQL: token.EQL, token.NEQ: token.NEQ}[op]
		}
		if !resultsLen(x) {
			return false, false
		}
		k, isK := kit.ConstInt(y)
		if !isK {
			return false, false
		}
		switch {
		case (op == token.EQL || op == token.LEQ) && k == 0, op == token.LSS && k == 1:
			return true, true
		case (op == token.NEQ || op == token.GTR) && k == 0, op == token.GEQ && k == 1:
			return false, true
		}
		return false, false
	}
	resultsEmptyIn := func(facts []kit.Fact, want bool) bool {
		for _, f := range facts {
			if e, ok := resultsFact(f); ok && e == want {
				return true
			}
		}
		return false
	}

	// ---- R1 ---------------------------------------------------------------
	c.StartRule("R1", "every failure closes the scanner; Close reaches closeRegionScanner", 4)
	{
		e := kit.PathFromEntry(fetch, kit.PathQuery{
			Stop: func(in ssa.Instruction) bool {
				call, ok := in.(*ssa.Call)
				return ok && kit.CalleeName(call) == closeName
			},
			Target: func(in ssa.Instruction) bool {
				r, ok := in.(*ssa.Return)
				if !ok {
					return false
				}
				ev := returnedError(r)
				return ev != nil && !kit.IsNilConst(kit.Root(ev)) && !isEOF(ev)
			},
		})
		c.Check(e == nil, fetch, "error-closes", fetch.Pos(), "every error return of fetch is preceded by Close()", "fetch can return an error without closing the scanner: "+c.BlockPath(e))
		// isDone => Close
		good := false
		for _, call := range kit.Calls(fetch, closeName) {
			for _, f := range kit.FactsAt(call.Block()) {
				if cc, ok := f.Cond.(*ssa.Call); ok && f.Pol && kit.CalleeName(cc) == kit.M("", "*scanner", "isDone") {
					good = true
				}
			}
		}
		c.Check(good, fetch, "done-closes", fetch.Pos(), "fetch closes the scanner when isDone reports the end of the scan", "fetch no longer closes the scanner when the scan is done")
		// Next: cancelled-context return preceded by Close
		kit.Instrs(next, func(in ssa.Instruction) {
			r, ok := in.(*ssa.Return)
			if !ok {
				return
			}
			ev := returnedError(r)
			call, isCall := ev.(*ssa.Call)
			if !isCall || kit.CalleeName(call) != ctxErr {
				return
			}
			closed := false
			for _, cl := range kit.Calls(next, closeName) {
				if kit.Dominates(cl.(ssa.Instruction), r) {
					closed = true
				}
			}
			c.Check(closed, next, "cancel-closes", r.Pos(), "the cancelled-context return is preceded by Close()", "Next returns the context error without closing the scanner")
		})
		// Close
		e2 := kit.PathFromEntry(closeFn, kit.PathQuery{
			Stop: func(in ssa.Instruction) bool {
				// called, or registered to run when Close returns
				if d, ok := in.(*ssa.Defer); ok && kit.CalleeName(d) == kit.M("", "*scanner", "closeRegionScanner") {
					return true
				}
				call, ok := in.(*ssa.Call)
				return ok && kit.CalleeName(call) == kit.M("", "*scanner", "closeRegionScanner")
			},
			SkipEdge: func(from, to *ssa.BasicBlock) bool {
				for _, f := range kit.EdgeFacts(from, to) {
					if f.Pol && isLoadOfField(f.Cond, closedF) {
						return true
					}
				}
				return false
			},
		})
		setsClosed := false
		kit.Instrs(closeFn, func(in ssa.Instruction) {
			if st, ok := in.(*ssa.Store); ok {
				if fa, ok := st.Addr.(*ssa.FieldAddr); ok && kit.FieldVar(fa.X.Type(), fa.Field) == closedF {
					if k, ok := st.Val.(*ssa.Const); ok && k.Value != nil && k.Value.ExactString() == "true" {
						setsClosed = true
					}
				}
			}
		})
		c.Check(e2 == nil && setsClosed, closeFn, "close-releases", closeFn.Pos(), "Close sets closed and calls closeRegionScanner on every path past the closed test", "Close can finish without calling closeRegionScanner (or without setting closed): "+c.BlockPath(e2))
	}

	moreResultsFirst(c)

	// ---- R2 ---------------------------------------------------------------
	c.StartRule("R2", "the region-scanner id is cleared only when the server side is released", 3)
	oneShotScansCloseTheirScanner(c)
	for _, a := range p.FieldAccesses(idF) {
		st, ok := a.Instr.(*ssa.Store)
		if !ok || a.Kind != "store" {
			continue
		}
		if kit.FreshObject(st) {
			c.OK(a.Fn, "id-init", st.Pos(), "constructor")
			continue
		}
		k, isConst := st.Val.(*ssa.Const)
		isNone := isConst && k.Value != nil && k.Value.ExactString() == "18446744073709551615"
		switch {
		case !isNone:
			c.Check(a.Fn == open, a.Fn, "id-set", st.Pos(), "a scanner id is stored by openRegionScanner", "a region-scanner id is stored outside openRegionScanner")
		case a.Fn == upd:
			good := false
			for _, f := range kit.FactsAt(st.Block()) {
				if cc, ok := f.Cond.(*ssa.Call); ok && !f.Pol && strings.HasSuffix(kit.CalleeName(cc), "ScanResponse).GetMoreResultsInRegion") {
					good = true
				}
			}
			c.Check(good, upd, "id-cleared-exhausted", st.Pos(), "cleared on the edge where the server reported no more results in the region (it closed its scanner)", "update forgets the region-scanner id although the server may still hold it open: the lease leaks")
		case a.Fn == crs:
			e := kit.PathFromEntry(crs, kit.PathQuery{
				Target: func(in ssa.Instruction) bool { return in == ssa.Instruction(st) },
				Stop: func(in ssa.Instruction) bool {
					g, ok := in.(*ssa.Go)
					if !ok {
						return false
					}
					if strings.HasSuffix(kit.CalleeName(g), "RPCClient).SendRPC") {
						return true
					}
					// go func() { _, _ = s.SendRPC(rpc) }()
					if mc, isLit := g.Call.Value.(*ssa.MakeClosure); isLit {
						found := false
						kit.Instrs(mc.Fn.(*ssa.Function), func(y ssa.Instruction) {
							if cc, ok := y.(ssa.CallInstruction); ok && strings.HasSuffix(kit.CalleeName(cc), "RPCClient).SendRPC") {
								found = true
							}
						})
						return found
					}
					return false
				},
				SkipEdge: func(from, to *ssa.BasicBlock) bool {
					for _, f := range kit.EdgeFacts(from, to) {
						if cc, ok := f.Cond.(*ssa.Call); ok && f.Pol && strings.HasSuffix(kit.CalleeName(cc), "hrpc.Scan).IsClosing") {
							return true
						}
					}
					return false
				},
			})
			// the request carries ScannerID(id) and CloseScanner()
			hasID, hasClose := false, false
			for _, call := range kit.Calls(crs, kit.M("hrpc", "", "ScannerID")) {
				if isLoadOfField(call.Common().Args[0], idF) {
					hasID = true
				}
			}
			hasClose = len(kit.Calls(crs, kit.M("hrpc", "", "CloseScanner"))) == 1
			// the close request must not inherit the scan's context: the region client drops
			// requests whose context is done, and a cancelled scan is exactly when this runs
			for _, nsr := range kit.Calls(crs, kit.M("hrpc", "", "NewScanRange")) {
				// routed by the start row of the region that holds the open scanner
				startRowF := p.Field("", "scanner", "startRow")
				c.Check(startRowF != nil && isLoadOfField(nsr.Common().Args[2], startRowF), crs, "close-request-routing", nsr.Pos(), "the close request is keyed by s.startRow (the current region)", "the close request is keyed by something other than the scanner's current start row: once the scan has left its first region the close is routed to a region that does not hold the open scanner, and the lease stays open")
				ca := &ctxAnalysis{p: p, entries: map[*ssa.Function]bool{}}
				ca.param = map[*ssa.Parameter]map[string]origin{}
				os := ca.originOf(nsr.Common().Args[0], 0)
				bg := len(os) > 0
				for _, o := range os {
					if o.Kind != "background" {
						bg = false
					}
				}
				c.Check(bg, crs, "close-request-context", nsr.Pos(), "the close request uses a context of its own (context.Background), not the scan's", "the close request is created with "+describeOrigins(os)+": when the scan was cancelled (or its deadline passed) the region client drops the request unsent and the scanner lease stays open")
			}
			c.Check(e == nil && hasID && hasClose, crs, "id-cleared-after-close-request", st.Pos(), "cleared only after a close request with ScannerID(id)+CloseScanner() was started (or the scan is itself closing)",
				"closeRegionScanner forgets the id without sending an explicit close for it: "+c.BlockPath(e))
		default:
			c.Bad(a.Fn, "id-cleared", st.Pos(), "the region-scanner id is reset in an unexpected place: the server-side scanner may be left open", "")
		}
	}

	// ---- R3 ---------------------------------------------------------------
	contextOfBackgroundRequestOutlivesItsCreator(c)
	everyResponseUpdatesTheScanner(c)

	c.StartRule("R3", "Close never blocks", 1)
	{
		reach := p.SyncReach([]*ssa.Function{closeFn}, nil)
		n := 0
		for _, fn := range reach.Order {
			for _, op := range kit.BlockingOps(fn) {
				n++
				c.Bad(fn, "blocking-in-close "+op.Kind, op.Instr.Pos(), "blocking operation in the synchronous closure of scanner.Close: Close can hang", reachPath(reach, fn))
			}
		}
		if n == 0 {
			var names []string
			for _, f := range reach.Order {
				names = append(names, kit.FuncName(f))
			}
			c.OK(closeFn, "no-blocking-op", closeFn.Pos(), "no blocking operation in "+strings.Join(names, ", "))
		}
		c.Table("C14.R3: the call of the stored context.CancelFunc (renewCancel) is not followed (cancel functions do not block)")
	}

	// ---- R4 ---------------------------------------------------------------
	c.StartRule("R4", "errors are reported only while the scanner is open (or holds unreported rows, which are dropped); io.EOF only when nothing is buffered", 6)
	// the error a scanner request ends with is classified by the stated table: an exception that is not retryable
	// there (UnknownScannerException: the lease is gone) must reach Next instead of being retried for ever
	exceptionTableOracle(c)
	kit.Instrs(next, func(in ssa.Instruction) {
		r, ok := in.(*ssa.Return)
		if !ok {
			return
		}
		ev0 := returnedError(r)
		if ev0 == nil {
			return
		}
		// one verdict per error value that can be returned here (a helper's returns are merged into one)
		for _, lf := range valueLeaves(ev0, r.Block()) {
			ev := lf.val
			if kit.IsNilConst(kit.Root(ev)) || isEOF(ev) {
				continue
			}
			if ex, ok := ev.(*ssa.Extract); ok {
				if call, ok := ex.Tuple.(*ssa.Call); ok && kit.CalleeName(call) == kit.M("", "*scanner", "peek") {
					c.OK(next, "error-from-peek", r.Pos(), "error produced by peek (checked below: only while open)")
					continue
				}
			}
			// the blocks control came through to select this value
			var froms []*ssa.BasicBlock
			for ph, i := range lf.path {
				froms = append(froms, ph.Block().Preds[i])
			}
			good, why := closedFalseAt(r.Block()) || closedFalseIn(lf.facts), "returned only on the edge where the scanner is not closed"
			if !good {
				// or: on every way here the scanner is open or still holds fetched rows (nothing was reported yet), and
				// those rows are dropped before the error is returned, so that the next call answers io.EOF
				dropped := false
				kit.Instrs(next, func(x ssa.Instruction) {
					if st, ok := x.(*ssa.Store); ok {
						if fa, ok := st.Addr.(*ssa.FieldAddr); ok && kit.FieldVar(fa.X.Type(), fa.Field) == resultsF && kit.IsNilConst(kit.Root(st.Val)) {
							if kit.Dominates(st, r) {
								dropped = true
							}
							for _, fb := range froms {
								if st.Block() == fb || st.Block().Dominates(fb) {
									dropped = true
								}
							}
						}
					}
				})
				want := func(facts []kit.Fact) bool { return closedFalseIn(facts) || resultsEmptyIn(facts, false) }
				ok := kit.OnAllWays(r.Block(), want, 0)
				for _, fb := range froms {
					ok = ok || kit.OnAllWays(fb, want, 0)
				}
				if dropped && ok {
					good, why = true, "returned only where the scanner is open or still holds fetched rows, which are dropped first: the next call answers io.EOF"
				}
			}
			c.Check(good, next, "error-while-open", r.Pos(), why, "Next can report this error although the scanner is already closed and has nothing buffered: a cancelled or failed scanner reports the error on every call instead of once followed by io.EOF")
		}
	})
	// end-of-scan is never answered over rows that were fetched and not yet handed out
	for _, fn := range []*ssa.Function{next, peek} {
		kit.Instrs(fn, func(in ssa.Instruction) {
			r, ok := in.(*ssa.Return)
			if !ok || !isEOF(returnedError(r)) {
				return
			}
			c.Check(resultsEmptyIn(kit.FactsAt(r.Block()), true), fn, "eof-only-when-drained", r.Pos(), "io.EOF is answered only where the buffer of fetched rows is known to be empty", "io.EOF can be answered while fetched rows are still buffered (the scanner closes itself when the last response arrives): the scan ends cleanly although rows are missing, the caller cannot tell")
		})
	}
	kit.Instrs(peek, func(in ssa.Instruction) {
		r, ok := in.(*ssa.Return)
		if !ok {
			return
		}
		ev := returnedError(r)
		if ev == nil || kit.IsNilConst(kit.Root(ev)) || isEOF(ev) {
			return
		}
		good := false
		if ex, ok := ev.(*ssa.Extract); ok {
			if call, ok := ex.Tuple.(*ssa.Call); ok && kit.CalleeName(call) == kit.M("", "*scanner", "fetch") {
				good = closedFalseAt(call.Block())
			}
		}
		c.Check(good, peek, "peek-error-while-open", r.Pos(), "peek's error comes from fetch, called only on the not-closed edge", "peek can produce an error while the scanner is closed")
	})

	errorCarriesAssembledRow(c)

	// ---- R5 ---------------------------------------------------------------
	c.StartRule("R5", "the renewer is cancelled before every fetch and on close", 2)
	renewerNeverEndsTheScan(c)
	renewerStopsOnError(c)
	scanRequestLevelOptions(c)
	cancelCall := func(in ssa.Instruction) bool {
		call, ok := in.(*ssa.Call)
		return ok && !call.Call.IsInvoke() && isLoadOfField(call.Call.Value, renewF)
	}
	nilEdge := func(from, to *ssa.BasicBlock) bool {
		for _, f := range kit.EdgeFacts(from, to) {
			if cmp, ok := kit.CanonCmp(f.Cond, f.Pol); ok && cmp.Op == token.EQL && kit.IsNilConst(cmp.Y) && isLoadOfField(cmp.X, renewF) {
				return true
			}
		}
		return false
	}
	for _, call := range kit.Calls(peek, kit.M("", "*scanner", "fetch")) {
		e := kit.PathFromEntry(peek, kit.PathQuery{
			Target:   func(in ssa.Instruction) bool { return in == call.(ssa.Instruction) },
			Stop:     cancelCall,
			SkipEdge: nilEdge,
		})
		c.Check(e == nil, peek, "renew-cancel-before-fetch", call.Pos(), "a running renewer is cancelled before the next fetch", "fetch can run while the renewer of the previous response is still active: "+c.BlockPath(e))
	}
	// a renewer is only started while the scanner is open (Close cannot stop one that starts later)
	for _, fn := range []*ssa.Function{peek} {
		kit.Instrs(fn, func(in ssa.Instruction) {
			g, ok := in.(*ssa.Go)
			if !ok || !strings.HasSuffix(kit.CalleeName(g), "scanner).renewLoop") {
				return
			}
			// the test must be fresh: no scanner method (fetch, Close, ...) runs between the test's load and the go statement
			fresh := false
			for _, f := range kit.FactsAt(g.Block()) {
				var ld ssa.Value
				if !f.Pol && isLoadOfField(f.Cond, closedF) {
					ld = f.Cond
				} else if u, ok := f.Cond.(*ssa.UnOp); ok && f.Pol && u.Op == token.NOT && isLoadOfField(u.X, closedF) {
					ld = u.X
				}
				li, ok := ld.(ssa.Instruction)
				if !ok {
					continue
				}
				stale := false
				kit.Instrs(fn, func(x ssa.Instruction) {
					call, ok := x.(ssa.CallInstruction)
					if !ok || x == li {
						return
					}
					if callee := kit.StaticCallee(call); callee != nil && callee.Signature.Recv() != nil && strings.HasSuffix(callee.Signature.Recv().Type().String(), "gohbase.scanner") && x != ssa.Instruction(g) {
						// a getter (no store, no call) cannot close the scanner
						pure := true
						kit.Instrs(callee, func(y ssa.Instruction) {
							switch y.(type) {
							case *ssa.Store, *ssa.MapUpdate, ssa.CallInstruction, *ssa.Send:
								pure = false
							}
						})
						if pure {
							return
						}
						if kit.Reaches(li, x) && kit.Reaches(x, g) {
							stale = true
						}
					}
				})
				if !stale {
					fresh = true
				}
			}
			// a region scanner that is known to be open implies an open scanner (Close clears the id: R1/R2)
			for _, f := range kit.FactsAt(g.Block()) {
				if closed, ok := scannerClosedFact(p, f); ok && !closed {
					fresh = true
				}
			}
			c.Check(fresh, fn, "renewer-only-while-open", g.Pos(), "the renew goroutine is started on the not-closed edge", "a lease renewer can be started after the scan has finished: Close returns early on a closed scanner and never cancels it, so it keeps sending renew requests (which, without a scanner id, open new server-side scanners)")
			// ... and only while there is a region scanner to renew: a renewal request without a scanner id is, for the
			// server, a request to open a scanner on the next region
			hasScanner := false
			for _, f := range kit.FactsAt(g.Block()) {
				if closed, ok := scannerClosedFact(p, f); ok && !closed {
					hasScanner = true
				}
			}
			// the renewer lives under the scan's context: a cancelled scan whose caller never calls Next or Close again
			// must not keep the lease of its region scanner alive for ever
			underScan := false
			if len(g.Call.Args) > 0 {
				v := kit.Root(g.Call.Args[len(g.Call.Args)-2])
				for _, a := range g.Call.Args {
					if isCtxType(a) {
						v = kit.Root(a)
					}
				}
				if ex, ok := v.(*ssa.Extract); ok {
					if with, ok := ex.Tuple.(*ssa.Call); ok && strings.HasPrefix(kit.CalleeName(with), "context.With") && len(with.Call.Args) > 0 {
						if parent, ok := kit.Root(with.Call.Args[0]).(*ssa.Call); ok {
							n := kit.CalleeName(parent)
							if n == hrpcCall+"Context" || (strings.Contains(n, "/hrpc.") && strings.HasSuffix(n, ").Context")) {
								underScan = true
							}
						}
					}
				}
			}
			c.Check(underScan, fn, "renewer-under-scan-context", g.Pos(), "the renewer's context is derived from the scan's context", "the lease renewer does not run under the scan's context: when the scan is cancelled and its caller never calls Next or Close again, the renewer keeps renewing the lease of a region scanner that nobody will read or close")
			c.Check(hasScanner, fn, "renewer-only-with-open-scanner", g.Pos(), "the renew goroutine is started only where a region scanner is known to be open", "the lease renewer is started although no region scanner is open (the response has just exhausted the region): every tick sends renew=true without a scanner id, which opens a scanner on the next region that nobody reads or closes")
		})
	}
	{
		e := kit.PathFromEntry(closeFn, kit.PathQuery{
			Target: func(in ssa.Instruction) bool {
				cc, ok := in.(*ssa.Call)
				return ok && kit.CalleeName(cc) == kit.M("", "*scanner", "closeRegionScanner")
			},
			Stop:     cancelCall,
			SkipEdge: nilEdge,
		})
		c.Check(e == nil, closeFn, "renew-cancel-on-close", closeFn.Pos(), "Close cancels a running renewer", "Close leaves the renewer running: "+c.BlockPath(e))
	}
}

// runC14All: the rules of C14 plus what "reports an error once, together with the assembled row" needs of Next.
func runC14All(c *kit.Ctx) {
	runC14(c)
	if !c.Frozen {
		embed(c, "R6", "an error ends the scan with the error, never with a truncated row handed out as complete (the row-assembly rules of C06, run as one rule here)", 20, runC06)
	}
}
