package props

import (
	"go/token"
	"strings"

	"golang.org/x/tools/go/ssa"

	"gohbaseverif/bounds"
	"gohbaseverif/kit"
)

func init() {
	register("C06", &Property{
		Title: "A scan returns exactly the rows in range, in order, whole, once",
		Explanation: "Narrow - necessary conditions only: (R1) the scan-response decoder pairs cells_per_result[i] with partial_flag_per_result[i] under a guard that both arrays have the same length, stores result i at index i, and advances the cellblock cursor by what each nested decode returned (bounds and cursor discharged by the C11 engine); " +
			"(R2) without AllowPartialResults, Next returns a result with a nil error only on the edge where the assembled result is not partial, or after the stream ended (io.EOF) with a row assembled; " +
			"(R3) scanner.request builds the opening request from the scanner's current start row, the scan's stop row and its options, the continuation request from the current region-scanner id, and returns the region of the very call it sent; " +
			"(R4) scanner.update derives the next start row from the region it was given (forward: its stop key; reversed: from its start key) only on the edge where the server reported no more results in that region." +
			" Added after the seeded-change rounds: (R2) every verdict of isDone is reached through the test of the response's more_results flag; update opens a region scanner only when the response carries a scanner id; the byte slices returned by the RegionInfo getters are never written through.",
		Residue:   "everything value-level: which rows are returned, their order, exactly-once, for every chunking of the stream and every region layout; the reversed-scan 'closest row before' approximation",
		Technique: "index/cursor obligations from the bounds engine, dominance on the SSA CFG, value provenance",
		Run:       runC06,
	})
}

func runC06(c *kit.Ctx) {
	p := c.P
	dcb := c.Anchor("hrpc", "Scan", "DeserializeCellBlocks")
	next := c.Anchor("", "scanner", "Next")
	req := c.Anchor("", "scanner", "request")
	upd := c.Anchor("", "scanner", "update")
	if dcb == nil || next == nil || req == nil || upd == nil {
		return
	}

	// ---- R1 ---------------------------------------------------------------
	c.StartRule("R1", "scan response arrays are paired index by index under a length guard", 4)
	{
		eng := bounds.New(p)
		guardsAreTight(c, eng, []*ssa.Function{p.Func("hrpc", "", "cellFromCellBlock")})
		noResponseBufferRecycling(c)
		n := 0
		for _, o := range eng.Obligations(dcb) {
			n++
			if o.OK {
				c.OK(dcb, o.Kind+" "+o.Text, posOf(o.Instr), o.Why)
			} else {
				c.Bad(dcb, o.Kind+" "+o.Text, posOf(o.Instr), "the scan-response decoder can index outside one of the per-result arrays: "+o.Why, "")
			}
		}
		if n < 3 {
			c.Unk(dcb, "obligations", dcb.Pos(), "fewer index obligations than confirmed in Scan.DeserializeCellBlocks")
		}
		// same index for the partial flag, the cell count and the result slot
		var idx ssa.Value
		same := true
		cnt := 0
		kit.Instrs(dcb, func(in ssa.Instruction) {
			ia, ok := in.(*ssa.IndexAddr)
			if !ok {
				return
			}
			if _, isR := rangeOfIndex(ia.Index); !isR {
				return
			}
			cnt++
			if idx == nil {
				idx = ia.Index
			} else if idx != ia.Index {
				same = false
			}
		})
		// the shared cellblock is consumed through a cursor that advances by what each nested decode returned
		cursors := eng.Cursors(dcb)
		var bParam *ssa.Parameter
		for _, pa := range dcb.Params {
			if pa.Type().String() == "[]byte" {
				bParam = pa
			}
		}
		for _, call := range kit.Calls(dcb, kit.M("hrpc", "", "deserializeCellBlocks")) {
			good := false
			if sl, ok := call.Common().Args[0].(*ssa.Slice); ok && sl.X == ssa.Value(bParam) && sl.High == nil && sl.Low != nil {
				if ph, ok := kit.Strip(sl.Low).(*ssa.Phi); ok && cursors[ph] == ssa.Value(bParam) {
					good = true
				}
			}
			c.Check(good, dcb, "cells-cursor", call.Pos(), "result i takes its cells from b[cursor:], the cursor advancing by what each decode returned", "the cells of result i are not read from where result i-1 ended: rows get each other's cells")
		}
		scanResultsFullyPopulated(c)
		c.Check(same && cnt >= 3, dcb, "same-index", dcb.Pos(), "cell count, partial flag and result slot use the one range index", "the per-result arrays are indexed with different indices")
	}

	// ---- R2 ---------------------------------------------------------------
	c.StartRule("R2", "whole rows only, unless partial results were asked for", 3)
	noFetchedRowIsSkipped(c)
	fetchEndsOnlyWhenTheScanIsOver(c)
	endOfScanRowHasCells(c)
	decodedFlagsAreNotShared(c)
	{
		eof := p.SSA.ImportedPackage("io")
		var eofG *ssa.Global
		if eof != nil {
			eofG, _ = eof.Members["EOF"].(*ssa.Global)
		}
		kit.Instrs(next, func(in ssa.Instruction) {
			r, ok := in.(*ssa.Return)
			if !ok {
				return
			}
			ev := returnedError(r)
			if ev == nil || !kit.IsNilConst(kit.Root(ev)) || kit.IsNilConst(kit.Root(kit.Res(r, 0))) {
				return
			}
			why := ""
			for _, f := range kit.FactsAt(r.Block()) {
				if call, ok := f.Cond.(*ssa.Call); ok {
					n := kit.CalleeName(call)
					if f.Pol && strings.HasSuffix(n, "hrpc.Scan).AllowPartialResults") {
						why = "the caller asked for partial results"
					}
					if !f.Pol && strings.HasSuffix(n, "pb.Result).GetPartial") {
						why = "the assembled result is not partial"
					}
				}
				if cmp, ok := kit.CanonCmp(f.Cond, f.Pol); ok && cmp.Op == token.EQL && eofG != nil && (isGlobalLoad(cmp.Y, eofG) || isGlobalLoad(cmp.X, eofG)) {
					why = "the stream ended (io.EOF): what was assembled is the whole rest of the row"
				}
			}
			c.Check(why != "", next, "row-returned", r.Pos(), why, "Next can return a row with a nil error while it may still be a partial fragment")
		})
	}

	// fragments are split into different rows only when their row keys differ
	if co := c.Anchor("", "scanner", "coalesce"); co != nil {
		n := 0
		kit.Instrs(co, func(in ssa.Instruction) {
			r, ok := in.(*ssa.Return)
			if !ok || len(r.Results) != 2 {
				return
			}
			k, isC := kit.Res(r, 1).(*ssa.Const)
			if !isC || k.Value == nil || k.Value.ExactString() != "false" {
				return
			}
			// the early return for an already complete result
			complete := false
			rowsDiffer := false
			for _, f := range kit.FactsAt(r.Block()) {
				if call, ok := f.Cond.(*ssa.Call); ok {
					if !f.Pol && strings.HasSuffix(kit.CalleeName(call), "pb.Result).GetPartial") && call.Call.Args[0] == ssa.Value(co.Params[1]) {
						complete = true
					}
					if !f.Pol && kit.CalleeName(call) == "bytes.Equal" {
						rowsDiffer = true
					}
				}
			}
			if complete {
				return
			}
			n++
			c.Check(rowsDiffer, co, "new-row-only-if-keys-differ", r.Pos(), "a pending partial row is closed without the next fragment only when the fragment's row key differs", "coalesce can refuse to merge a fragment for a reason other than a different row key: the last fragment of a split row is returned as a row of its own")
		})
		if n == 0 {
			c.Unk(co, "new-row", co.Pos(), "coalesce no longer has a 'new row' exit")
		}
	}

	moreResultsFirst(c)
	errorCarriesAssembledRow(c)
	scanEndBoundaries(c)

	// ---- R3 ---------------------------------------------------------------
	c.StartRule("R3", "open/continue request provenance", 3)
	endOfTableIsDecidedByLength(c)
	scanRequestLevelOptions(c)
	{
		startRowF := p.Field("", "scanner", "startRow")
		idF := p.Field("", "scanner", "curRegionScannerID")
		calls := kit.Calls(req, kit.M("hrpc", "", "NewScanRange"))
		if len(calls) != 2 || startRowF == nil || idF == nil {
			c.Unk(req, "shape", req.Pos(), "scanner.request no longer builds exactly an opening and a continuation request")
		} else {
			for _, call := range calls {
				a := call.Common().Args
				open := false
				for _, f := range kit.FactsAt(call.Block()) {
					if closed, ok := scannerClosedFact(p, f); ok && closed {
						open = true
					}
				}
				if open {
					stop, ok := kit.Strip(a[3]).(*ssa.Call)
					okStop := ok && strings.HasSuffix(kit.CalleeName(stop), "hrpc.Scan).StopRow")
					opts, ok2 := kit.Strip(a[4]).(*ssa.Call)
					okOpts := ok2 && strings.HasSuffix(kit.CalleeName(opts), ".Options")
					c.Check(isLoadOfField(a[2], startRowF) && okStop && okOpts, req, "open-request", call.Pos(), "opening request: (s.startRow, s.rpc.StopRow(), s.rpc.Options()...)", "the request that opens a region scanner is not built from the scanner's current start row, the scan's stop row and its options")
				} else {
					hasID := false
					for _, sc := range kit.Calls(req, kit.M("hrpc", "", "ScannerID")) {
						if isLoadOfField(sc.Common().Args[0], idF) && sc.(ssa.Instruction).Block() == call.(ssa.Instruction).Block() {
							hasID = true
						}
					}
					c.Check(hasID, req, "continue-request", call.Pos(), "continuation request carries ScannerID(s.curRegionScannerID)", "the continuation request does not carry the current region-scanner id")
					c.Check(isLoadOfField(a[2], startRowF), req, "continue-request-routing", call.Pos(), "the continuation request is keyed by s.startRow (the region that holds the open scanner)", "the continuation request is keyed by something other than the scanner's current start row: the row is also the routing key, so from the second region on the request (and the region its answer is attributed to) is the scan's first region - rows repeat and later regions are never reached")
				}
			}
			// region returned = Region() of the call that was sent
			sends := kit.Calls(req, kit.M("", "RPCClient", "SendRPC"))
			good := false
			if len(sends) == 1 {
				sent := kit.Root(sends[0].Common().Args[0])
				kit.Instrs(req, func(in ssa.Instruction) {
					r, ok := in.(*ssa.Return)
					if !ok || len(r.Results) != 3 {
						return
					}
					if rc, ok := kit.Strip(kit.Res(r, 1)).(*ssa.Call); ok && strings.HasSuffix(kit.CalleeName(rc), ".Region") {
						recv := rc.Call.Args[0]
						if fa, ok := recv.(*ssa.FieldAddr); ok {
							recv = fa.X
						}
						if kit.Root(recv) == sent {
							good = true
						}
					}
				})
			}
			c.Check(good, req, "region-of-sent-call", req.Pos(), "the region reported is Region() of the request that was sent", "scanner.request reports a region that is not the one the request was actually sent to")
		}
	}

	// ---- R4 ---------------------------------------------------------------
	c.StartRule("R4", "next start row comes from the answered region", 2)
	regionKeysAreNotWrittenThrough(c)
	renewerNeverEndsTheScan(c)
	{
		startRowF := p.Field("", "scanner", "startRow")
		regionP := paramOfType(upd, "/hrpc.RegionInfo", 0)
		n := 0
		kit.Instrs(upd, func(in ssa.Instruction) {
			st, ok := in.(*ssa.Store)
			if !ok {
				return
			}
			fa, ok := st.Addr.(*ssa.FieldAddr)
			if !ok || kit.FieldVar(fa.X.Type(), fa.Field) != startRowF {
				return
			}
			n++
			exhausted, reversedKnown, reversed := false, false, false
			for _, f := range kit.FactsAt(st.Block()) {
				if cc, ok := f.Cond.(*ssa.Call); ok {
					nm := kit.CalleeName(cc)
					if !f.Pol && strings.HasSuffix(nm, "ScanResponse).GetMoreResultsInRegion") {
						exhausted = true
					}
					if strings.HasSuffix(nm, "hrpc.Scan).Reversed") {
						reversedKnown, reversed = true, f.Pol
					}
				}
			}
			// value provenance
			fromStop, fromStart := false, false
			seen := map[ssa.Value]bool{}
			var walk func(v ssa.Value)
			walk = func(v ssa.Value) {
				v = kit.Strip(v)
				if v == nil || seen[v] {
					return
				}
				seen[v] = true
				switch x := v.(type) {
				case *ssa.Call:
					nm := kit.CalleeName(x)
					if nm == hrpcRI+"StopKey" && x.Call.Value == ssa.Value(regionP) {
						fromStop = true
					}
					if nm == hrpcRI+"StartKey" && x.Call.Value == ssa.Value(regionP) {
						fromStart = true
					}
					if nm == "builtin.append" {
						// what is appended to, and what is appended (tmp = append(tmp, rsk[:last]...))
						for _, a := range x.Call.Args {
							walk(a)
						}
					}
				case *ssa.Slice:
					walk(x.X)
				case *ssa.Phi:
					for _, e := range x.Edges {
						walk(e)
					}
				case *ssa.MakeSlice:
					// tmp := make(...); copy(tmp, rsk)
					for _, r := range kit.Referrers(x) {
						if cc, ok := r.(*ssa.Call); ok && kit.CalleeName(cc) == "builtin.copy" && cc.Call.Args[0] == ssa.Value(x) {
							walk(cc.Call.Args[1])
						}
					}
				}
			}
			walk(st.Val)
			good := exhausted && reversedKnown && ((!reversed && fromStop) || (reversed && fromStart))
			c.Check(good, upd, "next-start-row", st.Pos(), "set on the region-exhausted edge from the answered region's stop key (forward) / start key (reversed)", "the next start row is not derived from the region that answered (or is set although the region still has results): rows are skipped or returned twice")
		})
		if n == 0 {
			c.Unk(upd, "next-start-row", upd.Pos(), "scanner.update no longer sets the next start row")
		}
		// the region scanner is recorded as open whenever the response carries a scanner id - presence, not value
		for _, call := range kit.Calls(upd, kit.M("", "*scanner", "openRegionScanner")) {
			present := false
			for _, f := range kit.FactsAt(call.Block()) {
				if cmp, ok := kit.CanonCmp(f.Cond, f.Pol); ok && cmp.Op == token.NEQ && kit.IsNilConst(cmp.Y) {
					if _, fv := kit.FieldRead(cmp.X); fv != nil && fv.Name() == "ScannerId" {
						present = true
					}
				}
			}
			c.Check(present, upd, "scanner-id-presence", call.Pos(), "a region scanner is recorded on the edge 'the response has a scanner_id field' (nil test)", "whether a region scanner was opened is decided from the value of scanner_id, not from its presence: a server-assigned id of 0 is not recorded, the region is re-opened from the same start row and its first batch is returned twice")
		}
		regionAttributesAreImmutable(c)
		// reversed scans: decrementing the last byte of the region start key must not wrap
		kit.Instrs(upd, func(in ssa.Instruction) {
			bo, ok := in.(*ssa.BinOp)
			if !ok || bo.Op != token.SUB || bo.Type().String() != "byte" && bo.Type().String() != "uint8" {
				return
			}
			guarded := false
			for _, f := range kit.FactsAt(bo.Block()) {
				cmp, ok := kit.CanonCmp(f.Cond, f.Pol)
				if !ok || cmp.Op != token.NEQ {
					continue
				}
				if k, ok := kit.ConstInt(cmp.Y); ok && k == 0 && (cmp.X.Type().String() == "byte" || cmp.X.Type().String() == "uint8") {
					guarded = true
				}
			}
			c.Check(guarded, upd, "byte-decrement-guarded", bo.Pos(), "the last byte is decremented only on the edge where it is not 0x00 (otherwise the key is shortened)", "the last byte of the region start key is decremented without excluding 0x00: it wraps to 0xff and the next start row lies beyond the region boundary (rows repeat, the scan does not end)")
		})
	}

	// ---- R5 ---------------------------------------------------------------
	if !c.Frozen {
		embed(c, "R5", "a region scanner is forgotten only when the server has finished or released it, and ending a scan never blocks the delivery of rows (the rules of C14, run as one rule here)", 15, runC14)
	}
}

// moreResultsFirst: shared by C06.R2 and C14.R1.
func moreResultsFirst(c *kit.Ctx) {
	// the server's "no more results at all" ends the scan whatever the state of the region scanner
	if isd := c.Anchor("", "scanner", "isDone"); isd != nil {
		var mrIf *ssa.If
		kit.Instrs(isd, func(in ssa.Instruction) {
			iff, ok := in.(*ssa.If)
			if !ok || mrIf != nil {
				return
			}
			if cmp, ok := kit.CanonCmp(iff.Cond, true); ok && kit.IsNilConst(cmp.Y) {
				if _, f := kit.FieldRead(cmp.X); f != nil && f.Name() == "MoreResults" {
					mrIf = iff
				}
			}
			// the generated getter reads the same flag (nil reads as false)
			cond := iff.Cond
			if u, ok := cond.(*ssa.UnOp); ok && u.Op == token.NOT {
				cond = u.X
			}
			if call, ok := cond.(*ssa.Call); ok {
				if fn := kit.StaticCallee(call); fn != nil && fn.Name() == "GetMoreResults" {
					mrIf = iff
				}
			}
		})
		good := mrIf != nil
		if good {
			kit.Instrs(isd, func(in ssa.Instruction) {
				if r, ok := in.(*ssa.Return); ok && !mrIf.Block().Dominates(r.Block()) {
					good = false
				}
			})
		}
		c.Check(good, isd, "more-results-first", isd.Pos(), "every verdict of isDone is reached through the test of the response's more_results flag", "isDone can answer without looking at more_results: when the server ends the scan mid-region (more_results=false with the region scanner still open) the client keeps asking with a scanner id the server already released")
	}
}
