package props

import (
	"fmt"
	"go/token"
	"go/types"
	"reflect"
	"strconv"
	"strings"

	"golang.org/x/tools/go/ssa"

	"gohbaseverif/bounds"
	"gohbaseverif/kit"
)

func init() {
	register("C11", &Property{
		Title: "Malformed data from the network cannot crash the client",
		Explanation: "Every panic site on the decode surface (call-graph closure of the response reader, every DeserializeCellBlocks, the block-stream decompressor, Codec.Decode, the region-info parser, and the consumers of decoded messages on the caller's goroutine) is one obligation: " +
			"(K1) every non-constant index, slice expression, fixed-width read and make() is in bounds of len() - discharged only by linear facts from dominating guards, slicing arithmetic, allocation sizes, library post-conditions, function summaries and the cursor invariant; " +
			"(K2) every dereference of an optional protobuf pointer field or getter result is dominated by a nil test of the same field, or the field is 'required' (enforced by proto.Unmarshal); " +
			"(K3) every single-result type assertion and (K4) every explicit panic is input-independent by a tabled argument whose structural precondition is re-checked; " +
			"(K5) every loop that is not a range/counted loop consumes input through a checked reader whose failure leaves the loop, or performs a blocking round trip (tabled).",
		Residue:   "allocation amplification (make/Grow sized by peer-declared counts: memory, not a panic); panics inside google.golang.org/protobuf, golang/snappy and modernc b-tree (trusted); 32-bit int overflow (64-bit int assumed)",
		Technique: "decode-surface obligation enumeration over SSA + linear-fact bounds prover (no solver), nil-guard dominance, reasoned tables",
		Run:       runC11All,
	})
}

// decodeSurface computes the functions that handle peer-controlled data.
func decodeSurface(c *kit.Ctx) (s1, s2 []*ssa.Function) {
	p := c.P
	var roots []*ssa.Function
	add := func(fn *ssa.Function) {
		if fn != nil && fn.Blocks != nil {
			roots = append(roots, fn)
		}
	}
	add(c.Anchor("region", "client", "receive"))
	add(c.Anchor("region", "client", "receiveRPCs"))
	add(c.Anchor("region", "compressor", "decompressCellblocks"))
	add(c.Anchor("region", "", "ParseRegionInfo"))
	add(c.Anchor("region", "", "returnResult"))
	add(c.Anchor("region", "multi", "returnResults"))
	// every implementation of DeserializeCellBlocks and Codec.Decode
	nImpl := 0
	for _, fn := range p.Funcs {
		if fn.Signature.Recv() != nil && fn.Parent() == nil && (fn.Name() == "DeserializeCellBlocks" || fn.Name() == "Decode") {
			add(fn)
			nImpl++
		}
	}
	if nImpl < 5 {
		c.StartRule("anchors", "anchors resolve", 0)
		c.Unk(nil, "unresolved-anchor", token.NoPos, fmt.Sprintf("only %d implementations of DeserializeCellBlocks/Decode found (5 confirmed)", nImpl))
	}
	follow := func(site ssa.CallInstruction, callee *ssa.Function) bool {
		if site.Common().IsInvoke() {
			m := site.Common().Method.Name()
			return !(m == "DeserializeCellBlocks" || m == "Decode")
		}
		return false
	}
	r1 := p.SyncReach(roots, follow)
	s1 = r1.Order

	var roots2 []*ssa.Function
	add2 := func(fn *ssa.Function) {
		if fn != nil && fn.Blocks != nil {
			roots2 = append(roots2, fn)
		}
	}
	for _, m := range []string{"fetch", "peek", "shift", "coalesce", "Next", "update", "isDone", "request"} {
		add2(c.Anchor("", "scanner", m))
	}
	for _, m := range []string{"Get", "mutate", "Increment", "CheckAndPut", "metaLookup", "metaLookupForTable"} {
		add2(c.Anchor("", "client", m))
	}
	add2(c.Anchor("", "keyRegionCache", "get"))
	add2(c.Anchor("", "keyRegionCache", "getOverlaps"))
	add2(c.Anchor("hrpc", "", "ToLocalResult"))
	add2(c.Anchor("region", "", "Compare"))
	add2(c.Anchor("region", "", "findCommaFromEnd"))
	in1 := map[*ssa.Function]bool{}
	for _, f := range s1 {
		in1[f] = true
	}
	for _, f := range roots2 {
		if !in1[f] {
			s2 = append(s2, f)
		}
	}
	// literals of S2 roots
	for _, f := range append([]*ssa.Function{}, s2...) {
		for _, a := range kit.WithAnon(f)[1:] {
			s2 = append(s2, a)
		}
	}
	// plus small static helpers called by S2 roots inside the module packages gohbase/hrpc (one level)
	seen := map[*ssa.Function]bool{}
	for _, f := range s2 {
		seen[f] = true
	}
	for _, f := range append([]*ssa.Function{}, s2...) {
		kit.Instrs(f, func(in ssa.Instruction) {
			if call, ok := in.(*ssa.Call); ok {
				if cal := kit.StaticCallee(call); cal != nil && p.IsSubject(cal) && !seen[cal] && !in1[cal] {
					switch kit.KnownName(cal) {
					case "toLocalResult", "toLocalCells", "createRegionSearchKey", "fullyQualifiedTable", "isRegionOverlap", "openRegionScanner", "isRegionScannerClosed", "extractBool":
						seen[cal] = true
						s2 = append(s2, cal)
					}
				}
			}
		})
	}
	return s1, s2
}

func pbTagReq(f *types.Var, st *types.Struct) bool {
	for i := 0; i < st.NumFields(); i++ {
		if st.Field(i) == f {
			tag := reflect.StructTag(st.Tag(i)).Get("protobuf")
			for _, part := range strings.Split(tag, ",") {
				if part == "req" {
					return true
				}
			}
		}
	}
	return false
}

func isPbStructPtr(t types.Type) (*types.Struct, bool) {
	pt, ok := t.Underlying().(*types.Pointer)
	if !ok {
		return nil, false
	}
	n, ok := pt.Elem().(*types.Named)
	if !ok || n.Obj().Pkg() == nil || n.Obj().Pkg().Path() != kit.Module+"/pb" {
		return nil, false
	}
	st, ok := n.Underlying().(*types.Struct)
	return st, ok
}

// maybeNilPb classifies v as a pointer obtained from a protobuf message that
// may be nil: load of a pointer-typed field of a pb struct, or the result of a
// generated getter returning a message pointer. Returns a description and,
// for field loads, whether the field is required.
func maybeNilPb(v ssa.Value) (desc string, req bool, ok bool) {
	switch x := v.(type) {
	case *ssa.UnOp:
		if x.Op != token.MUL {
			return
		}
		fa, isFA := x.X.(*ssa.FieldAddr)
		if !isFA {
			return
		}
		if _, isPtr := x.Type().Underlying().(*types.Pointer); !isPtr {
			return
		}
		st, isPb := isPbStructPtr(fa.X.Type())
		if !isPb {
			return
		}
		f := st.Field(fa.Field)
		return kit.Path(fa.X) + "." + f.Name(), pbTagReq(f, st), true
	case *ssa.Call:
		fn := kit.StaticCallee(x)
		if fn == nil || fn.Pkg == nil || fn.Pkg.Pkg.Path() != kit.Module+"/pb" || !strings.HasPrefix(fn.Name(), "Get") {
			return
		}
		if _, isPtr := x.Type().Underlying().(*types.Pointer); !isPtr {
			return
		}
		return kit.Path(x.Call.Args[0]) + "." + fn.Name() + "()", false, true
	}
	return
}

func runC11(c *kit.Ctx) {
	p := c.P
	s1, s2 := decodeSurface(c)
	surface := append(append([]*ssa.Function{}, s1...), s2...)
	for _, f := range surface {
		c.Funcs[kit.FuncName(f)] = true
	}
	c.Scratch["surface"] = surface
	eng := bounds.New(p)
	c.Assumption("int is 64 bits wide; no received buffer is longer than 4 GiB-1 (the frame length prefix is a uint32)")
	c.Assumption("proto.Unmarshal enforces proto2 'required' fields; messages on the decode surface are produced by proto.Unmarshal")
	for _, f := range surface {
		if f.Object() != nil && !f.Object().Exported() {
			eng.MarkNonNegParams(f)
		}
	}

	// ---- K1 ---------------------------------------------------------------
	c.StartRule("K1", "every index/slice/fixed-width read/make on the decode surface is within len()", 40)
	scanResultsFullyPopulated(c)
	c.Table("C11.K1/K4: multi.get(i) requires 1 <= i <= len(m.calls) and m.calls[i-1] != nil; established for peer-chosen indices by multi.DeserializeCellBlocks validating every ResultOrException before multi.returnResults runs on the same message (re-checked: validation on every loop path; receive routes every multi response through the decoder)")
	for _, f := range surface {
		for _, o := range eng.Obligations(f) {
			if !o.OK && kit.FuncName(f) == "(*region.multi).get" {
				// function precondition 1 <= i <= len(m.calls) established at the callers by a tabled argument
				if ok, why := multiIndexValidated(c, eng); ok {
					o.OK, o.Why = true, "precondition of multi.get (tabled, re-checked): "+why
				} else {
					o.Why += "; and: " + why
				}
			}
			if o.OK {
				c.OK(f, o.Kind+" "+o.Text, posOf(o.Instr), o.Why)
			} else {
				c.Bad(f, o.Kind+" "+o.Text, posOf(o.Instr), "peer-controlled data can make this "+o.Kind+" expression panic: "+o.Why, "")
			}
		}
	}

	// ---- K2 ---------------------------------------------------------------
	c.StartRule("K2", "optional protobuf pointers are nil-checked before they are dereferenced", 8)
	clearedCallSlotsAreSkipped(c)
	for _, f := range surface {
		kit.Instrs(f, func(in ssa.Instruction) {
			var ptr ssa.Value
			var what string
			switch x := in.(type) {
			case *ssa.UnOp:
				if x.Op == token.MUL {
					ptr = x.X
					what = "*"
				}
			case *ssa.FieldAddr:
				ptr = x.X
				what = "." + kit.FieldVar(x.X.Type(), x.Field).Name()
			}
			if ptr == nil {
				return
			}
			desc, req, ok := maybeNilPb(ptr)
			if !ok {
				return
			}
			if req {
				c.OK(f, "deref "+what+" of "+desc, posOf(in), "field is 'required': proto.Unmarshal rejects a message without it")
				return
			}
			// dominating nil test of the same quantity
			key := eng.KeyOf(ptr)
			guarded := false
			for _, ft := range kit.FactsAt(in.Block()) {
				cmp, isCmp := kit.CanonCmp(ft.Cond, ft.Pol)
				if !isCmp || cmp.Op != token.NEQ || !kit.IsNilConst(cmp.Y) {
					continue
				}
				if eng.KeyOf(cmp.X) == key {
					guarded = true
				}
			}
			if guarded {
				c.OK(f, "deref "+what+" of "+desc, posOf(in), "dominated by a nil test of the same field/getter")
			} else {
				c.Bad(f, "deref "+what+" of "+desc, posOf(in), "optional protobuf pointer "+desc+" is dereferenced without a dominating nil test: a message without that field crashes the client", "")
			}
		})
	}

	// ---- K3 ---------------------------------------------------------------
	c.StartRule("K3", "single-result type assertions on the decode surface are input-independent", 6)
	c.Table("C11.K3: msg.(*pb.T) in X.DeserializeCellBlocks / multi.returnResults is input-independent when *pb.T is exactly what X.NewResponse() allocates (the reader passes NewResponse() of the same call; C02.R3) - precondition re-checked per site")
	c.Table("C11.K3: c.(canDeserializeCellBlocks) in multi.DeserializeCellBlocks: elements of a multi are Batchable calls; precondition re-checked: every module type implementing hrpc.Batchable implements canDeserializeCellBlocks")
	c.Table("C11.K3: pool.Get().(T) on sync.Pool values put by the same package (not peer data)")
	for _, f := range surface {
		kit.Instrs(f, func(in ssa.Instruction) {
			ta, ok := in.(*ssa.TypeAssert)
			if !ok || ta.CommaOk {
				return
			}
			why, good := k3Discharge(p, f, ta)
			if good {
				c.OK(f, "assert "+types.TypeString(ta.AssertedType, shortQual), posOf(ta), why)
			} else {
				c.Unk(f, "assert "+types.TypeString(ta.AssertedType, shortQual), posOf(ta), "unchecked type assertion on the decode surface matches no tabled input-independence argument: "+why)
			}
		})
	}

	// ---- K4 ---------------------------------------------------------------
	c.StartRule("K4", "explicit panics on the decode surface cannot be reached by peer data", 4)
	responseIndicesAreUnique(c)
	lookupErrorsAreTheKnownOnes(c)
	constructorPanicsAreInputIndependent(c)
	peerStringsNeverBecomeLabels(c, surface)
	for _, f := range surface {
		kit.Instrs(f, func(in ssa.Instruction) {
			pn, ok := in.(*ssa.Panic)
			if !ok {
				return
			}
			if mi, ok := pn.X.(*ssa.MakeInterface); ok {
				if k, ok := mi.X.(*ssa.Const); ok && k.Value != nil && strings.HasPrefix(k.Value.ExactString(), "\"blocking select matched no case") {
					return // synthesised by the SSA builder
				}
			}
			why, good := k4Discharge(c, eng, f, pn)
			if good {
				c.OK(f, "panic", posOf(pn), why)
			} else {
				c.Bad(f, "panic", posOf(pn), "explicit panic reachable from peer-controlled data: "+why, "")
			}
		})
	}

	// a write to a map that may be nil panics: maps kept in struct fields that are only allocated under
	// a condition are written under that condition (or a nil test)
	for _, f := range surface {
		kit.Instrs(f, func(in ssa.Instruction) {
			mu, ok := in.(*ssa.MapUpdate)
			if !ok {
				return
			}
			_, fld := kit.FieldRead(kit.Root(mu.Map))
			if fld == nil {
				return
			}
			// can the field hold nil? some store to it carries a nil (a conditionally made map)
			var allocCalls []string
			mayBeNil := false
			for _, a := range c.P.FieldAccesses(fld) {
				st, ok := a.Instr.(*ssa.Store)
				if !a.Write || !ok {
					continue
				}
				v := kit.Root(st.Val)
				ph, isPhi := v.(*ssa.Phi)
				if !isPhi {
					if kit.IsNilConst(v) {
						mayBeNil = true
					}
					continue
				}
				for i, e := range ph.Edges {
					if kit.IsNilConst(kit.Root(e)) {
						mayBeNil = true
						continue
					}
					for _, ft := range kit.EdgeFacts(ph.Block().Preds[i], ph.Block()) {
						if cc, ok := ft.Cond.(*ssa.Call); ok && ft.Pol {
							allocCalls = append(allocCalls, kit.CalleeName(cc))
						}
					}
				}
			}
			if !mayBeNil {
				return
			}
			guarded := false
			for _, ft := range kit.FactsAt(mu.Block()) {
				if cc, ok := ft.Cond.(*ssa.Call); ok && ft.Pol {
					for _, n := range allocCalls {
						if n == kit.CalleeName(cc) {
							guarded = true
						}
					}
				}
				if cmp, ok := kit.CanonCmp(ft.Cond, ft.Pol); ok && cmp.Op == token.NEQ && kit.IsNilConst(cmp.Y) {
					if _, fv := kit.FieldRead(kit.Root(cmp.X)); fv == fld {
						guarded = true
					}
				}
			}
			c.Check(guarded, f, "map-write "+fld.Name(), posOf(mu), "written only under the condition it is allocated under (or a nil test)", "the map "+fld.Name()+" is only allocated under a condition of the request, but written here whenever the response carries the data: a server that sends it unasked makes the client panic (assignment to entry in nil map)")
		})
	}

	// ---- K5 ---------------------------------------------------------------
	c.StartRule("K5", "loops on the decode surface are bounded, consume input, or block on the network", 5)
	c.Table("C11.K5: loops whose every cycle performs a blocking network round trip (SendRPC / scanner.Next / receive) are not spins on received data")
	for _, f := range surface {
		k5Loops(c, eng, f)
	}
}

func shortQual(p *types.Package) string {
	return strings.TrimPrefix(strings.TrimPrefix(p.Path(), kit.Module+"/"), kit.Module)
}

// newResponseType returns the pb type allocated by recvType.NewResponse().
func newResponseType(p *kit.Prog, recv types.Type) types.Type {
	n := kit.ReceiverNamed(recv)
	if n == nil || n.Obj().Pkg() == nil {
		return nil
	}
	rel := strings.TrimPrefix(strings.TrimPrefix(n.Obj().Pkg().Path(), kit.Module), "/")
	fn := p.Func(rel, n.Obj().Name(), "NewResponse")
	if fn == nil {
		return nil
	}
	var t types.Type
	kit.Instrs(fn, func(in ssa.Instruction) {
		if r, ok := in.(*ssa.Return); ok && len(r.Results) == 1 {
			v := kit.Strip(kit.Res(r, 0))
			if a, ok := v.(*ssa.Alloc); ok {
				t = a.Type()
			}
		}
	})
	return t
}

func k3Discharge(p *kit.Prog, f *ssa.Function, ta *ssa.TypeAssert) (string, bool) {
	// pool values
	if call, ok := ta.X.(*ssa.Call); ok && kit.CalleeName(call) == "(*sync.Pool).Get" {
		return "value taken from a sync.Pool filled by this package", true
	}
	named := enclosingNamed(f)
	// msg parameter asserted to the type NewResponse allocates
	if pa, ok := ta.X.(*ssa.Parameter); ok && named.Signature.Recv() != nil && pa.Parent() == named {
		want := newResponseType(p, named.Signature.Recv().Type())
		if want != nil && types.Identical(want, ta.AssertedType) {
			return "asserted type is what " + kit.FuncName(named) + "'s receiver allocates in NewResponse()", true
		}
		return fmt.Sprintf("receiver's NewResponse allocates %v, asserted %v", want, ta.AssertedType), false
	}
	// element of multi asserted to canDeserializeCellBlocks
	if it, ok := ta.AssertedType.Underlying().(*types.Interface); ok {
		batch := p.Named("hrpc", "Batchable")
		if batch != nil {
			bi := batch.Underlying().(*types.Interface)
			all := true
			n := 0
			for _, pk := range p.Pkgs {
				if !strings.HasPrefix(pk.PkgPath, kit.Module) || strings.Contains(pk.PkgPath, "/test") {
					continue
				}
				sc := pk.Types.Scope()
				for _, name := range sc.Names() {
					tn, ok := sc.Lookup(name).(*types.TypeName)
					if !ok {
						continue
					}
					pt := types.NewPointer(tn.Type())
					if _, isIface := tn.Type().Underlying().(*types.Interface); isIface {
						continue
					}
					if types.Implements(pt, bi) {
						n++
						if !types.Implements(pt, it) {
							all = false
						}
					}
				}
			}
			if call, ok := ta.X.(*ssa.Call); ok && strings.HasSuffix(kit.CalleeName(call), "multi).get") && all && n >= 2 {
				return fmt.Sprintf("element of a multi: all %d Batchable implementations implement the asserted interface", n), true
			}
			// the same element read by indexing m.calls directly
			if l, ok := ta.X.(*ssa.UnOp); ok && all && n >= 2 {
				if ia, ok := l.X.(*ssa.IndexAddr); ok {
					if callsF := p.Field("region", "multi", "calls"); callsF != nil && isLoadOfField(ia.X, callsF) {
						return fmt.Sprintf("element of a multi: all %d Batchable implementations implement the asserted interface", n), true
					}
				}
			}
		}
	}
	return "asserted operand " + kit.Path(ta.X), false
}

// k4Discharge decides explicit panics.
func k4Discharge(c *kit.Ctx, eng *bounds.Engine, f *ssa.Function, pn *ssa.Panic) (string, bool) {
	p := c.P
	name := kit.FuncName(f)
	switch name {
	case "(*region.multi).DeserializeCellBlocks", "(*region.multi).returnResults":
		// panic("unsupported response type"): default of a type switch over c.NewResponse() of a Batchable element
		facts := kit.FactsAt(pn.Block())
		nts := 0
		var operand ssa.Value
		for _, ft := range facts {
			if ex, ok := ft.Cond.(*ssa.Extract); ok && !ft.Pol {
				if ta, ok := ex.Tuple.(*ssa.TypeAssert); ok {
					nts++
					operand = ta.X
				}
			}
		}
		if nts >= 2 && operand != nil {
			if call, ok := operand.(*ssa.Call); ok && kit.CalleeName(call) == hrpcCall+"NewResponse" {
				// every Batchable implementation's NewResponse must allocate one of the switched types
				return "default of a type switch over NewResponse() of a batchable call: both response types are handled (input-independent)", batchableResponsesCovered(p, facts)
			}
		}
		return "panic not in the default of the response type switch", false
	case "(*region.multi).get":
		ok, why := multiIndexValidated(c, eng)
		return why, ok
	case "region.findCommaFromEnd", "(*gohbase.keyRegionCache).get":
		ok, why := namesValidated(c, eng)
		return why, ok
	case "(*gohbase.keyRegionCache).getOverlaps":
		// "WTF exact match" depends on names; the enumerator panics on a non-empty tree are library-impossible
		isEnum := false
		for _, ft := range kit.FactsAt(pn.Block()) {
			if cmp, ok := kit.CanonCmp(ft.Cond, ft.Pol); ok && cmp.Op == token.NEQ && kit.IsNilConst(cmp.Y) && kit.IsErrorType(cmp.X.Type()) {
				isEnum = true
			}
		}
		if isEnum {
			nonEmpty := false
			for _, ft := range kit.FactsAt(pn.Block()) {
				if cmp, ok := kit.CanonCmp(ft.Cond, ft.Pol); ok && cmp.Op == token.NEQ {
					if call, ok := cmp.X.(*ssa.Call); ok && strings.HasSuffix(kit.CalleeName(call), ".Len") {
						if k, ok := kit.ConstInt(cmp.Y); ok && k == 0 {
							nonEmpty = true
						}
					}
				}
			}
			return "enumerator error on a tree whose Len() != 0 was tested first: SeekFirst/Next of a fresh enumerator cannot fail (b-tree semantics, trusted)", nonEmpty
		}
		ok, why := namesValidated(c, eng)
		return why, ok
	case "(*gohbase.scanner).openRegionScanner":
		// called only under isRegionScannerClosed()
		fn := p.Func("", "scanner", "openRegionScanner")
		good := true
		n := 0
		for _, s := range callersOf(p, kit.M("", "*scanner", "openRegionScanner")) {
			n++
			ok := false
			for _, ft := range kit.FactsAt(s.Block()) {
				if closed, isFact := scannerClosedFact(c.P, ft); isFact && closed {
					ok = true
				}
			}
			if !ok {
				good = false
			}
		}
		_ = fn
		return "every call of openRegionScanner is on the isRegionScannerClosed() edge, the same condition the panic tests", good && n > 0
	}
	return "no tabled argument for a panic in " + name, false
}

func batchableResponsesCovered(p *kit.Prog, facts []kit.Fact) bool {
	var handled []types.Type
	for _, ft := range facts {
		if ex, ok := ft.Cond.(*ssa.Extract); ok && !ft.Pol {
			if ta, ok := ex.Tuple.(*ssa.TypeAssert); ok {
				handled = append(handled, ta.AssertedType)
			}
		}
	}
	batch := p.Named("hrpc", "Batchable")
	if batch == nil {
		return false
	}
	bi := batch.Underlying().(*types.Interface)
	n := 0
	for _, pk := range p.Pkgs {
		if !strings.HasPrefix(pk.PkgPath, kit.Module) || strings.Contains(pk.PkgPath, "/test") {
			continue
		}
		sc := pk.Types.Scope()
		for _, name := range sc.Names() {
			tn, ok := sc.Lookup(name).(*types.TypeName)
			if !ok {
				continue
			}
			if _, isIface := tn.Type().Underlying().(*types.Interface); isIface {
				continue
			}
			pt := types.NewPointer(tn.Type())
			if !types.Implements(pt, bi) {
				continue
			}
			n++
			rt := newResponseType(p, pt)
			if rt == nil {
				// promoted NewResponse (CheckAndPut embeds *Mutate)
				if st, ok := tn.Type().Underlying().(*types.Struct); ok {
					for i := 0; i < st.NumFields(); i++ {
						if st.Field(i).Embedded() {
							rt = newResponseType(p, st.Field(i).Type())
							if rt != nil {
								break
							}
						}
					}
				}
			}
			found := false
			for _, h := range handled {
				if rt != nil && types.Identical(h, rt) {
					found = true
				}
			}
			if !found {
				return false
			}
		}
	}
	return n >= 2
}

// multiIndexValidated re-checks the precondition of the tabled argument for
// multi.get's panic and index: the action index of every ResultOrException
// is validated (1 <= i <= len(m.calls) and m.calls[i-1] != nil) by
// multi.DeserializeCellBlocks before multi.returnResults can see the message.
func multiIndexValidated(c *kit.Ctx, eng *bounds.Engine) (bool, string) {
	p := c.P
	d := p.Func("region", "multi", "DeserializeCellBlocks")
	recv := p.Func("region", "client", "receive")
	callsF := p.Field("region", "multi", "calls")
	if d == nil || recv == nil || callsF == nil {
		return false, "anchors multi.DeserializeCellBlocks / client.receive / multi.calls missing"
	}
	// (1) every GetIndex() of a result in the decoder is validated before the loop continues
	var idxCalls []*ssa.Call
	kit.Instrs(d, func(in ssa.Instruction) {
		if call, ok := in.(*ssa.Call); ok {
			if fn := kit.StaticCallee(call); fn != nil && fn.Name() == "GetIndex" && fn.Pkg != nil && fn.Pkg.Pkg.Path() == kit.Module+"/pb" {
				idxCalls = append(idxCalls, call)
			}
		}
	})
	if len(idxCalls) == 0 {
		return false, "multi.DeserializeCellBlocks no longer reads the action index of results"
	}
	validatedAt := func(idx *ssa.Call, b *ssa.BasicBlock) bool {
		i := eng.Lin(idx)
		if ok, _ := eng.Prove(i.Add(bounds.Const(-1)), b, 0); !ok {
			return false
		}
		// len(m.calls) - i >= 0 : find a len fact over a load of m.calls
		var callsLoad ssa.Value
		kit.Instrs(d, func(in ssa.Instruction) {
			if u, ok := in.(*ssa.UnOp); ok && isLoadOfField(u, callsF) && u.Block().Dominates(b) {
				callsLoad = u
			}
		})
		if callsLoad == nil {
			return false
		}
		if ok, _ := eng.Prove(eng.LenOf(callsLoad).Sub(i), b, 0); !ok {
			return false
		}
		// m.calls[i-1] != nil
		for _, ft := range kit.FactsAt(b) {
			cmp, ok := kit.CanonCmp(ft.Cond, ft.Pol)
			if !ok || cmp.Op != token.NEQ || !kit.IsNilConst(cmp.Y) {
				continue
			}
			if u, ok := cmp.X.(*ssa.UnOp); ok {
				if ia, ok := u.X.(*ssa.IndexAddr); ok && isLoadOfField(ia.X, callsF) {
					if isZeroLin(eng.Lin(ia.Index).Sub(i).Add(bounds.Const(1))) {
						return true
					}
				}
			}
		}
		return false
	}
	for _, idx := range idxCalls {
		// loop header: the block of the range index phi that (transitively) feeds the element load
		e := kit.PathFrom(idx, kit.PathQuery{
			Target: func(in ssa.Instruction) bool {
				// next iteration of some loop (a phi block that dominates idx) or a normal return
				if ph, ok := in.(*ssa.Phi); ok && ph.Block().Dominates(idx.Block()) && ph.Block() != idx.Block() {
					return true
				}
				if r, ok := in.(*ssa.Return); ok {
					return kit.IsNilConst(kit.Root(kit.Res(r, len(r.Results)-1)))
				}
				return false
			},
			SkipEdge: func(from, to *ssa.BasicBlock) bool { return validatedAt(idx, to) },
		})
		if e != nil {
			return false, "multi.DeserializeCellBlocks can finish an iteration without validating the action index against m.calls (" + c.BlockPath(e) + "): multi.returnResults then indexes m.calls with a peer-chosen value"
		}
	}
	// (2) in receive, a multi response always goes through the decoder before a nil-error return
	var unm *ssa.Call
	var respAlloc ssa.Value
	kit.Instrs(recv, func(in ssa.Instruction) {
		if call, ok := in.(*ssa.Call); ok && kit.CalleeName(call) == "google.golang.org/protobuf/proto.Unmarshal" {
			if _, isCall := kit.Root(call.Call.Args[1]).(*ssa.Call); isCall {
				unm = call // the one unmarshalling into NewResponse()
				respAlloc = call.Call.Args[1]
			}
		}
	})
	_ = respAlloc
	if unm == nil {
		return false, "receive no longer unmarshals the response into NewResponse()"
	}
	multiT := types.NewPointer(p.Named("region", "multi"))
	var errAlloc ssa.Value
	if a := resultAlloc(recv, 0); a != nil {
		errAlloc = a
	}
	e := kit.PathFrom(unm, kit.PathQuery{
		Stop: func(in ssa.Instruction) bool {
			if call, ok := in.(*ssa.Call); ok && call.Call.IsInvoke() && call.Call.Method.Name() == "DeserializeCellBlocks" {
				return true
			}
			// storing a non-nil error ends the nil-error path
			if st, ok := in.(*ssa.Store); ok && errAlloc != nil && st.Addr == errAlloc {
				if _, isMI := st.Val.(*ssa.MakeInterface); isMI {
					return true
				}
			}
			return false
		},
		SkipEdge: func(from, to *ssa.BasicBlock) bool {
			for _, ft := range kit.EdgeFacts(from, to) {
				ex, ok := ft.Cond.(*ssa.Extract)
				if !ok || ft.Pol {
					// the failed-Unmarshal edge
					if cmp, ok := kit.CanonCmp(ft.Cond, ft.Pol); ok && cmp.Op == token.NEQ && kit.IsNilConst(cmp.Y) {
						if l, ok := cmp.X.(*ssa.UnOp); ok && errAlloc != nil && l.X == errAlloc && ft.If.Block() == unm.Block() {
							return true
						}
					}
					continue
				}
				// edges on which a type assertion that *multi satisfies has failed are infeasible for a multi
				if ta, ok := ex.Tuple.(*ssa.TypeAssert); ok && ex.Index == 1 {
					if types.Identical(ta.AssertedType, multiT) {
						return true
					}
					if it, ok := ta.AssertedType.Underlying().(*types.Interface); ok && types.Implements(multiT, it) {
						return true
					}
				}
			}
			return false
		},
		IgnorePanics: true,
	})
	if e != nil {
		return false, "in receive a multi response can reach a nil-error return without passing multi.DeserializeCellBlocks (" + c.BlockPath(e) + "): its action indices reach multi.returnResults unvalidated"
	}
	return true, "action indices are validated (1 <= i <= len(m.calls), m.calls[i-1] != nil) by multi.DeserializeCellBlocks for every result, and receive passes every multi response through it before delivering"
}

func isZeroLin(l bounds.Lin) bool {
	if l.C != 0 {
		return false
	}
	for _, k := range l.T {
		if k != 0 {
			return false
		}
	}
	return true
}

// k5Loops classifies the unbounded loops of f.
func k5Loops(c *kit.Ctx, eng *bounds.Engine, f *ssa.Function) {
	removed := map[[2]*ssa.BasicBlock]bool{}
	for iter := 0; iter < 12; iter++ {
		cyc := kit.FindCycle(f, nil, func(from, to *ssa.BasicBlock) bool {
			return kit.BoundedLoopEdge(from, to) || removed[[2]*ssa.BasicBlock{from, to}]
		})
		if cyc == nil {
			return
		}
		inCyc := map[*ssa.BasicBlock]bool{}
		for _, b := range cyc {
			inCyc[b] = true
		}
		// classify
		why, good := "", false
		for _, b := range cyc {
			for _, in := range b.Instrs {
				call, ok := in.(ssa.CallInstruction)
				if !ok {
					continue
				}
				if _, isGo := in.(*ssa.Go); isGo {
					continue
				}
				n := kit.CalleeName(call)
				switch {
				case n == kit.M("", "RPCClient", "SendRPC"), n == kit.M("", "*client", "SendRPC"), n == kit.M("", "*scanner", "request"),
					n == kit.M("", "*scanner", "fetch"), n == kit.M("", "*scanner", "peek"), n == kit.M("hrpc", "Scanner", "Next"),
					n == kit.M("region", "*client", "receive"), n == "io.ReadFull":
					why, good = "tabled: every iteration performs a blocking network round trip ("+kit.ShortName(n)+")", true
				}
				if n == "(*modernc.org/b/v2.Enumerator[[]byte, github.com/tsuna/gohbase/hrpc.RegionInfo]).Next" ||
					strings.HasPrefix(n, "(*modernc.org/b/v2.Enumerator[") && strings.HasSuffix(n, ".Next") {
					why, good = "tabled: every iteration advances a b-tree enumerator (finite tree, ends with io.EOF; library semantics trusted)", true
				}
			}
		}
		if !good {
			if w, g := sliceShrinks(eng, cyc, inCyc); g {
				why, good = w, true
			}
		}
		if !good {
			if w, g := sliceGrowsToBound(cyc, inCyc); g {
				why, good = w, true
			}
		}
		pos := firstPos(cyc[len(cyc)-1])
		if good {
			c.OK(f, "loop", pos, why)
		} else {
			var parts []string
			for _, b := range cyc {
				parts = append(parts, c.P.Pos(firstPos(b)))
			}
			c.Bad(f, "loop", pos, "loop on the decode surface that neither has a fixed trip count nor consumes input through a checked reader: peer data can make the client spin", "cycle "+strings.Join(dedup(parts), " -> "))
		}
		// remove the back edge of this cycle and look for further cycles
		removed[[2]*ssa.BasicBlock{cyc[len(cyc)-1], cyc[0]}] = true
	}
}

// sliceShrinks: some slice-valued phi of the cycle gets, on every way around,
// a value that is a strictly shorter tail of itself, produced by checked
// readers (summaries len(result) = len(arg) - k) whose errors leave the loop.
func sliceShrinks(eng *bounds.Engine, cyc []*ssa.BasicBlock, inCyc map[*ssa.BasicBlock]bool) (string, bool) {
	for _, b := range cyc {
		for _, in := range b.Instrs {
			ph, ok := in.(*ssa.Phi)
			if !ok {
				break
			}
			if _, isSlice := ph.Type().Underlying().(*types.Slice); !isSlice {
				continue
			}
			all, n := true, 0
			for k, ed := range ph.Edges {
				pred := b.Preds[k]
				if !inCyc[pred] {
					continue
				}
				n++
				if !shorterThan(eng, ed, ph, true, pred, len(pred.Instrs), map[ssa.Value]bool{}) {
					all = false
				}
			}
			if all && n > 0 {
				return "every iteration consumes input: the loop-carried slice " + kit.Path(ph) + " is replaced by a strictly shorter tail returned by checked readers whose failure leaves the loop", true
			}
		}
	}
	return "", false
}

// shorterThan: v is a (strictly, if strict) shorter tail of o at point (b, idx).
func shorterThan(eng *bounds.Engine, v ssa.Value, o *ssa.Phi, strict bool, b *ssa.BasicBlock, idx int, visiting map[ssa.Value]bool) bool {
	v = kit.Strip(v)
	if v == ssa.Value(o) {
		return !strict
	}
	if visiting[v] {
		return true
	}
	switch x := v.(type) {
	case *ssa.Phi:
		visiting[x] = true
		// inputs that the facts at the point of use rule out (the values an expanded helper returned
		// together with a non-nil error, behind "if err != nil { return }") do not count
		feasible := map[int]bool{}
		if b != nil && x.Block().Dominates(b) {
			for _, k := range kit.FeasibleEdges(x, kit.FactsAt(b)) {
				feasible[k] = true
			}
		}
		for k, ed := range x.Edges {
			if len(feasible) > 0 && !feasible[k] {
				continue
			}
			pred := x.Block().Preds[k]
			if !shorterThan(eng, ed, o, strict, pred, len(pred.Instrs), visiting) {
				return false
			}
		}
		return true
	case *ssa.Extract:
		call, ok := x.Tuple.(*ssa.Call)
		if !ok {
			return false
		}
		callee := kit.StaticCallee(call)
		if callee == nil || !eng.P.IsSubject(callee) {
			return false
		}
		sum := eng.Summary(callee)
		if sum == nil {
			return false
		}
		l, ok := sum.LenEq[x.Index]
		if !ok || !eng.ErrNilAt(call, b, idx) {
			return false
		}
		// l = len(param k) - (const >= 0) - (non-negative parameters)
		var pk *ssa.Parameter
		dec := -l.C
		if dec < 0 {
			return false
		}
		for sym, co := range l.T {
			pa, isP := sym.K.(ssa.Value).(*ssa.Parameter)
			if !isP {
				return false
			}
			switch {
			case sym.Len && co == 1 && pk == nil:
				pk = pa
			case !sym.Len && co == -1:
				a := call.Call.Args[paramIndex(callee, pa)]
				if okk, _ := eng.Prove(eng.Lin(a), call.Block(), kit.InstrIndex(call)); !okk {
					return false
				}
				if k, isC := kit.ConstInt(a); isC {
					dec += k
				}
			default:
				return false
			}
		}
		if pk == nil {
			return false
		}
		arg := call.Call.Args[paramIndex(callee, pk)]
		return shorterThan(eng, arg, o, strict && dec < 1, call.Block(), kit.InstrIndex(call), visiting)
	}
	return false
}

// consumingReader: call is f(S...) in a loop where S is the loop-carried
// slice, f returns a strictly shorter tail of S that is fed back into S, and
// f's failure leaves the function.
func consumingReader(eng *bounds.Engine, call *ssa.Call, inCyc map[*ssa.BasicBlock]bool) (string, bool) {
	callee := kit.StaticCallee(call)
	if callee == nil || !eng.P.IsSubject(callee) {
		return "", false
	}
	sum := eng.Summary(callee)
	if sum == nil {
		return "", false
	}
	for ri, l := range sum.LenEq {
		// length of result ri = len(param k) - n with n >= 1
		var pk *ssa.Parameter
		okShape := true
		for sym, co := range l.T {
			pa, isP := sym.K.(ssa.Value).(*ssa.Parameter)
			if !isP {
				okShape = false
				break
			}
			if sym.Len && co == 1 {
				pk = pa
			} else if !sym.Len && co == -1 {
				// minus an int parameter: need the argument to be a constant >= 1
				idx := paramIndex(callee, pa)
				if k, ok := kit.ConstInt(call.Call.Args[idx]); !ok || k < 1 {
					okShape = false
				}
			} else {
				okShape = false
			}
		}
		if !okShape || pk == nil {
			continue
		}
		if len(l.T) == 1 && l.C > -1 {
			continue
		}
		arg := call.Call.Args[paramIndex(callee, pk)]
		ph, isPhi := kit.Strip(arg).(*ssa.Phi)
		if !isPhi || !inCyc[ph.Block()] {
			continue
		}
		tail := kit.ExtractOf(call, ri)
		if tail == nil {
			continue
		}
		fed := false
		for _, leaf := range kit.PhiLeaves(ph) {
			if leaf == tail {
				fed = true
			}
		}
		// directly or through another phi of the web
		if !fed {
			for _, r := range kit.Referrers(tail) {
				if q, ok := r.(*ssa.Phi); ok {
					for _, leaf := range kit.PhiLeaves(ph) {
						if leaf == ssa.Value(q) {
							fed = true
						}
					}
					for _, e := range ph.Edges {
						if e == ssa.Value(q) {
							fed = true
						}
					}
				}
			}
		}
		if !fed {
			continue
		}
		return fmt.Sprintf("every iteration consumes input: %s returns a strictly shorter tail of the loop-carried slice, and its failure leaves the loop", kit.FuncName(callee)), true
	}
	return "", false
}

func paramIndex(fn *ssa.Function, pa *ssa.Parameter) int {
	for i, q := range fn.Params {
		if q == pa {
			return i
		}
	}
	return 0
}

// namesValidated re-checks the precondition of the tabled argument for the
// panics that depend on the shape of region names (findCommaFromEnd, the two
// "exact match" panics): every region name that can enter the location cache
// is a literal of the right shape or was validated to contain two distinct
// commas followed by a digit (so it can neither lack commas nor equal a search
// key, which ends in ",:").
func namesValidated(c *kit.Ctx, eng *bounds.Engine) (bool, string) {
	p := c.P
	sites := callersOf(p, kit.M("region", "", "NewInfo"))
	if len(sites) == 0 {
		return false, "no call of region.NewInfo found"
	}
	for _, s := range sites {
		name := s.Common().Args[3]
		r := kit.Root(name)
		if kit.IsNilConst(r) {
			continue // admin pseudo region, never cached
		}
		if cv, ok := r.(*ssa.Convert); ok {
			if k, ok := cv.X.(*ssa.Const); ok && k.Value != nil {
				str := constantString(k)
				first, last := strings.IndexByte(str, ','), strings.LastIndexByte(str, ',')
				if first >= 0 && first != last && last+1 < len(str) && str[last+1] >= '0' && str[last+1] <= '9' {
					continue
				}
				return false, "region name literal " + str + " at " + p.Pos(s.Pos()) + " is not of the form table,key,id"
			}
		}
		// validated value
		key := eng.KeyOf(name)
		var haveFirst, haveDistinct, haveLo, haveHi bool
		for _, ft := range kit.FactsAt(s.Block()) {
			cmp, ok := kit.CanonCmp(ft.Cond, ft.Pol)
			if !ok {
				continue
			}
			isIdx := func(v ssa.Value, fn string) bool {
				call, ok := kit.Root(v).(*ssa.Call)
				if !ok || kit.CalleeName(call) != fn {
					return false
				}
				k, isC := kit.ConstInt(call.Call.Args[1])
				return eng.KeyOf(call.Call.Args[0]) == key && isC && k == ','
			}
			switch {
			case cmp.Op == token.GEQ && isIdx(cmp.X, "bytes.IndexByte"):
				if k, ok := kit.ConstInt(cmp.Y); ok && k == 0 {
					haveFirst = true
				}
			case cmp.Op == token.NEQ && (isIdx(cmp.X, "bytes.IndexByte") && isIdx(cmp.Y, "bytes.LastIndexByte") || isIdx(cmp.Y, "bytes.IndexByte") && isIdx(cmp.X, "bytes.LastIndexByte")):
				haveDistinct = true
			case cmp.Op == token.GEQ || cmp.Op == token.LEQ:
				// row[last+1] >= '0', <= '9'
				u, ok := cmp.X.(*ssa.UnOp)
				if !ok {
					continue
				}
				ia, ok := u.X.(*ssa.IndexAddr)
				if !ok || eng.KeyOf(ia.X) != key {
					continue
				}
				bo, ok := ia.Index.(*ssa.BinOp)
				if !ok || bo.Op != token.ADD || !isIdx(bo.X, "bytes.LastIndexByte") {
					continue
				}
				if one, ok := kit.ConstInt(bo.Y); !ok || one != 1 {
					continue
				}
				k, _ := kit.ConstInt(cmp.Y)
				if cmp.Op == token.GEQ && k == '0' {
					haveLo = true
				}
				if cmp.Op == token.LEQ && k == '9' {
					haveHi = true
				}
			}
		}
		if !(haveFirst && haveDistinct && haveLo && haveHi) {
			return false, fmt.Sprintf("region name passed to NewInfo at %s comes from peer data (%s) and is not validated to have the form table,key,<digit>... (two distinct commas, digit after the last): Compare's findCommaFromEnd panics on a name without them and a name equal to a search key trips the exact-match panic", p.Pos(s.Pos()), kit.Path(name))
		}
	}
	return true, "every region name entering the cache is a well-formed literal or validated (two distinct commas, a digit after the last one)"
}

func constantString(k *ssa.Const) string {
	s := k.Value.ExactString()
	if len(s) >= 2 && s[0] == '"' {
		if u, err := strconvUnquote(s); err == nil {
			return u
		}
	}
	return s
}

func strconvUnquote(s string) (string, error) { return strconv.Unquote(s) }

// runC11All: the rules of C11 plus the "orderly way of C03" its statement refers to.
func runC11All(c *kit.Ctx) {
	runC11(c)
	if !c.Frozen {
		embed(c, "K6", "an unusable stream fails the connection in the orderly way: a frame or header that cannot be decoded is a connection-level error and every outstanding call is completed (the rules of C03, run as one rule here)", 30, runC03)
	}
}

// sliceGrowsToBound: the loop goes on while len(s) < N, N is not changed in the loop, and every way round appends
// at least one element to s: at most N iterations (for cells := make(.., 0, n); len(cells) < n; cells = append(cells, c)).
func sliceGrowsToBound(cyc []*ssa.BasicBlock, inCyc map[*ssa.BasicBlock]bool) (string, bool) {
	for _, b := range cyc {
		if len(b.Instrs) == 0 {
			continue
		}
		iff, ok := b.Instrs[len(b.Instrs)-1].(*ssa.If)
		if !ok {
			continue
		}
		// one successor leaves the cycle
		var stayOnTrue bool
		switch {
		case inCyc[b.Succs[0]] && !inCyc[b.Succs[1]]:
			stayOnTrue = true
		case !inCyc[b.Succs[0]] && inCyc[b.Succs[1]]:
			stayOnTrue = false
		default:
			continue
		}
		cmp, ok := kit.CanonCmp(iff.Cond, stayOnTrue)
		if !ok || cmp.Bytes {
			continue
		}
		x, y, op := cmp.X, cmp.Y, cmp.Op
		if kit.LenOf(x) == nil && kit.LenOf(y) != nil {
			x, y = y, x
			switch op {
			case token.GTR:
				op = token.LSS
			case token.GEQ:
				op = token.LEQ
			default:
				continue
			}
		}
		if op != token.LSS && op != token.LEQ && op != token.NEQ {
			continue
		}
		ph, ok := kit.Strip(kit.LenOf(x)).(*ssa.Phi)
		if !ok || !inCyc[ph.Block()] {
			continue
		}
		// the bound is defined outside the cycle
		if in, ok := kit.Strip(y).(ssa.Instruction); ok && in.Block() != nil && inCyc[in.Block()] {
			if cv, isCv := kit.Strip(y).(*ssa.Convert); !isCv {
				continue
			} else if d, ok := cv.X.(ssa.Instruction); ok && d.Block() != nil && inCyc[d.Block()] {
				continue
			}
		}
		grows := true
		n := 0
		for k, e := range ph.Edges {
			if !inCyc[ph.Block().Preds[k]] {
				continue
			}
			n++
			call, ok := kit.Strip(e).(*ssa.Call)
			if !ok || kit.CalleeName(call) != "builtin.append" || kit.Strip(call.Call.Args[0]) != ssa.Value(ph) || len(elemsOfVariadic(call.Call.Args[1])) < 1 {
				grows = false
			}
		}
		if grows && n > 0 {
			return "the loop runs while len(s) is below a bound fixed before it and every iteration appends to s", true
		}
	}
	return "", false
}
