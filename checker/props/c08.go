package props

import (
	"fmt"
	"go/token"
	"strings"

	"golang.org/x/tools/go/ssa"

	"gohbaseverif/kit"
)

func init() {
	register("C08", &Property{
		Title: "The location cache never holds overlapping regions; the newest wins",
		Explanation: "Narrow, structural clauses only: (R1) the region tree is mutated (Put/Delete/Set/Clear) only in keyRegionCache.put and del (lock discipline is C09.R1); " +
			"(R2) evict => dead: every Delete(x.Name()) in put/del is followed on every path by x.MarkDead() for the same x; " +
			"(R3) 'leaves the cache unchanged': in the Put callback every return with write=false leaves replaced false, replaced is set only on the path that returns (reg, true), the younger-overlap test compares o.ID() > reg.ID() for every element of the very slice whose elements are later deleted, and nothing is deleted on the not-replaced edge; " +
			"(R4) isRegionOverlap, evaluated as a truth table over its six atoms by walking its CFG, is exactly nsEq && tableEq && (len(B.stop)==0 || A.start < B.stop) && (len(A.stop)==0 || A.stop > B.start) with strict comparisons; " +
			"(R5) the three discoverers (findRegion, findAllRegions, establishRegion) treat (overlaps, replaced) alike: on replaced every overlap goes to clients.del, on !replaced the new region is not established." +
			" Added after the seeded-change rounds: (R1) getOverlaps is called only inside put with the cache's write lock held, in the critical section that inserts; (R4) the search key of getOverlaps and the handling of a non-overlapping predecessor.",
		Residue:   "the inductive no-overlap invariant itself and the positional special cases of getOverlaps' enumerator walk (need enumeration of histories)",
		Technique: "who-may tables, must-pass-through path search, truth-table extraction by CFG walk, sibling cross-check",
		Run:       runC08,
	})
}

func runC08(c *kit.Ctx) {
	p := c.P
	put := c.Anchor("", "keyRegionCache", "put")
	del := c.Anchor("", "keyRegionCache", "del")
	iro := c.Anchor("", "", "isRegionOverlap")
	getOv := c.Anchor("", "keyRegionCache", "getOverlaps")
	if put == nil || del == nil || iro == nil || getOv == nil {
		return
	}
	treeF := p.Field("", "keyRegionCache", "regions")

	// ---- R1 ---------------------------------------------------------------
	c.StartRule("R1", "the tree is mutated only in put and del", 2)
	for _, a := range p.FieldAccesses(treeF) {
		if !strings.HasPrefix(a.Kind, "container-") {
			continue
		}
		c.Check(enclosingNamed(a.Fn) == put || enclosingNamed(a.Fn) == del, a.Fn, a.Kind, posOf(a.Instr), "tree mutation in put/del", "the region tree is mutated outside keyRegionCache.put/del: the eviction rules do not apply to that change")
	}

	// the overlap search and the insertion form one critical section
	{
		le := kit.NewLockEnv(p)
		krcM := p.Field("", "keyRegionCache", "m")
		n := 0
		for _, s := range callersOf(p, kit.M("", "*keyRegionCache", "getOverlaps")) {
			n++
			held := le.At(s)
			c.Check(krcM != nil && held.HoldsField(krcM, true) && enclosingNamed(s.Parent()) == put, s.Parent(), "overlaps-under-write-lock", s.Pos(), "overlaps are computed inside put with the write lock held (same critical section as the insertion: "+held.String()+")",
				"the overlap search does not run under the cache's write lock in the critical section that inserts the region: two goroutines discovering mutually overlapping regions both see no overlap and both insert")
		}
		if n == 0 {
			c.Unk(put, "overlaps-under-write-lock", put.Pos(), "getOverlaps is never called")
		}
	}

	// ---- R2 ---------------------------------------------------------------
	c.StartRule("R2", "evicted regions are marked dead", 2)
	for _, fn := range []*ssa.Function{put, del} {
		kit.Instrs(fn, func(in ssa.Instruction) {
			call, ok := in.(*ssa.Call)
			if !ok || !strings.HasSuffix(kit.CalleeName(call), ".Delete") || !strings.Contains(kit.CalleeName(call), "modernc.org/b/v2.Tree[") {
				return
			}
			nm, ok := call.Call.Args[1].(*ssa.Call)
			if !ok || kit.CalleeName(nm) != hrpcRI+"Name" {
				c.Unk(fn, "delete-key", call.Pos(), "tree entry deleted by a key that is not x.Name()")
				return
			}
			x := nm.Call.Value
			e := kit.PathFrom(call, kit.PathQuery{
				Stop: func(y ssa.Instruction) bool {
					md, ok := y.(*ssa.Call)
					return ok && kit.CalleeName(md) == hrpcRI+"MarkDead" && kit.Same(md.Call.Value, x)
				},
				Target: func(y ssa.Instruction) bool {
					if _, ok := y.(*ssa.Return); ok {
						return true
					}
					// next iteration of the eviction loop
					return y.Block() != call.Block() && y.Block().Dominates(call.Block()) && kit.InstrIndex(y) == 0 && len(y.Block().Preds) > 1
				},
			})
			c.Check(e == nil, fn, "evict-then-dead", call.Pos(), "the deleted region is marked dead on every path", "a region can be removed from the cache without being marked dead: requests and establishers keep using it: "+c.BlockPath(e))
		})
	}

	// ---- R3 ---------------------------------------------------------------
	c.StartRule("R3", "a not-replaced put leaves the cache unchanged", 3)
	{
		var cb *ssa.Function
		for _, lit := range put.AnonFuncs {
			if lit.Signature.Results().Len() == 2 {
				cb = lit
			}
		}
		if cb == nil {
			c.Unk(put, "put-callback", put.Pos(), "the Put callback literal was not found")
		} else {
			c.Funcs[kit.FuncName(cb)] = true
			// replaced variable: captured alloc named "replaced"
			// put's named results (overlaps, replaced) as captured by the callback
			var replFV, ovFV *ssa.FreeVar
			ovA, replA := resultAlloc(put, 0), resultAlloc(put, 1)
			if replA != nil {
				replFV = freeVarFor(cb, replA)
			}
			if ovA != nil {
				ovFV = freeVarFor(cb, ovA)
			}
			var replStores []*ssa.Store
			kit.Instrs(cb, func(in ssa.Instruction) {
				if st, ok := in.(*ssa.Store); ok && replFV != nil && st.Addr == ssa.Value(replFV) {
					replStores = append(replStores, st)
				}
			})
			okRet := len(replStores) > 0
			kit.Instrs(cb, func(in ssa.Instruction) {
				r, ok := in.(*ssa.Return)
				if !ok {
					return
				}
				k, isC := kit.Res(r, 1).(*ssa.Const)
				written := isC && k.Value != nil && k.Value.ExactString() == "true"
				dominated, reached := false, false
				for _, st := range replStores {
					if kit.Dominates(st, r) {
						dominated = true
					}
					if kit.Reaches(st, r) {
						reached = true
					}
				}
				if written && !dominated || !written && reached {
					okRet = false
				}
			})
			c.Check(okRet, cb, "replaced-iff-written", cb.Pos(), "replaced is set exactly on the path that writes the new region", "the callback can report replaced without writing the region (or write without reporting): the caller then deletes overlaps of a region that is not in the cache, or keeps them next to it")
			// younger-overlap test over the slice that is later deleted
			okYoung := false
			kit.Instrs(cb, func(in ssa.Instruction) {
				iff, ok := in.(*ssa.If)
				if !ok {
					return
				}
				cmp, ok := kit.CanonCmp(iff.Cond, true)
				if !ok || cmp.Bytes || cmp.Op != token.GTR {
					return
				}
				// (either side may have been read into a local beforehand: regID := reg.ID())
				a, ok1 := kit.Root(cmp.X).(*ssa.Call)
				b, ok2 := kit.Root(cmp.Y).(*ssa.Call)
				if !ok1 || !ok2 || kit.CalleeName(a) != hrpcRI+"ID" || kit.CalleeName(b) != hrpcRI+"ID" {
					return
				}
				// a's receiver is an element of overlaps (range), b's is the new region
				if l, ok := kit.Root(a.Call.Value).(*ssa.UnOp); ok {
					if ia, ok := l.X.(*ssa.IndexAddr); ok {
						if s, isR := rangeOfIndex(ia.Index); isR {
							if ld, ok := kit.Strip(s).(*ssa.UnOp); ok && ovFV != nil && ld.X == ssa.Value(ovFV) {
								// every way on from the true edge returns (.., false) (directly, or through a
								// flag a helper set: branches on it are decided by the value that arrives)
								reached := false
								bad := kit.PathFromBlock(kit.SuccOnTrue(iff), kit.PathQuery{TargetPath: func(x ssa.Instruction, path []*ssa.BasicBlock) bool {
									r, ok := x.(*ssa.Return)
									if !ok {
										return false
									}
									reached = true
									full := append([]*ssa.BasicBlock{iff.Block()}, path...)
									k, ok := kit.ResolveAlong(kit.Res(r, 1), full).(*ssa.Const)
									return !ok || k.Value == nil || k.Value.ExactString() != "false"
								}})
								if reached && bad == nil {
									okYoung = true
								}
							}
						}
					}
				}
			})
			c.Check(okYoung, cb, "younger-overlap-wins", cb.Pos(), "any overlap with a greater ID makes the callback refuse the new region", "the test 'an overlapping cached region is younger (o.ID() > reg.ID())' over every overlap is gone or inverted: an older region can evict a newer one")
			// in put: deletions only on the replaced edge, over the same overlaps variable
			okDel := true
			nDel := 0
			kit.Instrs(put, func(in ssa.Instruction) {
				call, ok := in.(*ssa.Call)
				if !ok || !strings.HasSuffix(kit.CalleeName(call), ".Delete") {
					return
				}
				nDel++
				onReplaced := false
				for _, f := range kit.FactsAt(call.Block()) {
					if l, ok := f.Cond.(*ssa.UnOp); ok && f.Pol {
						if a, ok := l.X.(*ssa.Alloc); ok && replA != nil && a == replA {
							onReplaced = true
						}
					}
				}
				if !onReplaced {
					okDel = false
				}
			})
			c.Check(okDel && nDel > 0, put, "delete-only-when-replaced", put.Pos(), "overlaps are deleted only on the replaced edge", "put deletes cached regions although the new region was not inserted")
			// ... and when the new region went in, every overlap goes out: no way round the eviction loop avoids the deletion
			kit.Instrs(put, func(in ssa.Instruction) {
				call, ok := in.(*ssa.Call)
				if !ok || !strings.HasSuffix(kit.CalleeName(call), ".Delete") {
					return
				}
				var header *ssa.BasicBlock
				for h := call.Block(); h != nil; h = h.Idom() {
					isHeader := false
					for _, pr := range h.Preds {
						if h.Dominates(pr) {
							isHeader = true
						}
					}
					if isHeader && (h == call.Block() || inLoopOf(h, call.Block())) {
						header = h
						break
					}
				}
				if header == nil {
					return // a single deletion (not in a loop) is not the eviction of the overlaps
				}
				cyc := kit.FindCycle(put, func(b *ssa.BasicBlock) bool {
					return b == call.Block() || (b != header && !inLoopOf(header, b))
				}, nil)
				c.Check(cyc == nil, put, "every-overlap-is-evicted", call.Pos(), "no way round the eviction loop skips the deletion of an overlap", "put can leave a region it found overlapping in the tree although the new region was inserted (the eviction loop skips some overlaps, e.g. those of the same age): two overlapping regions are cached, one of them not marked dead")
			})
		}
	}

	// ---- R4 ---------------------------------------------------------------
	c.StartRule("R4", "isRegionOverlap is the canonical strict range intersection", 1)
	overlapSearch(c)

	// ---- R5 ---------------------------------------------------------------
	c.StartRule("R5", "the three discoverers treat (overlaps, replaced) alike", 3)
	discoverersDetachOverlaps(c)
	cacheDelAlwaysDetaches(c)
	establisherHandoff(c)
	regionAttributesAreImmutable(c)
	noResponseBufferRecycling(c)
	// an evicted region that is being established is released on every exit of its establisher: its users re-resolve
	if est := c.P.Func("", "client", "establishRegion"); est != nil {
		tokenTypestate(c, est, c.P.Global("", "ErrClientClosed"), c.P.Global("", "establishRegionOverride"))
	}
}

// discoverersDetachOverlaps: shared by C08.R5 and C01.R2 (a replaced region must lose its connection,
// or requests already holding it are sent under the dead region's name).
func discoverersDetachOverlaps(c *kit.Ctx) {
	// warming the cache up puts every region it looked up (except hbase:meta / the master pseudo-region)
	if far := c.P.Func("", "client", "findAllRegions"); far != nil {
		metaF, adminF := c.P.Field("", "client", "metaRegionInfo"), c.P.Field("", "client", "adminRegionInfo")
		n := 0
		for _, mu := range kit.Calls(far, hrpcRI+"MarkUnavailable") {
			_ = mu
		}
		kit.Instrs(far, func(in ssa.Instruction) {
			ph, ok := in.(*ssa.Phi)
			if !ok || ph.Comment != "rangeindex" {
				return
			}
			// the loop over what lookupAllRegions returned
			overLookup := false
			for _, r := range kit.Referrers(ph) {
				if bo, ok := r.(*ssa.BinOp); ok && bo.Op == token.ADD {
					if sl, ok := rangeOfIndex(bo); ok {
						if ex, ok := kit.Root(sl).(*ssa.Extract); ok {
							if call, ok := ex.Tuple.(*ssa.Call); ok && kit.CalleeName(call) == kit.M("", "*client", "lookupAllRegions") {
								overLookup = true
							}
						}
					}
				}
			}
			if !overLookup {
				return
			}
			n++
			hdr := ph.Block()
			var body *ssa.BasicBlock
			if iff, ok := hdr.Instrs[len(hdr.Instrs)-1].(*ssa.If); ok {
				body = kit.SuccOnTrue(iff)
			}
			if body == nil {
				return
			}
			e := kit.PathFromBlock(body, kit.PathQuery{
				Target: func(x ssa.Instruction) bool { return x.Block() == hdr },
				Stop: func(x ssa.Instruction) bool {
					cc, ok := x.(*ssa.Call)
					return ok && kit.CalleeName(cc) == kit.M("", "*keyRegionCache", "put")
				},
				SkipEdge: func(from, to *ssa.BasicBlock) bool {
					for _, f := range kit.EdgeFacts(from, to) {
						if cmp, ok := kit.CanonCmp(f.Cond, f.Pol); ok && cmp.Op == token.EQL {
							if (metaF != nil && (isLoadOfField(cmp.X, metaF) || isLoadOfField(cmp.Y, metaF))) || (adminF != nil && (isLoadOfField(cmp.X, adminF) || isLoadOfField(cmp.Y, adminF))) {
								return true
							}
						}
					}
					return false
				},
			})
			c.Check(e == nil, far, "every-found-region-is-put", firstPos(body), "every looked-up region goes through regions.put (which evicts what it overlaps)", "findAllRegions can skip regions.put for a looked-up region (e.g. because some cached region covers its start key): after a split or merge the stale regions stay in the cache and the new ones are never cached: "+c.BlockPath(e))
		})
		if n == 0 {
			c.Unk(far, "every-found-region-is-put", far.Pos(), "findAllRegions no longer loops over the looked-up regions")
		}
	}
	for _, nm := range []string{"findRegion", "findAllRegions", "establishRegion"} {
		fn := c.Anchor("", "client", nm)
		if fn == nil {
			continue
		}
		for _, call := range kit.Calls(fn, kit.M("", "*keyRegionCache", "put")) {
			ov := kit.ExtractOf(call.Value(), 0)
			repl := kit.ExtractOf(call.Value(), 1)
			newReg := call.Common().Args[1]
			if ov == nil || repl == nil {
				c.Bad(fn, "put-results", call.Pos(), "the results of regions.put are ignored", "")
				continue
			}
			// every overlap goes to clients.del on the replaced edge
			delOK := false
			for _, d := range kit.Calls(fn, kit.M("", "*clientRegionCache", "del")) {
				if l, ok := kit.Root(d.Common().Args[1]).(*ssa.UnOp); ok {
					if ia, ok := l.X.(*ssa.IndexAddr); ok && ia.X == ov {
						if _, isR := rangeOfIndex(ia.Index); isR {
							for _, f := range kit.FactsAt(d.Block()) {
								if f.Cond == repl && f.Pol {
									delOK = true
								}
							}
						}
					}
				}
			}
			c.Check(delOK, fn, "overlaps-detached", call.Pos(), "on replaced, every overlap is removed from the connection cache", "evicted regions are not removed from the connection cache (their connection keeps them in its region set)")
			// on !replaced the new region is not established
			var iff *ssa.If
			for _, r := range kit.Referrers(repl) {
				if i, ok := r.(*ssa.If); ok {
					iff = i
				}
			}
			good := iff != nil
			if good {
				e := kit.PathFromBlock(kit.SuccOnFalse(iff), kit.PathQuery{Target: func(x ssa.Instruction) bool {
					switch y := x.(type) {
					case *ssa.Go:
						return strings.HasSuffix(kit.CalleeName(y), "establishRegion") && kit.Same(y.Call.Args[1], newReg)
					case *ssa.Call:
						n := kit.CalleeName(y)
						return (n == hrpcRI+"SetClient" || n == hrpcRC+"Dial") && false
					}
					return false
				}, SkipEdge: func(from, to *ssa.BasicBlock) bool {
					// do not wrap around a loop back into the replaced edge
					return to == iff.Block() || to.Dominates(iff.Block())
				}})
				good = e == nil
			}
			c.Check(good, fn, "not-replaced-not-used", call.Pos(), "when the cache kept its own regions the looked-up region is not established", "a region that lost against the cache is still established: two region objects for overlapping ranges are live")
		}
	}
}

// overlapSearch: isRegionOverlap is the strict range intersection and getOverlaps finds every cached
// region intersecting the new one. Shared by C08.R4 and C01.R5 (a stale overlapping region left in
// the cache is what a later lookup returns for keys that now belong to its replacement).
func overlapSearch(c *kit.Ctx) {
	p := c.P
	_ = p
	compareIsFieldWise(c)
	searchKeyKeepsTheWholeKey(c)
	iro := p.Func("", "", "isRegionOverlap")
	getOv := p.Func("", "keyRegionCache", "getOverlaps")
	if iro == nil || getOv == nil {
		c.Unk(nil, "overlap-search", token.NoPos, "isRegionOverlap / keyRegionCache.getOverlaps not found")
		return
	}
	{
		A, B := ssa.Value(iro.Params[0]), ssa.Value(iro.Params[1])
		// what the parameters of a boolean helper stand for while its body is walked
		bound := map[ssa.Value]ssa.Value{}
		getter := func(v ssa.Value, m string) (ssa.Value, bool) {
			v = kit.Strip(v)
			for n := 0; n < 4; n++ {
				w, ok := bound[v]
				if !ok {
					break
				}
				v = kit.Strip(w)
			}
			call, ok := v.(*ssa.Call)
			if !ok || kit.CalleeName(call) != hrpcRI+m {
				return nil, false
			}
			return call.Call.Value, true
		}
		helpers := &boolHelpers{bind: func(params []*ssa.Parameter, args []ssa.Value) func() {
			for i, pa := range params {
				if i < len(args) {
					bound[pa] = args[i]
				}
			}
			return func() {
				for _, pa := range params {
					delete(bound, pa)
				}
			}
		}}
		cl := func(cond ssa.Value) (string, bool, bool) {
			cmp, ok := kit.CanonCmp(cond, true)
			if !ok {
				return "", false, false
			}
			swapOp := map[token.Token]token.Token{token.LSS: token.GTR, token.GTR: token.LSS, token.LEQ: token.GEQ, token.GEQ: token.LEQ, token.EQL: token.EQL, token.NEQ: token.NEQ}
			if cmp.Bytes && (cmp.Op == token.EQL || cmp.Op == token.NEQ) {
				for _, m := range []string{"Namespace", "Table"} {
					x, ok1 := getter(cmp.X, m)
					y, ok2 := getter(cmp.Y, m)
					if ok1 && ok2 && ((x == A && y == B) || (x == B && y == A)) {
						return m + "Eq", cmp.Op == token.EQL, true
					}
				}
			}
			if !cmp.Bytes {
				// len(X.StopKey()) compared with a constant, either operand order
				op, lx, ky := cmp.Op, cmp.X, cmp.Y
				if kit.LenOf(lx) == nil && kit.LenOf(ky) != nil {
					op, lx, ky = swapOp[op], ky, lx
				}
				if l := kit.LenOf(lx); l != nil {
					if k, ok := kit.ConstInt(ky); ok {
						if r, ok := getter(l, "StopKey"); ok && (r == A || r == B) {
							name := "aStopEmpty"
							if r == B {
								name = "bStopEmpty"
							}
							switch {
							case op == token.EQL && k == 0, op == token.LEQ && k == 0, op == token.LSS && k == 1:
								return name, true, true
							case op == token.NEQ && k == 0, op == token.GTR && k == 0, op == token.GEQ && k == 1:
								return name, false, true
							}
						}
					}
				}
			}
			if cmp.Bytes {
				// orient every comparison as start OP stop
				op, x, y := cmp.Op, cmp.X, cmp.Y
				if _, isStop := getter(x, "StopKey"); isStop {
					op, x, y = swapOp[op], y, x
				}
				xs, okxs := getter(x, "StartKey")
				yt, okyt := getter(y, "StopKey")
				if okxs && okyt {
					switch {
					case xs == A && yt == B && op == token.LSS: // A.start < B.stop
						return "aStartLtBStop", true, true
					case xs == A && yt == B && op == token.GEQ:
						return "aStartLtBStop", false, true
					case xs == B && yt == A && op == token.LSS: // B.start < A.stop  ==  A.stop > B.start
						return "aStopGtBStart", true, true
					case xs == B && yt == A && op == token.GEQ:
						return "aStopGtBStart", false, true
					}
				}
			}
			return "", false, false
		}
		atoms := []string{"NamespaceEq", "TableEq", "bStopEmpty", "aStartLtBStop", "aStopEmpty", "aStopGtBStart"}
		tbl, bad := boolFuncTableH(iro, atoms, cl, helpers)
		if tbl == nil {
			c.Bad(iro, "overlap-predicate", iro.Pos(), "isRegionOverlap contains a condition that is not one of the canonical atoms (namespace/table equality, empty stop key, strict start<stop / stop>start): "+bad+" - touching neighbours must not overlap and an empty stop key means +infinity", "")
		} else {
			wrong := -1
			for mask := 0; mask < 64; mask++ {
				v := func(i int) bool { return mask&(1<<i) != 0 }
				want := v(0) && v(1) && (v(2) || v(3)) && (v(4) || v(5))
				if tbl[mask] != want {
					wrong = mask
				}
			}
			why := ""
			if wrong >= 0 {
				var xs []string
				for i, a := range atoms {
					xs = append(xs, fmt.Sprintf("%s=%v", a, wrong&(1<<i) != 0))
				}
				why = strings.Join(xs, " ")
			}
			c.Check(wrong < 0, iro, "overlap-predicate", iro.Pos(), "truth table over 64 assignments equals nsEq && tableEq && (bStopEmpty || aStart<bStop) && (aStopEmpty || aStop>bStart)", "isRegionOverlap differs from the range-intersection predicate for "+why)
		}
		// getOverlaps uses it for every candidate it appends
		n := 0
		for _, call := range kit.Calls(getOv, "builtin.append") {
			n++
			good := false
			for _, f := range kit.FactsAt(call.Block()) {
				if cc, ok := f.Cond.(*ssa.Call); ok && f.Pol && kit.StaticCallee(cc) == iro {
					good = true
				}
			}
			c.Check(good, getOv, "overlap-candidate", call.Pos(), "a region is reported as overlap only on the isRegionOverlap edge", "getOverlaps reports a region without testing isRegionOverlap")
		}

		// the search starts at the new region's own fully qualified table and start key
		for _, call := range kit.Calls(getOv, kit.M("", "", "createRegionSearchKey")) {
			a := call.Common().Args
			t, ok1 := kit.Strip(a[0]).(*ssa.Call)
			k, ok2 := kit.Strip(a[1]).(*ssa.Call)
			good := ok1 && ok2 && kit.CalleeName(t) == kit.M("", "", "fullyQualifiedTable") && t.Call.Args[0] == ssa.Value(getOv.Params[1]) &&
				kit.CalleeName(k) == hrpcRI+"StartKey" && k.Call.Value == ssa.Value(getOv.Params[1])
			c.Check(good, getOv, "overlap-search-key", call.Pos(), "the overlap search key is built from fullyQualifiedTable(reg) and reg.StartKey()", "the overlap search does not start at the new region's fully qualified table and start key: for a namespaced table the search lands among other tables and overlapping regions are not evicted")
		}
		// a predecessor that does not overlap must not end the search: its successors may
		ovCalls := []ssa.CallInstruction{}
		for _, call := range kit.Calls(getOv, kit.M("", "", "isRegionOverlap")) {
			ovCalls = append(ovCalls, call)
		}
		cont := false
		for _, call := range ovCalls {
			for _, r := range kit.Referrers(call.Value()) {
				iff, ok := r.(*ssa.If)
				if !ok {
					continue
				}
				e := kit.PathFromBlock(kit.SuccOnFalse(iff), kit.PathQuery{Target: func(x ssa.Instruction) bool {
					cc, ok := x.(*ssa.Call)
					return ok && kit.StaticCallee(cc) == iro && x != call.(ssa.Instruction)
				}})
				if e != nil {
					cont = true
				}
			}
		}
		c.Check(cont, getOv, "predecessor-not-terminal", getOv.Pos(), "a first candidate (the predecessor) that does not overlap does not end the search", "getOverlaps stops at the first region that does not overlap, even when that is the predecessor of the search key: regions after it that do overlap stay in the cache next to the new region")
	}
}
