package props

import (
	"fmt"
	"go/token"
	"go/types"
	"strings"

	"golang.org/x/tools/go/ssa"

	"gohbaseverif/kit"
)

func init() {
	register("C13", &Property{
		Title: "Cancellation is honoured promptly in every state",
		Explanation: "(R1) every blocking operation (blocking select, bare channel operation, sleep, wait, network I/O) in the synchronous call closure of the API entry points (methods of Client/AdminClient, SendRPC, scanner Next/Close; through hrpc.RegionClient into the region client; not across go statements) is a select with a <-ctx.Done() case whose context originates from the API caller's context parameter or from Context() of the call being processed (origin traced through context.With*, StartSpan, phis, spilled locals and parameter passing), or is a tabled exception with a checked precondition; " +
			"(R2) every wait on a call's result channel also watches a context derived from that same call's own Context() (the region client silently drops calls whose own context ended); " +
			"(R3) the region client does not send expired calls (multi.toProto tests Context().Err(), QueueRPC/QueueBatch have Done cases); " +
			"(R4) the scanner tests its context before every fetch." +
			" Added after the seeded-change rounds: (R3) in QueueRPC the direct (not context-aware) send is reached only when the call cannot be batched or the queue size is <= 1; (R5) every request the library builds itself (hrpc.New*) and uses synchronously is built with a context originating from the caller or the call (requests only handed to go statements are exempt); (R6) under SendBatch (descent stopped at SendRPC) every blocking select has a Done() case bound to SendBatch's own context parameter; (R7) the retry-loop rule of C17.R3 is run here: a cycle that skips the back-off wait also never observes cancellation.",
		Residue:   "the bound on the delay (real time); interruption of a kernel write in progress (tabled, bounded by the connection failing: C18)",
		Technique: "blocking-operation enumeration over the synchronous call closure + context-origin dataflow (SSA, CHA call graph)",
		Run:       runC13,
	})
}

// apiEntries returns the API entry points of the client.
func apiEntries(c *kit.Ctx, withCacheRegions bool) []*ssa.Function {
	p := c.P
	var out []*ssa.Function
	cl := p.Named("", "client")
	for _, in := range []string{"Client", "AdminClient", "RPCClient"} {
		n := p.Named("", in)
		if n == nil || cl == nil {
			continue
		}
		it := n.Underlying().(*types.Interface)
		for i := 0; i < it.NumMethods(); i++ {
			m := it.Method(i).Name()
			if m == "CacheRegions" && !withCacheRegions {
				continue
			}
			if fn := p.Func("", "client", m); fn != nil {
				out = append(out, fn)
			}
		}
	}
	for _, m := range []string{"Next", "Close"} {
		if fn := p.Func("", "scanner", m); fn != nil {
			out = append(out, fn)
		}
	}
	return out
}

func runC13(c *kit.Ctx) {
	p := c.P
	entries := apiEntries(c, false)
	c.Table("C13: CacheRegions(table) takes no context: there is no caller context to honour, it is not an entry point of this rule")
	if len(entries) < 20 {
		c.StartRule("anchors", "API entry points resolve", 0)
		c.Unk(nil, "unresolved-anchor", token.NoPos, fmt.Sprintf("only %d API entry points found (Client/AdminClient/RPCClient methods, scanner Next/Close)", len(entries)))
		return
	}
	a := &ctxAnalysis{p: p, entries: map[*ssa.Function]bool{}}
	for _, e := range entries {
		a.entries[e] = true
	}
	a.reach = p.SyncReach(entries, nil)
	a.propagate()
	for fn := range a.reach.Funcs {
		c.Funcs[kit.FuncName(fn)] = true
	}

	// table preconditions
	resultch := p.Field("hrpc", "base", "resultch")
	bufOK := resultch != nil
	nInit := 0
	if resultch != nil {
		for _, acc := range p.FieldAccesses(resultch) {
			if st, ok := acc.Instr.(*ssa.Store); ok && acc.Kind == "store" {
				nInit++
				mc, isMk := st.Val.(*ssa.MakeChan)
				if !isMk {
					bufOK = false
					continue
				}
				if k, ok := kit.ConstInt(mc.Size); !ok || k < 1 {
					bufOK = false
				}
			}
		}
	}
	if nInit == 0 {
		bufOK = false
	}
	c.Table("C13.R1: sends on Call.ResultChan() are not context-bound (reason: every result channel is created with capacity 1 and a call receives at most one result per attempt - C03; precondition re-checked: every store to hrpc.base.resultch is make(chan RPCResult, 1))")
	c.Table("C13.R1: the network write in region.(*client).send/write on the caller's goroutine for non-batched calls is not context-bound (reason: no context can interrupt a kernel write; it is bounded by the connection failing, C18/C03)")

	sendFn := p.Func("region", "client", "send")
	writeFn := p.Func("region", "client", "write")

	// ---- R1 -----------------------------------------------------------------
	c.StartRule("R1", "every blocking operation reachable synchronously from an API entry has a Done() case of the caller's or the call's own context", 9)
	type selInfo struct {
		sel  *ssa.Select
		fn   *ssa.Function
		done [][]origin
	}
	var sels []selInfo
	required := map[string]int{"(*gohbase.client).getRegionAndClientForRPC": 0, "gohbase.sendBlocking": 0, "(*gohbase.client).waitForCompletion": 0,
		"gohbase.sleepAndIncreaseBackoff": 0, "(*gohbase.client).zkLookup": 0, "(*region.client).QueueBatch": 0}
	for _, fn := range a.reach.Order {
		for _, op := range kit.BlockingOps(fn) {
			if _, ok := required[kit.FuncName(fn)]; ok {
				required[kit.FuncName(fn)]++
			}
			switch op.Kind {
			case "select":
				sel := op.Instr.(*ssa.Select)
				info := selInfo{sel: sel, fn: fn}
				good := false
				var descs []string
				for _, st := range sel.States {
					call, ok := st.Chan.(*ssa.Call)
					if !ok || st.Dir != types.RecvOnly || kit.CalleeName(call) != ctxDone {
						continue
					}
					os := a.originOf(call.Call.Value, 0)
					info.done = append(info.done, os)
					descs = append(descs, describeOrigins(os))
					if callerBound(os) {
						good = true
					}
				}
				sels = append(sels, info)
				if good {
					c.OK(fn, "select", sel.Pos(), "has a Done() case bound to: "+fmt.Sprint(descs))
				} else if len(descs) == 0 {
					c.Bad(fn, "select", sel.Pos(), "blocking select on an API caller's goroutine has no <-ctx.Done() case: cancellation is not observed while waiting here", reachPath(a.reach, fn))
				} else {
					c.Bad(fn, "select", sel.Pos(), "blocking select's Done() case is not the caller's (or the call's own) context: "+fmt.Sprint(descs), reachPath(a.reach, fn))
				}
			case "send":
				s := op.Instr.(*ssa.Send)
				if call, ok := s.Chan.(*ssa.Call); ok {
					if _, isRC := p.IsMethodOn(call, "hrpc", "Call", "ResultChan"); isRC && bufOK {
						c.OK(fn, "send-result", s.Pos(), "tabled: send on a capacity-1 result channel")
						continue
					}
				}
				c.Bad(fn, "send", s.Pos(), "bare channel send on an API caller's goroutine (not context-bound, not tabled)", reachPath(a.reach, fn))
			case "recv", "range-chan":
				c.Bad(fn, op.Kind, op.Instr.Pos(), "bare channel receive on an API caller's goroutine (not context-bound)", reachPath(a.reach, fn))
			default:
				if (fn == sendFn || fn == writeFn) && (op.Kind == "call:(net.Conn).Write" || op.Kind == "call:(*net.Buffers).WriteTo") {
					c.OK(fn, op.Kind, op.Instr.Pos(), "tabled: network write of a request on the caller's goroutine")
					continue
				}
				c.Bad(fn, op.Kind, op.Instr.Pos(), "blocking call on an API caller's goroutine that no context can interrupt (not tabled)", reachPath(a.reach, fn))
			}
		}
	}
	for name, n := range required {
		if n == 0 {
			c.Unk(nil, "named-wait-missing", token.NoPos, "the wait in "+name+" confirmed on the pinned tree is no longer found in the synchronous closure of the API: the rule must be re-read")
		}
	}
	if len(a.reach.Unresolved) > 0 {
		c.Assumption(fmt.Sprintf("%d calls of function values (parameters/struct fields: options, newClient factory, dialer) in the API closure are not followed", len(a.reach.Unresolved)))
	}

	// ---- R5 -----------------------------------------------------------------
	c.StartRule("R5", "calls built by the library and sent synchronously carry the caller's context", 3)
	for _, fn := range a.reach.Order {
		kit.Instrs(fn, func(in ssa.Instruction) {
			call, ok := in.(*ssa.Call)
			if !ok {
				return
			}
			callee := kit.StaticCallee(call)
			if callee == nil || callee.Pkg == nil || callee.Pkg.Pkg.Path() != kit.Module+"/hrpc" || !strings.HasPrefix(callee.Name(), "New") || len(call.Call.Args) == 0 || !isCtxType(call.Call.Args[0]) {
				return
			}
			// the call object: result 0
			var obj ssa.Value = call
			if call.Type().String() != "" {
				if _, isTuple := call.Type().(*types.Tuple); isTuple {
					obj = kit.ExtractOf(call, 0)
				}
			}
			onlyAsync := obj != nil
			nUse := 0
			if obj != nil {
				seen := map[ssa.Value]bool{}
				var uses func(v ssa.Value)
				uses = func(v ssa.Value) {
					if seen[v] {
						return
					}
					seen[v] = true
					for _, r := range kit.Referrers(v) {
						switch u := r.(type) {
						case *ssa.Go:
							nUse++
						case *ssa.Call, *ssa.Defer:
							nUse++
							onlyAsync = false
						case *ssa.Store:
							// spilled into a local: follow its loads
							if al, ok := u.Addr.(*ssa.Alloc); ok && u.Val == v {
								for _, rr := range kit.Referrers(al) {
									if l, ok := rr.(*ssa.UnOp); ok {
										uses(l)
									}
									// captured by a function literal: asynchronous iff the literal is only ever started
									// with go (go func() { _, _ = s.SendRPC(rpc) }())
									if mc, ok := rr.(*ssa.MakeClosure); ok {
										async := len(kit.Referrers(mc)) > 0
										for _, cr := range kit.Referrers(mc) {
											if _, isGo := cr.(*ssa.Go); !isGo {
												async = false
											}
										}
										if async {
											nUse++
										} else {
											onlyAsync = false
										}
									}
								}
							} else {
								onlyAsync = false
							}
						case *ssa.MakeInterface, *ssa.ChangeInterface, *ssa.Phi:
							uses(u.(ssa.Value))
						case *ssa.Return, *ssa.MakeClosure, *ssa.MapUpdate, *ssa.Send:
							onlyAsync = false
						}
					}
				}
				uses(obj)
			}
			os := a.originOf(call.Call.Args[0], 0)
			if onlyAsync && nUse > 0 {
				c.OK(fn, "built-call-context", call.Pos(), "the call is only handed to go statements: nobody waits for it ("+describeOrigins(os)+")")
				return
			}
			c.Check(callerBound(os), fn, "built-call-context", call.Pos(), "built with a context bound to: "+describeOrigins(os),
				"a request built inside the library with a context that is not the caller's ("+describeOrigins(os)+") is used synchronously on an API caller's goroutine: every wait below it watches that context, so the caller's cancellation is not observed")
		})
	}

	// ---- R6 -----------------------------------------------------------------
	c.StartRule("R6", "under SendBatch every wait up to the per-call send watches the batch's own context", 4)
	if sbFn := c.Anchor("", "client", "SendBatch"); sbFn != nil {
		single := p.Func("", "client", "SendRPC")
		b := &ctxAnalysis{p: p, entries: map[*ssa.Function]bool{sbFn: true}}
		b.reach = p.SyncReach([]*ssa.Function{sbFn}, func(site ssa.CallInstruction, callee *ssa.Function) bool { return callee == single })
		b.propagate()
		for _, fn := range b.reach.Order {
			for _, op := range kit.BlockingOps(fn) {
				sel, ok := op.Instr.(*ssa.Select)
				if !ok {
					continue
				}
				good := false
				var descs []string
				for _, st := range sel.States {
					call, ok := st.Chan.(*ssa.Call)
					if !ok || st.Dir != types.RecvOnly || kit.CalleeName(call) != ctxDone {
						continue
					}
					os := b.originOf(call.Call.Value, 0)
					descs = append(descs, describeOrigins(os))
					all := len(os) > 0
					for _, o := range os {
						if o.Kind != "caller" {
							all = false
						}
					}
					if all {
						good = true
					}
				}
				c.Check(good, fn, "batch-context-wait", sel.Pos(), "has a Done() case of the batch context: "+fmt.Sprint(descs),
					"a wait on the batch path has no Done() case bound to the context given to SendBatch (cases: "+fmt.Sprint(descs)+"): when the batch's context ends while this wait blocks, SendBatch does not return; "+reachPath(b.reach, fn))
			}
		}
	}

	// ---- R7 -----------------------------------------------------------------
	c.StartRule("R7", "every retry cycle passes the context-watching back-off wait (shared with C17.R3)", 6)
	cancelledWaitReturnsItsOwnError(c)
	retryLoopsWait(c)
	lookupContexts(c)

	// ---- R2 -----------------------------------------------------------------
	c.StartRule("R8", "no mutex is held across a blocking operation (Lock() watches no context)", 1)
	noBlockingWhileLocked(c, false)
	noRecursiveLocking(c)
	lockPairing(c, "/gohbase/region")
	lockPairing(c, "/gohbase")

	c.StartRule("R2", "waits for a call's result also watch that call's own context", 2)
	callerBatchIsNotRewritten(c)
	queueingWatchesTheBatchContextItself(c)
	for _, si := range sels {
		for _, st := range si.sel.States {
			call, ok := st.Chan.(*ssa.Call)
			if !ok || st.Dir != types.RecvOnly {
				continue
			}
			recv, isRC := p.IsMethodOn(call, "hrpc", "Call", "ResultChan")
			if !isRC {
				continue
			}
			want := kit.Root(recv)
			good := false
			var descs []string
			for _, os := range si.done {
				descs = append(descs, describeOrigins(os))
				all := len(os) > 0
				for _, o := range os {
					if o.Kind != "callctx" || o.Call == nil || kit.Root(o.Call) != want {
						all = false
					}
				}
				if all {
					good = true
				}
			}
			if good {
				c.OK(si.fn, "result-wait", si.sel.Pos(), "Done() case derives from Context() of the same call "+kit.Path(recv))
			} else {
				c.Bad(si.fn, "result-wait", si.sel.Pos(), "wait on "+kit.Path(recv)+".ResultChan() has no Done() case of that call's own context (cases: "+fmt.Sprint(descs)+"): the region client drops a call whose own context ended without delivering a result, so this wait hangs until some other context ends", "")
			}
		}
	}

	// ---- R3 -----------------------------------------------------------------
	c.StartRule("R3", "expired calls are not sent", 3)
	if mtp := c.Anchor("region", "multi", "toProto"); mtp != nil {
		// every SerializeCellBlocks/ToProto of an element call is dominated by the false edge of c.Context().Err() != nil
		n := 0
		kit.Instrs(mtp, func(in ssa.Instruction) {
			call, ok := in.(*ssa.Call)
			if !ok {
				return
			}
			nm := kit.CalleeName(call)
			if nm != hrpcCall+"ToProto" && nm != "("+kit.Module+"/region.canSerializeCellBlocks).SerializeCellBlocks" {
				return
			}
			n++
			guarded := false
			for _, f := range kit.FactsAt(call.Block()) {
				if done, ok := callContextFact(f); ok && !done {
					guarded = true
				}
			}
			c.Check(guarded, mtp, "serialise-live-call", call.Pos(), "serialised only on the edge c.Context().Err() == nil", "a call is serialised into the multi request without testing its context")
		})
		if n == 0 {
			c.Unk(mtp, "serialise-live-call", mtp.Pos(), "multi.toProto no longer serialises element calls in a recognisable way")
		}
	}
	for _, nm := range []string{"QueueRPC", "QueueBatch"} {
		fn := c.Anchor("region", "client", nm)
		if fn == nil {
			continue
		}
		found := false
		kit.Instrs(fn, func(in ssa.Instruction) {
			if sel, ok := in.(*ssa.Select); ok {
				for _, st := range sel.States {
					if call, ok := st.Chan.(*ssa.Call); ok && kit.CalleeName(call) == ctxDone {
						found = true
					}
				}
			}
		})
		c.Check(found, fn, "queue-done-case", fn.Pos(), "queueing select has a Done() case", "queueing no longer gives up when the context is done")
	}

	// the direct (not context-aware) send on the caller's goroutine is reserved to what the table above
	// excuses: calls that cannot be batched, or a client configured without a queue
	if qrpc := c.Anchor("region", "client", "QueueRPC"); qrpc != nil {
		qsF := p.Field("region", "client", "rpcQueueSize")
		n := 0
		for _, ts := range kit.Calls(qrpc, kit.M("region", "*client", "trySend")) {
			n++
			e := kit.PathFromEntry(qrpc, kit.PathQuery{
				Target: func(in ssa.Instruction) bool { return in == ts.(ssa.Instruction) },
				SkipEdge: func(from, to *ssa.BasicBlock) bool {
					for _, f := range kit.EdgeFacts(from, to) {
						if call, ok := f.Cond.(*ssa.Call); ok && !f.Pol && kit.CalleeName(call) == kit.M("hrpc", "", "CanBatch") {
							return true
						}
						if cmp, ok := kit.CanonCmp(f.Cond, f.Pol); ok && qsF != nil && isLoadOfField(cmp.X, qsF) {
							if k, ok := kit.ConstInt(cmp.Y); ok && (cmp.Op == token.LEQ && k <= 1 || cmp.Op == token.LSS && k <= 2 || cmp.Op == token.EQL && k <= 1) {
								return true
							}
						}
					}
					return false
				},
			})
			c.Check(e == nil, qrpc, "direct-send-only-unbatchable", ts.Pos(), "the direct send is reached only when the call cannot be batched or the queue size is <= 1",
				"a batchable call can bypass the queue although queueing is on: it takes the write lock and writes on the caller's goroutine, where no context is watched, instead of waiting in QueueBatch's select (which has the Done() case): "+c.BlockPath(e))
		}
		if n == 0 {
			c.Unk(qrpc, "direct-send-only-unbatchable", qrpc.Pos(), "QueueRPC no longer sends directly")
		}
	}

	// ---- R4 -----------------------------------------------------------------
	c.StartRule("R4", "the scanner tests its context before every fetch", 2)
	if next := c.Anchor("", "scanner", "Next"); next != nil {
		var ctxSel ssa.Instruction
		kit.Instrs(next, func(in ssa.Instruction) {
			if sel, ok := in.(*ssa.Select); ok && !sel.Blocking {
				for _, st := range sel.States {
					if call, ok := st.Chan.(*ssa.Call); ok && kit.CalleeName(call) == ctxDone {
						if os := a.originOf(call.Call.Value, 0); callerBound(os) {
							ctxSel = sel
						}
					}
				}
			}
			// the other form of the same test: if err := ctx.Err(); err != nil
			if call, ok := in.(*ssa.Call); ok && ctxSel == nil && call.Call.IsInvoke() && call.Call.Method.Name() == "Err" && isCtxType(call.Call.Value) {
				if os := a.originOf(call.Call.Value, 0); callerBound(os) {
					tested := false
					var visit func(v ssa.Value, d int)
					visit = func(v ssa.Value, d int) {
						if d > 3 {
							return
						}
						for _, r := range kit.Referrers(v) {
							switch x := r.(type) {
							case *ssa.If:
								tested = true
							case *ssa.BinOp:
								visit(x, d+1)
							case *ssa.Store:
								// spilled into a named result / captured variable and re-loaded
								if al, ok := x.Addr.(*ssa.Alloc); ok {
									for _, rr := range kit.Referrers(al) {
										if l, ok := rr.(*ssa.UnOp); ok && l.Block() == x.Block() {
											visit(l, d+1)
										}
									}
								}
							}
						}
					}
					visit(call, 0)
					if tested {
						ctxSel = call
					}
				}
			}
		})
		if ctxSel == nil {
			c.Bad(next, "ctx-test", next.Pos(), "scanner.Next no longer tests the scan's context", "")
		} else {
			for _, call := range kit.Calls(next, kit.M("", "*scanner", "peek")) {
				c.Check(kit.Dominates(ctxSel, call.(ssa.Instruction)), next, "ctx-test-before-fetch", call.Pos(), "the context test dominates this fetch", "a fetch is reachable without passing the context test")
			}
		}
	}

	// ---- R9 -----------------------------------------------------------------
	if !c.Frozen {
		embed(c, "R9", "a call of a batch whose own context ends is marked failed with that context's error (the positional and outcome rules of C07, run as one rule here)", 20, runC07)
	}
}

func reachPath(r *kit.Reach, fn *ssa.Function) string {
	var parts []string
	seen := map[*ssa.Function]bool{}
	for fn != nil && !seen[fn] {
		seen[fn] = true
		parts = append([]string{kit.FuncName(fn)}, parts...)
		via := r.Via[fn]
		if via == nil {
			break
		}
		fn = via.Parent()
	}
	s := "reached via "
	for i, x := range parts {
		if i > 0 {
			s += " -> "
		}
		s += x
	}
	return s
}
