package props

import (
	"go/token"
	"go/types"
	"strings"

	"golang.org/x/tools/go/ssa"

	"gohbaseverif/kit"
)

// Rules added after the ninth round of independently seeded changes.

// batchFlagLoweredOnlyWithAnError: SendBatch makes its second result false only where a result with an error exists:
// next to the store of an error into a slot (the validation loop), or where waitForCompletion / findClients - or a
// helper that passes their verdict on under the same discipline - said "not everything went well" (their own flags
// are covered by successFlagLoweredOnlyWithAnError and locateFailuresClearOK). Lowering it for another reason (the
// batch context happens to be done after the last result arrived) returns false with no error in any result. C07.R4.
func batchFlagLoweredOnlyWithAnError(c *kit.Ctx) {
	sb := c.Anchor("", "client", "SendBatch")
	if sb == nil {
		return
	}
	p := c.P
	errF := p.Field("hrpc", "RPCResult", "Error")
	if errF == nil || sb.Signature.Results().Len() == 0 {
		c.Unk(sb, "batch-flag-lowered-with-error", sb.Pos(), "hrpc.RPCResult.Error / the results of SendBatch not found")
		return
	}
	type loweringSite struct {
		b    *ssa.BasicBlock
		pos  token.Pos
		good bool
	}
	reporters := map[*ssa.Function]bool{}
	for _, n := range []string{"waitForCompletion", "findClients"} {
		if f := p.Func("", "client", n); f != nil {
			reporters[f] = true
		}
	}
	busy := map[*ssa.Function]bool{}
	var analyse func(fn *ssa.Function) []loweringSite
	// a helper whose last result is a flag lowered under the same discipline passes the verdict on
	isReporter := func(fn *ssa.Function) bool {
		if fn == nil {
			return false
		}
		if r, ok := reporters[fn]; ok {
			return r
		}
		if busy[fn] || !p.IsSubject(fn) || fn.Blocks == nil || fn.Signature.Results().Len() == 0 {
			return false
		}
		if bt, ok := fn.Signature.Results().At(fn.Signature.Results().Len() - 1).Type().Underlying().(*types.Basic); !ok || bt.Kind() != types.Bool {
			return false
		}
		busy[fn] = true
		sites := analyse(fn)
		busy[fn] = false
		good := len(sites) > 0
		for _, st := range sites {
			if !st.good {
				good = false
			}
		}
		reporters[fn] = good
		return good
	}
	analyse = func(fn *ssa.Function) []loweringSite {
		k := fn.Signature.Results().Len() - 1
		var flagAllocs []*ssa.Alloc
		// "a helper reported a failure": a fact `flag == false` whose flag is a boolean result of one of the reporters
		var hasErrorFn func(facts []kit.Fact) bool
		// a flag computed here (by an expanded helper) whose every lowering is justified: `ok = true; for ... { if
		// !groupOK { ok = false } }`
		webSeen := map[ssa.Value]bool{}
		var justifiedWeb func(v ssa.Value) bool
		justifiedWeb = func(v ssa.Value) bool {
			if webSeen[v] {
				return true
			}
			webSeen[v] = true
			switch x := v.(type) {
			case *ssa.Phi:
				for i, e := range x.Edges {
					if val, isC := kit.BoolConst(e); isC {
						if val {
							continue
						}
						pred := x.Block().Preds[i]
						if !(hasErrorFn(kit.EdgeFacts(pred, x.Block())) || kit.OnAllWays(pred, hasErrorFn, 0)) {
							return false
						}
						continue
					}
					if !justifiedWeb(e) {
						return false
					}
				}
				return true
			case *ssa.Extract:
				call, ok := x.Tuple.(*ssa.Call)
				return ok && isReporter(call.Call.StaticCallee())
			}
			return false
		}
		reported := func(facts []kit.Fact) bool {
			for _, f := range facts {
				v, pol := kit.NormBool(f.Cond, f.Pol)
				if pol {
					continue
				}
				if ph, isPhi := v.(*ssa.Phi); isPhi {
					for k := range webSeen {
						delete(webSeen, k)
					}
					if justifiedWeb(ph) {
						return true
					}
					continue
				}
				ex, ok := kit.Root(v).(*ssa.Extract)
				if !ok {
					if ex, ok = v.(*ssa.Extract); !ok {
						continue
					}
				}
				if call, ok := ex.Tuple.(*ssa.Call); ok && isReporter(call.Call.StaticCallee()) {
					return true
				}
			}
			return false
		}
		hasError := func(facts []kit.Fact) bool {
			for _, f := range facts {
				if cmp, ok := kit.CanonCmp(f.Cond, f.Pol); ok && cmp.Op == token.NEQ && kit.IsNilConst(cmp.Y) && isLoadOfField(cmp.X, errF) {
					return true
				}
			}
			return reported(facts)
		}
		hasErrorFn = hasError
		// the flag itself is known to be false here (`if !allOK { return res, false }`)
		flagIsDown := func(facts []kit.Fact) bool {
			for _, f := range facts {
				v, pol := kit.NormBool(f.Cond, f.Pol)
				if pol {
					continue
				}
				if u, ok := v.(*ssa.UnOp); ok && u.Op == token.MUL {
					addr := u.X
					if fv, ok := addr.(*ssa.FreeVar); ok {
						if b := kit.FreeVarBinding(fv); b != nil {
							addr = b
						}
					}
					for _, a := range flagAllocs {
						if addr == ssa.Value(a) {
							return true
						}
					}
				}
			}
			return false
		}
		storesError := func(b *ssa.BasicBlock) bool {
			for _, in := range b.Instrs {
				st, ok := in.(*ssa.Store)
				if !ok {
					continue
				}
				if fa, ok := st.Addr.(*ssa.FieldAddr); ok && kit.FieldVar(fa.X.Type(), fa.Field) == errF && !kit.IsNilConst(st.Val) {
					return true
				}
			}
			return false
		}
		var pending []loweringSite
		site := func(b *ssa.BasicBlock, pos token.Pos) { pending = append(pending, loweringSite{b: b, pos: pos}) }
		web := map[ssa.Value]bool{}
		var grow func(v ssa.Value)
		grow = func(v ssa.Value) {
			if web[v] {
				return
			}
			web[v] = true
			switch x := v.(type) {
			case *ssa.Phi:
				for i, e := range x.Edges {
					if val, isC := kit.BoolConst(e); isC && !val {
						site(x.Block().Preds[i], firstPos(x.Block().Preds[i]))
						continue
					}
					grow(e)
				}
			case *ssa.Extract:
				// the verdict of a reporter handed on as it is
				if call, ok := x.Tuple.(*ssa.Call); ok && !isReporter(call.Call.StaticCallee()) {
					if _, isBool := kit.BoolConst(x); !isBool {
						site(call.Block(), call.Pos())
					}
				}
			case *ssa.BinOp:
				if x.Op == token.AND || x.Op == token.LAND {
					grow(x.X)
					grow(x.Y)
				}
			case *ssa.UnOp:
				if x.Op == token.MUL {
					if a, ok := x.X.(*ssa.Alloc); ok {
						for _, have := range flagAllocs {
							if have == a {
								return
							}
						}
						flagAllocs = append(flagAllocs, a)
					}
				}
			}
		}
		kit.Instrs(fn, func(in ssa.Instruction) {
			r, ok := in.(*ssa.Return)
			if !ok || k >= len(r.Results) {
				return
			}
			v := kit.Res(r, k)
			if val, isC := kit.BoolConst(v); isC {
				if !val {
					site(r.Block(), r.Pos())
				}
				return
			}
			grow(v)
		})
		for _, a := range flagAllocs {
			var visit func(f *ssa.Function, target ssa.Value)
			visit = func(f *ssa.Function, target ssa.Value) {
				kit.Instrs(f, func(in ssa.Instruction) {
					switch s := in.(type) {
					case *ssa.Store:
						if s.Addr != target {
							return
						}
						if val, isC := kit.BoolConst(s.Val); isC && !val {
							site(s.Block(), s.Pos())
						} else if !isC {
							if _, isLoad := s.Val.(*ssa.UnOp); !isLoad {
								grow(s.Val)
							}
						}
					case *ssa.MakeClosure:
						for i, b := range s.Bindings {
							if b == target {
								cf := s.Fn.(*ssa.Function)
								visit(cf, cf.FreeVars[i])
							}
						}
					}
				})
			}
			visit(a.Parent(), a)
		}
		for i := range pending {
			b := pending[i].b
			good := false
			for d := b; d != nil; d = d.Idom() {
				if storesError(d) {
					good = true
					break
				}
				if len(d.Preds) > 1 {
					break
				}
			}
			if !good {
				good = kit.OnAllWays(b, func(facts []kit.Fact) bool { return hasError(facts) || flagIsDown(facts) }, 0)
			}
			pending[i].good = good
		}
		return pending
	}
	sites := analyse(sb)
	for _, st := range sites {
		c.Check(st.good, st.b.Parent(), "batch-flag-lowered-with-error", st.pos, "SendBatch lowers its success flag where a result with an error exists",
			"SendBatch makes its second result false on a way on which no result with an error was recorded and no helper reported a failure (e.g. because the batch context is done although every call has been answered): it returns false with a nil error in every result")
	}
	if len(sites) == 0 {
		c.Unk(sb, "batch-flag-lowered-with-error", sb.Pos(), "no place found where SendBatch lowers its success flag")
	}
}

// constructorPanicsAreInputIndependent: the client builds its own requests (the probe of an establisher, the close
// request of a scanner) with the hrpc constructors and panics "should not happen" when they fail. That is sound
// only while a constructor can fail in nothing but its options: a constructor that also rejects some keys or tables
// (a length limit, say) turns data from hbase:meta - the start key of a region - into a panic in a goroutine nobody
// recovers. C11.K4, C09.R6.
func constructorPanicsAreInputIndependent(c *kit.Ctx) {
	p := c.P
	hrpcPkg := p.Pkg("hrpc")
	if hrpcPkg == nil {
		return
	}
	memo := map[*ssa.Function]string{}
	var onlyFromOptions func(fn *ssa.Function, depth int) string // "" = good, else the offending position
	onlyFromOptions = func(fn *ssa.Function, depth int) string {
		if r, ok := memo[fn]; ok {
			return r
		}
		memo[fn] = ""
		if fn.Blocks == nil || depth > 6 {
			memo[fn] = "the body of " + kit.FuncName(fn) + " is not available"
			return memo[fn]
		}
		res := ""
		kit.Instrs(fn, func(in ssa.Instruction) {
			r, ok := in.(*ssa.Return)
			if !ok || res != "" {
				return
			}
			ev := returnedError(r)
			if ev == nil {
				return
			}
			seen := map[ssa.Value]bool{}
			var leaf func(v ssa.Value)
			leaf = func(v ssa.Value) {
				if seen[v] || res != "" {
					return
				}
				seen[v] = true
				if kit.IsNilConst(v) {
					return
				}
				switch x := v.(type) {
				case *ssa.Phi:
					for _, e := range x.Edges {
						leaf(e)
					}
					return
				case *ssa.Extract:
					leaf(x.Tuple)
					return
				case *ssa.Call:
					callee := x.Call.StaticCallee()
					if callee == nil && !x.Call.IsInvoke() {
						return // a call of a function value: an option
					}
					if callee != nil && callee.Pkg != nil && callee.Pkg.Pkg == hrpcPkg {
						if why := onlyFromOptions(callee, depth+1); why != "" {
							res = why
						}
						return
					}
				case *ssa.UnOp:
					if x.Op == token.MUL {
						if a, ok := x.X.(*ssa.Alloc); ok {
							for _, s := range kit.StoresTo(a) {
								leaf(s)
							}
							return
						}
					}
				}
				if r2 := kit.Root(v); r2 != v {
					leaf(r2)
					return
				}
				res = p.Pos(r.Pos()) + " (" + kit.FuncName(fn) + ")"
			}
			leaf(ev)
		})
		memo[fn] = res
		return res
	}
	n := 0
	for _, fn := range p.Funcs {
		if !p.IsSubject(fn) || fn.Blocks == nil {
			continue
		}
		kit.Instrs(fn, func(in ssa.Instruction) {
			pn, ok := in.(*ssa.Panic)
			if !ok {
				return
			}
			for _, f := range kit.FactsAt(pn.Block()) {
				cmp, ok := kit.CanonCmp(f.Cond, f.Pol)
				if !ok || cmp.Op != token.NEQ || !kit.IsNilConst(cmp.Y) || !kit.IsErrorType(cmp.X.Type()) {
					continue
				}
				v := cmp.X
				if u, isLoad := v.(*ssa.UnOp); isLoad && u.Op == token.MUL {
					if a, isA := u.X.(*ssa.Alloc); isA {
						if s := kit.ReachingStore(u, a); s != nil {
							v = s
						}
					}
				}
				ex, ok := v.(*ssa.Extract)
				if !ok {
					if ex, ok = kit.Root(v).(*ssa.Extract); !ok {
						continue
					}
				}
				call, ok := ex.Tuple.(*ssa.Call)
				if !ok {
					continue
				}
				callee := call.Call.StaticCallee()
				if callee == nil || callee.Pkg == nil || callee.Pkg.Pkg != hrpcPkg || !strings.HasPrefix(callee.Name(), "New") {
					continue
				}
				n++
				why := onlyFromOptions(callee, 0)
				c.Check(why == "", fn, "constructor-panic "+callee.Name(), pn.Pos(), "hrpc."+callee.Name()+" fails only where one of its options fails: the 'should not happen' panic does not depend on the key or table",
					"the client panics when hrpc."+callee.Name()+" fails, and that constructor can now fail for a reason other than its options (an error made at "+why+"): a key or table taken from hbase:meta (a region's start key) that the constructor rejects crashes the goroutine, which nobody recovers")
			}
		})
	}
	if n < 2 {
		c.Unk(nil, "constructor-panic", token.NoPos, "fewer than the two confirmed 'should not happen' panics after an hrpc constructor were found (isRegionEstablished, closeRegionScanner)")
	}
}

// peerStringsNeverBecomeLabels: prometheus panics on a label value that is not valid UTF-8, and protobuf does not
// check proto2 strings: a string taken from a response (an exception class name, a region name, a server address)
// must not be used as a label value on the decode surface. Label values there are constants or the client's own
// address. C11.K4.
func peerStringsNeverBecomeLabels(c *kit.Ctx, surface []*ssa.Function) {
	isSink := func(call ssa.CallInstruction) bool {
		callee := call.Common().StaticCallee()
		if callee == nil || callee.Pkg == nil || !strings.Contains(callee.Pkg.Pkg.Path(), "prometheus/client_golang/prometheus") {
			return false
		}
		switch callee.Name() {
		case "WithLabelValues", "GetMetricWithLabelValues", "With", "GetMetricWith", "MustCurryWith", "CurryWith":
			return true
		}
		return false
	}
	var local func(v ssa.Value, depth int) bool
	local = func(v ssa.Value, depth int) bool {
		if depth > 6 {
			return false
		}
		switch x := v.(type) {
		case *ssa.Const:
			return true
		case *ssa.Phi:
			for _, e := range x.Edges {
				if !local(e, depth+1) {
					return false
				}
			}
			return true
		case *ssa.BinOp:
			return x.Op == token.ADD && local(x.X, depth+1) && local(x.Y, depth+1)
		case *ssa.Call:
			if cal := x.Call.StaticCallee(); cal != nil {
				n := kit.FuncName(cal)
				if n == "(*region.client).Addr" || n == "(*region.client).String" || strings.HasPrefix(n, "strconv.") {
					return true
				}
			}
			return false
		}
		if r := kit.Root(v); r != v {
			return local(r, depth+1)
		}
		return false
	}
	for _, f := range surface {
		kit.Instrs(f, func(in ssa.Instruction) {
			call, ok := in.(ssa.CallInstruction)
			if !ok || !isSink(call) {
				return
			}
			var labels []ssa.Value
			for _, a := range call.Common().Args {
				switch t := a.Type().Underlying().(type) {
				case *types.Basic:
					if t.Info()&types.IsString != 0 {
						labels = append(labels, a)
					}
				case *types.Slice:
					if sl, ok := a.(*ssa.Slice); ok {
						for _, r := range kit.Referrers(sl.X) {
							if ia, ok := r.(*ssa.IndexAddr); ok {
								for _, r2 := range kit.Referrers(ia) {
									if st, ok := r2.(*ssa.Store); ok && st.Addr == ssa.Value(ia) {
										labels = append(labels, st.Val)
									}
								}
							}
						}
					} else if !kit.IsNilConst(a) {
						labels = append(labels, a) // a slice that is not built here: not recognised as local
					}
				case *types.Map:
					if mm, ok := kit.Root(a).(*ssa.MakeMap); ok {
						for _, r := range kit.Referrers(mm) {
							if mu, ok := r.(*ssa.MapUpdate); ok {
								labels = append(labels, mu.Value)
							}
						}
					} else {
						labels = append(labels, a)
					}
				}
			}
			good := true
			for _, l := range labels {
				if !local(l, 0) {
					good = false
				}
			}
			c.Check(good, f, "label-values", in.Pos(), "the label values of this metric are constants or the client's own address", "a string that comes out of a response is used as a prometheus label value on the decode surface: protobuf does not validate proto2 strings, prometheus panics on a label value that is not valid UTF-8 - one malformed class name or address from the peer kills the process")
		})
	}
}

// oneEstablisherPerOutage: MarkUnavailable creates the availability channel - and tells its caller to start an
// establisher - only where it saw that there was none, in the same critical section. Two callers that both get true
// start two establishers for one region; each runs its own back-off schedule for as long as the region is down, so
// the rate of lookups and probes is a multiple of the schedule's. C17.R3 (the stranded-waiter side is C09.R5).
func oneEstablisherPerOutage(c *kit.Ctx) {
	markU := c.Anchor("region", "info", "MarkUnavailable")
	availF := c.P.Field("region", "info", "available")
	if markU == nil || availF == nil {
		return
	}
	var mkStore *ssa.Store
	kit.Instrs(markU, func(in ssa.Instruction) {
		if st, ok := in.(*ssa.Store); ok {
			if fa, ok := st.Addr.(*ssa.FieldAddr); ok && kit.FieldVar(fa.X.Type(), fa.Field) == availF {
				if _, isMk := kit.Root(st.Val).(*ssa.MakeChan); isMk {
					mkStore = st
				}
			}
		}
	})
	if mkStore == nil {
		c.Unk(markU, "one-establisher", markU.Pos(), "MarkUnavailable no longer stores a fresh channel into info.available")
		return
	}
	good := false
	var test ssa.Instruction
	for _, f := range kit.FactsAt(mkStore.Block()) {
		if cmp, ok := kit.CanonCmp(f.Cond, f.Pol); ok && cmp.Op == token.EQL && kit.IsNilConst(cmp.Y) && isLoadOfField(cmp.X, availF) {
			good = true
			if in, ok := cmp.X.(ssa.Instruction); ok {
				test = in
			}
		}
	}
	if good && test != nil {
		// no unlock between the test and the creation
		e := kit.PathFrom(test, kit.PathQuery{
			Target: func(x ssa.Instruction) bool { return x == ssa.Instruction(mkStore) },
			Stop: func(x ssa.Instruction) bool {
				if call, ok := x.(*ssa.Call); ok {
					n := kit.CalleeName(call)
					return strings.HasSuffix(n, ".Unlock") || strings.HasSuffix(n, ".RUnlock")
				}
				return false
			},
		})
		good = e != nil
	}
	c.Check(good, markU, "one-establisher", mkStore.Pos(), "the channel is created where the same critical section saw that there was none", "MarkUnavailable can create the availability channel (and report true) although another caller has just done so: both callers start an establisher for the region, each with its own back-off schedule - the rate of lookups and probes against a region that stays down is multiplied")
}

// pooledObjectsAreReturnedOnce: an object goes back to its sync.Pool at most once on every way through a function.
// An object that is put twice is handed out twice: two senders then fill the same request header (one request goes
// out under the other's call id - the response is delivered to the wrong caller) or compress into the same buffer.
// C02.R3, C05.R6, C15.R2.
func pooledObjectsAreReturnedOnce(c *kit.Ctx) {
	p := c.P
	// the functions that give an object back: a Pool.Put of (a slice of) their parameter
	wrappers := map[*ssa.Function]bool{}
	isPut := func(ci ssa.CallInstruction) bool {
		return kit.CalleeName(ci) == "(*sync.Pool).Put"
	}
	for _, fn := range p.Funcs {
		if !p.IsSubject(fn) || fn.Blocks == nil || len(fn.Params) == 0 {
			continue
		}
		kit.Instrs(fn, func(in ssa.Instruction) {
			ci, ok := in.(ssa.CallInstruction)
			if !ok || !isPut(ci) || len(ci.Common().Args) < 2 {
				return
			}
			r := kit.Root(ci.Common().Args[1])
			for {
				if sl, ok := r.(*ssa.Slice); ok {
					r = kit.Root(sl.X)
					continue
				}
				break
			}
			for _, pa := range fn.Params {
				if r == ssa.Value(pa) {
					wrappers[fn] = true
				}
			}
		})
	}
	if len(wrappers) < 2 {
		c.Unk(nil, "returned-once", token.NoPos, "fewer than the two confirmed functions that give an object back to a pool were found (freeBuffer, returnHeader)")
		return
	}
	type site struct {
		in  ssa.Instruction
		w   *ssa.Function
		arg ssa.Value
	}
	n := 0
	for _, fn := range p.Funcs {
		if !p.IsSubject(fn) || fn.Blocks == nil || wrappers[fn] {
			continue
		}
		var sites []site
		kit.Instrs(fn, func(in ssa.Instruction) {
			ci, ok := in.(ssa.CallInstruction)
			if !ok {
				return
			}
			if _, isGo := in.(*ssa.Go); isGo {
				return
			}
			if w := ci.Common().StaticCallee(); w != nil && wrappers[w] && len(ci.Common().Args) >= 1 {
				sites = append(sites, site{in, w, ci.Common().Args[len(ci.Common().Args)-1]})
			}
		})
		if len(sites) == 0 {
			continue
		}
		n += len(sites)
		if len(sites) == 1 {
			c.OK(fn, "returned-once", sites[0].in.Pos(), "the only place in this function that gives this object back")
			continue
		}
		for i, a := range sites {
			for _, b := range sites[i+1:] {
				if a.w != b.w || !(kit.Same(a.arg, b.arg) || kit.SameCond(a.arg, b.arg)) {
					continue
				}
				both := kit.MayReach(a.in, b.in) || kit.MayReach(b.in, a.in)
				c.Check(!both, fn, "returned-once", b.in.Pos(), "no way through the function passes both places that give this object back", kit.FuncName(fn)+" can give the same object back to its pool twice on one way (here and at "+p.Pos(a.in.Pos())+"): the pool then hands it to two users at once - two requests are marshalled with the same header (one goes out under the other's call id and the response reaches the wrong caller) or compressed into the same memory")
			}
		}
	}
	if n == 0 {
		c.Unk(nil, "returned-once", token.NoPos, "no call of a function that gives an object back to a pool found")
	}
}

// regionKeysAreNotWrittenThrough: the byte slices a RegionInfo hands out (start key, stop key, name, table,
// namespace) are the cached region's own memory, shared by every request routed through it. Nothing appends to them
// or stores into them: an append writes into the spare capacity of the region's own array when there is any, and a
// following store through the result changes the cached key itself - requests are then routed, and scans restarted,
// with a key the caller never asked for. C05.R9, C01.R5, C06.R3.
func regionKeysAreNotWrittenThrough(c *kit.Ctx) {
	p := c.P
	getters := map[string]bool{"StartKey": true, "StopKey": true, "Name": true, "Table": true, "Namespace": true}
	fromRegion := func(v ssa.Value) (string, bool) {
		r := kit.Root(v)
		call, ok := r.(*ssa.Call)
		if !ok {
			return "", false
		}
		if call.Call.IsInvoke() {
			if getters[call.Call.Method.Name()] && strings.HasSuffix(call.Call.Value.Type().String(), "hrpc.RegionInfo") {
				return call.Call.Method.Name(), true
			}
			return "", false
		}
		if cal := call.Call.StaticCallee(); cal != nil && cal.Signature.Recv() != nil && getters[cal.Name()] && strings.Contains(cal.Signature.Recv().Type().String(), "region.info") {
			return cal.Name(), true
		}
		return "", false
	}
	n := 0
	for _, fn := range p.Funcs {
		if !p.IsSubject(fn) || fn.Blocks == nil {
			continue
		}
		kit.Instrs(fn, func(in ssa.Instruction) {
			switch x := in.(type) {
			case *ssa.Call:
				name := kit.CalleeName(x)
				if (name == "builtin.append" || name == "builtin.copy") && len(x.Call.Args) >= 1 {
					if sl, ok := x.Call.Args[0].(*ssa.Slice); ok && sl.Max != nil {
						return // full slice expression: the append cannot reach the spare capacity
					}
					if g, ok := fromRegion(x.Call.Args[0]); ok {
						n++
						c.Bad(fn, "region-key-written", x.Pos(), strings.TrimPrefix(name, "builtin.")+" with the slice RegionInfo."+g+"() handed out as its destination: with spare capacity the region's own array is written, and a store through the result changes the cached region's key for every other request", "")
					}
				}
			case *ssa.Store:
				if ia, ok := x.Addr.(*ssa.IndexAddr); ok {
					if g, ok := fromRegion(ia.X); ok {
						n++
						c.Bad(fn, "region-key-written", x.Pos(), "store into the slice RegionInfo."+g+"() handed out: the cached region's key changes for every other request", "")
					}
				}
			}
		})
	}
	if n == 0 {
		c.OK(nil, "region-key-written", token.NoPos, "no append to, copy into or store through a slice handed out by a RegionInfo")
	}
}

// fetchEndsOnlyWhenTheScanIsOver: scanner.fetch answers io.EOF only where the scan as a whole is over (s.closed,
// which update()/Close set when the last region is exhausted, the stop row or the limit is reached). "The region
// scanner is closed" only means that this region is exhausted: a response without rows that ends a region in the
// middle of the range (an empty region, a filter that drops its tail) would end the scan there - the rows of all
// later regions are never returned and no error is reported. C06.R2, C14.R4.
func fetchEndsOnlyWhenTheScanIsOver(c *kit.Ctx) {
	fetch := c.Anchor("", "scanner", "fetch")
	closedF := c.P.Field("", "scanner", "closed")
	eof := c.P.Global("io", "EOF")
	if fetch == nil || closedF == nil {
		return
	}
	if eof == nil {
		if pkg := c.P.SSA.ImportedPackage("io"); pkg != nil {
			eof, _ = pkg.Members["EOF"].(*ssa.Global)
		}
	}
	scanOver := func(facts []kit.Fact) bool {
		for _, f := range facts {
			v, pol := kit.NormBool(f.Cond, f.Pol)
			if pol && isLoadOfField(v, closedF) {
				return true
			}
		}
		return false
	}
	n := 0
	kit.Instrs(fetch, func(in ssa.Instruction) {
		r, ok := in.(*ssa.Return)
		if !ok {
			return
		}
		ev := returnedError(r)
		if ev == nil || eof == nil || !isGlobalLoad(kit.Strip(ev), eof) {
			return
		}
		n++
		c.Check(kit.OnAllWays(r.Block(), scanOver, 0), fetch, "eof-only-when-scan-over", r.Pos(), "io.EOF is answered only where s.closed holds", "fetch answers io.EOF on a way on which the scan is not known to be over (s.closed): a response without rows that merely ends one region ends the whole scan - the rows of the remaining regions are silently missing")
	})
	if n == 0 {
		c.Unk(fetch, "eof-only-when-scan-over", fetch.Pos(), "fetch no longer answers io.EOF anywhere")
	}
}

// cancelledWaitReturnsItsOwnError: when the back-off wait of a retry loop ends early (its context is done) the
// function returns the error of the wait itself - the context's error - and not the error of the attempt before it,
// and not a new error that merely mentions it: callers recognise cancellation by errors.Is(err, context.Canceled /
// DeadlineExceeded). C13.R5.
func cancelledWaitReturnsItsOwnError(c *kit.Ctx) {
	p := c.P
	sleepName := kit.M("", "", "sleepAndIncreaseBackoff")
	n := 0
	for _, fn := range p.Funcs {
		if !p.IsSubject(fn) || fn.Blocks == nil {
			continue
		}
		for _, call := range kit.Calls(fn, sleepName) {
			cv, ok := call.(*ssa.Call)
			if !ok {
				continue
			}
			e := kit.ExtractOf(cv, 1)
			if e == nil {
				continue
			}
			isE := func(v ssa.Value) bool {
				if v == e || kit.Root(v) == e {
					return true
				}
				if u, ok := v.(*ssa.UnOp); ok && u.Op == token.MUL {
					if a, ok := u.X.(*ssa.Alloc); ok {
						if s := kit.ReachingStore(u, a); s == e {
							return true
						}
					}
				}
				return false
			}
			kit.Instrs(fn, func(in ssa.Instruction) {
				r, ok := in.(*ssa.Return)
				if !ok || len(r.Results) == 0 || !kit.IsErrorType(r.Results[len(r.Results)-1].Type()) {
					return
				}
				under := false
				for _, f := range kit.FactsAt(r.Block()) {
					if cmp, ok := kit.CanonCmp(f.Cond, f.Pol); ok && cmp.Op == token.NEQ && kit.IsNilConst(cmp.Y) && isE(cmp.X) {
						under = true
					}
				}
				if !under {
					return
				}
				n++
				raw := kit.Res(r, len(r.Results)-1)
				ev := returnedError(r)
				c.Check(isE(raw) || (ev != nil && isE(ev)), fn, "wait-error-returned", r.Pos(), "the function returns the error of the interrupted wait itself", kit.FuncName(fn)+" returns something other than the error of its interrupted back-off wait (the error of the attempt before it, or a new error that wraps it as text): a caller whose context ended gets an HBase error, or one that errors.Is does not recognise as a cancellation")
			})
		}
	}
	if n < 2 {
		c.Unk(nil, "wait-error-returned", token.NoPos, "fewer than two returns on the error of sleepAndIncreaseBackoff found (SendRPC, lookupRegion confirmed)")
	}
}

// lookupFailuresReachTheirSlots: when findClients could not locate every call of a round, SendBatch gives each call
// whose lookup failed that lookup's error: from the test `lookupRes[i].Error != nil` every way to the next call (or
// out of the function) stores into the call's result slot. A lookup error that is dropped because the slot "already
// has" an error leaves the error of an earlier round there: after Close the calls of a batch in flight come back with
// the connection's ServerError instead of ErrClientClosed, and a context error is hidden behind a retryable one.
// C07.R4, C19.R5.
func lookupFailuresReachTheirSlots(c *kit.Ctx) {
	sb := c.Anchor("", "client", "SendBatch")
	errF := c.P.Field("hrpc", "RPCResult", "Error")
	fc := c.P.Func("", "client", "findClients")
	if sb == nil || errF == nil || fc == nil {
		return
	}
	n := 0
	for _, fn := range kit.WithAnon(sb) {
		for _, call := range kit.Calls(fn, kit.M("", "*client", "findClients")) {
			args := call.Common().Args
			var lookupRes ssa.Value
			for _, a := range args {
				if isResultSlice(c.P, a.Type()) {
					lookupRes = kit.Root(a)
				}
			}
			if lookupRes == nil {
				continue
			}
			fromLookup := func(v ssa.Value) bool {
				// a load of the Error field of an element of lookupRes
				u, ok := kit.Strip(v).(*ssa.UnOp)
				if !ok || u.Op != token.MUL {
					return false
				}
				fa, ok := u.X.(*ssa.FieldAddr)
				if !ok || kit.FieldVar(fa.X.Type(), fa.Field) != errF {
					return false
				}
				ia, ok := fa.X.(*ssa.IndexAddr)
				return ok && kit.Root(ia.X) == lookupRes
			}
			kit.Instrs(fn, func(in ssa.Instruction) {
				br, ok := in.(*ssa.If)
				if !ok {
					return
				}
				cmp, ok := kit.CanonCmp(br.Cond, true)
				if !ok || !kit.IsNilConst(cmp.Y) || !fromLookup(cmp.X) || (cmp.Op != token.NEQ && cmp.Op != token.EQL) {
					return
				}
				failed := br.Block().Succs[0]
				if cmp.Op == token.EQL {
					failed = br.Block().Succs[1]
				}
				n++
				e := kit.PathFromBlock(failed, kit.PathQuery{
					Stop: func(x ssa.Instruction) bool {
						st, ok := x.(*ssa.Store)
						if !ok {
							return false
						}
						ia, ok := st.Addr.(*ssa.IndexAddr)
						if !ok {
							if fa, isF := st.Addr.(*ssa.FieldAddr); isF {
								ia, ok = fa.X.(*ssa.IndexAddr)
							}
						}
						return ok && isResultSlice(c.P, ia.X.Type()) && kit.Root(ia.X) != lookupRes
					},
					Target: func(x ssa.Instruction) bool {
						if _, isRet := x.(*ssa.Return); isRet {
							return true
						}
						// the next element of the loop
						if nx, isNext := x.(*ssa.Next); isNext {
							return true && nx != nil
						}
						if ph, isPhi := x.(*ssa.Phi); isPhi && x.Block() != failed && len(x.Block().Preds) > 1 && x.Block().Dominates(br.Block()) {
							return ph != nil
						}
						return false
					},
					Known: kit.EdgeFacts(br.Block(), failed),
				})
				c.Check(e == nil, fn, "lookup-error-stored", firstPos(failed), "a call whose lookup failed gets that error on every way", "SendBatch can leave the result slot of a call whose region lookup failed as it was (e.g. because it already holds the error of an earlier round): after Close the calls of a batch in flight return the connection's ServerError instead of ErrClientClosed; a cancellation is hidden behind a retryable error: "+c.BlockPath(e))
			})
		}
	}
	if n == 0 {
		c.Unk(sb, "lookup-error-stored", sb.Pos(), "no test of a lookup result's error found after findClients in SendBatch")
	}
}

// classificationGoesByClassName: exceptionToError returns one of the three classes only where the exception's class
// name - its first parameter - was found in one of the three tables. A class decided by anything else (a cause
// mentioned in the stack trace, a prefix) makes exceptions of other classes retryable (a call the server refused
// for good - or executed - is sent again) or connection-fatal (a healthy connection is declared dead and a second
// one is dialled). C12.R2, C20.R3, C17.R3, C04.R1.
func classificationGoesByClassName(c *kit.Ctx) {
	e2e := c.Anchor("region", "", "exceptionToError")
	if e2e == nil || len(e2e.Params) == 0 {
		return
	}
	class := e2e.Params[0]
	tables := map[ssa.Value]bool{}
	for _, t := range []string{"javaRetryableExceptions", "javaRegionExceptions", "javaServerExceptions"} {
		if g := c.P.Global("region", t); g != nil {
			tables[g] = true
		}
	}
	byName := func(facts []kit.Fact) bool {
		for _, f := range facts {
			v, pol := kit.NormBool(f.Cond, f.Pol)
			if !pol {
				continue
			}
			ex, ok := v.(*ssa.Extract)
			if !ok {
				if ex, ok = kit.Root(v).(*ssa.Extract); !ok {
					continue
				}
			}
			lk, ok := ex.Tuple.(*ssa.Lookup)
			if !ok || !lk.CommaOk || ex.Index != 1 || kit.Root(lk.Index) != ssa.Value(class) {
				continue
			}
			if u, ok := lk.X.(*ssa.UnOp); ok && u.Op == token.MUL && tables[u.X] {
				return true
			}
		}
		return false
	}
	n := 0
	kit.Instrs(e2e, func(in ssa.Instruction) {
		r, ok := in.(*ssa.Return)
		if !ok {
			return
		}
		mi, ok := kit.Res(r, 0).(*ssa.MakeInterface)
		if !ok {
			return
		}
		if _, isStruct := mi.X.Type().Underlying().(*types.Struct); !isStruct {
			return
		}
		n++
		c.Check(kit.OnAllWays(r.Block(), byName, 0), e2e, "class-by-name "+types.TypeString(mi.X.Type(), shortQual), r.Pos(), "returned only where the class name was found in a table", "exceptionToError returns "+types.TypeString(mi.X.Type(), shortQual)+" on a way on which the exception's class name was not found in any of the tables (the class is decided by something else, e.g. a cause named in the stack trace): an exception of another class is retried - the call the server refused for good, or executed, is sent again - or fails a healthy connection")
	})
	if n < 3 {
		c.Unk(e2e, "class-by-name", e2e.Pos(), "fewer than three class returns found in exceptionToError")
	}
}

// batchRetriesUntilNothingIsLeft: SendBatch leaves its retry loop only where nothing retryable is left
// (len(retries) == 0), the batch context is done, the back-off wait was interrupted, or the calls could not be
// located. Leaving for another reason (one call of the batch has failed for good) hands the retryable errors of the
// other calls - a region that moved, a connection that broke - to the user, who was promised that only real errors
// surface. C04.R3, C07.R4.
func batchRetriesUntilNothingIsLeft(c *kit.Ctx) {
	sb := c.Anchor("", "client", "SendBatch")
	if sb == nil {
		return
	}
	p := c.P
	fcs := kit.Calls(sb, kit.M("", "*client", "findClients"))
	if len(fcs) == 0 {
		c.Unk(sb, "retry-loop-exit", sb.Pos(), "SendBatch no longer calls findClients in its own body: the retry loop was not recognised")
		return
	}
	// the outermost loop around the call
	var header *ssa.BasicBlock
	for h := fcs[0].Block(); h != nil; h = h.Idom() {
		isHeader := false
		for _, pr := range h.Preds {
			if h.Dominates(pr) {
				isHeader = true
			}
		}
		if isHeader && (h == fcs[0].Block() || inLoopOf(h, fcs[0].Block())) {
			header = h
		}
	}
	if header == nil {
		c.Unk(sb, "retry-loop-exit", sb.Pos(), "findClients is not called in a loop")
		return
	}
	isCallSlice := func(t types.Type) bool {
		sl, ok := t.Underlying().(*types.Slice)
		return ok && strings.HasSuffix(sl.Elem().String(), "hrpc.Call")
	}
	reason := func(facts []kit.Fact) string {
		for _, f := range facts {
			if cmp, ok := kit.CanonCmp(f.Cond, f.Pol); ok {
				// len(retries) == 0 / <= 0 / < 1
				if call, isCall := kit.Root(cmp.X).(*ssa.Call); isCall && kit.CalleeName(call) == "builtin.len" && len(call.Call.Args) == 1 && isCallSlice(call.Call.Args[0].Type()) {
					if k, isK := kit.ConstInt(cmp.Y); isK && ((cmp.Op == token.EQL && k == 0) || (cmp.Op == token.LEQ && k == 0) || (cmp.Op == token.LSS && k == 1)) {
						return "nothing left to retry"
					}
				}
				if cmp.Op == token.NEQ && kit.IsNilConst(cmp.Y) && kit.IsErrorType(cmp.X.Type()) {
					x := cmp.X
					if u, isLoad := x.(*ssa.UnOp); isLoad && u.Op == token.MUL {
						if a, isA := u.X.(*ssa.Alloc); isA {
							if s := kit.ReachingStore(u, a); s != nil {
								x = s
							}
						}
					}
					if call, isCall := kit.Root(x).(*ssa.Call); isCall && call.Call.IsInvoke() && call.Call.Method.Name() == "Err" {
						return "context done"
					}
					if ex, isEx := x.(*ssa.Extract); isEx {
						if call, isCall := ex.Tuple.(*ssa.Call); isCall && strings.HasSuffix(kit.CalleeName(call), "sleepAndIncreaseBackoff") {
							return "wait interrupted"
						}
					}
				}
			}
			v, pol := kit.NormBool(f.Cond, f.Pol)
			if !pol {
				if ex, isEx := kit.Root(v).(*ssa.Extract); isEx {
					if call, isCall := ex.Tuple.(*ssa.Call); isCall && strings.HasSuffix(kit.CalleeName(call), "findClients") {
						return "calls could not be located"
					}
				}
			}
		}
		return ""
	}
	n := 0
	for _, b := range sb.Blocks {
		if b != header && !inLoopOf(header, b) {
			continue
		}
		for _, s := range b.Succs {
			if s == header || inLoopOf(header, s) {
				continue
			}
			if len(s.Instrs) > 0 {
				if _, isPanic := s.Instrs[len(s.Instrs)-1].(*ssa.Panic); isPanic {
					continue
				}
			}
			n++
			why := reason(append(kit.EdgeFacts(b, s), kit.FactsAt(b)...))
			c.Check(why != "", sb, "retry-loop-exit", firstPos(s), "the retry loop is left because: "+why, "SendBatch leaves its retry loop although calls with retryable errors are left, its context is alive and nothing interrupted the wait (e.g. because another call of the batch has failed for good): errors the client is supposed to absorb - a region that moved, a connection that broke - are returned to the user")
		}
	}
	if n == 0 {
		c.Unk(sb, "retry-loop-exit", sb.Pos(), "no exit of the retry loop found")
	}
	_ = p
}

// lookupFailuresAreFinal: a call whose region could not be located has its final error. Where SendBatch does not
// return at once after findClients reported such a failure, it must remember it in the flag that survives the rounds
// (unretryableErrorSeen): the end of a round recomputes the success flag from that flag alone, so a later round in
// which the remaining calls succeed would otherwise report true while a result carries the lookup's error. C07.R4.
func lookupFailuresAreFinal(c *kit.Ctx) {
	sb := c.Anchor("", "client", "SendBatch")
	if sb == nil {
		return
	}
	fcs := kit.Calls(sb, kit.M("", "*client", "findClients"))
	if len(fcs) == 0 {
		return // reported by batchRetriesUntilNothingIsLeft
	}
	fc, ok := fcs[0].(*ssa.Call)
	if !ok {
		return
	}
	okV := kit.ExtractOf(fc, 1)
	if okV == nil {
		c.Unk(sb, "lookup-failure-final", fc.Pos(), "findClients no longer has a boolean second result")
		return
	}
	// the reset: a store of a computed (non-constant) value into the variable the second result is read from
	var flag *ssa.Alloc
	kit.Instrs(sb, func(in ssa.Instruction) {
		if r, isRet := in.(*ssa.Return); isRet && len(r.Results) == 2 {
			if u, isLoad := kit.Res(r, 1).(*ssa.UnOp); isLoad && u.Op == token.MUL {
				if a, isA := u.X.(*ssa.Alloc); isA {
					flag = a
				}
			}
		}
	})
	if flag == nil {
		c.OK(sb, "lookup-failure-final", fc.Pos(), "the success flag is not a variable that is recomputed (no reset to protect)")
		return
	}
	var resets []*ssa.Store
	var sticky ssa.Value
	kit.Instrs(sb, func(in ssa.Instruction) {
		st, isSt := in.(*ssa.Store)
		if !isSt || st.Addr != ssa.Value(flag) {
			return
		}
		if _, isC := kit.BoolConst(st.Val); isC {
			return
		}
		if l, isLoad := st.Val.(*ssa.UnOp); isLoad && l.Op == token.MUL && l.X == ssa.Value(flag) {
			return // the named result stored to itself before the deferred calls run
		}
		resets = append(resets, st)
		v, _ := kit.NormBool(st.Val, true)
		if l, isLoad := v.(*ssa.UnOp); isLoad && l.Op == token.MUL {
			sticky = l.X
		}
	})
	if len(resets) == 0 {
		c.OK(sb, "lookup-failure-final", fc.Pos(), "the success flag is never recomputed")
		return
	}
	n := 0
	kit.Instrs(sb, func(in ssa.Instruction) {
		br, isIf := in.(*ssa.If)
		if !isIf {
			return
		}
		v, pol := kit.NormBool(br.Cond, true)
		if v != okV && kit.Root(v) != okV {
			return
		}
		failed := br.Block().Succs[1]
		if !pol {
			failed = br.Block().Succs[0]
		}
		n++
		e := kit.PathFromBlock(failed, kit.PathQuery{
			Target: func(x ssa.Instruction) bool {
				for _, r := range resets {
					if x == ssa.Instruction(r) {
						return true
					}
				}
				return false
			},
			Stop: func(x ssa.Instruction) bool {
				st, isSt := x.(*ssa.Store)
				if !isSt || sticky == nil || st.Addr != sticky {
					return false
				}
				k, isC := kit.BoolConst(st.Val)
				return isC && k
			},
			Known: kit.EdgeFacts(br.Block(), failed),
		})
		c.Check(e == nil, sb, "lookup-failure-final", fc.Pos(), "after a failed location step SendBatch returns, or remembers the failure in the flag that survives the rounds", "after findClients reported a call that could not be located SendBatch goes on and reaches the place where the success flag is recomputed from the flag that remembers final errors - which does not know about the lookup failure: a later round in which the other calls succeed returns true although a result carries the lookup's error: "+c.BlockPath(e))
	})
	if n == 0 {
		c.Unk(sb, "lookup-failure-final", fc.Pos(), "the result of findClients is not tested in SendBatch")
	}
}

// cellDecoderJudgesLengthsOnly: cellFromCellBlock refuses a KeyValue only for its framing - the length fields and
// the bytes available. It never looks at the payload it hands out (timestamp, cell type, the bytes of row, family,
// qualifier or value) to decide whether to refuse: every 64-bit timestamp and every type byte the encoder can write
// comes back, so a test on them turns cells the client itself (or HBase) legitimately writes into decode errors -
// which are retryable: the whole response is asked for again, for ever. C10.R3, C06.R1.
func cellDecoderJudgesLengthsOnly(c *kit.Ctx) {
	d := c.Anchor("hrpc", "", "cellFromCellBlock")
	if d == nil {
		return
	}
	p := c.P
	payload := map[ssa.Value]string{}
	for _, fname := range []string{"Timestamp", "CellType"} {
		fv := p.Field("pb", "Cell", fname)
		if fv == nil {
			continue
		}
		kit.Instrs(d, func(in ssa.Instruction) {
			st, ok := in.(*ssa.Store)
			if !ok {
				return
			}
			fa, ok := st.Addr.(*ssa.FieldAddr)
			if !ok || kit.FieldVar(fa.X.Type(), fa.Field) != fv {
				return
			}
			// the field is a pointer: follow it to the value it points to
			v := kit.Root(st.Val)
			if a, isA := v.(*ssa.Alloc); isA {
				for _, s := range kit.StoresTo(a) {
					payload[kit.Root(s)] = fname
					if cv, isConv := s.(*ssa.Convert); isConv {
						payload[kit.Root(cv.X)] = fname
					}
					if cv, isConv := kit.Root(s).(*ssa.Convert); isConv {
						payload[kit.Root(cv.X)] = fname
					}
				}
			} else {
				payload[v] = fname
			}
		})
	}
	if len(payload) == 0 {
		c.Unk(d, "decoder-judges-lengths-only", d.Pos(), "the values stored into Cell.Timestamp / Cell.CellType were not found")
		return
	}
	derived := func(v ssa.Value) (string, bool) {
		for i := 0; i < 6 && v != nil; i++ {
			if n, ok := payload[v]; ok {
				return n, true
			}
			if n, ok := payload[kit.Root(v)]; ok {
				return n, true
			}
			switch x := v.(type) {
			case *ssa.Convert:
				v = x.X
			case *ssa.ChangeType:
				v = x.X
			case *ssa.BinOp:
				if n, ok := payload[kit.Root(x.X)]; ok {
					return n, true
				}
				v = x.Y
			default:
				return "", false
			}
		}
		return "", false
	}
	bad := 0
	kit.Instrs(d, func(in ssa.Instruction) {
		br, ok := in.(*ssa.If)
		if !ok {
			return
		}
		bo, ok := br.Cond.(*ssa.BinOp)
		if !ok {
			return
		}
		which, isPayload := derived(bo.X)
		if !isPayload {
			which, isPayload = derived(bo.Y)
		}
		if !isPayload {
			return
		}
		// does one side of the branch lead straight to an error return?
		for _, s := range br.Block().Succs {
			e := kit.PathFromBlock(s, kit.PathQuery{Target: func(x ssa.Instruction) bool {
				r, isRet := x.(*ssa.Return)
				if !isRet {
					return false
				}
				ev := returnedError(r)
				return ev != nil && !kit.IsNilConst(kit.Root(ev)) && x.Block() == s
			}})
			if e != nil {
				bad++
				c.Bad(d, "decoder-judges-lengths-only", br.Cond.Pos(), "cellFromCellBlock refuses a cell because of its "+which+" (a payload field, not framing): a value the encoder can write - and HBase can send - no longer decodes; the decode error is retryable, so the response is requested again and again", "")
			}
		}
	})
	if bad == 0 {
		c.OK(d, "decoder-judges-lengths-only", d.Pos(), "no error return of cellFromCellBlock depends on the timestamp or the type byte")
	}
}

// returnedBuffersAreNotFreed: a function does not give back to the pool (directly or by a deferred call) the buffer
// it returns, or one the returned slice may still share its array with (append only moves to a new array when the
// old one is full): the caller would write a frame from memory the pool has already handed to the next sender.
// C10.R7, C15.R2, C05.R6.
func returnedBuffersAreNotFreed(c *kit.Ctx) {
	p := c.P
	free := kit.M("region", "", "freeBuffer")
	n := 0
	for _, fn := range p.Funcs {
		if !p.IsSubject(fn) || fn.Blocks == nil {
			continue
		}
		var frees []ssa.CallInstruction
		kit.Instrs(fn, func(in ssa.Instruction) {
			if ci, ok := in.(ssa.CallInstruction); ok && kit.CalleeName(ci) == free && len(ci.Common().Args) == 1 {
				frees = append(frees, ci)
			}
		})
		if len(frees) == 0 {
			continue
		}
		// the slices the function returns, followed back through append / reslicing
		origins := map[ssa.Value]bool{}
		var walk func(v ssa.Value, depth int)
		walk = func(v ssa.Value, depth int) {
			if depth > 12 || origins[v] {
				return
			}
			origins[v] = true
			switch x := v.(type) {
			case *ssa.Phi:
				for _, e := range x.Edges {
					walk(e, depth+1)
				}
			case *ssa.Slice:
				walk(x.X, depth+1)
			case *ssa.Call:
				if kit.CalleeName(x) == "builtin.append" && len(x.Call.Args) > 0 {
					walk(x.Call.Args[0], depth+1)
				}
			case *ssa.UnOp:
				if a, ok := x.X.(*ssa.Alloc); ok && x.Op == token.MUL {
					for _, s := range kit.StoresTo(a) {
						walk(s, depth+1)
					}
				}
			case *ssa.ChangeType:
				walk(x.X, depth+1)
			}
		}
		kit.Instrs(fn, func(in ssa.Instruction) {
			if r, ok := in.(*ssa.Return); ok {
				for i := range r.Results {
					v := kit.Res(r, i)
					if _, isSlice := v.Type().Underlying().(*types.Slice); isSlice {
						walk(v, 0)
					}
				}
			}
		})
		for _, f := range frees {
			n++
			arg := f.Common().Args[0]
			shared := origins[arg] || origins[kit.Root(arg)]
			c.Check(!shared, fn, "returned-buffer-not-freed", f.Pos(), "the buffer given back is not one the function returns", kit.FuncName(fn)+" gives a buffer back to the pool that the slice it returns may still share its array with (append moves to a new array only when the old one is full - with a warm pool it is not): the caller writes its frame from memory the pool has handed to the next sender")
		}
	}
	if n == 0 {
		c.Unk(nil, "returned-buffer-not-freed", token.NoPos, "no call of freeBuffer found")
	}
}

// cacheDelAlwaysDetaches: clientRegionCache.del takes the region's connection away whenever the region has one -
// also when that connection is no longer a key of the cache (clientDown dropped it while the region, already marked
// unavailable, was skipped). A del that only detaches what it finds in the map leaves the replaced region with a
// client: its waiter wakes up, finds the region "available with a connection" and sends the row under the dead
// region's name again. C01.R2, C08.R5, C20.R3.
func cacheDelAlwaysDetaches(c *kit.Ctx) {
	del := c.Anchor("", "clientRegionCache", "del")
	if del == nil {
		return
	}
	r := paramOfType(del, "/hrpc.RegionInfo", 0)
	if r == nil {
		c.Unk(del, "del-detaches", del.Pos(), "clientRegionCache.del no longer takes the region")
		return
	}
	e := kit.PathFromEntry(del, kit.PathQuery{
		Stop: func(x ssa.Instruction) bool {
			call, ok := x.(*ssa.Call)
			return ok && kit.CalleeName(call) == hrpcRI+"SetClient" && kit.Root(call.Call.Value) == ssa.Value(r) && kit.IsNilConst(kit.Root(call.Call.Args[0]))
		},
		SkipEdge: func(from, to *ssa.BasicBlock) bool {
			for _, f := range kit.EdgeFacts(from, to) {
				if cmp, ok := kit.CanonCmp(f.Cond, f.Pol); ok && cmp.Op == token.EQL && kit.IsNilConst(cmp.Y) {
					if call, ok := kit.Root(cmp.X).(*ssa.Call); ok && kit.CalleeName(call) == hrpcRI+"Client" && kit.Root(call.Call.Value) == ssa.Value(r) {
						return true
					}
				}
			}
			return false
		},
		IgnorePanics: true,
	})
	c.Check(e == nil, del, "del-detaches", del.Pos(), "every way through del clears the region's client unless it has none", "clientRegionCache.del can return without taking the region's connection away although it has one (e.g. because that connection is no longer in the cache): the replaced region keeps a client, its waiter sends the row under the dead region's name again: "+c.BlockPath(e))
}
