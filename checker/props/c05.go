package props

import (
	"fmt"
	"go/token"
	"go/types"
	"sort"
	"strings"

	"golang.org/x/tools/go/ssa"

	"gohbaseverif/bounds"
	"gohbaseverif/kit"
)

func init() {
	register("C05", &Property{
		Title: "Bytes written to the server encode exactly the requested operation",
		Explanation: "(R1) frame-length identity in marshalProto: the 4-byte prefix is uint32(protobufLen)+cellblocksLen and protobufLen equals, as a linear form, the sum of what the appends contribute (varint of header size, header, varint of request size, request); " +
			"(R2) cellblock length pairing: at the write in send the declared cellblock length and the buffers written come from the same SerializeCellBlocks call, or are {compressed} and uint32(len(compressed)) of the same value; every SerializeCellBlocks implementation returns the length of exactly the block it appended; the header's cell_block_meta.length is that parameter, set iff non-zero; " +
			"(R4) header provenance: method name, call id, priority, request_param; " +
			"(R5) every field of the request structs (base, baseQuery, Get, Scan, Mutate, CheckAndPut) that some constructor/option writes is read in the serialisation closure of the call types or is tabled as client-side-only with a reason; Get.ToProto and Scan.ToProto read the same query fields; " +
			"(R6) every connection write in send happens with a mutex of the region client held (one frame - possibly several Write calls on a non-socket net.Conn - at a time); " +
			"(R7) the hello is written before the connection goroutines start and write() has no other callers than sendHello and send; " +
			"(R8) the compressor is applied, iff configured, to exactly the serialised blocks with their summed length, and the hello advertises the codec under the same condition. (R3, cell count/size agreement, is C10.R2.)" +
			" Added after the seeded-change rounds: (R2) each region's cellblocks are appended in the same iteration (of the one loop over the grouping map) that emits its region action; (R6) every error send returns after it attempted a write is a ServerError (shared with C03.R6).",
		Residue:   "byte-level equality with an independent decoder; order of map iteration in encodings; protobuf library correctness",
		Technique: "linear-form agreement, value pairing through phis, field-coverage (writer => serialised reader) over the typed program, lock-set analysis",
		Run:       runC05,
	})
}

func runC05(c *kit.Ctx) {
	p := c.P
	mp := c.Anchor("region", "", "marshalProto")
	send := c.Anchor("region", "client", "send")
	hello := c.Anchor("region", "client", "sendHello")
	write := c.Anchor("region", "client", "write")
	dial := c.Anchor("region", "client", "Dial")
	mtp := c.Anchor("hrpc", "Mutate", "toProto")
	vtc := c.Anchor("hrpc", "Mutate", "valuesToCellblocks")
	multiTP := c.Anchor("region", "multi", "toProto")
	if mp == nil || send == nil || hello == nil || write == nil || dial == nil || mtp == nil || vtc == nil || multiTP == nil {
		return
	}
	eng := bounds.New(p)

	// ---- R1 ---------------------------------------------------------------
	c.StartRule("R1", "frame length prefix = bytes that follow", 3)
	{
		var put *ssa.Call
		var contrib bounds.Lin
		nApp := 0
		kit.Instrs(mp, func(in ssa.Instruction) {
			call, ok := in.(*ssa.Call)
			if !ok {
				return
			}
			n := kit.CalleeName(call)
			switch {
			case strings.HasSuffix(n, "bigEndian).PutUint32"), strings.HasSuffix(n, "bigEndian).AppendUint32"):
				put = call
			case n == "google.golang.org/protobuf/encoding/protowire.AppendVarint":
				// contributes SizeVarint(v)
				k := bounds.Sym{K: eng.PureKey("google.golang.org/protobuf/encoding/protowire.SizeVarint", call.Call.Args[1])}
				contrib = contrib.Add(bounds.Var(k))
				nApp++
			case strings.HasSuffix(n, "MarshalOptions).MarshalAppend"):
				k := bounds.Sym{K: eng.PureKey("google.golang.org/protobuf/proto.Size", call.Call.Args[2])}
				contrib = contrib.Add(bounds.Var(k))
				nApp++
			}
		})
		// marshalProto(rpc, callID uint32, request, cellblocksLen uint32): the second uint32 parameter
		cblParam := paramOfType(mp, "uint32", 1)
		if put == nil || cblParam == nil || nApp != 4 {
			c.Unk(mp, "frame-shape", mp.Pos(), fmt.Sprintf("marshalProto no longer has the shape PutUint32(total) + 4 appends (found %d)", nApp))
		} else {
			tot, isAdd := put.Call.Args[2].(*ssa.BinOp)
			good := isAdd && tot.Op == token.ADD
			var pbLen bounds.Lin
			if good {
				cv, isCv := tot.X.(*ssa.Convert)
				good = isCv && kit.Root(tot.Y) == ssa.Value(cblParam)
				if good {
					pbLen = eng.Lin(cv.X)
				}
			}
			c.Check(good, mp, "prefix-form", put.Pos(), "prefix = uint32(protobufLen) + cellblocksLen", "the length prefix is not uint32(protobufLen)+cellblocksLen")
			if good {
				c.Check(isZeroLin(pbLen.Sub(contrib)), mp, "protobuf-length", put.Pos(), "protobufLen = "+pbLen.String(eng.Name)+" = sum of the four appends",
					"protobufLen is "+pbLen.String(eng.Name)+" but the appends contribute "+contrib.String(eng.Name)+": the length prefix disagrees with the bytes that follow")
			}
			// the buffer starts with exactly 4 bytes for the prefix
			okMk := false
			if mk, ok := kit.Root(put.Call.Args[1]).(*ssa.MakeSlice); ok {
				if k, ok := kit.ConstInt(mk.Len); ok {
					// PutUint32 into the 4 bytes the buffer starts with, or AppendUint32 to the empty buffer
					isAppend := strings.HasSuffix(kit.CalleeName(put), "AppendUint32")
					okMk = (k == 4 && !isAppend) || (k == 0 && isAppend)
				}
			}
			c.Check(okMk, mp, "prefix-room", put.Pos(), "buffer starts as make([]byte, 4, ...): the prefix occupies bytes 0..3", "the frame buffer does not start with the 4 prefix bytes")
		}
	}

	// ---- R2 ---------------------------------------------------------------
	requestsAreMarshalledWithRequiredFields(c)

	c.StartRule("R2", "declared cellblock length and written cellblocks are paired", 6)
	multiBuildsItsRequestInFreshMemory(c)
	scbName := "(" + kit.Module + "/region.canSerializeCellBlocks).SerializeCellBlocks"
	{
		mpCalls := kit.Calls(send, kit.M("region", "", "marshalProto"))
		wt := kit.Calls(send, "(*net.Buffers).WriteTo")
		if len(mpCalls) != 1 || len(wt) != 1 {
			c.Unk(send, "send-shape", send.Pos(), "send no longer has one marshalProto call and one gather write")
		} else {
			lenArg := mpCalls[0].Common().Args[3]
			// buffers written: append(net.Buffers{b}, cellblocks...)
			var blocks ssa.Value
			if recv, ok := wt[0].Common().Args[0].(*ssa.Alloc); ok {
				for _, st := range kit.StoresTo(recv) {
					if call, ok := st.(*ssa.Call); ok && kit.CalleeName(call) == "builtin.append" {
						blocks = call.Call.Args[1]
					}
				}
			}
			if blocks == nil {
				c.Unk(send, "gather-write", wt[0].Pos(), "the buffers handed to WriteTo are not append(net.Buffers{frame}, cellblocks...)")
			} else {
				lp, ok1 := kit.Strip(lenArg).(*ssa.Phi)
				bp, ok2 := kit.Strip(blocks).(*ssa.Phi)
				if cvb, ok := kit.Strip(blocks).(*ssa.ChangeType); ok {
					bp, ok2 = cvb.X.(*ssa.Phi)
				}
				if !ok1 || !ok2 || lp.Block() != bp.Block() {
					c.Unk(send, "pairing", mpCalls[0].Pos(), "cellblock length and cellblocks are not merged at the same point")
				} else {
					for k := range lp.Edges {
						l, b := pairLeaf(lp.Edges[k]), pairLeaf(bp.Edges[k])
						good, why := pairedLenBlocks(l, b, scbName)
						c.Check(good, send, fmt.Sprintf("pair[%d]", k), mpCalls[0].Pos(), why, "on one path the declared cellblock length and the cellblocks written do not belong together: "+why)
					}
				}
			}
		}
		// implementations
		// valuesToCellblocks returns (cbs, count, uint32(len(cbs)))
		kit.Instrs(vtc, func(in ssa.Instruction) {
			r, ok := in.(*ssa.Return)
			if !ok || len(r.Results) != 3 {
				return
			}
			if kit.IsNilConst(kit.Res(r, 0)) {
				k, ok := kit.ConstInt(kit.Res(r, 2))
				c.Check(ok && k == 0, vtc, "size-of-block", r.Pos(), "no block, size 0", "a nil block is returned with a non-zero size")
				return
			}
			cv, ok := kit.Res(r, 2).(*ssa.Convert)
			good := ok && kit.LenOf(cv.X) != nil && kit.LenOf(cv.X) == kit.Res(r, 0)
			c.Check(good, vtc, "size-of-block", r.Pos(), "returned size is uint32(len()) of the returned block", "valuesToCellblocks returns a size that is not the length of the block it returns")
		})
		// Mutate.toProto appends that block iff size > 0 and returns that size
		{
			calls := kit.Calls(mtp, kit.M("hrpc", "*Mutate", "valuesToCellblocks"))
			good := false
			if len(calls) == 1 {
				blk, sz := kit.ExtractOf(calls[0].Value(), 0), kit.ExtractOf(calls[0].Value(), 2)
				for _, ap := range kit.Calls(mtp, "builtin.append") {
					if elemOfVariadic(ap.Common().Args[1]) == blk {
						for _, f := range kit.FactsAt(ap.Block()) {
							if cmp, ok := kit.CanonCmp(f.Cond, f.Pol); ok && cmp.Op == token.GTR && kit.Root(cmp.X) == sz {
								if k, isC := kit.ConstInt(cmp.Y); isC && k == 0 {
									good = true
								}
							}
						}
					}
				}
				// returned size is sz (or 0 when not cellblocks)
				kit.Instrs(mtp, func(in ssa.Instruction) {
					if r, ok := in.(*ssa.Return); ok {
						v := kit.Strip(kit.Res(r, 2))
						if ph, ok := v.(*ssa.Phi); ok {
							for _, l := range kit.PhiLeaves(ph) {
								if k, isC := kit.ConstInt(l); isC && k == 0 {
									continue
								}
								if l != sz {
									good = false
								}
							}
						} else if v != sz {
							good = false
						}
					}
				})
			}
			c.Check(good, mtp, "append-iff-size", mtp.Pos(), "the block is appended iff its size > 0 and that size is returned", "Mutate.toProto's returned cellblock size and the block it appends are not paired")
		}
		// multi.toProto accumulates both from the same nested call
		{
			good := false
			for _, call := range kit.Calls(multiTP, scbName) {
				blk, sz := kit.ExtractOf(call.Value(), 1), kit.ExtractOf(call.Value(), 2)
				stored, added := false, false
				// the uses of a value, also after it was merged with what the other ways yield (a helper that returns
				// the blocks unchanged and size 0 where the call has no cellblocks)
				usesOf := func(v ssa.Value) []ssa.Instruction {
					var out []ssa.Instruction
					seen := map[ssa.Value]bool{}
					var walk func(w ssa.Value, depth int)
					walk = func(w ssa.Value, depth int) {
						if w == nil || seen[w] || depth > 4 {
							return
						}
						seen[w] = true
						for _, r := range kit.Referrers(w) {
							out = append(out, r)
							if ph, ok := r.(*ssa.Phi); ok {
								walk(ph, depth+1)
							}
						}
					}
					walk(v, 0)
					return out
				}
				for _, r := range usesOf(blk) {
					if st, ok := r.(*ssa.Store); ok {
						if fa, ok := st.Addr.(*ssa.FieldAddr); ok && kit.FieldVar(fa.X.Type(), fa.Field).Name() == "cellblocks" {
							stored = true
						}
					}
				}
				for _, r := range usesOf(sz) {
					if bo, ok := r.(*ssa.BinOp); ok && bo.Op == token.ADD {
						added = true
					}
				}
				good = stored && added && blk != nil && sz != nil
			}
			c.Check(good, multiTP, "accumulate-pair", multiTP.Pos(), "blocks and size are accumulated from the same nested SerializeCellBlocks call", "multi.toProto no longer accumulates the cellblocks and their size from the same nested call")
		}
		cellblocksInActionOrder(c, multiTP)
		serialisedCallGetsAction(c, multiTP)
		// header meta
		{
			good := false
			kit.Instrs(mp, func(in ssa.Instruction) {
				st, ok := in.(*ssa.Store)
				if !ok {
					return
				}
				fa, ok := st.Addr.(*ssa.FieldAddr)
				if !ok || kit.FieldVar(fa.X.Type(), fa.Field).Name() != "Length" {
					return
				}
				// value is the address of the spilled cellblocksLen parameter
				if a, ok := st.Val.(*ssa.Alloc); ok && paramOfType(mp, "uint32", 1) != nil && a == spillOf(paramOfType(mp, "uint32", 1)) {
					for _, f := range kit.FactsAt(st.Block()) {
						if cmp, ok := kit.CanonCmp(f.Cond, f.Pol); ok && cmp.Op == token.GTR {
							if l, ok := cmp.X.(*ssa.UnOp); ok && l.X == ssa.Value(a) {
								good = true
							}
						}
					}
				}
			})
			c.Check(good, mp, "cellblock-meta", mp.Pos(), "cell_block_meta.length = &cellblocksLen, set iff it is > 0", "the header's cellblock length is not the cellblocksLen parameter (or not set exactly when non-zero)")
		}
	}

	// ---- R4 ---------------------------------------------------------------
	c.StartRule("R4", "header provenance", 4)
	scannerRequestsCarryThePriority(c)
	callIDDiscipline(c)
	{
		rpcParam := paramOfType(mp, "/hrpc.Call", 0)
		fields := map[string]ssa.Value{}
		kit.Instrs(mp, func(in ssa.Instruction) {
			if st, ok := in.(*ssa.Store); ok {
				if fa, ok := st.Addr.(*ssa.FieldAddr); ok {
					if n := kit.ReceiverNamed(fa.X.Type()); n != nil && n.Obj().Name() == "RequestHeader" {
						fields[kit.FieldVar(fa.X.Type(), fa.Field).Name()] = st.Val
					}
				}
			}
		})
		okName := false
		if call, ok := fields["MethodName"].(*ssa.Call); ok && kit.CalleeName(call) == "google.golang.org/protobuf/proto.String" {
			if nm, ok := call.Call.Args[0].(*ssa.Call); ok && kit.CalleeName(nm) == hrpcCall+"Name" && nm.Call.Value == ssa.Value(rpcParam) {
				okName = true
			}
		}
		c.Check(okName, mp, "method-name", mp.Pos(), "method_name = rpc.Name()", "the header's method name is not rpc.Name() of the call being sent")
		a, isAlloc := fields["CallId"].(*ssa.Alloc)
		c.Check(isAlloc && paramOfType(mp, "uint32", 0) != nil && a == spillOf(paramOfType(mp, "uint32", 0)), mp, "call-id", mp.Pos(), "call_id = &callID (the parameter)", "the header's call id is not the callID parameter: a pooled header could keep a stale id")
		okPrio := false
		if pa, ok := fields["Priority"].(*ssa.Alloc); ok {
			for _, st := range kit.StoresTo(pa) {
				if call, ok := st.(*ssa.Call); ok && kit.CalleeName(call) == kit.M("hrpc", "", "GetPriority") && call.Call.Args[0] == ssa.Value(rpcParam) {
					okPrio = true
				}
			}
		}
		c.Check(okPrio, mp, "priority", mp.Pos(), "priority = GetPriority(rpc) when non-zero", "the header's priority is not GetPriority(rpc)")
		_, hasRP := fields["RequestParam"]
		c.Check(hasRP, mp, "request-param", mp.Pos(), "request_param set", "request_param is not set")
		// pooled header is reset before reuse
		rh := p.Func("region", "", "returnHeader")
		reset := false
		if rh != nil {
			for range kit.Calls(rh, "(*"+kit.Module+"/pb.RequestHeader).Reset") {
				reset = true
			}
		}
		c.Check(reset, mp, "header-reset", mp.Pos(), "pooled header is Reset() before it is put back", "the pooled request header is not reset: optional fields of a previous request leak into the next one")
	}

	// ---- R5 ---------------------------------------------------------------
	c.StartRule("R5", "every option written into a request struct reaches the wire", 30)
	scanRequestLevelOptions(c)
	serialisingDoesNotChangeTheCall(c)
	accumulatorIsHandedBack(c)
	storedSlicesAreNotReused(c)
	constructorsForwardTheirOptions(c)
	cellblockFormMatchesProtoForm(c)
	clientSide := map[string]string{
		"base.ctx":                 "cancellation only",
		"base.resultch":            "delivery of the result only",
		"base.options":             "kept to re-create per-region scan requests (scanner.request)",
		"base.table":               "routing only: the region name in the request identifies the table",
		"Get.skipbatch":            "batching decision only",
		"Mutate.skipbatch":         "batching decision only",
		"Scan.allowPartialResults": "client-side row assembly only",
		"Scan.renewInterval":       "client-side renew loop only",
	}
	for k, v := range clientSide {
		c.Table("C05.R5 client-side-only field hrpc." + k + ": " + v)
	}
	serial := serialisationClosure(p)
	var names []string
	for f := range serial {
		names = append(names, kit.FuncName(f))
	}
	sort.Strings(names)
	c.Notes = append(c.Notes, "serialisation closure: "+strings.Join(names, ", "))
	usedTable := map[string]bool{}
	for _, tn := range []string{"base", "baseQuery", "Get", "Scan", "Mutate", "CheckAndPut"} {
		named := p.Named("hrpc", tn)
		if named == nil {
			c.Unk(nil, "unresolved-anchor", token.NoPos, "type hrpc."+tn+" missing")
			continue
		}
		st := named.Underlying().(*types.Struct)
		for i := 0; i < st.NumFields(); i++ {
			f := st.Field(i)
			if f.Embedded() {
				continue
			}
			key := tn + "." + f.Name()
			written, read := false, false
			var rpos token.Pos
			for _, a := range p.FieldAccesses(f) {
				inSerial := serial[enclosingNamed(a.Fn)] || serial[a.Fn]
				switch {
				case inSerial && (!a.Write || strings.HasPrefix(a.Kind, "address")):
					// a plain read, or the field's address placed into the protobuf message
					read = true
					rpos = posOf(a.Instr)
				case a.Write:
					written = true
				}
			}
			if !written {
				continue
			}
			switch {
			case read:
				c.OK(nil, "field "+key, rpos, "written by a constructor/option and read in the serialisation closure")
			case clientSide[key] != "":
				usedTable[key] = true
				c.OK(nil, "field "+key, f.Pos(), "tabled client-side-only: "+clientSide[key])
			default:
				c.Bad(nil, "field "+key, f.Pos(), "hrpc."+key+" is set by a constructor or option but never read when the request is serialised: the option silently does not reach the server", "")
			}
		}
	}
	for k := range clientSide {
		if !usedTable[k] {
			// stale entry: the field is now serialised or gone
			f := strings.SplitN(k, ".", 2)
			if fv := p.Field("hrpc", f[0], f[1]); fv == nil {
				c.Unk(nil, "stale-table-entry "+k, token.NoPos, "client-side-only table names a field that no longer exists")
			}
		}
	}
	// sibling check: Get.ToProto and Scan.ToProto read the same baseQuery fields
	{
		getTP, scanTP := p.Func("hrpc", "Get", "ToProto"), p.Func("hrpc", "Scan", "ToProto")
		bq := p.Named("hrpc", "baseQuery")
		if getTP != nil && scanTP != nil && bq != nil {
			st := bq.Underlying().(*types.Struct)
			reads := func(fn *ssa.Function) map[string]bool {
				m := map[string]bool{}
				for i := 0; i < st.NumFields(); i++ {
					for _, a := range p.FieldAccesses(st.Field(i)) {
						if a.Fn == fn {
							m[st.Field(i).Name()] = true
						}
					}
				}
				return m
			}
			g, s := reads(getTP), reads(scanTP)
			for i := 0; i < st.NumFields(); i++ {
				n := st.Field(i).Name()
				if n == "priority" {
					continue // header field, read through Priority()
				}
				c.Check(g[n] == s[n], scanTP, "sibling-field "+n, scanTP.Pos(), fmt.Sprintf("Get and Scan agree (read=%v)", g[n]),
					fmt.Sprintf("query option baseQuery.%s is serialised by Get.ToProto=%v but by Scan.ToProto=%v", n, g[n], s[n]))
			}
		}
	}

	// ---- R6 ---------------------------------------------------------------
	c.StartRule("R6", "one writer at a time on the connection", 2)
	sendPathSharesNoMemory(c)
	buffersAreFreedAfterTheWrite(c)
	everyWriteErrorIsReported(c)
	c.Table("C05.R6: sendHello's write is exempt (runs inside dialOnce before the connection goroutines exist; re-checked by R7)")
	connectionWritesAreSerialised(c)
	writeErrorIsFatal(c, send)

	// ---- R7 ---------------------------------------------------------------
	c.StartRule("R7", "hello first", 3)
	{
		dialOnce := p.Field("region", "client", "dialOnce")
		lit, _ := onceLiteral(dial, dialOnce)
		if lit == nil {
			c.Bad(dial, "dial-once", dial.Pos(), "Dial no longer runs under dialOnce.Do", "")
		} else {
			hs := kit.Calls(lit, kit.M("region", "*client", "sendHello"))
			good := len(hs) == 1
			if good {
				kit.Instrs(lit, func(in ssa.Instruction) {
					if g, ok := in.(*ssa.Go); ok && !kit.Precedes(hs[0].(ssa.Instruction), g) {
						good = false
					}
				})
			}
			c.Check(good, lit, "hello-before-goroutines", lit.Pos(), "sendHello dominates both go statements", "a connection goroutine can start before the hello has been written")
		}
		writeFn := p.Func("region", "client", "write")
		for _, fn := range p.Funcs {
			for _, s := range connWrites(p, fn) {
				c.Check(fn == hello || fn == send || fn == writeFn, fn, "caller-of-write", s.Pos(), "bytes are put on the connection in sendHello/send (or the write helper they call)", "unexpected caller of write: bytes can be put on the connection outside the framing code")
			}
		}
	}

	// ---- R8 ---------------------------------------------------------------
	c.StartRule("R8", "compression applied iff configured, to the serialised blocks", 2)
	{
		compF := p.Field("region", "client", "compressor")
		calls := kit.Calls(send, kit.M("region", "*compressor", "compressCellblocks"))
		good := len(calls) == 1
		if good {
			a := calls[0].Common().Args
			e1, ok1 := kit.Strip(a[1]).(*ssa.Extract)
			if ct, ok := kit.Strip(a[1]).(*ssa.ChangeType); ok {
				e1, ok1 = ct.X.(*ssa.Extract)
			}
			e2, ok2 := kit.Strip(a[2]).(*ssa.Extract)
			good = ok1 && ok2 && e1.Tuple == e2.Tuple && e1.Index == 1 && e2.Index == 2
			if good {
				call, _ := e1.Tuple.(*ssa.Call)
				good = call != nil && kit.CalleeName(call) == scbName
			}
			guarded := false
			for _, f := range kit.FactsAt(calls[0].Block()) {
				if cmp, ok := kit.CanonCmp(f.Cond, f.Pol); ok && cmp.Op == token.NEQ && kit.IsNilConst(cmp.Y) && isLoadOfField(cmp.X, compF) {
					guarded = true
				}
			}
			good = good && guarded
		}
		c.Check(good, send, "compress-serialised-blocks", send.Pos(), "compressCellblocks(blocks, size) of the same SerializeCellBlocks call, under c.compressor != nil", "the compressor is not applied to exactly the serialised blocks and their declared length, or not under c.compressor != nil")
		adv := false
		kit.Instrs(hello, func(in ssa.Instruction) {
			if st, ok := in.(*ssa.Store); ok {
				if fa, ok := st.Addr.(*ssa.FieldAddr); ok && kit.FieldVar(fa.X.Type(), fa.Field).Name() == "CellBlockCompressorClass" {
					for _, f := range kit.FactsAt(st.Block()) {
						if cmp, ok := kit.CanonCmp(f.Cond, f.Pol); ok && cmp.Op == token.NEQ && kit.IsNilConst(cmp.Y) && isLoadOfField(cmp.X, compF) {
							adv = true
						}
					}
				}
			}
		})
		c.Check(adv, hello, "hello-advertises-codec", hello.Pos(), "the hello names the compressor class iff c.compressor != nil", "the hello does not advertise the compression codec under the same condition under which cellblocks are compressed")
	}

	// ---- R9, R10 ------------------------------------------------------------
	if !c.Frozen {
		embed(c, "R9", "the scan requests that go out carry the bounds, direction and scanner state the scan is in (the rules of C06, run as one rule here)", 20, runC06)
		embed(c, "R10", "the cells that go out are the ones the mutation denotes, in both encodings (the rules of C10, run as one rule here)", 30, runC10)
		embed(c, "R14", "only calls that can be expressed inside a multi-request are put into one: a batch with a call that cannot (a conditional mutation) is rejected as a whole (the rules of C12, run as one rule here)", 50, runC12)
		embed(c, "R12", "the close request of a scanner is addressed to the region that holds the open scanner (the rules of C14, run as one rule here)", 15, runC14)
		embed(c, "R13", "a request object is written by one connection only: the pending batch is never shared between connections or reused while in flight (the rules of C03, run as one rule here)", 30, runC03)
		embed(c, "R11", "every request, also every action of a multi-request whatever the grouping, names the region of the call it was built from (the rules of C01, run as one rule here)", 30, runC01)
	}
}

func fieldOf(n *types.Named, f *types.Var) bool {
	if n == nil {
		return false
	}
	st, ok := n.Underlying().(*types.Struct)
	if !ok {
		return false
	}
	for i := 0; i < st.NumFields(); i++ {
		if st.Field(i) == f {
			return true
		}
	}
	return false
}

// serialisationClosure: functions statically reachable from every
// ToProto/toProto/SerializeCellBlocks of hrpc call types, from marshalProto's
// GetPriority and from regionSpecifier.
func serialisationClosure(p *kit.Prog) map[*ssa.Function]bool {
	var roots []*ssa.Function
	for _, fn := range p.Funcs {
		if fn.Parent() != nil || fn.Pkg == nil || fn.Pkg.Pkg.Path() != kit.Module+"/hrpc" {
			continue
		}
		switch fn.Name() {
		case "ToProto", "toProto", "SerializeCellBlocks", "GetPriority", "Priority", "regionSpecifier", "CellBlocksEnabled", "Name":
			roots = append(roots, fn)
		}
	}
	r := p.SyncReach(roots, func(site ssa.CallInstruction, callee *ssa.Function) bool {
		return callee.Pkg == nil || callee.Pkg.Pkg.Path() != kit.Module+"/hrpc"
	})
	return r.Funcs
}

func pairLeaf(v ssa.Value) ssa.Value {
	v = kit.Strip(v)
	if ct, ok := v.(*ssa.ChangeType); ok {
		v = ct.X
	}
	return v
}

// pairedLenBlocks decides whether length value l and blocks value b belong together.
func pairedLenBlocks(l, b ssa.Value, scbName string) (bool, string) {
	// (0, nil)
	if k, ok := kit.ConstInt(l); ok && k == 0 {
		if kit.IsNilConst(b) {
			return true, "no cellblocks: length 0, nil buffers"
		}
		return false, "length 0 declared but buffers are written"
	}
	// same SerializeCellBlocks call
	if el, ok := l.(*ssa.Extract); ok {
		eb, ok2 := b.(*ssa.Extract)
		if ok2 && el.Tuple == eb.Tuple && el.Index == 2 && eb.Index == 1 {
			if call, ok := el.Tuple.(*ssa.Call); ok && kit.CalleeName(call) == scbName {
				return true, "length and blocks are results 2 and 1 of the same SerializeCellBlocks call"
			}
		}
		return false, "length comes from " + l.String() + ", blocks from " + b.String()
	}
	// uint32(len(X)) with Buffers{X}
	if cv, ok := l.(*ssa.Convert); ok {
		if x := kit.LenOf(cv.X); x != nil {
			// b is a slice of a 1-element array literal holding X
			if sl, ok := b.(*ssa.Slice); ok {
				if arr, ok := sl.X.(*ssa.Alloc); ok {
					n, same := 0, false
					kit.Instrs(arr.Parent(), func(in ssa.Instruction) {
						if st, ok := in.(*ssa.Store); ok {
							if ia, ok := st.Addr.(*ssa.IndexAddr); ok && ia.X == ssa.Value(arr) {
								n++
								if st.Val == x || kit.Root(st.Val) == kit.Root(x) {
									same = true
								}
							}
						}
					})
					if n == 1 && same {
						return true, "compressed path: length is uint32(len(compressed)) and the buffers are {compressed}"
					}
				}
			}
			return false, "length is len() of one value, the buffers hold another"
		}
	}
	return false, "unrecognised pairing: " + l.String() + " / " + b.String()
}

// elemOfVariadic: for append(s, x) the variadic argument is a slice of a
// 1-element array holding x; returns x.
func elemOfVariadic(v ssa.Value) ssa.Value {
	sl, ok := v.(*ssa.Slice)
	if !ok {
		return nil
	}
	arr, ok := sl.X.(*ssa.Alloc)
	if !ok {
		return nil
	}
	var out ssa.Value
	kit.Instrs(arr.Parent(), func(in ssa.Instruction) {
		if st, ok := in.(*ssa.Store); ok {
			if ia, ok := st.Addr.(*ssa.IndexAddr); ok && ia.X == ssa.Value(arr) {
				out = st.Val
			}
		}
	})
	return out
}

// cellblocksInActionOrder: shared by C05.R2 and C12.R3.
func cellblocksInActionOrder(c *kit.Ctx, multiTP *ssa.Function) {
	// the cellblocks of a region's actions go out in the iteration that emits that region's action:
	// the server consumes the trailing cellblock in region-action order
	{
		good := false
		kit.Instrs(multiTP, func(in ssa.Instruction) {
			call, ok := in.(*ssa.Call)
			if !ok || kit.CalleeName(call) != "builtin.append" {
				return
			}
			_, f := kit.FieldRead(call.Call.Args[1])
			if f == nil || f.Name() != "cellblocks" {
				return
			}
			base, _ := kit.FieldRead(call.Call.Args[1])
			as, ok := kit.Root(base).(*ssa.Extract)
			if !ok || as.Index != 2 {
				return
			}
			// the same Next feeds the RegionAction stored in this iteration
			kit.Instrs(multiTP, func(x ssa.Instruction) {
				st, ok := x.(*ssa.Store)
				if !ok || st.Block() != call.Block() {
					return
				}
				if ia, ok := st.Addr.(*ssa.IndexAddr); ok && strings.Contains(ia.X.Type().String(), "pb.RegionAction") {
					good = true
				}
			})
		})
		c.Check(good, multiTP, "cellblocks-in-action-order", multiTP.Pos(), "each region's cellblocks are appended in the same iteration (of the one loop over the grouping map) that emits its region action", "the cellblocks are appended in a different iteration order than the region actions (two separate range loops over a map pick independent orders): the cells of one region's mutations are attached to another region's mutations while all lengths stay consistent")
	}
}

// connectionWritesAreSerialised: every write on the connection in send happens with a mutex of the client held, the
// same one for both write forms: send runs on the batching goroutine and on arbitrary caller goroutines, and the
// connection is shared by all regions of the regionserver. C05.R6, C20.R2.
func connectionWritesAreSerialised(c *kit.Ctx) {
	p := c.P
	send := c.Anchor("region", "client", "send")
	if send == nil {
		return
	}
	{
		le := kit.NewLockEnv(p)
		clientT := p.Named("region", "client")
		var sites []ssa.CallInstruction
		sites = append(sites, connWrites(p, send)...)
		var common map[*types.Var]bool
		for _, s := range sites {
			held := le.At(s)
			mine := map[*types.Var]bool{}
			for k := range held {
				if !k.R && fieldOf(clientT, k.Field) {
					mine[k.Field] = true
				}
			}
			if common == nil {
				common = mine
			} else {
				for f := range common {
					if !mine[f] {
						delete(common, f)
					}
				}
			}
			if len(mine) > 0 {
				c.OK(send, "write-under-lock", s.Pos(), "connection write with a client mutex held "+held.String())
			} else {
				c.Bad(send, "write-under-lock", s.Pos(), "connection write under no lock: send runs on the batching goroutine and on arbitrary caller goroutines (QueueRPC -> trySend); a frame with cellblocks is a gather write that becomes one Write per buffer on a net.Conn that is not a kernel socket, so frames of concurrent senders interleave on the wire", "")
			}
		}
		allHeld := true
		for _, s := range sites {
			if len(le.At(s)) == 0 {
				allHeld = false
			}
		}
		if len(sites) >= 2 && common != nil && allHeld {
			c.Check(len(common) > 0, send, "same-lock", send.Pos(), "both write forms are serialised by the same mutex", "the two write forms in send are guarded by different mutexes")
		}
		if len(sites) == 0 {
			c.Unk(send, "write-sites", send.Pos(), "no connection write found in send")
		}
	}
}
