package props

import (
	"fmt"
	"go/token"
	"strings"

	"golang.org/x/tools/go/ssa"

	"gohbaseverif/bounds"
	"gohbaseverif/kit"
)

func init() {
	register("C02", &Property{
		Title: "Each caller receives the response to its own request",
		Explanation: "(R1) the call-id counter is modified only by atomic.AddUint32 in registerRPC and the sent table only by registerRPC (insert under the fresh id), unregisterRPC (lookup+delete of the same id) and the once-guarded swap; " +
			"(R2) the id written into the request header is the id under which that very call was registered; " +
			"(R3) in the reader, the call completed, the call whose NewResponse() is unmarshalled into and the call whose DeserializeCellBlocks runs are the one value returned by unregisterRPC(*header.CallId); " +
			"(R4) the multi action index: writer stores uint32(i)+K1 for position i of m.calls, reader returns m.calls[j-K2] and rejects 0, K1 == K2 == 1, and nothing reorders m.calls (writers of the slice are append, index-preserving nil-out, and the pool reset); " +
			"(R5) the region of a region action and m.regions[i] are stored with the same index in the same iteration, and a region exception is delivered exactly to the calls whose Region() equals m.regions[i]; " +
			"(R6) cellblock cursor discipline: in every decoder that hands a shared cellblock to nested decoders, each nested call gets b[cursor:] and the cursor advances by exactly what that call returned, on the nil-error path." +
			" Added after the seeded-change rounds: (R6) Get/Mutate.DeserializeCellBlocks report exactly the count their nested decoder read (0 only where the response has no Result), with the count taken from Result.GetAssociatedCellCount(); the result lists of a multi response are only ranged over, indexed or measured before they are consumed (never sorted, stored or passed on); (R7) the positional rules of C07 (slot stores indexed by the original position) are run here as one rule.",
		Residue:   "adversarial server orderings; equality of payloads (value level)",
		Technique: "value provenance over SSA (same-value checks), who-writes tables, constant extraction, cursor-idiom detection",
		Run:       runC02,
	})
}

func runC02(c *kit.Ctx) {
	p := c.P
	reg := c.Anchor("region", "client", "registerRPC")
	unreg := c.Anchor("region", "client", "unregisterRPC")
	failSent := c.Anchor("region", "client", "failSentRPCs")
	send := c.Anchor("region", "client", "send")
	recv := c.Anchor("region", "client", "receive")
	mtp := c.Anchor("region", "multi", "toProto")
	mget := c.Anchor("region", "multi", "get")
	madd := c.Anchor("region", "multi", "add")
	mfree := c.Anchor("region", "", "freeMulti")
	mret := c.Anchor("region", "multi", "returnResults")
	if reg == nil || unreg == nil || failSent == nil || send == nil || recv == nil || mtp == nil || mget == nil || madd == nil || mfree == nil || mret == nil {
		return
	}
	idF := p.Field("region", "client", "id")
	sentF := p.Field("region", "client", "sent")
	callsF := p.Field("region", "multi", "calls")
	regionsF := p.Field("region", "multi", "regions")
	if idF == nil || sentF == nil || callsF == nil || regionsF == nil {
		c.StartRule("anchors", "anchors resolve", 0)
		c.Unk(reg, "unresolved-anchor", token.NoPos, "client.id/sent or multi.calls/regions missing")
		return
	}

	// ---- R1 ---------------------------------------------------------------
	c.StartRule("R1", "call-id allocation and sent-table discipline", 5)
	callIDDiscipline(c)

	// ---- R2 ---------------------------------------------------------------
	c.StartRule("R2", "id on the wire = id registered for the same call", 2)
	sendPathSharesNoMemory(c)
	buffersAreFreedAfterTheWrite(c)
	{
		rpcParam := paramOfType(send, "/hrpc.Call", 0)
		regs := kit.Calls(send, kit.M("region", "*client", "registerRPC"))
		mps := kit.Calls(send, kit.M("region", "", "marshalProto"))
		good := len(regs) == 1 && len(mps) == 1 && rpcParam != nil
		if good {
			good = regs[0].Common().Args[1] == ssa.Value(rpcParam) && mps[0].Common().Args[0] == ssa.Value(rpcParam) && kit.Same(mps[0].Common().Args[1], regs[0].Value())
		}
		c.Check(good, send, "id-provenance", send.Pos(), "marshalProto(rpc, registerRPC(rpc), ...) for the same rpc", "the call id put on the wire is not the id under which this call was registered")
		// the request serialised is this rpc's
		ser := false
		kit.Instrs(send, func(in ssa.Instruction) {
			if call, ok := in.(*ssa.Call); ok {
				n := kit.CalleeName(call)
				if n == hrpcCall+"ToProto" && call.Call.Value == ssa.Value(rpcParam) {
					ser = true
				}
			}
		})
		c.Check(ser, send, "request-of-same-call", send.Pos(), "the request sent is rpc.ToProto()/SerializeCellBlocks() of the registered call", "send serialises a different call than it registers")
	}

	// ---- R3 ---------------------------------------------------------------
	c.StartRule("R3", "response is delivered to the call claimed by its call id", 4)
	{
		us := kit.Calls(recv, kit.M("region", "*client", "unregisterRPC"))
		if len(us) != 1 {
			c.Bad(recv, "claim", recv.Pos(), "receive must claim exactly one call", "")
		} else {
			u := us[0]
			// argument: *header.CallId
			arg := kit.Root(u.Common().Args[1])
			okArg := false
			if l, ok := arg.(*ssa.UnOp); ok && l.Op == token.MUL {
				if _, f := kit.FieldRead(l.X); f != nil && f.Name() == "CallId" {
					okArg = true
				}
			}
			if gc, ok := arg.(*ssa.Call); ok {
				// header.GetCallId(): the generated getter of the same field
				if _, f, deref := kit.ProtoGetter(gc); f != nil && deref && f.Name() == "CallId" {
					okArg = true
				}
			}
			c.Check(okArg, recv, "claim-by-header-id", u.Pos(), "claims the call registered under *header.CallId", "the reader claims a call by something other than the response header's call id")
			// completion in the deferred literal
			var respAlloc ssa.Value
			comp := false
			for _, lit := range recv.AnonFuncs {
				for _, call := range kit.Calls(lit, kit.M("region", "", "returnResult")) {
					if kit.Same(call.Common().Args[0], u.Value()) {
						comp = true
						if l, ok := kit.Strip(call.Common().Args[1]).(*ssa.UnOp); ok {
							respAlloc = l.X
							if fv, ok := respAlloc.(*ssa.FreeVar); ok {
								respAlloc = kit.FreeVarBinding(fv)
							}
						}
					}
				}
			}
			c.Check(comp, recv, "complete-claimed-call", recv.Pos(), "the deferred completion delivers to the claimed call", "the deferred completion does not deliver to the call claimed by the call id")
			// response := rpc.NewResponse() of the same call
			okResp := false
			if a, ok := respAlloc.(*ssa.Alloc); ok {
				okResp = true
				n := 0
				for _, st := range kit.StoresTo(a) {
					n++
					call, ok := st.(*ssa.Call)
					if !ok || kit.CalleeName(call) != hrpcCall+"NewResponse" || !kit.Same(call.Call.Value, u.Value()) {
						okResp = false
					}
				}
				okResp = okResp && n == 1
			}
			c.Check(okResp, recv, "response-of-claimed-call", recv.Pos(), "the message delivered is NewResponse() of the claimed call", "the response message does not come from the claimed call's NewResponse()")
			// DeserializeCellBlocks on the same call with that response
			okD := false
			kit.Instrs(recv, func(in ssa.Instruction) {
				call, ok := in.(*ssa.Call)
				if !ok || !call.Call.IsInvoke() || call.Call.Method.Name() != "DeserializeCellBlocks" {
					return
				}
				recvV := kit.Root(call.Call.Value)
				if ex, ok := recvV.(*ssa.Extract); ok {
					if ta, ok := ex.Tuple.(*ssa.TypeAssert); ok && kit.Same(ta.X, u.Value()) {
						if l, ok := kit.Strip(call.Call.Args[0]).(*ssa.UnOp); ok && l.X == respAlloc {
							okD = true
						}
					}
				}
			})
			c.Check(okD, recv, "cells-of-claimed-call", recv.Pos(), "the cellblock is decoded by the claimed call into its own response", "the cellblock is not decoded by the claimed call into the response that is delivered to it")
		}
	}

	// the cells delivered to a caller alias the frame buffer of its response: that buffer must not be recycled
	{
		noResponseBufferRecycling(c)
	}

	// ---- R4 ---------------------------------------------------------------
	c.StartRule("R4", "multi action index: writer and reader agree, m.calls is never reordered", 6)
	// the actions (and their indices) stay what this toProto wrote until send has marshalled them
	multiBuildsItsRequestInFreshMemory(c)
	unsentCallsAreCleared(c)
	responseIndicesAreUnique(c)
	{
		// form-independent: the uint32 the Index field of the action at position i points to is uint32(i)+K, whether
		// it lives in an auxiliary slice (&indices[i]) or in a fresh allocation (proto.Uint32(uint32(i)+1))
		var k1 int64 = -1
		var idxVal ssa.Value
		okAct := false
		eng2 := bounds.New(p)
		kit.Instrs(mtp, func(in ssa.Instruction) {
			st, ok := in.(*ssa.Store)
			if !ok {
				return
			}
			fa, ok := st.Addr.(*ssa.FieldAddr)
			if !ok || kit.FieldVar(fa.X.Type(), fa.Field).Name() != "Index" || !strings.HasSuffix(fa.X.Type().String(), "pb.Action") {
				return
			}
			// position of the action
			var pos ssa.Value
			if a, ok := kit.Root(fa.X).(*ssa.IndexAddr); ok {
				pos = a.Index
			} else if a, ok := fa.X.(*ssa.IndexAddr); ok {
				pos = a.Index
			}
			if pos == nil {
				return
			}
			if s, isRange := rangeOfIndex(pos); !isRange || !(isLoadOfField(s, callsF) || isLoadOfField(kit.Root(s), callsF)) {
				// an index loop over a captured copy of m.calls / over n := len(m.calls) counts as well
				if _, isR := rangeOfIndex(pos); !isR {
					return
				}
			}
			// the pointee
			var pointee ssa.Value
			switch v := kit.Root(st.Val).(type) {
			case *ssa.IndexAddr:
				if v.Index != pos {
					return
				}
				kit.Instrs(mtp, func(x ssa.Instruction) {
					if s2, ok := x.(*ssa.Store); ok {
						if ia, ok := s2.Addr.(*ssa.IndexAddr); ok && ia.X == v.X && ia.Index == pos {
							pointee = s2.Val
						}
					}
				})
			case *ssa.Call:
				if strings.HasSuffix(kit.CalleeName(v), "proto.Uint32") && len(v.Call.Args) == 1 {
					pointee = v.Call.Args[0]
				}
			case *ssa.Alloc:
				for _, r := range kit.Referrers(v) {
					if s2, ok := r.(*ssa.Store); ok && s2.Addr == ssa.Value(v) {
						pointee = s2.Val
					}
				}
			}
			if pointee == nil {
				return
			}
			// uint32(i)+K: look through the (value-preserving for every possible position) conversion of i
			var k int64
			isConst := false
			if bo, ok := kit.Strip(pointee).(*ssa.BinOp); ok && bo.Op == token.ADD {
				x, y := bo.X, bo.Y
				if _, yc := kit.ConstInt(x); yc {
					x, y = y, x
				}
				if cv, ok := x.(*ssa.Convert); ok && cv.X == pos {
					k, isConst = kit.ConstInt(y)
				}
			}
			if !isConst {
				k, isConst = eng2.Lin(pointee).Sub(eng2.Lin(pos)).IsConst()
			}
			if isConst {
				k1 = k
				idxVal = pos
				okAct = true
			}
		})
		c.Check(k1 >= 0, mtp, "writer-index", mtp.Pos(), fmt.Sprintf("index of the call at position i of m.calls is uint32(i)+%d", k1), "multi.toProto no longer stores uint32(i)+K as the index of the call at position i of m.calls")
		c.Check(okAct && idxVal != nil, mtp, "writer-action", mtp.Pos(), "action i carries the index computed for position i", "the action built for position i does not carry the index computed for position i")
		var k2 int64 = -1
		rejects0 := false
		kit.Instrs(mget, func(in ssa.Instruction) {
			switch x := in.(type) {
			case *ssa.IndexAddr:
				if isLoadOfField(x.X, callsF) {
					if bo, ok := x.Index.(*ssa.BinOp); ok && bo.Op == token.SUB {
						if _, isP := bo.X.(*ssa.Parameter); isP {
							if k, ok := kit.ConstInt(bo.Y); ok {
								k2 = k
							}
							// reached only where the index is known not to be 0 (whatever form the guard has)
							for _, f := range kit.FactsAt(x.Block()) {
								cmp, ok := kit.CanonCmp(f.Cond, f.Pol)
								if !ok || cmp.X != bo.X {
									continue
								}
								if k, ok := kit.ConstInt(cmp.Y); ok && (cmp.Op == token.NEQ && k == 0 || cmp.Op == token.GTR && k == 0 || cmp.Op == token.GEQ && k == 1) {
									rejects0 = true
								}
							}
						}
					}
				}
			case *ssa.If:
				if cmp, ok := kit.CanonCmp(x.Cond, true); ok && cmp.Op == token.EQL {
					if _, isP := cmp.X.(*ssa.Parameter); isP {
						if k, ok := kit.ConstInt(cmp.Y); ok && k == 0 {
							rejects0 = true
						}
					}
				}
			}
		})
		c.Check(k2 >= 0 && rejects0, mget, "reader-index", mget.Pos(), fmt.Sprintf("get(j) returns m.calls[j-%d] and rejects j == 0", k2), "multi.get no longer returns m.calls[j-K] with 0 rejected")
		c.Check(k1 == k2 && k1 == 1, mget, "offsets-agree", mget.Pos(), "K1 == K2 == 1", fmt.Sprintf("writer offset %d and reader offset %d differ (or are not 1: index 0 means 'no index' on the wire)", k1, k2))
		// writers of m.calls
		for _, a := range p.FieldAccesses(callsF) {
			if kit.FreshObject(a.Instr) {
				continue
			}
			if a.Kind == "store" {
				st := a.Instr.(*ssa.Store)
				good := false
				why := ""
				switch a.Fn {
				case madd:
					if call, ok := st.Val.(*ssa.Call); ok && kit.CalleeName(call) == "builtin.append" && isLoadOfField(call.Call.Args[0], callsF) {
						good, why = true, "append at the end"
					}
				case mfree:
					if sl, ok := st.Val.(*ssa.Slice); ok && isLoadOfField(sl.X, callsF) {
						if k, ok := kit.ConstInt(sl.High); ok && k == 0 {
							good, why = true, "reset to length 0 when the multi goes back to the pool"
						}
					}
				}
				c.Check(good, a.Fn, "calls-store", st.Pos(), why, "m.calls is replaced in a way that can shift positions after indices were assigned")
			}
		}
		for _, fn := range p.Funcs {
			kit.Instrs(fn, func(in ssa.Instruction) {
				st, ok := in.(*ssa.Store)
				if !ok {
					return
				}
				ia, ok := st.Addr.(*ssa.IndexAddr)
				if !ok || !isLoadOfField(ia.X, callsF) {
					return
				}
				c.Check(kit.IsNilConst(st.Val) && (fn == mtp || fn == mfree), fn, "calls-element-store", st.Pos(), "element only nil-ed out (position preserved)", "an element of m.calls is overwritten with another call: action indices no longer identify the right caller")
			})
		}
	}

	// ---- R5 ---------------------------------------------------------------
	c.StartRule("R5", "region-exception fan-out", 2)
	clearedCallSlotsAreSkipped(c)
	multiSuccessOnlyWithoutError(c)
	multiHasNoContextOfItsOwn(c)
	regionExceptionUnchanged(c)
	{
		// same index for ra[i] and m.regions[i]; same map key r
		var raStore, regStore *ssa.Store
		kit.Instrs(mtp, func(in ssa.Instruction) {
			st, ok := in.(*ssa.Store)
			if !ok {
				return
			}
			ia, ok := st.Addr.(*ssa.IndexAddr)
			if !ok {
				return
			}
			if isLoadOfField(ia.X, regionsF) {
				regStore = st
			} else if strings.Contains(ia.X.Type().String(), "pb.RegionAction") {
				raStore = st
			}
		})
		good := raStore != nil && regStore != nil
		if good {
			i1 := raStore.Addr.(*ssa.IndexAddr).Index
			i2 := regStore.Addr.(*ssa.IndexAddr).Index
			good = i1 == i2 && raStore.Block() == regStore.Block()
			// region value of the action is r.Name() for the r stored in m.regions[i]
			r := kit.Strip(regStore.Val)
			nameOK := false
			for _, call := range kit.Calls(mtp, hrpcRI+"Name") {
				if call.Common().Value == r && call.(ssa.Instruction).Block() == regStore.Block() {
					nameOK = true
				}
			}
			good = good && nameOK
		}
		if !good {
			// the append form: ra = append(ra, &pb.RegionAction{...}) and m.regions = append(m.regions, r)
			// in the same iteration, both slices empty before the loop
			var raApp, regApp *ssa.Call
			nRa, nReg := 0, 0
			for _, ci := range kit.Calls(mtp, "builtin.append") {
				call := ci.(*ssa.Call)
				t := call.Call.Args[0].Type().String()
				switch {
				case strings.Contains(t, "pb.RegionAction"):
					raApp = call
					nRa++
				case strings.HasSuffix(t, "hrpc.RegionInfo"):
					regApp = call
					nReg++
				}
			}
			emptyBefore := func(app *ssa.Call) bool {
				// the appended-to value is a phi/load whose only other source is make(T, 0, n) or nil
				seen := map[ssa.Value]bool{}
				ok := true
				var walk func(v ssa.Value)
				walk = func(v ssa.Value) {
					v = kit.Strip(v)
					if seen[v] {
						return
					}
					seen[v] = true
					switch x := v.(type) {
					case *ssa.Phi:
						for _, e := range x.Edges {
							walk(e)
						}
					case *ssa.MakeSlice:
						if k, isC := kit.ConstInt(x.Len); !isC || k != 0 {
							ok = false
						}
					case *ssa.Const:
						if !x.IsNil() {
							ok = false
						}
					case *ssa.Call:
						if x != app {
							ok = false
						}
					case *ssa.UnOp:
						// load of the field: every store to it in this function is the append result or an empty make
						if _, fv := kit.FieldRead(x); fv == regionsF {
							kit.Instrs(mtp, func(in ssa.Instruction) {
								if st, isSt := in.(*ssa.Store); isSt {
									if fa, isFa := st.Addr.(*ssa.FieldAddr); isFa && kit.FieldVar(fa.X.Type(), fa.Field) == regionsF {
										walk(st.Val)
									}
								}
							})
						} else {
							ok = false
						}
					default:
						ok = false
					}
				}
				walk(app.Call.Args[0])
				return ok
			}
			if nRa == 1 && nReg == 1 && raApp.Block() == regApp.Block() && emptyBefore(raApp) && emptyBefore(regApp) {
				if els := elemsOfVariadic(regApp.Call.Args[1]); len(els) == 1 {
					r := kit.Strip(els[0])
					for _, call := range kit.Calls(mtp, hrpcRI+"Name") {
						if call.Common().Value == r && call.(ssa.Instruction).Block() == regApp.Block() {
							good = true
						}
					}
				}
			}
		}
		c.Check(good, mtp, "regions-aligned", mtp.Pos(), "ra[i] and m.regions[i] are written in the same iteration with the same i for the same map key r (whose Name() goes on the wire)", "the order of region actions on the wire and m.regions can diverge: a region exception is delivered to the calls of another region")
		// delivery: c.Region() == m.regions[i]
		okDel := false
		kit.Instrs(mret, func(in ssa.Instruction) {
			s, ok := in.(*ssa.Send)
			if !ok {
				return
			}
			for _, f := range kit.FactsAt(s.Block()) {
				cmp, ok := kit.CanonCmp(f.Cond, f.Pol)
				if !ok || cmp.Op != token.EQL {
					continue
				}
				call, ok := cmp.X.(*ssa.Call)
				if !ok || kit.CalleeName(call) != hrpcCall+"Region" {
					continue
				}
				if l, ok := kit.Root(cmp.Y).(*ssa.UnOp); ok {
					if ia, ok := l.X.(*ssa.IndexAddr); ok && isLoadOfField(ia.X, regionsF) {
						if _, isRange := rangeOfIndex(ia.Index); isRange {
							if ch, ok := s.Chan.(*ssa.Call); ok && ch.Call.Value == call.Call.Value {
								okDel = true
							}
						}
					}
				}
			}
		})
		c.Check(okDel, mret, "exception-to-region-calls", mret.Pos(), "a region exception is sent to exactly the calls with c.Region() == m.regions[i]", "region exceptions are no longer delivered by comparing the call's region with m.regions[i]")
	}

	// ---- R7 ---------------------------------------------------------------
	embed(c, "R9", "the frames of two requests are never interleaved on the wire: what the server answers under a call id is the answer to the request that was sent under it (the request-side rules of C05, run as one rule here)", 100, runC05)
	embed(c, "R7", "batch results are stored in the slot of the call they belong to (the positional rules of C07, run as one rule here)", 20, runC07)
	embed(c, "R8", "a call handed to a connection is completed exactly once, by whoever took it out of the sent table, and the pending batch object is never shared (the rules of C03, run as one rule here)", 30, runC03)

	// ---- R6 ---------------------------------------------------------------
	c.StartRule("R6", "cellblock cursor discipline", 3)
	multiDecodesEveryResult(c)
	{
		eng := bounds.New(p)
		type dec struct{ rel, recv, name string }
		for _, d := range []dec{{"region", "multi", "DeserializeCellBlocks"}, {"hrpc", "Scan", "DeserializeCellBlocks"}, {"hrpc", "", "deserializeCellBlocks"}} {
			fn := c.Anchor(d.rel, d.recv, d.name)
			if fn == nil {
				continue
			}
			var bParam *ssa.Parameter
			for _, pa := range fn.Params {
				if pa.Type().String() == "[]byte" {
					bParam = pa
				}
			}
			cursors := eng.Cursors(fn)
			n := 0
			kit.Instrs(fn, func(in ssa.Instruction) {
				call, ok := in.(*ssa.Call)
				if !ok {
					return
				}
				name := kit.CalleeName(call)
				if !strings.HasSuffix(name, "DeserializeCellBlocks") && !strings.HasSuffix(name, ".deserializeCellBlocks") && !strings.HasSuffix(name, ".cellFromCellBlock") {
					return
				}
				n++
				good := false
				args := call.Call.Args
				for _, a := range args {
					sl, ok := a.(*ssa.Slice)
					if !ok || sl.X != ssa.Value(bParam) || sl.High != nil || sl.Low == nil {
						continue
					}
					low := kit.Strip(sl.Low)
					if ph, ok := low.(*ssa.Phi); ok && cursors[ph] == ssa.Value(bParam) {
						good = true
					}
				}
				c.Check(good, fn, "nested-decoder-gets-b[cursor:]", call.Pos(), "the nested decoder reads b[cursor:] and the cursor advances by exactly what it returned",
					"the nested decoder is not given b[cursor:] with a cursor that advances by exactly the length it returned (forgotten/doubled advance or stale offset): following results read another call's cells")
			})
			if n == 0 {
				c.Unk(fn, "nested-decoder", fn.Pos(), "no nested decoder call found")
			}
		}
		// the per-call decoders used under a multi response report exactly what they consumed: the
		// multi decoder advances its shared cursor by that number, so a decoder that skips its cells
		// (and reports 0) shifts every later result of the response onto the wrong cells
		for _, d := range []dec{{"hrpc", "Get", "DeserializeCellBlocks"}, {"hrpc", "Mutate", "DeserializeCellBlocks"}} {
			fn := c.Anchor(d.rel, d.recv, d.name)
			if fn == nil {
				continue
			}
			nested := kit.Calls(fn, kit.M("hrpc", "", "deserializeCellBlocks"))
			kit.Instrs(fn, func(in ssa.Instruction) {
				r, ok := in.(*ssa.Return)
				if !ok || len(r.Results) != 2 || !kit.IsNilConst(kit.Root(kit.Res(r, 1))) {
					return
				}
				v := kit.Root(kit.Res(r, 0))
				good, why := false, ""
				if ex, ok := v.(*ssa.Extract); ok && ex.Index == 1 && len(nested) == 1 && ex.Tuple == nested[0].Value() {
					good, why = true, "returns the count read by deserializeCellBlocks"
				} else if k, ok := kit.ConstInt(v); ok && k == 0 {
					for _, f := range kit.FactsAt(r.Block()) {
						cmp, ok := kit.CanonCmp(f.Cond, f.Pol)
						if !ok || cmp.Op != token.EQL || !kit.IsNilConst(cmp.Y) {
							continue
						}
						if _, fv := kit.FieldRead(cmp.X); fv != nil && fv.Name() == "Result" {
							good, why = true, "returns 0 only where the response carries no Result"
						}
					}
				}
				c.Check(good, fn, "decoder-reports-consumption", r.Pos(), why, "a per-call decoder can succeed reporting a number of consumed bytes that is not what the cells declared by its response occupy (e.g. 0 for a call nobody waits for any more): under a multi response the shared cursor stops short and the following calls are given this call's cells or a short-read error")
			})
			if len(nested) == 1 {
				// the nested decoder is told the count the response declares
				cnt := nested[0].Common().Args[1]
				okCnt := false
				if cv, ok := kit.Strip(cnt).(*ssa.Convert); ok {
					if g, ok := kit.Root(cv.X).(*ssa.Call); ok && strings.HasSuffix(kit.CalleeName(g), "pb.Result).GetAssociatedCellCount") {
						okCnt = true
					}
				}
				c.Check(okCnt, fn, "decoder-count-from-response", nested[0].Pos(), "cell count = Result.GetAssociatedCellCount()", "the number of cells consumed is not the count declared by the response")
			} else {
				c.Unk(fn, "decoder-count-from-response", fn.Pos(), "expected exactly one nested deserializeCellBlocks call")
			}
		}
		// results are consumed in the order the response lists them (the cells in the trailing block
		// are in that order): the listed results are not reordered before the loop
		if md := p.Func("region", "multi", "DeserializeCellBlocks"); md != nil {
			n := 0
			kit.Instrs(md, func(in ssa.Instruction) {
				call, ok := in.(*ssa.Call)
				if !ok {
					return
				}
				nm := kit.CalleeName(call)
				if !strings.HasSuffix(nm, "GetResultOrException") && !strings.HasSuffix(nm, "GetRegionActionResult") {
					return
				}
				n++
				bad := ""
				seen := map[ssa.Value]bool{}
				var uses func(v ssa.Value)
				uses = func(v ssa.Value) {
					if seen[v] {
						return
					}
					seen[v] = true
					for _, r := range kit.Referrers(v) {
						switch u := r.(type) {
						case *ssa.MakeInterface:
							bad = "passed on as interface{} (sort.Slice and friends) at " + p.Pos(u.Pos())
						case *ssa.Call:
							if cn := kit.CalleeName(u); cn != "builtin.len" && cn != "builtin.cap" {
								bad = "passed to " + kit.ShortName(cn) + " at " + p.Pos(u.Pos())
							}
						case *ssa.MakeClosure:
							bad = "captured by a function literal at " + p.Pos(u.Pos())
						case *ssa.Store:
							if u.Val == v {
								if al, ok := u.Addr.(*ssa.Alloc); ok {
									for _, rr := range kit.Referrers(al) {
										if l, ok := rr.(*ssa.UnOp); ok {
											uses(l)
										}
										if _, ok := rr.(*ssa.MakeClosure); ok {
											bad = "captured by a function literal at " + p.Pos(rr.Pos())
										}
									}
								} else {
									bad = "stored away at " + p.Pos(u.Pos())
								}
							}
						case *ssa.IndexAddr:
							for _, rr := range kit.Referrers(u) {
								if st, ok := rr.(*ssa.Store); ok && st.Addr == ssa.Value(u) {
									bad = "an element is overwritten at " + p.Pos(st.Pos())
								}
							}
						case *ssa.Slice, *ssa.Phi:
							uses(u.(ssa.Value))
						}
					}
				}
				uses(call)
				c.Check(bad == "", md, "results-in-response-order", call.Pos(), "the list is only ranged over / indexed / measured", "the list of results of the response is "+bad+" before it is consumed: if it is reordered, the running cellblock cursor hands each call the cells of another (the totals still add up, so no short read is noticed)")
			})
			if n < 2 {
				c.Unk(md, "results-in-response-order", md.Pos(), "the two result lists of a multi response are no longer read through their getters")
			}
		}
	}
}

// noResponseBufferRecycling: decoded cells alias the (decompressed) frame buffer of their response;
// buffers go back to the pool only at the request-side sites of the table. Shared by C02.R3 and C15.R2.
func noResponseBufferRecycling(c *kit.Ctx) {
	p := c.P
	decompressedBufferIsFresh(c)
	decodeTargetsAreFresh(c)
	resultChannelsAreMadePerCall(c)
	if recv := p.Func("region", "client", "receive"); recv != nil {
		// the frame buffer of a response is allocated per frame
		fresh := false
		kit.Instrs(recv, func(in ssa.Instruction) {
			call, ok := in.(*ssa.Call)
			if !ok || kit.CalleeName(call) != "io.ReadFull" {
				return
			}
			if mk, ok := kit.Root(call.Call.Args[1]).(*ssa.MakeSlice); ok && mk.Parent() == recv {
				fresh = true
			}
		})
		c.Check(fresh, recv, "frame-buffer-per-response", recv.Pos(), "every response frame is read into a buffer allocated for it", "response frames are read into a shared or pooled buffer: results still held by callers are overwritten by later responses")
	}
	allowed := map[string]string{
		"(*region.client).send":                   "the compressed request buffer, after it was written",
		"(*region.compressor).compressCellblocks": "the scratch chunk buffer of the compressor",
	}
	for k, v := range allowed {
		c.Table("C02.R3 buffer recycling allowed in " + k + ": " + v)
	}
	for _, s := range callersOf(p, kit.M("region", "", "freeBuffer")) {
		fn := enclosingNamed(s.Parent())
		_, ok := allowed[kit.FuncName(fn)]
		c.Check(ok, s.Parent(), "buffer-recycled", s.Pos(), "request-side scratch buffer returned to the pool", "a buffer is returned to the pool on the response path (or a new place): decoded cells handed to callers are sub-slices of the frame buffer, so a later response overwrites the rows and values an earlier caller still holds")
	}
}

// callIDDiscipline: the call id is allocated atomically in registerRPC, which inserts the call under
// the very id it returns; the sent table is only written by its three owner functions. Shared by
// C02.R1 and C05.R4 (a call id unique on the connection).
func callIDDiscipline(c *kit.Ctx) {
	p := c.P
	reg, unreg, failSent := p.Func("region", "client", "registerRPC"), p.Func("region", "client", "unregisterRPC"), p.Func("region", "client", "failSentRPCs")
	idF, sentF := p.Field("region", "client", "id"), p.Field("region", "client", "sent")
	if reg == nil || unreg == nil || idF == nil || sentF == nil {
		c.Unk(nil, "call-id-discipline", token.NoPos, "registerRPC/unregisterRPC or the fields id/sent of region.client not found")
		return
	}
	for _, a := range p.FieldAccesses(idF) {
		if kit.FreshObject(a.Instr) {
			continue
		}
		switch {
		case a.Kind == "address-to-sync/atomic.AddUint32":
			c.Check(a.Fn == reg, a.Fn, "id-increment", posOf(a.Instr), "atomic increment in registerRPC", "the call-id counter is incremented outside registerRPC")
		case a.Kind == "address-to-sync/atomic.LoadUint32":
			c.OK(a.Fn, "id-read", posOf(a.Instr), "atomic read (debug state)")
		default:
			c.Bad(a.Fn, "id-access "+a.Kind, posOf(a.Instr), "non-atomic or unexpected access to the call-id counter: two requests can get the same id", "")
		}
	}
	for _, a := range p.FieldAccesses(sentF) {
		if kit.FreshObject(a.Instr) || !a.Write {
			continue
		}
		okFn := (a.Kind == "map-update" && a.Fn == reg) || (a.Kind == "map-delete" && a.Fn == unreg) || (a.Kind == "store" && a.Fn == failSent)
		c.Check(okFn, a.Fn, "sent-"+a.Kind, posOf(a.Instr), "sent table written by its owner function", "the sent table is modified outside registerRPC/unregisterRPC/failSentRPCs")
	}
	// registerRPC inserts under the fresh id and returns it
	{
		good := false
		kit.Instrs(reg, func(in ssa.Instruction) {
			mu, ok := in.(*ssa.MapUpdate)
			if !ok || !isLoadOfField(mu.Map, sentF) {
				return
			}
			call, ok := mu.Key.(*ssa.Call)
			if !ok || kit.CalleeName(call) != "sync/atomic.AddUint32" {
				return
			}
			if _, isParam := kit.Strip(mu.Value).(*ssa.Parameter); !isParam {
				return
			}
			kit.Instrs(reg, func(x ssa.Instruction) {
				if r, ok := x.(*ssa.Return); ok && kit.Res(r, 0) == ssa.Value(call) {
					good = true
				}
			})
		})
		c.Check(good, reg, "insert-under-fresh-id", reg.Pos(), "sent[id] = rpc with id = atomic.AddUint32(&c.id, 1), the id returned", "registerRPC does not insert the call under the id it returns")
	}
	// unregisterRPC looks up and deletes the same id and returns the looked-up call
	{
		idParam := paramOfType(unreg, "uint32", 0)
		lookupOK, deleteOK, retOK := false, false, false
		var looked ssa.Value
		kit.Instrs(unreg, func(in ssa.Instruction) {
			switch x := in.(type) {
			case *ssa.Lookup:
				if isLoadOfField(x.X, sentF) && x.Index == ssa.Value(idParam) {
					lookupOK = true
					looked = x
				}
			case *ssa.Call:
				if kit.CalleeName(x) == "builtin.delete" && isLoadOfField(x.Call.Args[0], sentF) && x.Call.Args[1] == ssa.Value(idParam) {
					deleteOK = true
				}
			}
		})
		kit.Instrs(unreg, func(in ssa.Instruction) {
			if r, ok := in.(*ssa.Return); ok && looked != nil {
				rv := kit.Root(kit.Res(r, 0))
				if rv == looked {
					retOK = true
				}
				// rpc, ok := c.sent[id]
				if ex, isEx := rv.(*ssa.Extract); isEx && ex.Tuple == looked && ex.Index == 0 {
					retOK = true
				}
			}
		})
		c.Check(lookupOK && deleteOK && retOK, unreg, "lookup-delete-same-id", unreg.Pos(), "returns sent[id] and deletes that id", "unregisterRPC does not return and delete the entry of the id it was given")
	}
}
