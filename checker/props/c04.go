package props

import (
	"fmt"
	"go/token"
	"go/types"
	"sort"
	"strings"

	"golang.org/x/tools/go/ssa"

	"gohbaseverif/kit"
)

func init() {
	register("C04", &Property{
		Title: "Requests survive region and server faults; only real errors surface",
		Explanation: "(R1) the three Java-exception tables have pairwise disjoint keys, exceptionToError is their only reader, every table hit returns a distinct class type wrapping the same error and the fall-through returns that error itself; the class set is computed from those returns; " +
			"(R2) every consumer of a result error in package gohbase (type switch / comma-ok assertion on an error naming a class) handles the classes its table entry requires: SendRPC, waitForCompletion and isRegionEstablished all of them, handleResultError the two that need a reaction, with SendRPC's class cases leading back to the retry loop and its default returning the same error value unchanged - so a fourth class makes every consumer non-exhaustive; " +
			"(R3) every result error received from a call's result channel reaches handleResultError with the region of the same call and the connection it was queued on (the establisher's probe is the tabled exception); " +
			"(R4) the reaction: NotServingRegionError marks that region, ServerError calls clientDown(rc, reg) unless the admin region; " +
			"(R5) TableNotFound is returned by the lookup loops without backing off or looping." +
			" Added after the seeded-change rounds: (R3) the error handed back by trySend reaches the call unchanged (shared with C03.R3); (R4) a looked-up region is marked unavailable before it is published in the cache (shared with C09.R3).",
		Residue:   "eventual success once the cluster is stable (liveness over fault sequences)",
		Technique: "table extraction from the package initialiser, class-exhaustiveness over type switches/assertions (SSA), provenance and dominance checks",
		Run:       runC04,
	})
}

// mapLiteralKeys extracts the constant keys stored into the map assigned to
// global g in the package initialiser.
func mapLiteralKeys(p *kit.Prog, rel string, g *ssa.Global) []string {
	path := kit.Module
	if rel != "" {
		path += "/" + rel
	}
	initFn := p.SSAPkg[path].Func("init")
	if initFn == nil || g == nil {
		return nil
	}
	var m ssa.Value
	kit.Instrs(initFn, func(in ssa.Instruction) {
		if st, ok := in.(*ssa.Store); ok && st.Addr == ssa.Value(g) {
			m = st.Val
		}
	})
	var keys []string
	kit.Instrs(initFn, func(in ssa.Instruction) {
		if mu, ok := in.(*ssa.MapUpdate); ok && mu.Map == m {
			if k, ok := mu.Key.(*ssa.Const); ok && k.Value != nil {
				keys = append(keys, k.Value.ExactString())
			}
		}
	})
	return keys
}

func runC04(c *kit.Ctx) {
	p := c.P
	e2e := c.Anchor("region", "", "exceptionToError")
	sendRPC := c.Anchor("", "client", "SendRPC")
	wfc := c.Anchor("", "client", "waitForCompletion")
	hre := c.Anchor("", "client", "handleResultError")
	ire := c.Anchor("", "", "isRegionEstablished")
	s2rc := c.Anchor("", "client", "sendRPCToRegionClient")
	lr := c.Anchor("", "client", "lookupRegion")
	lar := c.Anchor("", "client", "lookupAllRegions")
	est := c.Anchor("", "client", "establishRegion")
	if e2e == nil || sendRPC == nil || wfc == nil || hre == nil || ire == nil || s2rc == nil || lr == nil || lar == nil || est == nil {
		return
	}

	// ---- R1 ---------------------------------------------------------------
	c.StartRule("R1", "classification tables are disjoint and map to distinct classes", 6)
	exceptionTableOracle(c)
	headerExceptionIsClassified(c)
	classificationGoesByClassName(c)
	var classSet []types.Type
	{
		tables := []string{"javaRetryableExceptions", "javaRegionExceptions", "javaServerExceptions"}
		seen := map[string]string{}
		for _, t := range tables {
			g := p.Global("region", t)
			keys := mapLiteralKeys(p, "region", g)
			if g == nil || len(keys) == 0 {
				c.Unk(e2e, "table "+t, token.NoPos, "exception table "+t+" not found or empty")
				continue
			}
			dup := ""
			for _, k := range keys {
				if o, ok := seen[k]; ok {
					dup = k + " (also in " + o + ")"
				}
				seen[k] = t
			}
			c.Check(dup == "", e2e, "table-disjoint "+t, g.Pos(), fmt.Sprintf("%d keys, none shared with another table", len(keys)), "exception class "+dup+" is listed in two tables: its classification depends on the order of the lookups")
			// only exceptionToError reads it
			for _, fn := range p.Funcs {
				kit.Instrs(fn, func(in ssa.Instruction) {
					if u, ok := in.(*ssa.UnOp); ok && u.Op == token.MUL && u.X == ssa.Value(g) {
						c.Check(fn == e2e, fn, "table-reader "+t, u.Pos(), "read by exceptionToError", "exception table read outside exceptionToError: a second classification can disagree with the first")
					}
				})
			}
		}
		// returns of exceptionToError
		var wrapped ssa.Value
		nPlain := 0
		kit.Instrs(e2e, func(in ssa.Instruction) {
			r, ok := in.(*ssa.Return)
			if !ok {
				return
			}
			v := kit.Res(r, 0)
			if mi, ok := v.(*ssa.MakeInterface); ok {
				// struct literal wrapping err
				inner := structFieldStore(mi.X)
				if wrapped == nil {
					wrapped = inner
				}
				dupT := false
				for _, t := range classSet {
					if types.Identical(t, mi.X.Type()) {
						dupT = true
					}
				}
				c.Check(inner != nil && inner == wrapped && !dupT, e2e, "class-return "+types.TypeString(mi.X.Type(), shortQual), r.Pos(), "a table hit returns a distinct class wrapping the formatted error", "two tables map to the same class, or the class does not wrap the original error")
				classSet = append(classSet, mi.X.Type())
				return
			}
			nPlain++
			c.Check(wrapped == nil || v == wrapped, e2e, "fallthrough-return", r.Pos(), "an unclassified exception is returned as a plain error (not retried)", "the fall-through of exceptionToError does not return the plain error")
		})
		if len(classSet) != 3 || nPlain != 1 {
			c.Unk(e2e, "class-set", e2e.Pos(), fmt.Sprintf("expected 3 class returns and 1 fall-through, found %d and %d: the consumer requirement table must be re-read", len(classSet), nPlain))
		}
	}
	className := func(t types.Type) string { return types.TypeString(t, shortQual) }
	inClassSet := func(t types.Type) bool {
		for _, k := range classSet {
			if types.Identical(k, t) {
				return true
			}
		}
		return false
	}
	var allNames []string
	for _, t := range classSet {
		allNames = append(allNames, className(t))
	}
	sort.Strings(allNames)

	// ---- R2 ---------------------------------------------------------------
	c.StartRule("R2", "every consumer of result errors is exhaustive over the classes it must handle", 5)
	batchRetriesUntilNothingIsLeft(c)
	probeClassifiesOutcome(c)
	required := map[string][]string{
		"(*gohbase.client).SendRPC":           allNames,
		"(*gohbase.client).waitForCompletion": allNames,
		"gohbase.isRegionEstablished":         allNames,
		"(*gohbase.client).handleResultError": {"region.NotServingRegionError", "region.ServerError"},
		"(*gohbase.client).establishRegion":   {"region.ServerError"},
		"gohbase.hasServerError":              {"region.ServerError"},
	}
	c.Table("C04.R2: handleResultError needs no case for RetryableError (the region and the connection are fine; the caller backs off and retries on the same connection)")
	c.Table("C04.R2: establishRegion only distinguishes ServerError (connection is dead: clientDown); every other probe failure retries after back-off")
	for _, fn := range p.Funcs {
		if enclosingNamed(fn).Pkg == nil || enclosingNamed(fn).Pkg.Pkg.Path() != kit.Module {
			continue
		}
		// assertions on the same error: the same value, or repeated reads of the same field of the
		// same struct value / object (a chain of `if _, ok := res.Error.(T); ok` reads it once per link)
		groups := map[any][]*ssa.TypeAssert{}
		operandKey := func(v ssa.Value) any {
			r := kit.Root(v)
			switch x := r.(type) {
			case *ssa.Field:
				return fmt.Sprintf("field %p.%d", kit.Root(x.X), x.Field)
			case *ssa.UnOp:
				if fa, ok := x.X.(*ssa.FieldAddr); ok {
					return fmt.Sprintf("fieldaddr %p.%d", kit.Root(fa.X), fa.Field)
				}
			}
			return r
		}
		kit.Instrs(fn, func(in ssa.Instruction) {
			ta, ok := in.(*ssa.TypeAssert)
			if !ok || !kit.IsErrorType(ta.X.Type()) || !inClassSet(ta.AssertedType) {
				return
			}
			groups[operandKey(ta.X)] = append(groups[operandKey(ta.X)], ta)
		})
		for operand, tas := range groups {
			var have []string
			for _, ta := range tas {
				have = append(have, className(ta.AssertedType))
			}
			sort.Strings(have)
			req, ok := required[kit.FuncName(fn)]
			if !ok && fn.Parent() != nil && len(have) == 1 && have[0] == "region.ServerError" {
				// a predicate "is this a ServerError" written as a function literal (hasServerError inlined)
				req, ok = []string{"region.ServerError"}, true
			}
			if !ok {
				c.Unk(fn, "error-class-consumer", tas[0].Pos(), "new consumer of the error classes ("+strings.Join(have, ", ")+"): not in the requirement table")
				continue
			}
			missing := []string{}
			for _, r := range req {
				found := false
				for _, h := range have {
					if h == r {
						found = true
					}
				}
				if !found {
					missing = append(missing, r)
				}
			}
			c.Check(len(missing) == 0, fn, "exhaustive", tas[0].Pos(), "handles "+strings.Join(have, ", "), "the error switch does not handle "+strings.Join(missing, ", ")+": an error of that class is treated like an application error and surfaces to the caller instead of being retried")
			_ = operand
		}
		if _, need := required[kit.FuncName(fn)]; need && len(groups) == 0 && fn.Parent() == nil {
			c.Bad(fn, "exhaustive", fn.Pos(), "this function no longer distinguishes the error classes at all", "")
		}
	}
	// SendRPC: class cases retry, default returns the same error
	{
		var sw ssa.Value
		var tas []*ssa.TypeAssert
		kit.Instrs(sendRPC, func(in ssa.Instruction) {
			if ta, ok := in.(*ssa.TypeAssert); ok && kit.IsErrorType(ta.X.Type()) && inClassSet(ta.AssertedType) {
				tas = append(tas, ta)
				sw = ta.X
			}
		})
		calls := kit.Calls(sendRPC, kit.M("", "*client", "getRegionAndClientForRPC"))
		if len(calls) == 1 && sw != nil {
			head := calls[0].(ssa.Instruction)
			for _, ta := range tas {
				okV := kit.ExtractOf(ta, 1)
				for _, r := range kit.Referrers(okV) {
					iff, ok := r.(*ssa.If)
					if !ok {
						continue
					}
					e := kit.PathFromBlock(kit.SuccOnTrue(iff), kit.PathQuery{Target: func(in ssa.Instruction) bool { return in == head }})
					if kit.SuccOnTrue(iff) == head.Block() {
						e = &kit.Exit{}
					}
					c.Check(e != nil, sendRPC, "class-case-retries "+className(ta.AssertedType), ta.Pos(), "the case leads back to the retry loop", "the "+className(ta.AssertedType)+" case of SendRPC no longer retries")
				}
			}
			// default: all assertions failed => return the switched error
			kit.Instrs(sendRPC, func(in ssa.Instruction) {
				r, ok := in.(*ssa.Return)
				if !ok {
					return
				}
				nFalse := 0
				for _, f := range kit.FactsAt(r.Block()) {
					if ex, ok := f.Cond.(*ssa.Extract); ok && !f.Pol {
						if ta, ok := ex.Tuple.(*ssa.TypeAssert); ok && ta.X == sw {
							nFalse++
						}
					}
				}
				if nFalse == len(tas) && nFalse > 0 {
					c.Check(kit.Same(returnedError(r), sw), sendRPC, "default-returns-unchanged", r.Pos(), "an error of no class is returned to the caller unchanged", "SendRPC's default case does not return the original error value")
				}
			})
		}
	}

	// ---- R3 ---------------------------------------------------------------
	c.StartRule("R3", "every received result error reaches handleResultError with the call's region and connection", 3)
	handbackErrorUnchanged(c)
	regionExceptionUnchanged(c)
	hreName := kit.M("", "*client", "handleResultError")
	checkHandled := func(fn *ssa.Function, rpcV, rcV ssa.Value, pos token.Pos, what string) {
		good := false
		for _, call := range kit.Calls(fn, hreName) {
			a := call.Common().Args
			reg, ok := kit.Strip(a[2]).(*ssa.Call)
			if !ok || kit.CalleeName(reg) != hrpcCall+"Region" || !kit.Same(reg.Call.Value, rpcV) {
				continue
			}
			if !kit.Same(a[3], rcV) {
				continue
			}
			// on the error != nil edge
			for _, f := range kit.FactsAt(call.Block()) {
				if cmp, ok := kit.CanonCmp(f.Cond, f.Pol); ok && cmp.Op == token.NEQ && kit.IsNilConst(cmp.Y) && kit.IsErrorType(cmp.X.Type()) {
					good = true
				}
			}
		}
		c.Check(good, fn, "error-handled "+what, pos, "handleResultError(err, rpc.Region(), rc) for the same call and connection on the error edge", "a result error received here is not passed to handleResultError with the region of the same call and its connection: the failed region/connection is never re-established")
	}
	{
		// sendRPCToRegionClient
		rpcP, rcP := paramOfType(s2rc, "/hrpc.Call", 0), paramOfType(s2rc, "/hrpc.RegionClient", 0)
		if rpcP != nil && rcP != nil {
			checkHandled(s2rc, rpcP, rcP, s2rc.Pos(), "single call")
		}
		// waitForCompletion: each receive from rpc.ResultChan()
		rcW := paramOfType(wfc, "/hrpc.RegionClient", 0)
		n := 0
		kit.Instrs(wfc, func(in ssa.Instruction) {
			sel, ok := in.(*ssa.Select)
			if !ok {
				return
			}
			for k, st := range sel.States {
				call, ok := st.Chan.(*ssa.Call)
				if !ok {
					continue
				}
				if recv, isRC := p.IsMethodOn(call, "hrpc", "Call", "ResultChan"); isRC && rcW != nil {
					n++
					// a handleResultError call for this recv dominated by this select - and not inside another
					// arm of it (a second receive nested in the <-Done() arm has its own call; that call says
					// nothing about what this arm does with the error it received)
					inOtherArm := func(h ssa.Instruction) bool {
						for _, f := range kit.FactsAt(h.Block()) {
							bo, ok := f.Cond.(*ssa.BinOp)
							if !ok || bo.Op != token.EQL || !f.Pol {
								continue
							}
							if ex, ok := bo.X.(*ssa.Extract); ok && ex.Index == 0 && ex.Tuple == ssa.Value(sel) {
								if j, ok := kit.ConstInt(bo.Y); ok && int(j) != k {
									return true
								}
							}
						}
						return false
					}
					good := false
					for _, h := range kit.Calls(wfc, hreName) {
						a := h.Common().Args
						reg, ok := kit.Strip(a[2]).(*ssa.Call)
						if ok && kit.CalleeName(reg) == hrpcCall+"Region" && kit.Same(reg.Call.Value, recv) && kit.Same(a[3], rcW) && kit.Dominates(sel, h.(ssa.Instruction)) && !inOtherArm(h.(ssa.Instruction)) {
							good = true
						}
					}
					c.Check(good, wfc, "error-handled batch", sel.Pos(), "handleResultError(res.Error, rpc.Region(), rc) follows this receive", "a batch result received here does not reach handleResultError for the same call")
				}
			}
		})
		if n < 2 {
			c.Unk(wfc, "receives", wfc.Pos(), "fewer than the two confirmed result receives found in waitForCompletion")
		}
		c.Table("C04.R3: the probe in isRegionEstablished does not call handleResultError (its caller establishRegion calls clientDown on ServerError and retries otherwise - re-checked)")
		good := false
		for _, call := range kit.Calls(est, kit.M("", "*client", "clientDown")) {
			if _, ok := typeAssertEdge(call.Block(), p.Named("region", "ServerError")); ok {
				good = true
			}
		}
		c.Check(good, est, "probe-error-handled", est.Pos(), "establishRegion calls clientDown when the probe reports a ServerError", "a ServerError seen by the probe no longer takes the connection down")
	}

	// ---- R4 ---------------------------------------------------------------
	everyFailedResultReachesTheReaction(c)

	c.StartRule("R4", "reaction to a failed result", 2)
	{
		regP, rcP := paramOfType(hre, "/hrpc.RegionInfo", 0), paramOfType(hre, "/hrpc.RegionClient", 0)
		nsre, se := p.Named("region", "NotServingRegionError"), p.Named("region", "ServerError")
		adminF := p.Field("", "client", "adminRegionInfo")
		e1, f1 := afterClassAlways(hre, nsre, func(x ssa.Instruction) bool {
			call, ok := x.(*ssa.Call)
			return ok && kit.CalleeName(call) == hrpcRI+"MarkUnavailable" && call.Call.Value == ssa.Value(regP)
		}, nil)
		okN := f1 && e1 == nil
		e2, f2 := afterClassAlways(hre, se, func(x ssa.Instruction) bool {
			call, ok := x.(*ssa.Call)
			return ok && kit.CalleeName(call) == kit.M("", "*client", "clientDown") && call.Call.Args[1] == ssa.Value(rcP) && call.Call.Args[2] == ssa.Value(regP)
		}, func(from, to *ssa.BasicBlock) bool {
			// the master pseudo-region has no connection cache entry: it is only marked
			for _, f := range kit.EdgeFacts(from, to) {
				if cmp, ok := kit.CanonCmp(f.Cond, f.Pol); ok && cmp.Op == token.EQL && adminF != nil && (isLoadOfField(cmp.X, adminF) || isLoadOfField(cmp.Y, adminF)) {
					return true
				}
			}
			return false
		})
		okS := f2 && e2 == nil
		c.Check(okN, hre, "nsre-marks-region", hre.Pos(), "NotServingRegionError marks exactly the failed region", "NotServingRegionError no longer marks the failed region unavailable")
		c.Check(okS, hre, "servererror-takes-connection-down", hre.Pos(), "ServerError calls clientDown(rc, reg)", "ServerError no longer takes the connection (and all its regions) down")
	}

	failedRegionAlwaysMarked(c)
	lookupContexts(c)
	failedAttemptRelooksUp(c)
	tableNotFoundEvicts(c)
	if gr := p.Func("", "client", "getRegionAndClientForRPC"); gr != nil {
		waitOnTestedChannel(c, gr)
	}

	// a region replacing a moved/split/merged one becomes visible only once it is marked unavailable
	markBeforePublish(c)
	// every exit of the establisher releases the region it made unavailable: requests that wait for it go on
	// (shared with C09.R2)
	if est := p.Func("", "client", "establishRegion"); est != nil {
		tokenTypestate(c, est, p.Global("", "ErrClientClosed"), p.Global("", "establishRegionOverride"))
	}

	embed(c, "R7", "every attempt is routed by the current location of the row, with the region of the call it is (the rules of C01, run as one rule here)", 30, runC01)
	if !c.Frozen {
		embed(c, "R8", "a region or server fault ends: the region comes back through one establisher that is started exactly once, is released whatever the outcome, and never crashes (the rules of C09, run as one rule here)", 30, runC09)
	}
	embed(c, "R6", "a failing connection fails every request on it with a connection-level error, so that it is retried elsewhere (the rules of C03, run as one rule here)", 30, runC03)

	// ---- R5 ---------------------------------------------------------------
	publishedRegionGetsItsEstablisher(c)

	c.StartRule("R5", "TableNotFound is not retried", 2)
	lookupAttemptsHaveTheirOwnTimeout(c)
	tnf := p.Global("", "TableNotFound")
	for _, fn := range []*ssa.Function{lr, lar} {
		good := false
		kit.Instrs(fn, func(in ssa.Instruction) {
			iff, ok := in.(*ssa.If)
			if !ok {
				return
			}
			cmp, ok := kit.CanonCmp(iff.Cond, true)
			if !ok || cmp.Op != token.EQL || tnf == nil || !(isGlobalLoad(cmp.Y, tnf) || isGlobalLoad(cmp.X, tnf)) {
				return
			}
			errV := cmp.X
			if isGlobalLoad(cmp.X, tnf) {
				errV = cmp.Y
			}
			// from the equal edge every path returns that error without waiting or looping
			e := kit.PathFromBlock(kit.SuccOnTrue(iff), kit.PathQuery{TargetPath: func(x ssa.Instruction, path []*ssa.BasicBlock) bool {
				if call, ok := x.(*ssa.Call); ok && kit.CalleeName(call) == sleepName {
					return true
				}
				if x.Block() == iff.Block() {
					return true // looped
				}
				if r, ok := x.(*ssa.Return); ok {
					if kit.Same(returnedError(r), errV) {
						return false
					}
					// the same variable after the ways met again (a flag decides later that the error is final)
					full := append([]*ssa.BasicBlock{iff.Block()}, path...)
					return !kit.Same(kit.ResolveAlong(returnedError(r), full), errV)
				}
				return false
			}, Known: kit.EdgeFacts(iff.Block(), kit.SuccOnTrue(iff))})
			if e == nil {
				good = true
			}
		})
		c.Check(good, fn, "table-not-found-returned", fn.Pos(), "err == TableNotFound is returned at once on every path", "TableNotFound is no longer returned immediately by the lookup loop (retried, backed off or swallowed on some path)")
	}
}

// structFieldStore returns the value stored into the single field of the
// struct literal whose load is v.
func structFieldStore(v ssa.Value) ssa.Value {
	u, ok := v.(*ssa.UnOp)
	if !ok {
		return nil
	}
	a, ok := u.X.(*ssa.Alloc)
	if !ok {
		return nil
	}
	var out ssa.Value
	kit.Instrs(a.Parent(), func(in ssa.Instruction) {
		if st, ok := in.(*ssa.Store); ok {
			if fa, ok := st.Addr.(*ssa.FieldAddr); ok && fa.X == ssa.Value(a) {
				out = st.Val
			}
		}
	})
	return out
}

// failedRegionAlwaysMarked: shared by C04.R4 and C09.R3.
func failedRegionAlwaysMarked(c *kit.Ctx) {
	// clientDown always deals with the region the error was seen on, whatever the cache says
	if cd := c.Anchor("", "client", "clientDown"); cd != nil {
		regP := paramOfType(cd, "/hrpc.RegionInfo", 0)
		// the work-list form: the region is put into a slice first (affected := [reg, others...]) and one loop over
		// that slice marks every element
		var holds func(v ssa.Value, seen map[ssa.Value]bool) bool
		holds = func(v ssa.Value, seen map[ssa.Value]bool) bool {
			if regP == nil {
				return false
			}
			v = kit.Root(v)
			if seen[v] {
				return true // a loop-carried slice that only grows
			}
			seen[v] = true
			switch x := v.(type) {
			case *ssa.Phi:
				for _, e := range x.Edges {
					if !holds(e, seen) {
						return false
					}
				}
				return true
			case *ssa.Call:
				if kit.CalleeName(x) == "builtin.append" && len(x.Call.Args) == 2 {
					if holds(x.Call.Args[0], seen) {
						return true
					}
					if sl, ok := x.Call.Args[1].(*ssa.Slice); ok {
						for _, r := range kit.Referrers(sl.X) {
							if ia, ok := r.(*ssa.IndexAddr); ok {
								for _, r2 := range kit.Referrers(ia) {
									if st, ok := r2.(*ssa.Store); ok && st.Addr == ssa.Value(ia) && kit.Root(st.Val) == ssa.Value(regP) {
										return true
									}
								}
							}
						}
					}
				}
			case *ssa.MakeSlice:
				for _, r := range kit.Referrers(x) {
					if ia, ok := r.(*ssa.IndexAddr); ok {
						if k, isK := kit.ConstInt(ia.Index); isK && k == 0 {
							for _, r2 := range kit.Referrers(ia) {
								if st, ok := r2.(*ssa.Store); ok && st.Addr == ssa.Value(ia) && kit.Root(st.Val) == ssa.Value(regP) {
									return true
								}
							}
						}
					}
				}
			case *ssa.UnOp:
				if a, ok := x.X.(*ssa.Alloc); ok && x.Op == token.MUL {
					sts := kit.StoresTo(a)
					for _, st := range sts {
						if !holds(st, seen) {
							return false
						}
					}
					return len(sts) > 0
				}
			}
			return false
		}
		elementOfWorkList := func(v ssa.Value) bool {
			u, ok := kit.Root(v).(*ssa.UnOp)
			if !ok || u.Op != token.MUL {
				return false
			}
			ia, ok := u.X.(*ssa.IndexAddr)
			return ok && holds(ia.X, map[ssa.Value]bool{})
		}
		e := kit.PathFromEntry(cd, kit.PathQuery{Stop: func(x ssa.Instruction) bool {
			call, ok := x.(*ssa.Call)
			return ok && kit.CalleeName(call) == hrpcRI+"MarkUnavailable" && (call.Call.Value == ssa.Value(regP) || elementOfWorkList(call.Call.Value))
		}, SkipEdge: func(from, to *ssa.BasicBlock) bool {
			// the loop over the work list is entered: the list holds the region, so it is not empty
			br, ok := from.Instrs[len(from.Instrs)-1].(*ssa.If)
			if !ok || len(from.Succs) != 2 || to != from.Succs[1] {
				return false
			}
			bo, ok := br.Cond.(*ssa.BinOp)
			if !ok || bo.Op != token.LSS {
				return false
			}
			if call, ok := kit.Root(bo.Y).(*ssa.Call); ok && kit.CalleeName(call) == "builtin.len" && len(call.Call.Args) == 1 {
				return holds(call.Call.Args[0], map[ssa.Value]bool{})
			}
			return false
		}})
		c.Check(e == nil && regP != nil, cd, "failed-region-always-marked", cd.Pos(), "every path through clientDown marks the region the error was seen on (even if the connection is no longer in the cache)", "clientDown can return without marking the region whose request failed: if the connection was already purged by another request, that region keeps a dead connection forever")
	}
}
